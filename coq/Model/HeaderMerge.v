(* Model/HeaderMerge.v - C16: from the caller's API calls to the header map the protocol writer
   receives.
     Request.SetHeader / Client.SetCommonHeader          -> http.Header.Set (canonical key, replaces)
     Request.SetHeaderNonCanonical / SetCommonHeaderNonCanonical -> h[key] = append(h[key], v)
     Request.SetHeaderOrder / SetPseudoHeaderOrder       -> append to the bookkeeping key
     parseRequestHeader (middleware.go)                  -> client-level entries fill the keys the
                                                            request has no value for (exact key)
     Client.roundTrip (client.go)                        -> Header.Clone, then Request.AddCookie per cookie
     SetCommonHeaderOrder / SetCommonPseudoHeaderOder    -> round-trip wrappers that REPLACE the
                                                            bookkeeping key; the wrapper registered
                                                            first runs last
   A Go map is an association list with distinct keys; a new key is added at the end. *)
From ReqV Require Export Model.HeaderCollect.

Definition has_key (h : list kv) (k : bytes) : bool := existsb (fun x => bytes_eqb (fst x) k) h.

(* h[k] = vs *)
Definition hset (h : list kv) (k : bytes) (vs : list bytes) : list kv :=
  if has_key h k then map (fun x => if bytes_eqb (fst x) k then (k, vs) else x) h
  else h ++ [(k, vs)].

Inductive hdr_op :=
| OpSet (k v : bytes)        (* SetHeader / SetCommonHeader *)
| OpNC (k v : bytes)         (* SetHeaderNonCanonical / SetCommonHeaderNonCanonical *)
| OpOrder (keys : list bytes)    (* Request.SetHeaderOrder *)
| OpPOrder (keys : list bytes).  (* Request.SetPseudoHeaderOrder *)

Definition apply_op (h : list kv) (o : hdr_op) : list kv :=
  match o with
  | OpSet k v => hset h (mime_key k) [v]
  | OpNC k v => hset h k (hvals h k ++ [v])
  | OpOrder ks => hset h header_order_key (hvals h header_order_key ++ ks)
  | OpPOrder ks => hset h pseudo_header_order_key (hvals h pseudo_header_order_key ++ ks)
  end.

Definition apply_ops (ops : list hdr_op) : list kv := fold_left apply_op ops [].

(* parseRequestHeader: for k, vs := range c.Headers { if len(r.Headers[k]) == 0 { r.Headers[k] = copy(vs) } } *)
Definition merge_step (acc : list kv) (x : kv) : list kv :=
  if is_nil (hvals acc (fst x)) then hset acc (fst x) (snd x) else acc.
Definition merge_client (rh ch : list kv) : list kv := fold_left merge_step ch rh.

(* net/http Request.AddCookie with the already rendered pair s = "name=value" *)
Definition cookie_key : bytes := bs "Cookie".
Definition add_cookie (h : list kv) (s : bytes) : list kv :=
  let c := header_get h cookie_key in
  hset h cookie_key [if is_nil c then s else c ++ bs "; " ++ s].

(* the client-level order wrappers, [regs] in registration order: the last registered runs first *)
Definition run_wrappers (key : bytes) (regs : list (list bytes)) (h : list kv) : list kv :=
  fold_left (fun acc o => hset acc key o) (rev regs) h.

(* what the protocol writer receives *)
Definition transport_hdr (rh ch : list kv) (cookies : list bytes) (regs_o regs_p : list (list bytes)) : list kv :=
  run_wrappers pseudo_header_order_key regs_p
    (run_wrappers header_order_key regs_o
       (fold_left add_cookie cookies (merge_client rh ch))).
