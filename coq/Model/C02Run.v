(* Model/C02Run.v - case type and checker evaluated on harness-generated cases (C02).
   One case = one exchange of the REAL client (req.C().R()...) with a scripted peer; the
   observation is what the caller saw through the public API. *)
From ReqV Require Export Lib.Bytes Lib.ByteLit Model.H1Resp Model.RespAPI Model.H1Client Model.MuxResp Model.H1Fast Model.ConnWindow.

(* Go maps are unordered: compare as multimaps key by key *)
Definition hmap_eqb (a b : hmap) : bool :=
  (length a =? length b) &&
  forallb (fun kv => match hget (fst kv) b with
                     | Some vs => list_eqb bytes_eqb (snd kv) vs
                     | None => false
                     end) a.

(* observed byte strings are compressed against the body the origin meant to send *)
Inductive obytes := Same | Lit (b : bytes).
Definition resolve (ref : bytes) (o : obytes) : bytes := match o with Same => ref | Lit b => b end.

Record obs_api := {
  x_err : bool; x_bytes : option obytes; x_stream : obytes; x_stream_end : option bend;
  x_again : obytes; x_again_ok : bool; x_out : obytes
}.

Definition opt_eqb {A} (eq : A -> A -> bool) (a b : option A) : bool :=
  match a, b with
  | None, None => true
  | Some x, Some y => eq x y
  | _, _ => false
  end.

Definition api_matches (ref : bytes) (e : api_obs) (o : obs_api) : bool :=
  Bool.eqb (o_err e) (x_err o) &&
  opt_eqb bytes_eqb (o_bytes e) (option_map (resolve ref) (x_bytes o)) &&
  bytes_eqb (o_stream e) (resolve ref (x_stream o)) &&
  opt_eqb bend_eqb (o_stream_end e) (x_stream_end o) &&
  bytes_eqb (o_again e) (resolve ref (x_again o)) &&
  Bool.eqb (o_again_ok e) (x_again_ok o) &&
  bytes_eqb (o_out e) (resolve ref (x_out o)).

(* cycle the caller's buffer-size pattern to n positive sizes (0 or empty pattern: 4096) *)
Definition size_of (x : N) : nat := if (x =? 0)%N then 4096 else N.to_nat x.
Fixpoint cycle_nat (n : nat) (pat cur : list nat) : list nat :=
  match n with
  | O => []
  | S n' =>
      match cur with
      | [] => match pat with
              | [] => 4096 :: cycle_nat n' pat []
              | x :: r => x :: cycle_nat n' pat r
              end
      | x :: r => x :: cycle_nat n' pat r
      end
  end.
(* the unary sizes are built once and shared by all entries *)
Definition cycle_sizes (n : nat) (pat : list N) : list nat :=
  let p := map size_of pat in cycle_nat n p p.

(* ---------- compact description of what the peer sent ---------- *)

(* the body the origin meant: a literal, n pseudo-random bytes from a seed (the same generator
   as harness/c02: x <- 1664525 x + 1013904223 mod 2^32, byte = bits 16..23), or a pattern
   repeated cyclically to n bytes *)
Inductive bspec := BLit (b : bytes) | BGen (seed n : N) | BRep (pat : bytes) (n : N).

Fixpoint gen_bytes (n : nat) (x : N) : bytes :=
  match n with
  | O => []
  | S n' =>
      let x' := N.land (x * 1664525 + 1013904223) 4294967295 in
      byte_of_N_total (N.land (N.shiftr x' 16) 255) :: gen_bytes n' x'
  end.

Fixpoint rep_bytes (n : nat) (pat cur : bytes) : bytes :=
  match n with
  | O => []
  | S n' =>
      match cur with
      | x :: r => x :: rep_bytes n' pat r
      | [] => match pat with
              | x :: r => x :: rep_bytes n' pat r
              | [] => []
              end
      end
  end.

Definition expand_body (b : bspec) : bytes :=
  match b with
  | BLit l => l
  | BGen seed n => gen_bytes (N.to_nat n) seed
  | BRep pat n => rep_bytes (N.to_nat n) pat pat
  end.

(* the bytes on the wire: literals (heads, chunk lines, trailers) and slices of the body *)
Inductive piece := PLit (b : bytes) | PBody (off len : N).

Definition expand_wire (body : bytes) (ps : list piece) : bytes :=
  concat (map (fun p => match p with
                        | PLit b => b
                        | PBody off len => firstn (N.to_nat len) (skipn (N.to_nat off) body)
                        end) ps).

(* the transformers the harness installs *)
Inductive tf_spec := TfNone | TfPrefix (p : bytes) | TfFail.
Definition tf_of (t : tf_spec) : option transformer :=
  match t with
  | TfNone => None
  | TfPrefix p => Some (fun d => Some (p ++ d))
  | TfFail => Some (fun _ => None)
  end.

(* a Read loop: n calls with the buffer sizes of the pattern, cycled *)
Inductive op_spec := SBytes | SToBytes | SRead (pat : list N) (n : N) | SUnmarshal.

Definition op_out_eqb (a b : op_out) : bool :=
  match a, b with
  | OutBytes x, OutBytes y => opt_eqb bytes_eqb x y
  | OutToBytes x ok, OutToBytes y ok' => bytes_eqb x y && Bool.eqb ok ok'
  | OutRead d e, OutRead d' e' => bytes_eqb d d' && opt_eqb bend_eqb e e'
  | OutUnmarshal x, OutUnmarshal y => opt_eqb bytes_eqb x y
  | _, _ => false
  end.

(* one step of the peer on a shared connection; [i] = index of the member stream *)
Inductive gstep :=
| GHead (i : N)                                  (* the member's next HEADERS frame (interim or final) *)
| GData (i off len pad : N) (e : bool)           (* DATA: slice of member i's body, padding, END_STREAM *)
| GTrailers (i : N)
| GGoAway                                        (* GOAWAY(NO_ERROR) with a last-stream-id covering every member *)
| GPing.

Inductive gmember :=
| GMember (is_head : bool) (body : bspec) (heads : list (bytes * list mfield * bool))
          (trailers : option (list mfield)) (has_body : bool) (m : mode) (pat : list N)
          (o_noresp : bool) (o_code : Z) (o_header : hmap) (o_cl : Z) (o_trailer : hmap) (o : obs_api).

Definition member_body (g : gmember) : bytes :=
  match g with GMember _ body _ _ _ _ _ _ _ _ _ _ _ => expand_body body end.

Definition frames_of_evs (evs : list h2ev) : list h2frame :=
  flat_map (fun e => match e with
                     | H2Data p fin => [{| fd_data := p; fd_pad := 0; fd_end := fin |}]
                     | _ => []
                     end) evs.

Inductive c02_case :=
| H1Case (meth : bytes) (body : bspec) (wire : list piece)
         (cut : option N)           (* the peer closed the connection after this many bytes *)
         (lim : option N)           (* Transport.MaxResponseHeaderBytes (None: the 10 MiB default) *)
         (has_body : bool)          (* the response carries the body (not HEAD / 204 / 304) *)
         (m : mode) (pat : list N)
         (o_noresp : bool)          (* the call failed without a response *)
         (o_code : Z) (o_status : bytes) (o_header : hmap) (o_cl : Z) (o_trailer : hmap)
         (o : obs_api)
         (o_interims : list (Z * hmap))   (* httptrace.Got1xxResponse calls, in order *)
(* HTTP/2: the HEADERS frames before the data (status, fields, END_STREAM), the DATA frames as
   (offset, length) slices of the body with padding length and END_STREAM, the trailer fields *)
| H2Case (is_head : bool) (body : bspec) (heads : list (bytes * list mfield * bool))
         (frames : list (N * N * N * bool)) (trailers : option (list mfield))
         (after : list h2ev)        (* peer events after the response was complete *)
         (has_body : bool) (m : mode) (pat : list N)
         (o_noresp : bool) (o_code : Z) (o_header : hmap) (o_cl : Z) (o_trailer : hmap) (o : obs_api)
         (o_interims : list (Z * hmap))
(* several exchanges in flight on ONE HTTP/2 connection: what the peer wrote on the connection,
   in order (frames of the member streams interleaved, PINGs, a graceful GOAWAY covering all
   of them), and each member's own data and observation *)
| H2GroupCase (sched : list gstep) (members : list gmember)
(* HTTP/3: HEADERS frames, DATA frames as slices of the body, trailer fields *)
| H3Case (is_head : bool) (body : bspec) (heads : list (bytes * list mfield))
         (parts : list (N * N)) (trailers : option (list mfield))
         (short : option N)        (* Some k: the LAST part's DATA frame announces its length but only k bytes arrive, then FIN *)
         (has_body : bool) (m : mode) (pat : list N)
         (o_noresp : bool) (o_code : Z) (o_header : hmap) (o_cl : Z) (o_trailer : hmap) (o : obs_api)
         (o_interims : list (Z * hmap))
(* one client saving the bodies of a sequence of exchanges to files (SetOutputDirectory +
   SetOutputFile): the files present before, the steps (file name as given, status, body), the
   content of every file after each step *)
| FileCase (dir : bytes) (pre : store) (steps : list (bytes * Z * bytes)) (obs : list store)
(* the connection-level receive window across the exchanges of one HTTP/2 connection: the
   window the peer saw at the start, what the exchanges did (DATA frames, reads, closes with
   unread bytes), the window the peer sees at the final quiescent point *)
| WinCase (w : Z) (ops : list cop) (peer_view : Z)
(* Response API cell (any protocol): status, the body the transport delivers, the request /
   client configuration, the caller's operations; observed: call error, output writer
   contents, download callback values, bytes handed to the unmarshaller by SetSuccessResult,
   the result of every operation *)
| ApiCase (code : Z) (body : bspec) (has_body : bool)
          (disable save : bool) (cap : option N) (cb result : bool) (tf : tf_spec)
          (ops : list op_spec)
          (o_err : bool) (o_out : bytes) (o_cbs : list N) (o_unm : option bytes)
          (o_outs : list op_out).

Definition interims_eqb (a b : list (Z * hmap)) : bool :=
  list_eqb (fun x y => (fst x =? fst y)%Z && hmap_eqb (snd x) (snd y)) a b.

Definition store_eqb (a b : store) : bool :=
  (length a =? length b) &&
  forallb (fun kv => opt_eqb bytes_eqb (store_get (fst kv) b) (Some (snd kv))) a.

Definition slice (body : bytes) (off len : N) : bytes :=
  firstn (N.to_nat len) (skipn (N.to_nat off) body).

Definition mux_matches (ref : bytes) (d : option mux_delivery)
    (o_noresp : bool) (o_code : Z) (o_header : hmap) (o_cl : Z) (o_trailer : hmap) (o : obs_api) : bool :=
  match d with
  | None => o_noresp
  | Some d =>
      negb o_noresp && (m_code d =? o_code)%Z && hmap_eqb (m_header d) o_header &&
      (m_cl d =? o_cl)%Z && hmap_eqb (m_trailer d) o_trailer && api_matches ref (m_api d) o
  end.

Definition c02_check (c : c02_case) : bool :=
  match c with
  | H1Case meth body pieces cut lim has_body m pat o_noresp o_code o_status o_header o_cl o_trailer o o_interims =>
      let bd := expand_body body in
      let wire := match cut with
                  | Some k => firstn (N.to_nat k) (expand_wire bd pieces)
                  | None => expand_wire bd pieces
                  end in
      let ref := if has_body then bd else [] in
      let sizes := cycle_sizes (S (S (length wire))) pat in
      (* every head within the limit by itself (then the limited reader = the unlimited one) *)
      match lim with
      | Some l => heads_fit_f (S (S max_1xx)) meth br_size (N.to_nat l) wire
      | None => true
      end &&
      match h1_exchange_f meth m sizes wire with
      | None => o_noresp
      | Some d =>
          negb o_noresp &&
          (r_code (d_resp d) =? o_code)%Z && bytes_eqb (r_status (d_resp d)) o_status &&
          hmap_eqb (r_header (d_resp d)) o_header &&
          (r_content_length (d_resp d) =? o_cl)%Z &&
          hmap_eqb (b_trailer (d_body d)) o_trailer &&
          api_matches ref (d_api d) o &&
          interims_eqb (interim_heads_f (S (S max_1xx)) meth br_size wire) o_interims
      end
  | H2Case is_head body heads frames trailers after has_body m pat o_noresp o_code o_header o_cl o_trailer o o_interims =>
      let bd := expand_body body in
      let ref := if has_body then bd else [] in
      let sizes := cycle_sizes (S (S (length bd))) pat in
      let hs := map (fun x => {| hh_status := fst (fst x); hh_fields := snd (fst x); hh_end := snd x |}) heads in
      let fr := map (fun x => match x with (off, len, pad, e) =>
                                {| fd_data := slice bd off len; fd_pad := pad; fd_end := e |} end) frames in
      mux_matches ref (h2_exchange_after is_head hs fr trailers after m sizes) o_noresp o_code o_header o_cl o_trailer o &&
      (o_noresp || interims_eqb (h2_interim_heads hs) o_interims)
  | H3Case is_head body heads parts trailers short has_body m pat o_noresp o_code o_header o_cl o_trailer o o_interims =>
      let bd := expand_body body in
      let ref := if has_body then bd else [] in
      let sizes := cycle_sizes (S (S (length bd))) pat in
      let hs := map (fun x => {| h3_status := fst x; h3_flds := snd x |}) heads in
      let ps := map (fun x => slice bd (fst x) (snd x)) parts in
      let evs := match short with
                 | None => h3_events ps
                 | Some k => h3_events_cut (removelast ps) (N.of_nat (length (last ps []))) (firstn (N.to_nat k) (last ps []))
                 end in
      mux_matches ref (h3_exchange_evs is_head hs evs trailers m sizes) o_noresp o_code o_header o_cl o_trailer o &&
      (o_noresp || interims_eqb (h3_interim_heads hs) o_interims)
  | H2GroupCase sched members =>
      let bodies := map member_body members in
      let n := N.of_nat (length members) in
      let conn := flat_map (fun st => match st with
                    | GHead _ => []
                    | GData i off len pad e =>
                        [CFrame i (H2Data (slice (nth (N.to_nat i) bodies []) off len) e)]
                    | GTrailers i => [CFrame i H2Trailers]
                    | GGoAway => [CGoAway n]
                    | GPing => [CPing]
                    end) sched in
      forallb (fun ig =>
        match ig with
        | (i, GMember is_head body heads trailers has_body m pat o_noresp o_code o_header o_cl o_trailer o) =>
            let bd := expand_body body in
            let ref := if has_body then bd else [] in
            let sizes := cycle_sizes (S (S (length bd))) pat in
            let hs := map (fun x => {| hh_status := fst (fst x); hh_fields := snd (fst x); hh_end := snd x |}) heads in
            let evs := stream_view i conn in
            mux_matches ref (h2_exchange_after is_head hs (frames_of_evs evs) trailers [] m sizes)
                        o_noresp o_code o_header o_cl o_trailer o
        end) (combine (map N.of_nat (seq 0 (length members))) members)
  | WinCase w ops peer_view =>
      quiescent_ok w peer_view &&
      match cw_run (cw_init w) ops with
      | Some (s, _) => (cw_buf s =? 0)%Z && quiescent_ok w (cw_avail s)
      | None => false
      end
  | FileCase dir pre steps obs => list_eqb store_eqb (download_all pre dir steps) obs
  | ApiCase code body has_body disable save cap cb result tf ops o_err o_out o_cbs o_unm o_outs =>
      let bd := if has_body then expand_body body else [] in
      let c := {| c_disable_auto := disable; c_save := save; c_cap := option_map N.to_nat cap;
                  c_callback := cb; c_result := result; c_tf := tf_of tf |} in
      let d := finish c code {| rd_rem := bd; rd_end := BEof |} in
      let ops' := map (fun o => match o with
                                | SBytes => OpBytes | SToBytes => OpToBytes | SUnmarshal => OpUnmarshal
                                | SRead pat n => OpRead (cycle_sizes (N.to_nat n) pat)
                                end) ops in
      Bool.eqb (s_err (a_state d)) o_err && bytes_eqb (a_out d) o_out &&
      list_eqb N.eqb (map N.of_nat (a_callbacks d)) o_cbs &&
      opt_eqb bytes_eqb (a_unmarshal d) o_unm &&
      list_eqb op_out_eqb (run_ops (tf_of tf) ops' (a_state d)) o_outs
  end.
