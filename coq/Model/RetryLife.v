(* Model/RetryLife.v - the retry loop of Request.do (request.go) as far as cancellation is
   concerned (C08).  NO proofs here.

     for {
       resp, err = roundTrip(r)
       stop := errors.Is(err, context.Canceled) || r.Context().Err() != nil      (fixed code)
       if stop || no retry option || attempts exhausted { return }
       if !needRetry { return }
       r.RetryAttempt++ ; hooks
       if interval > 0 { select { case <-timer(interval): ; case <-ctx.Done(): return ctx.Err() } }   (fixed code)
     }
   pinned code: stop := errors.Is(err, context.Canceled) only; time.Sleep(interval).

   What one round trip returns is an input ([ares]); that a round trip whose context has ended
   returns the cause is the subject of the per-stack machines (Model/Lifecycle.v). *)
From Coq Require Import List Bool Arith.
From ReqV Require Import Model.Lifecycle.
Import ListNotations.

Inductive ares := AOk | ARetryable | ACtx.   (* no retry needed / retry condition holds / err = the context's error *)
Inductive rphase := PAttempt | PSleep | PRet (e : option err).   (* PRet None: a response is returned *)

Record rst := mkR {
  r_phase : rphase;
  r_attempt : nat;        (* Request.RetryAttempt *)
  r_net : nat;            (* round trips started while the context was live *)
  r_ctx : option cause
}.

Inductive rlabel :=
| RAttemptDone (a : ares)   (* the round trip returned *)
| RSleepDone                (* the retry interval elapsed (the select takes the timer) *)
| RSleepCtx                 (* the select takes ctx.Done *)
| RCancel (c : cause).

Definition rinit : rst := mkR PAttempt 0 1 None.

Definition exhausted (max : option nat) (n : nat) : bool :=
  match max with Some m => m <=? n | None => false end.

(* zero: the retry interval is <= 0 - sleepContext returns at once, without looking at the context *)
Definition rstepz (zero fixed : bool) (max : option nat) (s : rst) (l : rlabel) : option rst :=
  match l, r_phase s with
  | RCancel c, _ =>
      Some (match r_ctx s with None => mkR (r_phase s) (r_attempt s) (r_net s) (Some c) | _ => s end)
  | RAttemptDone AOk, PAttempt => Some (mkR (PRet None) (r_attempt s) (r_net s) (r_ctx s))
  | RAttemptDone ACtx, PAttempt =>
      match r_ctx s with
      | None => None
      | Some c =>
          let stop := if fixed then true else match c with CCanceled => true | _ => false end in
          if stop || exhausted max (r_attempt s)
          then Some (mkR (PRet (Some (ECause c))) (r_attempt s) (r_net s) (r_ctx s))
          else Some (mkR PSleep (S (r_attempt s)) (r_net s) (r_ctx s))    (* default: retry on error *)
      end
  | RAttemptDone ARetryable, PAttempt =>
      let stop := fixed && match r_ctx s with Some _ => true | None => false end in
      if stop || exhausted max (r_attempt s)
      then Some (mkR (PRet (Some EOther)) (r_attempt s) (r_net s) (r_ctx s))
      else Some (mkR PSleep (S (r_attempt s)) (r_net s) (r_ctx s))
  | RSleepDone, PSleep =>
      Some (mkR PAttempt (r_attempt s) (match r_ctx s with None => S (r_net s) | _ => r_net s end) (r_ctx s))
  | RSleepCtx, PSleep =>
      if fixed && negb zero then
        match r_ctx s with
        | Some c => Some (mkR (PRet (Some (ECause c))) (r_attempt s) (r_net s) (r_ctx s))
        | None => None
        end
      else None
  | _, _ => None
  end.

Definition rstep := rstepz false.

Fixpoint rrunz (zero fixed : bool) (max : option nat) (s : rst) (ls : list rlabel) : option rst :=
  match ls with
  | [] => Some s
  | l :: r => match rstepz zero fixed max s l with Some s' => rrunz zero fixed max s' r | None => None end
  end.

Fixpoint rrun (fixed : bool) (max : option nat) (s : rst) (ls : list rlabel) : option rst :=
  match ls with
  | [] => Some s
  | l :: r => match rstep fixed max s l with Some s' => rrun fixed max s' r | None => None end
  end.

(* everything that can still happen without the environment doing anything new, once the
   context has ended: the sleep's select (either case), the in-flight round trip returning
   the cause *)
Fixpoint rfinishz (fuel : nat) (zero fixed : bool) (max : option nat) (s : rst) : list rst :=
  match fuel with
  | 0 => []
  | S f =>
      match r_phase s with
      | PRet _ => [s]
      | _ => flat_map (fun l => match rstepz zero fixed max s l with
                                | Some s' => rfinishz f zero fixed max s'
                                | None => []
                                end) [RSleepCtx; RSleepDone; RAttemptDone ACtx]
      end
  end.

Fixpoint rfinish (fuel : nat) (fixed : bool) (max : option nat) (s : rst) : list rst :=
  match fuel with
  | 0 => []
  | S f =>
      match r_phase s with
      | PRet _ => [s]
      | _ => flat_map (fun l => match rstep fixed max s l with
                                | Some s' => rfinish f fixed max s'
                                | None => []
                                end) [RSleepCtx; RSleepDone; RAttemptDone ACtx]
      end
  end.
