(* Model/H2Wake.v - no lost wake-up for an upload parked on HTTP/2 flow control (C07).

   Go code modelled: internal/http2/transport.go
     clientStream.awaitFlowControl      a body writer with nothing to take from the stream's send window
                                         waits on cc.cond (it re-checks when woken)
     clientConnReadLoop.processWindowUpdate   fl.add(increment); cc.cond.Broadcast()
     clientConnReadLoop.processSettingsNoWrite  SETTINGS_INITIAL_WINDOW_SIZE: every open stream's
                                         window += new - old; cc.initialWindowSize = new; cc.cond.Broadcast()
   One stream, the connection window left aside.  [parked] = the writer sleeps on the condition
   variable; a Broadcast makes it look at the window again.  [bcast_on_settings] = true is the code,
   false the variant kept for the refutation.  No proofs here. *)
From ReqV Require Export Lib.Bytes.
Open Scope Z_scope.

Record wstate := {
  w_win : Z;          (* the stream's send window *)
  w_iws : Z;          (* the peer's SETTINGS_INITIAL_WINDOW_SIZE as last announced *)
  w_left : Z;         (* body bytes not yet sent *)
  w_parked : bool     (* the writer sleeps in awaitFlowControl *)
}.

(* the writer runs (first call, or woken): takes what the window allows, parks when bytes are left
   and the window is used up *)
Definition writer_runs (s : wstate) : wstate :=
  let take := Z.max 0 (Z.min (w_win s) (w_left s)) in
  let left := w_left s - take in
  {| w_win := w_win s - take; w_iws := w_iws s; w_left := left;
     w_parked := (0 <? left) |}.

Inductive wev :=
| WWindowUpdate (n : Z)       (* WINDOW_UPDATE for the stream, 0 < n *)
| WSettingsIWS (v : Z)        (* SETTINGS with INITIAL_WINDOW_SIZE = v *)
| WSpurious.                  (* any other Broadcast *)

Definition wstep (bcast_on_settings : bool) (s : wstate) (ev : wev) : wstate :=
  match ev with
  | WWindowUpdate n =>
      writer_runs {| w_win := w_win s + n; w_iws := w_iws s; w_left := w_left s; w_parked := w_parked s |}
  | WSettingsIWS v =>
      let s' := {| w_win := w_win s + (v - w_iws s); w_iws := v; w_left := w_left s; w_parked := w_parked s |} in
      if bcast_on_settings || negb (w_parked s) then writer_runs s' else s'
  | WSpurious => writer_runs s
  end.

Definition wstart (iws body : Z) : wstate :=
  writer_runs {| w_win := iws; w_iws := iws; w_left := body; w_parked := false |}.

Definition wrun (b : bool) (s : wstate) (evs : list wev) : wstate := fold_left (wstep b) evs s.
