(* Model/ReqBody.v - which body parseRequestBody (middleware.go) prepares (C17).  Executable.

   Go code modelled (after the repairs recorded in findings.d/C17.json):
     client.go     isPayloadForbid (method table regenerated into Gen/PayloadForbid.v)
     middleware.go parseRequestBody (dispatch), handleMultiPart / writeMultiPart,
                   handleFormData, handleOrderedFormData, handleMarshalBody
     internal/util IsXMLType; internal/header content-type constants (Gen/ContentTypes.v) *)
From ReqV Require Export Lib.Bytes Model.Form Model.Multipart.
From ReqV Require Import Gen.PayloadForbid Gen.ContentTypes.

Definition form_ct : bytes := gen_form_content_type.
Definition json_ct : bytes := gen_json_content_type.

(* isPayloadForbid: (method, only-when-AllowGetMethodPayload-is-off) *)
Definition payload_forbidden (method : bytes) (allow_get : bool) : bool :=
  existsb (fun e => bytes_eqb (fst e) method && (if snd e : bool then negb allow_get else true))
          payload_forbid_table.

(* parseRequestBody: if len(c.FormData) > 0 { r.SetFormDataFromValues(c.FormData) } *)
Definition merged_form (rf cf : form) : form :=
  match cf with [] => rf | _ => merge_form rf cf end.

Inductive form_plan :=
| FNone                 (* neither kind of form data: the later branches decide *)
| FBody (b : bytes)     (* Content-Type := form_ct, body b *)
| FBadOrdered.          (* odd ordered list: errBadOrderedFormData *)

(* url-encoded branch: ordered pairs first (handleOrderedFormData), followed by the plain form
   data (Values.Encode) when both are present; plain alone = handleFormData *)
Definition form_plan_of (rf cf : form) (ordered : list bytes) : form_plan :=
  let m := merged_form rf cf in
  match ordered with
  | [] => match m with [] => FNone | _ => FBody (encode_form m) end
  | _ => if Nat.even (length ordered)
         then FBody (encode_pairs (pair_up ordered ++ flatten (sort_form m)))
         else FBadOrdered
  end.

(* the url-encoded branch as it was before 86187ab / e087dcd (kept for the refutation below):
   plain form data wins, ordered data is then ignored; an odd list sets r.error but the request
   is sent with an empty body *)
Definition form_plan_of_pinned (rf cf : form) (ordered : list bytes) : form_plan :=
  match merged_form rf cf with
  | (_ :: _) as m => FBody (encode_form m)
  | [] => match ordered with
          | [] => FNone
          | _ => match encode_ordered ordered with
                 | Some b => FBody b
                 | None => FBody []
                 end
          end
  end.

(* util.IsXMLType *)
Definition is_xml_type (ct : bytes) : bool := contains_sub (bs "xml") ct.

(* handleMarshalBody: request-level Content-Type, else client-level; XML iff it contains
   "xml", otherwise JSON; with no Content-Type anywhere: JSON and the JSON content type *)
Inductive marshaller := MJson | MXml.
Definition choose_marshaller (rct cct : bytes) : marshaller * option bytes :=
  let ct := match rct with [] => cct | _ => rct end in
  match ct with
  | [] => (MJson, Some json_ct)
  | _ => (if is_xml_type ct then MXml else MJson, None)
  end.

Record breq := {
  q_method : bytes;
  q_allow_get : bool;             (* Client.AllowGetMethodPayload *)
  q_multipart : bool;             (* Request.isMultiPart *)
  q_rform : form;                 (* Request.FormData *)
  q_cform : form;                 (* Client.FormData *)
  q_ordered : list bytes;         (* Request.OrderedFormData *)
  q_key_order : list bytes;       (* the order in which Go's map iteration visited the keys of
                                     the merged form (multipart only; observed) *)
  q_files : list file_upload;     (* Request.uploadFiles *)
  q_file_fail : bool;             (* some file's GetFileContent / Read fails *)
  q_custom_boundary : bytes;      (* multipartBoundaryFunc() *)
  q_random_boundary : bytes;      (* multipart.NewWriter's random boundary *)
  q_marshal : bool;               (* Request.marshalBody != nil *)
  q_raw : option bytes;           (* Request.Body set by the caller *)
  q_stream : option bytes;        (* SetBody(io.Reader): everything the reader delivers *)
  q_rct : bytes;                  (* request-level Content-Type header ([] = none) *)
  q_cct : bytes                   (* client-level Content-Type header *)
}.

Inductive plan :=
| PNone                                          (* nothing prepared: no payload *)
| PError                                         (* the request fails before anything is sent *)
| PBody (ct body : bytes)                        (* Content-Type := ct, body *)
| PMarshal (m : marshaller) (ct : option bytes)  (* marshalled value; Some ct = Content-Type set *)
| PRaw (body : bytes) (detect : bool)            (* caller's bytes; detect = DetectContentType applies *)
| PStream (body : bytes).                        (* caller's reader, sent as it is (GetBody set by SetBody) *)

(* writeMultiPart: ordered pairs, then the plain form data in map order, then the files *)
Definition multipart_fields (q : breq) : list (bytes * bytes) :=
  pair_up (q_ordered q) ++
  flat_map (fun k => map (pair k) (lookup k (merged_form (q_rform q) (q_cform q)))) (q_key_order q).

(* writeMultiPart before c23d1ba / 86187ab: the client-level form data is not merged, and ordered
   pairs are written only when there is no plain form data *)
Definition multipart_fields_pinned (q : breq) : list (bytes * bytes) :=
  match q_rform q with
  | [] => pair_up (q_ordered q)
  | rf => flat_map (fun k => map (pair k) (lookup k rf)) (q_key_order q)
  end.

Section Plan.
  Variable is_print : N -> bool.
  Variable sniff : bytes -> bytes.

  Definition plan_of (q : breq) : plan :=
    if payload_forbidden (q_method q) (q_allow_get q) then PNone
    else if q_multipart q then
      if Nat.odd (length (q_ordered q)) then PError
      else if negb (forallb (fun kv => field_name_ok (fst kv)) (multipart_fields q)) then PError
      else if q_file_fail q then PError
      else
        let b := effective_boundary (q_custom_boundary q) (q_random_boundary q) in
        PBody (form_data_content_type b) (multipart_body is_print sniff b (multipart_fields q) (q_files q))
    else
      match form_plan_of (q_rform q) (q_cform q) (q_ordered q) with
      | FBody b => PBody form_ct b
      | FBadOrdered => PError
      | FNone =>
          if q_marshal q then
            let '(m, ct) := choose_marshaller (q_rct q) (q_cct q) in PMarshal m ct
          else match q_raw q with
               | Some b => PRaw b (match q_rct q, q_cct q with [], [] => true | _, _ => false end)
               | None => match q_stream q with Some b => PStream b | None => PNone end
               end
      end.
End Plan.

(* the map-iteration order handed in by the harness must be a listing of the merged form's keys *)
Definition key_order_ok (q : breq) : bool :=
  let ks := map fst (sort_form (merged_form (q_rform q) (q_cform q))) in
  let os := map fst (sort_form (map (fun k => (k, [])) (q_key_order q))) in
  list_eqb bytes_eqb ks os.
