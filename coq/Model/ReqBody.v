(* Model/ReqBody.v - which body parseRequestBody (middleware.go) prepares (C17).  Executable. *)
From ReqV Require Export Lib.Bytes Model.Form.

Definition form_ct : bytes := bs "application/x-www-form-urlencoded".

(* parseRequestBody, form branch:
     if len(c.FormData) > 0 { r.SetFormDataFromValues(c.FormData) }
     if len(r.FormData) > 0 { handleFormData } else if len(r.OrderedFormData) > 0 { handleOrderedFormData } *)
Definition merged_form (rf cf : form) : form :=
  match cf with [] => rf | _ => merge_form rf cf end.

Inductive form_plan :=
| FNone                 (* neither kind of form data: the later branches decide *)
| FBody (b : bytes)     (* Content-Type := form_ct, body b *)
| FBadOrdered.          (* odd ordered list: Content-Type := form_ct, r.error set, no body set *)

Definition form_plan_of (rf cf : form) (ordered : list bytes) : form_plan :=
  match merged_form rf cf with
  | (_ :: _) as m => FBody (encode_form m)
  | [] => match ordered with
          | [] => FNone
          | _ => match encode_ordered ordered with
                 | Some b => FBody b
                 | None => FBadOrdered
                 end
          end
  end.
