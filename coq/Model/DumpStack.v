(* Model/DumpStack.v - C13: where the three stacks install the dump hooks, as tee combinators
   over ARBITRARY underlying writers / readers, and the exchange runners built from them.

   Go: internal/dump/dump.go (dumpRequestHeaderWriter, dumpRequestBodyWriter,
   dumpRequestBodyWriteCloser, dumpResponseBodyReadCloser, WrapResponseBodyIfNeeded),
   transport.go persistConn.writeRequest / _readResponse, transfer.go transferWriter.writeBody,
   internal/chunked.go chunkedWriter, internal/http2/transport.go encodeHeaders /
   writeRequestBody / writeRequest, internal/http2/frame.go ReadFrame+readMetaFrame,
   internal/http3/request_writer.go, http_stream.go, client.go sendRequestBody.

   An io.Writer is a function  St -> bytes -> St * nat * bool  (new state, bytes accepted,
   failed?) over an arbitrary state S: it may accept everything, accept a prefix, fail at any
   point.  An io.Reader is  St -> nat -> St * bytes * rstat.  No proofs here. *)
From ReqV Require Export Model.Dump Model.DumpReader.

Notation log := (list emission).

Section Writers.
  Context {St : Type}.
  Definition wfn := St -> bytes -> St * nat * bool.

  (* write the chunks in order, stop at the first failure *)
  Fixpoint write_all (w : wfn) (s : St) (ps : list bytes)   : St * bool :=
    match ps with
    | [] => (s, false)
    | p :: r => let '(s', _, e) := w s p in if e then (s', true) else write_all w s' r
    end.
End Writers.
Arguments wfn : clear implicits.

(* the undumped writer seen as a writer over (state, log) *)
Definition lift {St} (w : wfn St) : wfn (St * log) :=
  fun st p => let '(s', n, e) := w (fst st) p in ((s', snd st), n, e).

(* dumpRequestHeaderWriter / dumpRequestBodyWriter / dumpRequestBodyWriteCloser:
     n, err = w.w.Write(p); w.dump.DumpXxx(p[:n]); return   *)
Definition tee_writer {St} (d : dumper) (mk : bytes -> hook) (w : wfn (St * log)) : wfn (St * log) :=
  fun st p => let '(st', n, e) := w st p in
              ((fst st', snd st' ++ raw_emit d (mk (firstn n p))), n, e).

(* for _, dump := range dumps { if dump.Xxx() { w = dump.WrapXxx(w) } } *)
Fixpoint wrap_writer {St} (ds : list dumper) (pt : part) (mk : bytes -> hook) (w : wfn (St * log))
  : wfn (St * log) :=
  match ds with
  | [] => w
  | d :: r => wrap_writer r pt mk (if enabled (snd d) pt then tee_writer d mk w else w)
  end.

(* internal.NewChunkedWriter(w).Write(data): nothing for empty data; "%x\r\n", data, "\r\n";
   reports len(data) on success *)
Definition hex_digit (n : N) : byte :=
  byte_of_N_total (if (n <? 10)%N then 48 + n else 87 + n).
Fixpoint hex_fuel (fuel : nat) (n : N) (acc : bytes) : bytes :=
  match fuel with
  | O => acc
  | S f => let acc' := hex_digit (n mod 16) :: acc in
           if (n <? 16)%N then acc' else hex_fuel f (n / 16) acc'
  end.
Definition hex_of_N (n : N) : bytes := hex_fuel (S (N.to_nat (N.log2 n))) n [].

(* bufio.Writer.Flush of the connection: new state, failed? *)
Definition flushfn (St : Type) := St -> St * bool.
Definition noflush {St} : flushfn St := fun s => (s, false).

(* chunkedWriter.Write; [after] = the Flush that follows every complete chunk when the wire is a
   FlushAfterChunkWriter (noflush otherwise) *)
Definition chunked_writer_f {St} (after : flushfn St) (w : wfn St) : wfn St :=
  fun s p =>
    match p with
    | [] => (s, 0, false)
    | _ =>
        let '(s1, _, e1) := w s (hex_of_N (N.of_nat (length p)) ++ crlf) in
        if e1 then (s1, 0, true) else
        let '(s2, n2, e2) := w s1 p in
        if e2 then (s2, n2, true) else
        if negb (Nat.eqb n2 (length p)) then (s2, n2, true) else   (* io.ErrShortWrite *)
        let '(s3, _, e3) := w s2 crlf in
        if e3 then (s3, n2, true) else
        let '(s4, e4) := after s3 in (s4, n2, e4)
    end.
Definition chunked_writer {St} (w : wfn St) : wfn St := chunked_writer_f noflush w.

(* io.MultiWriter(w, dumpw) as the pinned http3 sendRequestBody used it: the dump writer is a
   second destination whose failure or short write fails the whole Write *)
Definition multi_writer {St T} (w : wfn St) (dw : wfn T) : wfn (St * T) :=
  fun st p =>
    let '(s', n, e) := w (fst st) p in
    if e then ((s', snd st), n, true) else
    if negb (Nat.eqb n (length p)) then ((s', snd st), n, true) else
    let '(t', m, e2) := dw (snd st) p in
    if e2 then ((s', t'), m, true) else
    if negb (Nat.eqb m (length p)) then ((s', t'), m, true) else
    ((s', t'), length p, false).

Definition add_hook {St} (ds : list dumper) (h : hook) (st : St * log) : St * log :=
  (fst st, snd st ++ hook_emit_all ds h).

(* ---------- readers ---------- *)
Inductive rstat := ROk | REnd | RFail.   (* nil / io.EOF / any other error *)
Definition rstat_eqb (a b : rstat) : bool :=
  match a, b with ROk, ROk | REnd, REnd | RFail, RFail => true | _, _ => false end.

Definition rfn (St : Type) := St -> nat -> St * bytes * rstat.

Definition rlift {St} (r : rfn St) : rfn (St * log) :=
  fun st k => let '(s', b, e) := r (fst st) k in ((s', snd st), b, e).

(* dumpResponseBodyReadCloser.Read: n, err = Read(p); DumpResponseBody(p[:n]);
   if err == io.EOF { DumpDefault("\r\n") } *)
Definition tee_reader {St} (d : dumper) (r : rfn (St * log)) : rfn (St * log) :=
  fun st k => let '(st', b, e) := r st k in
              let l1 := snd st' ++ raw_emit d (HRespBody b) in
              let l2 := match e with REnd => l1 ++ raw_emit d HRespBodyEOF | _ => l1 end in
              ((fst st', l2), b, e).

(* dump.WrapResponseBodyIfNeeded *)
Fixpoint wrap_reader {St} (ds : list dumper) (r : rfn (St * log)) : rfn (St * log) :=
  match ds with
  | [] => r
  | d :: rest => wrap_reader rest (if enabled (snd d) PRespB then tee_reader d r else r)
  end.

(* the caller reads with buffers of the given sizes; stops at the first non-nil status *)
Fixpoint read_all {St} (r : rfn St) (s : St) (sizes : list nat)   : St * list (bytes * rstat) :=
  match sizes with
  | [] => (s, [])
  | k :: rest =>
      let '(s', b, e) := r s k in
      match e with
      | ROk => let '(s'', l) := read_all r s' rest in (s'', (b, e) :: l)
      | _ => (s', [(b, e)])
      end
  end.

(* ---------- HTTP/1.1 ---------- *)
Record h1_request := mkH1Req {
  q_header_writes : list bytes;      (* the Fprintf / WriteString calls of writeRequest, in order *)
  q_body : option (list bytes);      (* Some chunks: the Write calls io.Copy makes; None: no body *)
  q_chunked : bool;                  (* Transfer-Encoding: chunked *)
  q_expect_continue : bool }.        (* waitForContinue != nil *)

Record send_result (St : Type) := mkSend {
  sr_state : St;                 (* the connection / stream after the request *)
  sr_failed : bool;
  sr_flushed_before_wait : bool (* h1: the header was flushed before waiting for 100-continue *) }.
Arguments mkSend {St}. Arguments sr_state {St}. Arguments sr_failed {St}. Arguments sr_flushed_before_wait {St}.

(* persistConn.writeRequest + transferWriter.writeBody (bufio layer elided except for the
   flush decision).  [flush_sees_bufio]: whether the type assertion of w to a bufio.Writer succeeds at the
   "Flush and wait for 100-continue" point. Repaired code (fix bfce677) asserts on the raw
   writer: always. *)
(* [flush]: Flush of the connection's bufio.Writer.  [chunk_rule]: whether transferWriter.writeBody
   turns the raw writer into a FlushAfterChunkWriter for a chunked body - the code asserts
   *bufio.Writer on the RAW writer rw, so: always (a version asserting on the dump-wrapped `w` would
   flush chunk by chunk only when no request-body dumper is installed). *)
Definition lift_flush {St} (f : flushfn St) : flushfn (St * log) :=
  fun st => let '(s', e) := f (fst st) in ((s', snd st), e).

Definition h1_send_gen {St} (flush_rule chunk_rule : list dumper -> bool) (flush : flushfn St)
                       (ds : list dumper) (w : wfn St) (s : St)
                       (q : h1_request) : send_result St * log :=
  let hw := wrap_writer ds PReqH HReqHeader (lift w) in
  let '(st1, e1) := write_all hw (s, []) (q_header_writes q) in
  let flushed := q_expect_continue q && flush_rule ds in
  if e1 then (mkSend (fst st1) true false, snd st1) else
  match q_body q with
  | None => (mkSend (fst st1) false flushed, snd st1)
  | Some chunks =>
      let ww := wrap_writer ds PReqB HReqBody (lift w) in     (* `w` of writeBody *)
      let after := if chunk_rule ds then lift_flush flush else noflush in
      let bw := if q_chunked q
                then wrap_writer ds PReqB HReqBody (chunked_writer_f after (lift w))   (* `cw` *)
                else ww in
      let '(st2, e2) := write_all bw st1 chunks in
      if e2 then (mkSend (fst st2) true flushed, snd st2) else
      (* chunked: cw.Close() writes "0\r\n" on the raw writer; writeBody then dumps the separator;
         the final CRLF (empty trailer) is written through the WRAPPED writer `w`, so it is also
         handed to the request-body dumpers *)
      let '(st3, e3) := if q_chunked q then write_all (lift w) st2 [bs "0" ++ crlf] else (st2, false) in
      if e3 then (mkSend (fst st3) true flushed, snd st3) else
      let st4 := add_hook ds (HReqBodyEnd crlf) st3 in
      let '(st5, e5) := if q_chunked q then write_all ww st4 [crlf] else (st4, false) in
      (mkSend (fst st5) e5 flushed, snd st5)
  end.

Definition flush_rule_fixed (ds : list dumper) : bool := true.
(* pinned: the assertion was made on the wrapped writer, which is a bufio.Writer only when no
   dumper wrapped it *)
Definition flush_rule_pinned (ds : list dumper) : bool :=
  negb (existsb (fun d => enabled (snd d) PReqH) ds).
Definition chunk_rule_fixed (ds : list dumper) : bool := true.
(* the assertion made on the body-dump-wrapped writer instead of the raw one *)
Definition chunk_rule_wrapped (ds : list dumper) : bool :=
  negb (existsb (fun d => enabled (snd d) PReqB) ds).

(* streamed upload with an explicit Flush of the connection *)
Definition h1_send_f {St} := @h1_send_gen St flush_rule_fixed chunk_rule_fixed.
Definition h1_send_f_wrapped {St} := @h1_send_gen St flush_rule_fixed chunk_rule_wrapped.
(* the flush abstracted away (it does not change what is written) *)
Definition h1_send {St} := @h1_send_gen St flush_rule_fixed chunk_rule_fixed noflush.
Definition h1_send_pinned {St} := @h1_send_gen St flush_rule_pinned chunk_rule_fixed noflush.

(* the same function with no dump code at all *)
Definition h1_send_plain_f {St} (flush : flushfn St) (w : wfn St) (s : St) (q : h1_request) : send_result St :=
  let '(s1, e1) := write_all w s (q_header_writes q) in
  let flushed := q_expect_continue q in
  if e1 then mkSend s1 true false else
  match q_body q with
  | None => mkSend s1 false flushed
  | Some chunks =>
      let '(s2, e2) := write_all (if q_chunked q then chunked_writer_f flush w else w) s1 chunks in
      if e2 then mkSend s2 true flushed else
      let '(s3, e3) := if q_chunked q then write_all w s2 [bs "0" ++ crlf] else (s2, false) in
      if e3 then mkSend s3 true flushed else
      let '(s5, e5) := if q_chunked q then write_all w s3 [crlf] else (s3, false) in
      mkSend s5 e5 flushed
  end.
Definition h1_send_plain {St} := @h1_send_plain_f St noflush.

(* response side: header block through the readLine variant chosen by
   GetResponseHeaderDumpers(...).ShouldDump(), then the body through the wrapped reader *)
Definition resp_header_dumpers (ds : list dumper) : list dumper :=
  filter (fun d => enabled (snd d) PRespH) ds.
Definition should_dump (ds : list dumper) : bool :=
  match resp_header_dumpers ds with [] => false | _ => true end.

Record recv_result (St : Type) := mkRecv {
  rr_lines : list bytes;        (* status line and header lines as the parser receives them *)
  rr_end : bend;
  rr_rest : bytes;              (* unread stream after the header block *)
  rr_body_state : St;
  rr_reads : list (bytes * rstat) }.
Arguments mkRecv {St}. Arguments rr_lines {St}. Arguments rr_end {St}. Arguments rr_rest {St}.
Arguments rr_body_state {St}. Arguments rr_reads {St}.

Definition header_emissions (ds : list dumper) (frags : list bytes) : log :=
  flat_map (fun p => flat_map (fun d => raw_emit d (HRespHeader p)) (resp_header_dumpers ds)) frags.

Definition h1_recv_gen {St} (rld : nat -> bytes -> rl) (ds : list dumper) (n : nat) (stream : bytes)
                       (r : rfn St) (b0 : St) (sizes : list nat) : recv_result St * log :=
  let rlf := if should_dump ds then rld else read_line_plain in
  let '(lines, e, rest, frags) := read_block rlf n (S (length stream)) stream [] [] in
  let l1 := header_emissions ds frags in
  match e with
  | BBlank =>
      let '(st, reads) := read_all (wrap_reader ds (rlift r)) (b0, l1) sizes in
      (mkRecv lines e rest (fst st) reads, snd st)
  | _ => (mkRecv lines e rest b0 [], l1)
  end.
Definition h1_recv {St} := @h1_recv_gen St read_line_dump.
Definition h1_recv_pinned {St} := @h1_recv_gen St read_line_dump_pinned.

Definition h1_recv_plain {St} (n : nat) (stream : bytes) (r : rfn St) (b0 : St) (sizes : list nat)
  : recv_result St :=
  let '(lines, e, rest, _) := read_block read_line_plain n (S (length stream)) stream [] [] in
  match e with
  | BBlank => let '(s, reads) := read_all r b0 sizes in mkRecv lines e rest s reads
  | _ => mkRecv lines e rest b0 []
  end.

(* ---------- HTTP/2 and HTTP/3 request side ----------
   [enc] (HPACK / QPACK + HEADERS framing) and [frame] (DATA framing) are arbitrary functions.
   h2: encodeHeaders dumps each field line, then the block is written; writeRequestBody dumps
   each DATA payload BEFORE cc.fr.WriteData and "\r\n\r\n" via DumpDefault before the frame that
   ends the stream (fix c886e79; the pinned code dumped it after writeRequestBody had returned,
   when the response could already be dumped by the read loop).  h3 (repaired sendRequestBody, fix 9e30681): the stream is wrapped like the
   h1 body writer (dump what the stream accepted), separator when err == nil && written > 0. *)
Record h23_request := mkH23Req {
  g_fields : list field;
  g_body : option (list bytes);     (* Some chunks: h2: the payloads of the writeData calls (DATA
                                       frames); h3: the body.Read results; None: no body *)
  g_fin_last : bool;                (* h2: the last writeData call carried END_STREAM (the body
                                       reader reported EOF together with the data) *)
  g_aborted : bool }.               (* h2: after these frames awaitFlowControl (or the body read)
                                       returned an error - the peer answered / reset the stream,
                                       the request was cancelled - and writeRequestBody returned:
                                       nothing more is written or dumped *)

Definition h23_header_log (ds : list dumper) (fs : list field) : log :=
  run_hooks ds (field_hooks HReqHeader fs).

(* dumper-major emission:  for _, dump := range dumps { dump.A(..); dump.B(..) }  *)
Definition run_hooks_each (ds : list dumper) (hs : list hook) : log :=
  flat_map (fun d => flat_map (hook_emit d) hs) ds.

Definition sep23 : bytes := crlf ++ crlf.
Definition nonempty (p : bytes) : bool := negb (Nat.eqb (length p) 0).

(* writeRequestBody's writeData wrapper (as of fix c886e79):
     for _, dump := range dumps { dump.DumpRequestBody(data); if endStream { dump.DumpDefault(CRLF CRLF) } }
     return cc.fr.WriteData(streamID, endStream, data)
   i.e. everything is dumped BEFORE the frame is written, the separator before the frame that
   carries END_STREAM.  Result: state, failed?, END_STREAM already sent? *)
Fixpoint h2_write_data {St} (ds : list dumper) (frame frame_fin : bytes -> bytes) (fin_last : bool)
                       (w : wfn St) (st : St * log) (chunks : list bytes) : (St * log) * bool * bool :=
  match chunks with
  | [] => (st, false, false)
  | p :: r =>
      let fin := fin_last && match r with [] => true | _ => false end in
      let l1 := snd st ++ run_hooks_each ds (HReqBody p :: if fin then [HReqBodyEnd sep23] else []) in
      let '(s', _, e) := w (fst st) ((if fin then frame_fin else frame) p) in
      if e then ((s', l1), true, false) else
      if fin then ((s', l1), false, true) else h2_write_data ds frame frame_fin fin_last w (s', l1) r
  end.

(* [enc]: HPACK + HEADERS framing; [frame] / [frame_fin]: DATA framing without / with END_STREAM;
   [endstream]: the empty DATA frame with END_STREAM sent when the last data frame did not carry
   it - all arbitrary.  Reads of 0 bytes produce no frame. *)
Definition h2_send {St} (ds : list dumper) (enc : list field -> bytes) (frame frame_fin : bytes -> bytes)
                   (endstream : bytes) (w : wfn St) (s : St) (q : h23_request) : send_result St * log :=
  let l0 := h23_header_log ds (g_fields q) in
  let '(s1, _, e1) := w s (enc (g_fields q)) in
  if e1 then (mkSend s1 true false, l0) else
  match g_body q with
  | None => (mkSend s1 false false, l0)
  | Some chunks =>
      let '(st2, e2, ended) :=
        h2_write_data ds frame frame_fin (g_fin_last q) w (s1, l0) (filter nonempty chunks) in
      if e2 then (mkSend (fst st2) true false, snd st2) else
      if ended then (mkSend (fst st2) false false, snd st2) else
      if g_aborted q then (mkSend (fst st2) true false, snd st2) else
      (* sentEnd = false: the separator for every body dumper, then the END_STREAM frame *)
      let l3 := snd st2 ++ hook_emit_all ds (HReqBodyEnd sep23) in
      let '(s3, _, e3) := w (fst st2) endstream in
      (mkSend s3 e3 false, l3)
  end.

Fixpoint h2_write_data_plain {St} (frame frame_fin : bytes -> bytes) (fin_last : bool)
                             (w : wfn St) (s : St) (chunks : list bytes) : St * bool * bool :=
  match chunks with
  | [] => (s, false, false)
  | p :: r =>
      let fin := fin_last && match r with [] => true | _ => false end in
      let '(s', _, e) := w s ((if fin then frame_fin else frame) p) in
      if e then (s', true, false) else
      if fin then (s', false, true) else h2_write_data_plain frame frame_fin fin_last w s' r
  end.

Definition h2_send_plain {St} (enc : list field -> bytes) (frame frame_fin : bytes -> bytes) (endstream : bytes)
                         (w : wfn St) (s : St) (q : h23_request) : send_result St :=
  let '(s1, _, e1) := w s (enc (g_fields q)) in
  if e1 then mkSend s1 true false else
  match g_body q with
  | None => mkSend s1 false false
  | Some chunks =>
      let '(s2, e2, ended) := h2_write_data_plain frame frame_fin (g_fin_last q) w s1 (filter nonempty chunks) in
      if e2 then mkSend s2 true false else
      if ended then mkSend s2 false false else
      if g_aborted q then mkSend s2 true false else
      let '(s3, _, e3) := w s2 endstream in
      mkSend s3 e3 false
  end.

Definition total_len (ps : list bytes) : nat := length (concat ps).

Definition h3_send {St} (ds : list dumper) (enc : list field -> bytes)
                   (w : wfn St) (s : St) (q : h23_request) : send_result St * log :=
  let l0 := h23_header_log ds (g_fields q) in
  let '(s1, _, e1) := w s (enc (g_fields q)) in
  if e1 then (mkSend s1 true false, l0) else
  match g_body q with
  | None => (mkSend s1 false false, l0)
  | Some chunks =>
      let bw := wrap_writer ds PReqB HReqBody (lift w) in
      let '(st2, e2) := write_all bw (s1, l0) chunks in
      if e2 then (mkSend (fst st2) true false, snd st2) else
      if Nat.eqb (total_len chunks) 0 then (mkSend (fst st2) false false, snd st2) else
      (mkSend (fst st2) false false, snd (add_hook ds (HReqBodyEnd sep23) st2))
  end.

Definition h3_send_plain {St} (enc : list field -> bytes) (w : wfn St) (s : St) (q : h23_request)
  : send_result St :=
  let '(s1, _, e1) := w s (enc (g_fields q)) in
  if e1 then mkSend s1 true false else
  match g_body q with
  | None => mkSend s1 false false
  | Some chunks => let '(s2, e2) := write_all w s1 chunks in mkSend s2 e2 false
  end.

(* pinned http3 sendRequestBody: io.MultiWriter(str, d.RequestBodyOutput()) for EVERY dumper
   (RequestBody() not consulted, Async bypassed); the separator goes to every dumper's Output().
   [dw] is the dump writer; one dumper suffices to show the coupling. *)
Definition h3_body_pinned {St T} (w : wfn St) (dw : wfn T) (st : St * T) (chunks : list bytes)
  : (St * T) * bool :=
  write_all (multi_writer w dw) st chunks.

(* ---------- h2 / h3 response side ---------- *)
Definition h23_resp_header_log (ds : list dumper) (fs : list field) : log :=
  run_hooks ds (field_hooks HRespHeader fs).

(* an h2 response header block that is never completed or is rejected (connection cut between
   HEADERS and CONTINUATION, malformed field): readMetaFrame has dumped every field the moment
   hpack decoded it; the closing CRLF is dumped only for a block that was accepted *)
Definition h2_partial_block_log (ds : list dumper) (fs : list field) : log :=
  run_hooks ds (map (fun f => HRespHeader (field_line f)) fs).

Definition h23_recv {St} (ds : list dumper) (fs : list field) (r : rfn St) (b0 : St) (sizes : list nat)
  : (St * list (bytes * rstat)) * log :=
  let '(st, reads) := read_all (wrap_reader ds (rlift r)) (b0, h23_resp_header_log ds fs) sizes in
  ((fst st, reads), snd st).
