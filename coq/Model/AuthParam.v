(* Model/AuthParam.v - C20: quoted-string handling of digest.go (escapeQuoted, unquoteParam),
   the textual form of the Authorization header it emits (render_fields), and - transcribed
   independently from RFC 7235 section 2.1 / RFC 7230 section 3.2.6 - the parser a server
   applies to a `credentials` value (auth-scheme 1*SP #auth-param).  No proofs here. *)
From ReqV Require Export Lib.Bytes.

Definition dquote : byte := """"%byte.
Definition bslash : byte := "\"%byte.
Definition comma : byte := ","%byte.
Definition equals : byte := "="%byte.

(* ---------- digest.go: escapeQuoted / unquoteParam ---------- *)

(* strings.NewReplacer: backslash -> 2 backslashes, double quote -> backslash double quote *)
Fixpoint escape_quoted (s : bytes) : bytes :=
  match s with
  | [] => []
  | b :: r => if beqb b dquote || beqb b bslash then bslash :: b :: escape_quoted r
              else b :: escape_quoted r
  end.

(* the loop of unquoteParam after the opening quote: stops at the first unescaped quote;
   a backslash that is not the last byte protects the next byte *)
Fixpoint unquote_body (s : bytes) : bytes :=
  match s with
  | [] => []
  | b :: r =>
      if beqb b dquote then []
      else if beqb b bslash then
        match r with
        | [] => [b]
        | c :: r' => c :: unquote_body r'
        end
      else b :: unquote_body r
  end.

(* unquoteParam: a value that starts with a double quote is read as a quoted-string, anything
   else is strings.Trim(v, double-quote) *)
Definition unquote_param (v : bytes) : bytes :=
  match v with
  | [] => []
  | b :: r => if beqb b dquote then unquote_body r else trim (beqb dquote) v
  end.

(* ---------- the header value authorize() emits ---------- *)

(* value of an auth-param as emitted: Quoted = written through escapeQuoted between quotes,
   QuotedRaw = written verbatim between quotes (response, cnonce: hex digits), Bare = token *)
Inductive fval := Quoted (v : bytes) | QuotedRaw (v : bytes) | Bare (v : bytes).
Definition field := (bytes * fval)%type.

Definition fval_eqb (a b : fval) : bool :=
  match a, b with
  | Quoted x, Quoted y | QuotedRaw x, QuotedRaw y | Bare x, Bare y => bytes_eqb x y
  | _, _ => false
  end.

(* what the value means to a recipient: a string that came quoted, or a token *)
Definition fval_sem (v : fval) : fval :=
  match v with QuotedRaw x => Quoted x | _ => v end.

Definition render_field (f : field) : bytes :=
  match snd f with
  | Quoted v => fst f ++ equals :: dquote :: escape_quoted v ++ [dquote]
  | QuotedRaw v => fst f ++ equals :: dquote :: v ++ [dquote]
  | Bare v => fst f ++ equals :: v
  end.
Definition render_fields (fs : list field) : bytes :=
  bs "Digest " ++ join_with (bs ", ") (map render_field fs).

(* ---------- RFC 7235 2.1: credentials = auth-scheme [ 1*SP #auth-param ] ---------- *)

(* RFC 7230 3.2.6 tchar *)
Definition is_tchar (b : byte) : bool :=
  is_alpha b || is_digit b || mem_byte b (bs "!#$%&'*+-.^_`|~").

Fixpoint span (p : byte -> bool) (s : bytes) : bytes * bytes :=
  match s with
  | [] => ([], [])
  | b :: r => if p b then let '(a, t) := span p r in (b :: a, t) else ([], s)
  end.

Definition skip_ows (s : bytes) : bytes := drop_while is_sp_tab s.

(* quoted-string after its opening DQUOTE: value with quoted-pairs resolved, and the rest
   after the closing DQUOTE; None when it is not closed *)
Fixpoint read_quoted (acc : bytes) (s : bytes) : option (bytes * bytes) :=
  match s with
  | [] => None
  | b :: r =>
      if beqb b bslash then
        match r with
        | [] => None
        | c :: r' => read_quoted (c :: acc) r'
        end
      else if beqb b dquote then Some (rev acc, r)
      else read_quoted (b :: acc) r
  end.

(* auth-param = token BWS = BWS ( token / quoted-string ), then the list separator *)
Definition read_value (s : bytes) : option (fval * bytes) :=
  match s with
  | [] => None
  | q :: r =>
      if beqb q dquote then
        match read_quoted [] r with
        | Some (v, t) => Some (Quoted v, t)
        | None => None
        end
      else
        let '(v, t) := span is_tchar s in
        match v with [] => None | _ => Some (Bare v, t) end
  end.

(* #auth-param with empty list elements allowed (RFC 7230 section 7); parameter names are
   case-insensitive and come back in lower case.  [fuel] bounds the number of list elements;
   None = syntax error (or out of fuel, which parse_credentials excludes). *)
Fixpoint parse_auth_params (fuel : nat) (s : bytes) : option (list field) :=
  match fuel with
  | O => None
  | S f =>
      match skip_ows s with
      | [] => Some []
      | b :: r =>
          if beqb b comma then parse_auth_params f r
          else
            let '(name, s1) := span is_tchar (b :: r) in
            match name with
            | [] => None
            | _ =>
                match skip_ows s1 with
                | e :: s2 =>
                    if beqb e equals then
                      match read_value (skip_ows s2) with
                      | None => None
                      | Some (v, s3) =>
                          match skip_ows s3 with
                          | [] => Some [(to_lower name, v)]
                          | c :: s4 =>
                              if beqb c comma then
                                match parse_auth_params f s4 with
                                | Some l => Some ((to_lower name, v) :: l)
                                | None => None
                                end
                              else None
                          end
                      end
                    else None
                | [] => None
                end
            end
      end
  end.

Fixpoint keys_distinct (l : list field) : bool :=
  match l with
  | [] => true
  | (k, _) :: r => negb (existsb (fun f => bytes_eqb k (fst f)) r) && keys_distinct r
  end.

(* scheme token, at least one SP, parameter list without duplicate names *)
Definition parse_credentials (s : bytes) : option (bytes * list field) :=
  let '(scheme, r) := span is_tchar s in
  match scheme, r with
  | _ :: _, sp :: r' =>
      if beqb sp " "%byte then
        match parse_auth_params (S (length r')) r' with
        | Some l => if keys_distinct l then Some (scheme, l) else None
        | None => None
        end
      else None
  | _, _ => None
  end.

(* ---------- well-formedness of what is rendered (executable; used by theorems and checker) ---------- *)

(* token = 1*tchar *)
Definition tokenb (s : bytes) : bool :=
  match s with [] => false | _ => forallb is_tchar s end.

(* no double quote, no backslash: what a value written verbatim between quotes must satisfy *)
Definition clean (s : bytes) : bool := negb (mem_byte dquote s) && negb (mem_byte bslash s).

(* an Authorization parameter a recipient can read back: lower-case token name; a token where
   written bare; anything where escaped; clean where written verbatim between quotes *)
Definition field_ok (f : field) : bool :=
  tokenb (fst f) && bytes_eqb (to_lower (fst f)) (fst f) &&
  match snd f with
  | Quoted _ => true
  | QuotedRaw v => negb (mem_byte dquote v) && negb (mem_byte bslash v)
  | Bare v => tokenb v
  end.

Definition sem_field (f : field) : field := (fst f, fval_sem (snd f)).

Fixpoint assoc_bytes {A} (k : bytes) (l : list (bytes * A)) : option A :=
  match l with
  | [] => None
  | (k', v) :: r => if bytes_eqb k k' then Some v else assoc_bytes k r
  end.
