(* Model/Download.v - C03: the body saved to an output instead of the Response
   (middleware.go handleDownload behind SetOutputFile / SetOutput): io.Copy(output, body), then,
   if the output is an io.Closer, Close - "a copy error stands whatever Close returns; a failed
   Close fails a download that was copied cleanly".  No proofs here. *)
From ReqV Require Export Lib.Bytes Model.BodyFraming.

(* errors as "is there one": copy_failed = the body read below ended in an error;
   closer = Some close_failed when the output is an io.Closer *)
Definition download_failed (copy_failed : bool) (closer : option bool) : bool :=
  match closer with
  | Some close_failed => if copy_failed then true else close_failed
  | None => copy_failed
  end.

(* the seeded variant: `if cerr := Close(); cerr != nil || err != nil { err = cerr }` *)
Definition download_failed_overwritten (copy_failed : bool) (closer : option bool) : bool :=
  match closer with
  | Some close_failed => if close_failed || copy_failed then close_failed else copy_failed
  | None => copy_failed
  end.

(* one HTTP/1.1 download of a response cut after the bytes [arrived]: Some saved = success *)
Definition h1_download (hlen : N) (fr : framing) (arrived : bytes) (closer : option bool) : option bytes :=
  match h1_read hlen fr arrived with
  | CallError => None
  | BodyRead r => if download_failed (negb (is_clean (rd_err r))) closer then None else Some (rd_data r)
  end.
