(* Model/FormResend.v - C20: the body of a form / multipart request is SET UP AGAIN for the digest
   re-send (handleDigestAuthFunc calls parseRequestBody a second time).  middleware.go
   parseRequestBody merges the client-level form data (SetCommonFormData) into Request.FormData
   once per execution, remembered in Request.clientFormDataMerged.  No proofs here. *)
From ReqV Require Export Lib.Bytes.

Definition ffield := (bytes * bytes)%type.
Record form_state := mkForm { fm_fields : list ffield; fm_merged : bool }.

Definition ffield_eqb (a b : ffield) : bool := bytes_eqb (fst a) (fst b) && bytes_eqb (snd a) (snd b).

(* one body set-up; [by_flag] = the code (merge unless the flag says it was done); otherwise the
   rule "merge while RetryAttempt <= 0" of a seeded change, with [attempt] the retry attempt *)
Definition body_setup (client : list ffield) (s : form_state) : form_state :=
  match client with
  | [] => s
  | _ => if fm_merged s then s else mkForm (fm_fields s ++ client) true
  end.
Definition body_setup_by_attempt (attempt : nat) (client : list ffield) (s : form_state) : form_state :=
  match client, attempt with
  | _ :: _, O => mkForm (fm_fields s ++ client) true
  | _, _ => s
  end.

(* the fields of the first transmission and of the digest re-send of one execution *)
Definition form_first (client req : list ffield) : list ffield := fm_fields (body_setup client (mkForm req false)).
Definition form_resend (client req : list ffield) : list ffield :=
  fm_fields (body_setup client (body_setup client (mkForm req false))).

Fixpoint count_field (p : ffield) (l : list ffield) : nat :=
  match l with [] => 0 | q :: r => (if ffield_eqb p q then 1 else 0) + count_field p r end.
(* same fields with the same multiplicities (the wire order is by key, not modelled) *)
Definition same_fields (a b : list ffield) : bool :=
  forallb (fun p => Nat.eqb (count_field p a) (count_field p b)) (a ++ b).
