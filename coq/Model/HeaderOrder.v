(* Model/HeaderOrder.v - C16: textproto.CanonicalMIMEHeaderKey and header.SortKeyValues
   (internal/header/sort.go after the repair: consistent rank + sort.Stable).
   Executable model only; proofs are in Proofs/HeaderOrderProofs.v. *)
From ReqV Require Export Lib.Bytes.

(* A collected header line group: key as it will be written, and its values. *)
Definition kv := (bytes * list bytes)%type.

Definition dash : byte := "-"%byte.

(* net/textproto validHeaderFieldByte = RFC 7230 tchar (Go 1.23.5 isTokenTable):
   ALPHA / DIGIT / one of  ! # $ % & ' * + - . ^ _ ` | ~  *)
Definition is_tchar (b : byte) : bool :=
  let n := bN b in
  is_alpha b || is_digit b ||
  (n =? 33)%N || ((35 <=? n)%N && (n <=? 39)%N) || (n =? 42)%N || (n =? 43)%N || (n =? 45)%N ||
  (n =? 46)%N || (n =? 94)%N || (n =? 95)%N || (n =? 96)%N || (n =? 124)%N || (n =? 126)%N.

(* the canonicalising loop of canonicalMIMEHeaderKey: upper-case the first letter and every
   letter that follows a dash, lower-case the others *)
Fixpoint canon_go (upper : bool) (s : bytes) : bytes :=
  match s with
  | [] => []
  | c :: r => let c' := if upper then upper_byte c else lower_byte c in
              c' :: canon_go (beqb c' dash) r
  end.

(* textproto.CanonicalMIMEHeaderKey: a key holding any byte that is not a token byte
   (space included) is returned unchanged *)
Definition mime_key (s : bytes) : bytes :=
  if forallb is_tchar s then canon_go true s else s.

Definition colon_b : byte := ":"%byte.
Definition is_pseudo_name (s : bytes) : bool :=
  match s with c :: _ => beqb c colon_b | [] => false end.

(* sort.go canonicalKey: the form in which keys are matched against the order list.  Pseudo-header
   names (leading colon, which CanonicalMIMEHeaderKey would leave untouched) are lower-cased.
   strings.ToLower is modelled on ASCII input; an order entry that starts with a colon AND holds
   non-ASCII bytes is outside the modelled domain (it cannot name a pseudo-header anyway). *)
Definition canonical_key (s : bytes) : bytes :=
  if is_pseudo_name s then to_lower s else mime_key s.

(* SortKeyValues builds  order[Canonical(key)] = i  in list order: a later duplicate
   overwrites an earlier one, so the LAST occurrence of a name decides its index.
   [corder] is the order list with every entry already canonicalised. *)
Fixpoint rank_in (i : nat) (corder : list bytes) (ck : bytes) : option nat :=
  match corder with
  | [] => None
  | o :: r => match rank_in (S i) r ck with
              | Some j => Some j
              | None => if bytes_eqb o ck then Some i else None
              end
  end.

(* sorter.rank after the repair: index in the order list; unlisted keys get [n] (the length
   of the order list), i.e. rank after all listed ones *)
Definition rank_c (corder : list bytes) (n : nat) (key : bytes) : nat :=
  match rank_in 0 corder (canonical_key key) with
  | Some i => i
  | None => n
  end.

Definition rank (order : list bytes) (key : bytes) : nat :=
  rank_c (map canonical_key order) (length order) key.

Definition listed (order : list bytes) (key : bytes) : bool :=
  match rank_in 0 (map canonical_key order) (canonical_key key) with Some _ => true | None => false end.

(* sort.Stable under  Less(i,j) = rank i < rank j.  A stable sort under a total preorder has
   exactly one possible output (Proofs: stable_sort_unique), so insertion sort is an exact
   model of whatever algorithm sort.Stable runs. *)
Section Sort.
  Context {A : Type} (r : A -> nat).
  Fixpoint insert_by (x : A) (l : list A) : list A :=
    match l with
    | [] => [x]
    | y :: t => if r x <=? r y then x :: y :: t else y :: insert_by x t
    end.

  Fixpoint stable_sort_by (l : list A) : list A :=
    match l with
    | [] => []
    | x :: t => insert_by x (stable_sort_by t)
    end.
End Sort.

Definition kv_rank (order : list bytes) (x : kv) : nat := rank order (fst x).

(* header.SortKeyValues.  The rank of every entry is computed once (the Go code looks it up in
   a map; evaluating it per comparison would make the model quadratic in Coq); Proofs:
   sort_key_values_spec shows this equals the plain  stable_sort_by (kv_rank order) kvs. *)
Definition sort_key_values (kvs : list kv) (order : list bytes) : list kv :=
  let co := map canonical_key order in
  let n := length order in
  map snd (stable_sort_by fst (map (fun x => (rank_c co n (fst x), x)) kvs)).

(* ---- the code as pinned (before the repair) ----
   sorter.Less(i, j): a listed key is replaced by its order index, an unlisted key by ITS
   CURRENT SLICE POSITION, and the two numbers are compared. *)
Definition eff_pinned (order : list bytes) (pos : nat) (x : kv) : nat :=
  match rank_in 0 (map canonical_key order) (canonical_key (fst x)) with Some i => i | None => pos end.

Definition less_pinned (order : list bytes) (l : list kv) (i j : nat) : bool :=
  eff_pinned order i (nth i l ([], [])) <? eff_pinned order j (nth j l ([], [])).

(* ---- projections used by the theorems and by the correspondence check ---- *)
Definition kv_eqb (a b : kv) : bool :=
  bytes_eqb (fst a) (fst b) && list_eqb bytes_eqb (snd a) (snd b).

(* the sub-sequence of fields whose name is in the order list *)
Definition listed_part (order : list bytes) (l : list kv) : list kv :=
  filter (fun x => listed order (fst x)) l.
Definition unlisted_part (order : list bytes) (l : list kv) : list kv :=
  filter (fun x => negb (listed order (fst x))) l.
