(* Model/Redirect.v - C11: the redirect policies of redirect.go, their composition in
   Client.SetRedirectPolicy, and a specification-level driver for net/http's redirect loop
   (Go 1.23.5 client.go: via grows by one per followed hop, sticky stripSensitiveHeaders). *)
From ReqV Require Export Model.Authority.
From ReqV Require Export Gen.RedirectTables.   (* regenerated from redirect.go on every run *)

Inductive policy :=
| PMax (n : Z)                      (* MaxRedirectPolicy n; DefaultRedirectPolicy = PMax 10 *)
| PNo                               (* NoRedirectPolicy *)
| PSameDomain
| PSameHost
| PAllowedHost (hs : list bytes)
| PAllowedDomain (hs : list bytes)
| PAlwaysCopy (auth cookie : bool)   (* AlwaysCopyHeaderRedirectPolicy(names): never refuses; the two
                                       sensitive names the harness uses: Authorization, Cookie *)
| PNil.                             (* a nil entry in the variadic list: skipped *)

Definition mem_bytes (x : bytes) (l : list bytes) : bool := existsb (bytes_eqb x) l.

(* [target] and the elements of [via] are URL.Host strings; [via] is oldest first and is
   never empty when net/http calls CheckRedirect. *)
Definition permits (p : policy) (target : bytes) (via : list bytes) : bool :=
  let first := hd [] via in
  match p with
  | PMax n => negb (max_policy_refuses (Z.of_nat (length via)) n)
  | PNo => false
  | PSameDomain => bytes_eqb (get_domain target) (get_domain first)
  | PSameHost => bytes_eqb (get_hostname target) (get_hostname first)
  | PAllowedHost hs => mem_bytes (get_hostname target) (map (fun h => to_lower (get_hostname h)) hs)
  | PAllowedDomain hs => mem_bytes (get_domain target) (map (fun h => to_lower (get_domain h)) hs)
  | PAlwaysCopy _ _ => true
  | PNil => true
  end.

(* SetRedirectPolicy: first error wins = every policy must permit *)
Definition PDefault : policy := PMax default_redirect_limit.   (* DefaultRedirectPolicy *)

Definition all_permit (ps : list policy) (target : bytes) (via : list bytes) : bool :=
  forallb (fun p => permits p target via) ps.

(* does some policy re-add Authorization / Cookie from the first request? *)
Definition copies_auth (ps : list policy) : bool :=
  existsb (fun p => match p with PAlwaysCopy a _ => a | _ => false end) ps.
Definition copies_cookie (ps : list policy) : bool :=
  existsb (fun p => match p with PAlwaysCopy _ c => c | _ => false end) ps.

(* url.URL.Hostname(): strip a valid port, strip brackets; no case folding *)
Definition url_hostname (host : bytes) : bytes :=
  match split_host_port host with
  | ShpOk h _ => h
  | ShpErr => match strip_brackets host with Some h => h | None => host end
  end.

Definition pct : byte := "%"%byte.
(* net/http isDomainOrSubdomain *)
Definition is_domain_or_subdomain (sub parent : bytes) : bool :=
  if bytes_eqb sub parent then true
  else if mem_byte colon sub || mem_byte pct sub then false
  else has_suffix (dot :: parent) sub.

(* net/http shouldCopyHeaderOnRedirect for ASCII hosts (idnaASCII is the identity there) *)
Definition should_copy (initial dest : bytes) : bool :=
  is_domain_or_subdomain (url_hostname dest) (url_hostname initial).

(* a request put on the wire: its URL.Host and how many Authorization / Cookie values it
   carries (the initial request carries one of each) *)
Record sent := { s_host : bytes; s_auth : nat; s_cookie : nat }.

Inductive chain_end := Completed | Refused.

Definition b2n (b : bool) : nat := if b then 1 else 0.

(* Drive a chain: [init] is the first request's URL.Host (always sent, with the caller's
   sensitive headers), [targets] the Location authorities the servers answer with, in
   order.  Returns every request put on the wire and how the chain ended.  The policies run
   in order and the first refusal stops them, so an AlwaysCopy placed after a refusing
   policy never runs - but then nothing is sent either. *)
Fixpoint follow (ps : list policy) (init : bytes) (via : list bytes) (strip : bool)
         (targets : list bytes) : list sent * chain_end :=
  match targets with
  | [] => ([], Completed)
  | t :: rest =>
      let strip' := strip || (negb (bytes_eqb init t) && negb (should_copy init t)) in
      if all_permit ps t via then
        let '(l, e) := follow ps init (via ++ [t]) strip' rest in
        ({| s_host := t;
            s_auth := b2n (negb strip' || copies_auth ps);
            s_cookie := b2n (negb strip' || copies_cookie ps) |} :: l, e)
      else ([], Refused)
  end.

Definition run_chain (ps : list policy) (init : bytes) (targets : list bytes)
  : list sent * chain_end :=
  let '(l, e) := follow ps init [init] false targets in
  ({| s_host := init; s_auth := 1; s_cookie := 1 |} :: l, e).
