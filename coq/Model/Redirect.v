(* Model/Redirect.v - C11: the redirect policies of redirect.go, their composition in
   Client.SetRedirectPolicy, and a specification-level driver for net/http's redirect loop
   (Go 1.23.5 client.go: via grows by one per followed hop, sticky stripSensitiveHeaders). *)
From ReqV Require Export Model.Authority.
From ReqV Require Export Gen.RedirectTables.   (* regenerated from redirect.go on every run *)

Inductive policy :=
| PMax (n : Z)                      (* MaxRedirectPolicy n; DefaultRedirectPolicy = PMax 10 *)
| PNo                               (* NoRedirectPolicy *)
| PSameDomain
| PSameHost
| PAllowedHost (hs : list bytes)
| PAllowedDomain (hs : list bytes)
| PAlwaysCopy (names : list bytes)   (* AlwaysCopyHeaderRedirectPolicy(names...): never refuses; the names
                                      in canonical form (http.Header.Values canonicalises its key) *)
| PFault (k : nat)                  (* a USER-DEFINED policy that faults (panics) when asked about the hop with
                                      len(via) = k and permits every other hop.  A fault is no permission: the
                                      panic leaves CheckRedirect, net/http and the call - nothing is sent *)
| PNil.                             (* a nil entry in the variadic list: skipped *)

Definition mem_bytes (x : bytes) (l : list bytes) : bool := existsb (bytes_eqb x) l.

(* [target] and the elements of [via] are URL.Host strings; [via] is oldest first and is
   never empty when net/http calls CheckRedirect. *)
Definition permits (p : policy) (target : bytes) (via : list bytes) : bool :=
  let first := hd [] via in
  match p with
  | PMax n => negb (max_policy_refuses (Z.of_nat (length via)) n)
  | PNo => false
  | PSameDomain => bytes_eqb (get_domain target) (get_domain first)
  | PSameHost => bytes_eqb (get_hostname target) (get_hostname first)
  | PAllowedHost hs => mem_bytes (get_hostname target) (map (fun h => to_lower (get_hostname h)) hs)
  | PAllowedDomain hs => mem_bytes (get_domain target) (map (fun h => to_lower (get_domain h)) hs)
  | PAlwaysCopy _ => true
  | PFault k => negb (Nat.eqb (length via) k)
  | PNil => true
  end.

(* SetRedirectPolicy: first error wins = every policy must permit *)
Definition PDefault : policy := PMax default_redirect_limit.   (* DefaultRedirectPolicy *)

Definition all_permit (ps : list policy) (target : bytes) (via : list bytes) : bool :=
  forallb (fun p => permits p target via) ps.

(* the header names some AlwaysCopy policy re-adds from the first request when missing *)
Definition always_names (ps : list policy) : list bytes :=
  flat_map (fun p => match p with PAlwaysCopy ns => ns | _ => [] end) ps.

(* net/http makeHeadersCopier: the canonical names withheld once stripSensitiveHeaders is set
   (the list is regenerated from GOROOT/src/net/http/client.go: Gen/RedirectTables.v) *)
Definition is_sensitive (n : bytes) : bool := mem_bytes n go_sensitive_headers.

(* url.URL.Hostname(): strip a valid port, strip brackets; no case folding *)
Definition url_hostname (host : bytes) : bytes :=
  match split_host_port host with
  | ShpOk h _ => h
  | ShpErr => match strip_brackets host with Some h => h | None => host end
  end.

(* net/http isDomainOrSubdomain *)
Definition is_domain_or_subdomain (sub parent : bytes) : bool :=
  if bytes_eqb sub parent then true
  else if mem_byte colon sub || mem_byte pct sub then false
  else has_suffix (dot :: parent) sub.

(* net/http shouldCopyHeaderOnRedirect for ASCII hosts (idnaASCII is the identity there) *)
Definition should_copy (initial dest : bytes) : bool :=
  is_domain_or_subdomain (url_hostname dest) (url_hostname initial).

(* the caller's headers on the first request: canonical name and number of values *)
Definition hdrs := list (bytes * nat).

(* what a redirected request carries: every header of the first request, except that a sensitive
   one is withheld once the chain has left the initial host's domain (sticky) - unless an
   AlwaysCopy policy names it (it finds the header missing and re-adds the first request's values) *)
Definition carry (ps : list policy) (strip : bool) (hs : hdrs) : hdrs :=
  map (fun h => (fst h,
                 if is_sensitive (fst h) && strip && negb (mem_bytes (fst h) (always_names ps))
                 then 0 else snd h)) hs.

(* a request put on the wire: its URL.Host and how many values of each of the caller's headers
   it carries *)
Record sent := { s_host : bytes; s_hdrs : hdrs }.

Inductive chain_end := Completed | Refused.

(* Drive a chain: [init] is the first request's URL.Host (always sent, with the caller's
   headers [hs]), [targets] the Location authorities the servers answer with, in
   order.  Returns every request put on the wire and how the chain ended.  The policies run
   in order and the first refusal stops them, so an AlwaysCopy placed after a refusing
   policy never runs - but then nothing is sent either. *)
Fixpoint follow (ps : list policy) (init : bytes) (hs : hdrs) (via : list bytes) (strip : bool)
         (targets : list bytes) : list sent * chain_end :=
  match targets with
  | [] => ([], Completed)
  | t :: rest =>
      let strip' := strip || (negb (bytes_eqb init t) && negb (should_copy init t)) in
      if all_permit ps t via then
        let '(l, e) := follow ps init hs (via ++ [t]) strip' rest in
        ({| s_host := t; s_hdrs := carry ps strip' hs |} :: l, e)
      else ([], Refused)
  end.

Definition run_chain (ps : list policy) (init : bytes) (hs : hdrs) (targets : list bytes)
  : list sent * chain_end :=
  let '(l, e) := follow ps init hs [init] false targets in
  ({| s_host := init; s_hdrs := hs |} :: l, e).
