(* Model/C16Run.v - case type and checker evaluated on harness-generated cases (C16) *)
From ReqV Require Export Lib.Bytes Model.HeaderOrder Model.HeaderCollect Model.HeaderMerge.

Inductive c16_case :=
(* direct call of header.SortKeyValues(kvs, order); the slice afterwards is
   [nth i kvs | i <- perm] (indices keep the case files small) *)
| SortCase (kvs : list kv) (order : list bytes) (perm : list nat)
(* textproto.CanonicalMIMEHeaderKey(input) = obs *)
| CanonCase (input obs : bytes)
(* a request through the real client: q = what the protocol writer received (captured by the
   innermost transport wrapper), obs = the field list the origin saw, in wire order *)
| WireCase (proto : nat) (q : creq) (obs : list line)
(* the caller's API calls (request level, client level incl. a preset's table, cookies as
   rendered pairs, client-level order registrations) and the header map the protocol writer
   received, sorted by key (an automatic Content-Type removed by the harness) *)
| MergeCase (req_ops cli_ops : list hdr_op) (cookies : list bytes)
            (regs_o regs_p : list (list bytes)) (obs : list kv).

Fixpoint ascending (l : list nat) : bool :=
  match l with
  | a :: ((b :: _) as r) => (a <=? b) && ascending r
  | _ => true
  end.

Fixpoint take_while {A} (f : A -> bool) (l : list A) : list A :=
  match l with x :: r => if f x then x :: take_while f r else [] | [] => [] end.
Fixpoint drop_while_l {A} (f : A -> bool) (l : list A) : list A :=
  match l with x :: r => if f x then drop_while_l f r else l | [] => [] end.

Definition lines_eqb := list_eqb line_eqb.

(* the regular block: exact when no map iteration is involved, otherwise equal up to the
   canonical projection AND the wire must be sorted by rank (listed fields in list order) *)
Definition regular_check (order : list bytes) (exact by_value : bool) (model obs : list line) : bool :=
  if exact then lines_eqb model obs
  else lines_eqb (canon_lines order by_value model) (canon_lines order by_value obs) &&
       (is_nil order ||
        let co := map canonical_key order in let n := length order in
        ascending (map (fun x : line => rank_c co n (fst x)) obs)).

Definition c16_check (c : c16_case) : bool :=
  match c with
  | SortCase kvs order perm =>
      list_eqb kv_eqb (sort_key_values kvs order) (map (fun i => nth i kvs ([], [])) perm)
  | CanonCase i o => bytes_eqb (mime_key i) o
  | MergeCase ro co cookies regs_o regs_p obs =>
      list_eqb kv_eqb (sort_by_key (transport_hdr (apply_ops ro) (apply_ops co) cookies regs_o regs_p)) obs
  | WireCase proto q obs =>
      let order := order_list (c_hdr q) in
      match proto with
      | 1 => regular_check order (is_nil order) false (h1_lines q) obs
      | _ => let m := if proto =? 2 then h2_lines q else h3_lines q in
             lines_eqb (take_while is_pseudo m) (take_while is_pseudo obs) &&
             regular_check order false true (drop_while_l is_pseudo m) (drop_while_l is_pseudo obs)
      end
  end.
