(* Model/C16Run.v - case type and checker evaluated on harness-generated cases (C16) *)
From ReqV Require Export Lib.Bytes Model.HeaderOrder.

Inductive c16_case :=
(* direct call of header.SortKeyValues(kvs, order); the slice afterwards is
   [nth i kvs | i <- perm] (indices keep the case files small) *)
| SortCase (kvs : list kv) (order : list bytes) (perm : list nat)
(* textproto.CanonicalMIMEHeaderKey(input) = obs *)
| CanonCase (input obs : bytes).

Definition c16_check (c : c16_case) : bool :=
  match c with
  | SortCase kvs order perm =>
      list_eqb kv_eqb (sort_key_values kvs order) (map (fun i => nth i kvs ([], [])) perm)
  | CanonCase i o => bytes_eqb (canonical_key i) o
  end.
