(* Model/C16Run.v - case type and checker evaluated on harness-generated cases (C16) *)
From ReqV Require Export Lib.Bytes Model.HeaderOrder Model.HeaderCollect Model.HeaderMerge Model.HeaderSeq Model.HeaderResend Model.HeaderFrag Model.HeaderRedirect Model.HeaderKeepAlive Model.HeaderCloneHdr.

Inductive seq_outcome :=
| SSent (obs : list line)    (* the origin's view of that request *)
| SRefused                   (* refused locally: header list larger than the peer's limit *)
| SFailed.                   (* an injected connection fault (or its consequence) *)

Inductive c16_case :=
(* direct call of header.SortKeyValues(kvs, order); the slice afterwards is
   [nth i kvs | i <- perm] (indices keep the case files small) *)
| SortCase (kvs : list kv) (order : list bytes) (perm : list nat)
(* textproto.CanonicalMIMEHeaderKey(input) = obs *)
| CanonCase (input obs : bytes)
(* a request through the real client: q = what the protocol writer received (captured by the
   innermost transport wrapper), obs = the field list the origin saw, in wire order *)
| WireCase (proto : nat) (q : creq) (obs : list line)
(* the caller's API calls (request level, client level incl. a preset's table, cookies as
   rendered pairs, client-level order registrations) and the header map the protocol writer
   received, sorted by key (an automatic Content-Type removed by the harness) *)
| MergeCase (req_ops cli_ops : list hdr_op) (cookies : list bytes)
            (regs_o regs_p : list (list bytes)) (obs : list kv)
(* requests sent one after the other through ONE client (one connection where it survives):
   per step what the protocol writer received and what became of it.  max = the
   SETTINGS_MAX_HEADER_LIST_SIZE the HTTP/2 peer advertised *)
| SeqCase (proto : nat) (max : option N) (steps : list (creq * seq_outcome))
(* a family of clients made with Clone(): the operations, and per member the header order /
   pseudo-header order its request carried at the transport *)
| CloneCase (ops : list fam_op) (members : list (nat * list bytes * list bytes))
(* ONE Request object executed several times: per execution the setter calls made on the request
   before it, the client's header map at that moment, and the header map the protocol writer
   received (sorted by key; cookies aside) *)
| ResendCase (steps : list (list hdr_op * list kv * list kv))
(* the frames of one HTTP/2 header block as the client wrote them (payload length, END_HEADERS):
   HEADERS priority configured or not, the peer's MAX_FRAME_SIZE, the length of the block *)
| FragCase (prio : bool) (max len : N) (frames : list (N * bool))
(* a hop after a redirect: the initial request's header map at the transport, the names given to
   AlwaysCopyHeaderRedirectPolicy, whether the chain has left the initial domain, and the hop's
   header map at the transport (sorted by key, the Referer net/http adds aside) *)
| RedirCase (initial : list kv) (names : list bytes) (strip : bool) (hop : list kv)
(* an HTTP/1.1 request through a client with keep-alives disabled: like WireCase 1, the transport's own
   Connection: close included *)
| WireKACase (q : creq) (obs : list line)
(* a family of clients made with Clone(): the operations on the common headers, and per member the
   client's header map afterwards (sorted by key) *)
| CloneHdrCase (ops : list hfam_op) (members : list (nat * list kv)).

Fixpoint ascending (l : list nat) : bool :=
  match l with
  | a :: ((b :: _) as r) => (a <=? b) && ascending r
  | _ => true
  end.

Fixpoint take_while {A} (f : A -> bool) (l : list A) : list A :=
  match l with x :: r => if f x then x :: take_while f r else [] | [] => [] end.
Fixpoint drop_while_l {A} (f : A -> bool) (l : list A) : list A :=
  match l with x :: r => if f x then drop_while_l f r else l | [] => [] end.

Definition lines_eqb := list_eqb line_eqb.

(* the regular block: exact when no map iteration is involved, otherwise equal up to the
   canonical projection AND the wire must be sorted by rank (listed fields in list order) *)
Definition regular_check (order : list bytes) (exact by_value : bool) (model obs : list line) : bool :=
  if exact then lines_eqb model obs
  else lines_eqb (canon_lines order by_value model) (canon_lines order by_value obs) &&
       (is_nil order ||
        let co := map canonical_key order in let n := length order in
        ascending (map (fun x : line => rank_c co n (fst x)) obs)).

Definition wire_check (proto : nat) (q : creq) (obs : list line) : bool :=
  let order := order_list (c_hdr q) in
  match proto with
  | 1 => regular_check order (is_nil order) false (h1_lines q) obs
  | _ => let m := if proto =? 2 then h2_lines q else h3_lines q in
         lines_eqb (take_while is_pseudo m) (take_while is_pseudo obs) &&
         regular_check order false true (drop_while_l is_pseudo m) (drop_while_l is_pseudo obs)
  end.

(* every step is judged on its own request only: by the theorems of Proofs/HeaderSeqProofs.v the
   history (refused / failed / sent requests before it) cannot matter *)
Definition seq_step_check (proto : nat) (max : option N) (st : creq * seq_outcome) : bool :=
  let refused := (proto =? 2) && h2_refused max (fst st) in
  match snd st with
  | SSent obs => negb refused && wire_check proto (fst st) obs
  | SRefused => refused
  | SFailed => true
  end.

Definition clone_member_check (s : fam_state) (m : nat * list bytes * list bytes) : bool :=
  let regs := nth (fst (fst m)) s [] in
  list_eqb bytes_eqb (in_force header_order_key (regs_order regs)) (snd (fst m)) &&
  list_eqb bytes_eqb (in_force pseudo_header_order_key (regs_porder regs)) (snd m).

Fixpoint resend_check (s : list rentry) (steps : list (list hdr_op * list kv * list kv)) : bool :=
  match steps with
  | [] => true
  | (ops, ch, obs) :: r =>
      let s' := rexec (fold_left rapply_op ops s) ch in
      list_eqb kv_eqb (sort_by_key (strip s')) obs && resend_check s' r
  end.

Definition c16_check (c : c16_case) : bool :=
  match c with
  | RedirCase initial names strip hop =>
      (* the HTTP/1.1 writer sanitises the values of the header map IN PLACE while it writes hop 0
         (header.go headerWriteSubset: kv.Values[i] = vv), and net/http copies those slices to the next
         hop: values are compared after sanitising *)
      let san := map (fun x : kv => (fst x, map sanitize (snd x))) in
      list_eqb kv_eqb (san (sort_by_key (hop_hdr initial names strip))) (san hop)
  | WireKACase q obs =>
      let order := order_list (c_hdr q) in
      regular_check order (is_nil order) false (h1_lines_ka true q) obs
  | CloneHdrCase ops members =>
      let s := hfam_run ops in
      forallb (fun m : nat * list kv => list_eqb kv_eqb (sort_by_key (nth (fst m) s [])) (snd m)) members
  | ResendCase steps => resend_check [] steps
  | FragCase prio max len frames =>
      list_eqb (fun a b : N * bool => (fst a =? fst b)%N && Bool.eqb (snd a) (snd b)) (write_headers_len prio max len) frames
  | SeqCase proto max steps => forallb (seq_step_check proto max) steps
  | CloneCase ops members => forallb (clone_member_check (fam_run ops)) members
  | SortCase kvs order perm =>
      list_eqb kv_eqb (sort_key_values kvs order) (map (fun i => nth i kvs ([], [])) perm)
  | CanonCase i o => bytes_eqb (mime_key i) o
  | MergeCase ro co cookies regs_o regs_p obs =>
      list_eqb kv_eqb (sort_by_key (transport_hdr (apply_ops ro) (apply_ops co) cookies regs_o regs_p)) obs
  | WireCase proto q obs => wire_check proto q obs
  end.
