(* Model/Progress.v - upload / download progress callbacks (C17).  Executable, no proofs.

   Go code modelled: middleware.go callbackWriter.Write, callbackReader.Read.
   One event = one Write / Read call: the byte count the wrapped writer/reader returned and the
   value of time.Now() (any integer clock) at that call.  Counters are int64 in Go; the model
   uses Z (no wrap-around below 2^63 bytes). *)
From ReqV Require Export Lib.Bytes.
Open Scope Z_scope.

(* ---- callbackWriter ---- *)
Record wstate := { w_written : Z; w_last : Z }.

(*  n, err = w.Writer.Write(p); if n <= 0 { return }
    w.written += n
    if w.written == w.totalSize { callback } else if now.Sub(lastTime) >= interval { lastTime = now; callback } *)
Definition writer_step (total interval : Z) (st : wstate) (ev : Z * Z) : wstate * list Z :=
  let '(n, now) := ev in
  if n <=? 0 then (st, [])
  else
    let w := w_written st + n in
    if w =? total then ({| w_written := w; w_last := w_last st |}, [w])
    else if interval <=? now - w_last st then ({| w_written := w; w_last := now |}, [w])
    else ({| w_written := w; w_last := w_last st |}, []).

Fixpoint run_writer (total interval : Z) (st : wstate) (evs : list (Z * Z)) : list Z :=
  match evs with
  | [] => []
  | e :: r => let '(st', out) := writer_step total interval st e in
              out ++ run_writer total interval st' r
  end.

(* ---- callbackReader ---- *)
Record rstate := { r_read : Z; r_lastread : Z; r_last : Z }.

(* event: (n, err == io.EOF, now) *)
Definition reader_step (interval : Z) (st : rstate) (ev : Z * bool * Z) : rstate * list Z :=
  let '(n, eof, now) := ev in
  if n <=? 0 then
    if eof && (r_lastread st <? r_read st)
    then ({| r_read := r_read st; r_lastread := r_read st; r_last := r_last st |}, [r_read st])
    else (st, [])
  else
    let rd := r_read st + n in
    if eof then ({| r_read := rd; r_lastread := rd; r_last := r_last st |}, [rd])
    else if interval <=? now - r_last st
    then ({| r_read := rd; r_lastread := rd; r_last := now |}, [rd])
    else ({| r_read := rd; r_lastread := r_lastread st; r_last := r_last st |}, []).

Fixpoint run_reader (interval : Z) (st : rstate) (evs : list (Z * bool * Z)) : list Z :=
  match evs with
  | [] => []
  | e :: r => let '(st', out) := reader_step interval st e in
              out ++ run_reader interval st' r
  end.

(* bytes really transferred *)
Definition pos (n : Z) : Z := Z.max n 0.
Definition written_total (evs : list (Z * Z)) : Z := fold_right (fun e a => pos (fst e) + a) 0 evs.
Definition read_total (evs : list (Z * bool * Z)) : Z :=
  fold_right (fun e a => pos (fst (fst e)) + a) 0 evs.

Definition w0 (t0 : Z) : wstate := {| w_written := 0; w_last := t0 |}.
Definition r0 (t0 : Z) : rstate := {| r_read := 0; r_lastread := 0; r_last := t0 |}.

(* ---- one call, several response bodies ----
   Client.roundTrip installs a function that wraps EVERY response body of the call in a NEW
   callbackReader (fresh counters, lastTime := time.Now() at wrapping): the 3xx bodies net/http
   drains before following a redirect, and the body that is finally saved.  The caller's callback is
   only invoked once the call has a response (resp.Response != nil), i.e. for the last body.
   A body = (clock value when it was wrapped, its Read events). *)
Definition body_run : Type := Z * list (Z * bool * Z).

Definition run_bodies (interval : Z) (bodies : list body_run) : list (list Z) :=
  map (fun b => run_reader interval (r0 (fst b)) (snd b)) bodies.

Definition call_reports (interval : Z) (bodies : list body_run) : list Z :=
  last (run_bodies interval bodies) [].

(* the alternative (refuted in Proofs/ProgressProofs.v): ONE callbackReader for the whole call whose
   ReadCloser is swapped - the counters survive from one body to the next *)
Fixpoint reader_end (interval : Z) (st : rstate) (evs : list (Z * bool * Z)) : rstate :=
  match evs with
  | [] => st
  | e :: r => reader_end interval (fst (reader_step interval st e)) r
  end.
Fixpoint run_bodies_shared (interval : Z) (st : rstate) (bodies : list body_run) : list (list Z) :=
  match bodies with
  | [] => []
  | b :: r => run_reader interval st (snd b) :: run_bodies_shared interval (reader_end interval st (snd b)) r
  end.


(* What any clock allows, given only the byte counts (used where the harness cannot observe the
   clock): the reports are a sub-sequence of the running totals.  [sums] lists the running totals
   after each event that moved bytes. *)
Fixpoint running (acc : Z) (ns : list Z) : list Z :=
  match ns with
  | [] => []
  | n :: r => if n <=? 0 then running acc r else (acc + n) :: running (acc + n) r
  end.
Fixpoint subseq (a b : list Z) : bool :=
  match a, b with
  | [], _ => true
  | _ :: _, [] => false
  | x :: a', y :: b' => if x =? y then subseq a' b' else subseq a b'
  end.
Close Scope Z_scope.
