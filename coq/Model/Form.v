(* Model/Form.v - url-encoded form bodies (C17).  Executable, no proofs.

   Go code modelled:
     net/url   shouldEscape(c, encodeQueryComponent), QueryEscape, QueryUnescape (unescape in
               encodeQueryComponent mode), Values.Encode, parseQuery       (stdlib, go1.23)
     /repo     middleware.go handleFormData (= Values.Encode), handleOrderedFormData,
               the client+request merge in parseRequestBody (Request.SetFormDataFromValues)
   A Go map[string][]string is an association list with distinct keys; iteration order never
   matters for what is modelled here because Values.Encode sorts the keys. *)
From ReqV Require Export Lib.Bytes.

Definition amp : byte := "&"%byte.
Definition eqs : byte := "="%byte.
Definition semi : byte := ";"%byte.
Definition pct : byte := "%"%byte.
Definition plusb : byte := "+"%byte.
Definition spb : byte := " "%byte.

(* ---- net/url: shouldEscape in encodeQueryComponent mode ---- *)
Definition is_alnum (c : byte) : bool := is_alpha c || is_digit c.

(* alphanumerics and the four marks - _ . ~ stay; the reserved set $&+,/:;=?@ is escaped in
   this mode ("the RFC reserves everything"); everything else is escaped *)
Definition should_escape_qc (c : byte) : bool :=
  if is_alnum c then false
  else if mem_byte c (bs "-_.~") then false
  else if mem_byte c (bs "$&+,/:;=?@") then true
  else true.

Definition upperhex : bytes := bs "0123456789ABCDEF".
Definition hex_digit (n : N) : byte := nth (N.to_nat n) upperhex "0"%byte.

(* one input byte as QueryEscape writes it *)
Definition escape_byte (c : byte) : bytes :=
  if beqb c spb then [plusb]
  else if should_escape_qc c then [pct; hex_digit (bN c / 16); hex_digit (bN c mod 16)]
  else [c].

Definition query_escape (s : bytes) : bytes := flat_map escape_byte s.

Definition ishex (c : byte) : bool :=
  is_digit c || ((97 <=? bN c)%N && (bN c <=? 102)%N) || ((65 <=? bN c)%N && (bN c <=? 70)%N).
Definition unhex (c : byte) : N :=
  if is_digit c then bN c - 48
  else if ((97 <=? bN c)%N && (bN c <=? 102)%N) then bN c - 87
  else if ((65 <=? bN c)%N && (bN c <=? 70)%N) then bN c - 55
  else 0.

(* QueryUnescape: None = EscapeError *)
Fixpoint query_unescape (s : bytes) : option bytes :=
  match s with
  | [] => Some []
  | c :: r =>
      if beqb c pct then
        match r with
        | h :: l :: r' =>
            if ishex h && ishex l then
              match query_unescape r' with
              | Some t => Some (byte_of_N_total (unhex h * 16 + unhex l) :: t)
              | None => None
              end
            else None
        | _ => None
        end
      else
        match query_unescape r with
        | Some t => Some ((if beqb c plusb then spb else c) :: t)
        | None => None
        end
  end.

(* ---- url.Values ---- *)
Definition form := list (bytes * list bytes).

(* Go string comparison: bytewise lexicographic *)
Fixpoint bytes_leb (a b : bytes) : bool :=
  match a, b with
  | [], _ => true
  | _ :: _, [] => false
  | x :: a', y :: b' =>
      if (bN x <? bN y)%N then true
      else if (bN y <? bN x)%N then false
      else bytes_leb a' b'
  end.

Fixpoint insert_key (e : bytes * list bytes) (l : form) : form :=
  match l with
  | [] => [e]
  | h :: t => if bytes_leb (fst e) (fst h) then e :: l else h :: insert_key e t
  end.
Definition sort_form (m : form) : form := fold_right insert_key [] m.

(* the (key, value) pairs in the order Values.Encode writes them *)
Definition flatten (m : form) : list (bytes * bytes) :=
  flat_map (fun e => map (pair (fst e)) (snd e)) m.

(* one "k=v" appended to the strings.Builder: '&' first iff the buffer is non-empty *)
Definition add_pair (buf : bytes) (kv : bytes * bytes) : bytes :=
  (match buf with [] => [] | _ => buf ++ [amp] end)
    ++ query_escape (fst kv) ++ [eqs] ++ query_escape (snd kv).
Definition encode_pairs (ps : list (bytes * bytes)) : bytes := fold_left add_pair ps [].

(* Values.Encode = handleFormData's body *)
Definition encode_form (m : form) : bytes := encode_pairs (flatten (sort_form m)).

(* handleOrderedFormData: None = errBadOrderedFormData (odd number of strings) *)
Fixpoint pair_up (l : list bytes) : list (bytes * bytes) :=
  match l with
  | k :: v :: r => (k, v) :: pair_up r
  | _ => []
  end.
Definition encode_ordered (kvs : list bytes) : option bytes :=
  if Nat.even (length kvs) then Some (encode_pairs (pair_up kvs)) else None.

(* ---- client-level + request-level form data (parseRequestBody) ----
   Request.SetFormDataFromValues(c.FormData): for every client key, every value is
   appended (url.Values.Add) to the request's list for that key. *)
Fixpoint add_values (k : bytes) (vs : list bytes) (m : form) : form :=
  match m with
  | [] => [(k, vs)]
  | e :: t => if bytes_eqb (fst e) k then (fst e, snd e ++ vs) :: t else e :: add_values k vs t
  end.
Definition merge_step (m : form) (e : bytes * list bytes) : form :=
  match snd e with [] => m | _ => add_values (fst e) (snd e) m end.
Definition merge_form (rf cf : form) : form := fold_left merge_step cf rf.

(* ---- the server side: url.ParseQuery (specification level) ---- *)
Fixpoint cut_byte (c : byte) (s : bytes) : bytes * bytes :=
  match s with
  | [] => ([], [])
  | x :: r => if beqb x c then ([], r) else let '(a, b) := cut_byte c r in (x :: a, b)
  end.

Inductive seg_result := SegSkip | SegErr | SegPair (k v : bytes).

Definition parse_segment (seg : bytes) : seg_result :=
  if mem_byte semi seg then SegErr
  else match seg with
       | [] => SegSkip
       | _ => let '(k, v) := cut_byte eqs seg in
              match query_unescape k with
              | None => SegErr
              | Some k' => match query_unescape v with
                           | None => SegErr
                           | Some v' => SegPair k' v'
                           end
              end
       end.

Fixpoint collect_segments (segs : list bytes) : list (bytes * bytes) * bool :=
  match segs with
  | [] => ([], false)
  | s :: r => let '(ps, e) := collect_segments r in
              match parse_segment s with
              | SegSkip => (ps, e)
              | SegErr => (ps, true)
              | SegPair k v => ((k, v) :: ps, e)
              end
  end.

(* pairs in body order, and whether ParseQuery reports an error *)
Definition parse_query (s : bytes) : list (bytes * bytes) * bool :=
  collect_segments (split_byte amp s).
Definition parse_form (s : bytes) : list (bytes * bytes) := fst (parse_query s).

(* the multimap view: values recorded under key k, in order (url.Values[k]) *)
Definition values_of (k : bytes) (ps : list (bytes * bytes)) : list bytes :=
  map snd (filter (fun p => bytes_eqb (fst p) k) ps).
Definition lookup (k : bytes) (m : form) : list bytes :=
  concat (map snd (filter (fun e => bytes_eqb (fst e) k) m)).

(* group pairs into a url.Values-shaped association list (first-seen key order) *)
Definition group_pairs (ps : list (bytes * bytes)) : form :=
  fold_left (fun m p => add_values (fst p) [snd p] m) ps [].
