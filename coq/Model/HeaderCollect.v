(* Model/HeaderCollect.v - C16: the three request-header collectors.
     h1: persistConn.writeRequest (transport.go) + headerWriteSubset (header.go) +
         transferWriter.writeHeader (transfer.go, known-length bodies)
     h2: ClientConn.encodeHeaders / enumerateHeaders (internal/http2/transport.go)
     h3: requestWriter.encodeHeaders (internal/http3/request_writer.go)
   The Go map http.Header is an association list [c_hdr] whose order stands for the (unspecified)
   iteration order.  Exclusion sets, bookkeeping keys and the default User-Agent come from
   Gen/HeaderTables.v, regenerated from the Go source on every run. *)
From ReqV Require Export Model.HeaderOrder.
From ReqV Require Export Gen.HeaderTables.

Definition line := (bytes * bytes)%type.

Record creq := mk_creq {
  c_method : bytes;
  c_host : bytes;        (* cleaned Host / :authority *)
  c_path : bytes;        (* request-URI *)
  c_scheme : bytes;
  c_hdr : list kv;       (* http.Request.Header as the transport receives it (bookkeeping keys included) *)
  c_clen : Z;            (* body length; the body is nil iff 0 (bodies of known length only) *)
  c_compress : bool      (* transport compression not disabled *)
}.

Definition mem_bytes (x : bytes) (l : list bytes) : bool := existsb (bytes_eqb x) l.

(* h[key] for the exact key *)
Fixpoint hget (h : list kv) (k : bytes) : option (list bytes) :=
  match h with
  | [] => None
  | x :: r => if bytes_eqb (fst x) k then Some (snd x) else hget r k
  end.
Definition hvals (h : list kv) (k : bytes) : list bytes :=
  match hget h k with Some v => v | None => [] end.
(* http.Header.Get *)
Definition header_get (h : list kv) (k : bytes) : bytes :=
  match hvals h (canonical_key k) with v :: _ => v | [] => [] end.

Definition order_list (h : list kv) : list bytes := hvals h header_order_key.
Definition porder_list (h : list kv) : list bytes := hvals h pseudo_header_order_key.

Definition is_nil {A} (l : list A) : bool := match l with [] => true | _ => false end.

(* "if len(order) > 0 { collect; SortKeyValues } else write directly" *)
Definition sort_if (order : list bytes) (kvs : list kv) : list kv :=
  if is_nil order then kvs else sort_key_values kvs order.

Definition flatten (l : list kv) : list line :=
  flat_map (fun x => map (fun v => (fst x, v)) (snd x)) l.

(* ---- lexicographic byte order, insertion sort (headerSorter: sort.Sort by Key; the keys of a
   map are distinct so the result does not depend on the algorithm) ---- *)
Fixpoint bytes_leb (a b : bytes) : bool :=
  match a, b with
  | [], _ => true
  | _ :: _, [] => false
  | x :: a', y :: b' => if (bN x <? bN y)%N then true else if (bN y <? bN x)%N then false else bytes_leb a' b'
  end.

Section SortLe.
  Context {A : Type} (le : A -> A -> bool).
  Fixpoint insert_le (x : A) (l : list A) : list A :=
    match l with
    | [] => [x]
    | y :: t => if le x y then x :: y :: t else y :: insert_le x t
    end.
  Fixpoint sort_le (l : list A) : list A :=
    match l with
    | [] => []
    | x :: t => insert_le x (sort_le t)
    end.
End SortLe.

Definition sort_by_key (l : list kv) : list kv := sort_le (fun a b => bytes_leb (fst a) (fst b)) l.

(* ---- shared pieces ---- *)
Definition m_is (m : bytes) (s : string) : bool := bytes_eqb m (bs s).

(* transferWriter.shouldSendContentLength / http2 shouldSendReqContentLength for a body of known
   length (no chunking): positive length always; zero only for POST, PUT, PATCH *)
Definition sends_cl (method : bytes) (clen : Z) : bool :=
  (0 <? clen)%Z || ((clen =? 0)%Z && (m_is method "POST" || m_is method "PUT" || m_is method "PATCH")).

Definition cl_kv (key method : bytes) (clen : Z) : list kv :=
  if sends_cl method clen then [(key, [dec_of_N (Z.to_N clen)])] else [].

(* the transports ask for gzip unless the caller chose an encoding / a range / HEAD *)
Definition wants_gzip (q : creq) : bool :=
  c_compress q && is_nil (header_get (c_hdr q) (bs "Accept-Encoding")) &&
  is_nil (header_get (c_hdr q) (bs "Range")) && negb (m_is (c_method q) "HEAD").

Definition gzip_kv (key : bytes) (q : creq) : list kv :=
  if wants_gzip q then [(key, [bs "gzip"])] else [].

(* ---- HTTP/1.1 ---- *)
Definition nl_to_space (b : byte) : byte := if beqb b x0a || beqb b x0d then " "%byte else b.
(* headerNewlineToSpace + textproto.TrimString *)
Definition sanitize (v : bytes) : bytes := trim is_sp_tab (map nl_to_space v).

(* httpguts.ValidHeaderFieldName *)
Definition valid_field_name (k : bytes) : bool := negb (is_nil k) && forallb is_tchar k.

Definition h1_ua (h : list kv) : list kv :=
  match hget h (bs "User-Agent") with
  | Some _ => let v := header_get h (bs "User-Agent") in
              if is_nil v then [] else [(bs "User-Agent", [v])]
  | None => [(bs "User-Agent", [default_user_agent])]
  end.

(* headerWriteSubset(r.Header, reqWriteExcludeHeader, ...): exact-key exclusion, invalid names
   dropped, values sanitised *)
Definition h1_user (h : list kv) : list kv :=
  map (fun x => (fst x, map sanitize (snd x)))
      (filter (fun x => negb (mem_bytes (fst x) h1_exclude) && valid_field_name (fst x)) h).

Definition h1_kvs (q : creq) : list kv :=
  let h := c_hdr q in
  [(bs "Host", [c_host q])] ++ h1_ua h ++ cl_kv (bs "Content-Length") (c_method q) (c_clen q) ++
  (if is_nil (order_list h) then sort_by_key (h1_user h) else h1_user h) ++
  gzip_kv (bs "Accept-Encoding") q.

Definition h1_lines (q : creq) : list line :=
  flatten (sort_if (order_list (c_hdr q)) (h1_kvs q)).

(* ---- HTTP/2 ---- *)
Definition equal_fold (a b : bytes) : bool := bytes_eqb (to_lower a) (to_lower b).
(* header.IsExcluded *)
Definition is_excluded (k : bytes) : bool := mem_bytes (to_lower k) h23_exclude.

Definition semi : byte := ";"%byte.
Definition space : byte := " "%byte.
(* the cookie-crumb loop of enumerateHeaders: split at ';', drop the blanks that follow it, keep
   a non-empty remainder *)
Fixpoint crumbs_go (acc : bytes) (skipping : bool) (v : bytes) : list bytes :=
  match v with
  | [] => if is_nil acc then [] else [rev acc]
  | c :: r => if skipping && beqb c space then crumbs_go acc true r
              else if beqb c semi then rev acc :: crumbs_go [] true r
              else crumbs_go (c :: acc) false r
  end.
Definition crumbs (v : bytes) : list bytes := crumbs_go [] false v.

Definition is_ua (k : bytes) : bool := equal_fold k (bs "user-agent").

Definition ua_first (k : bytes) (vv : list bytes) : list kv :=
  match vv with
  | [] => []
  | v :: _ => if is_nil v then [] else [(k, [v])]
  end.

Definition h2_entry (x : kv) : list kv :=
  let k := fst x in let vv := snd x in
  if is_excluded k then []
  else if is_ua k then ua_first k vv
  else if equal_fold k (bs "cookie") then [(bs "cookie", flat_map crumbs vv)]
  else [(k, vv)].

Definition did_ua (h : list kv) : bool :=
  existsb (fun x => negb (is_excluded (fst x)) && is_ua (fst x)) h.

Definition auto_tail (q : creq) : list kv :=
  cl_kv (bs "content-length") (c_method q) (c_clen q) ++ gzip_kv (bs "accept-encoding") q ++
  (if did_ua (c_hdr q) then [] else [(bs "user-agent", [default_user_agent])]).

Definition h2_regular (q : creq) : list kv := flat_map h2_entry (c_hdr q) ++ auto_tail q.

Definition pseudo_kvs (q : creq) : list kv :=
  [(bs ":authority", [c_host q]); (bs ":method", [c_method q]);
   (bs ":path", [c_path q]); (bs ":scheme", [c_scheme q])].

Definition lower_lines (l : list line) : list line := map (fun x => (to_lower (fst x), snd x)) l.

Definition pseudo_lines (q : creq) : list line :=
  flatten (sort_if (porder_list (c_hdr q)) (pseudo_kvs q)).

Definition h2_lines (q : creq) : list line :=
  lower_lines (pseudo_lines q ++ flatten (sort_if (order_list (c_hdr q)) (h2_regular q))).

(* ---- HTTP/3: like h2, but one collected entry per value and no cookie crumbling ---- *)
Definition h3_entry (x : kv) : list kv :=
  let k := fst x in let vv := snd x in
  if is_excluded k then []
  else if is_ua k then ua_first k vv
  else map (fun v => (k, [v])) vv.

Definition h3_regular (q : creq) : list kv := flat_map h3_entry (c_hdr q) ++ auto_tail q.

Definition h3_lines (q : creq) : list line :=
  lower_lines (pseudo_lines q ++ flatten (sort_if (order_list (c_hdr q)) (h3_regular q))).

(* ---- canonical projection for comparing with the wire when Go's map order is involved:
   lines sorted by (rank in the order list, name), stably - so the per-name value order and the
   relative order of differently-ranked listed fields are kept, the map-order noise is not.
   On HTTP/2 and HTTP/3 names are lower-cased, so two map keys differing only in case yield
   lines of the same name in map order: there [by_value] also sorts equal names by value. ---- *)
Definition line_rank (order : list bytes) (l : line) : nat := rank order (fst l).

Definition line_leb (by_value : bool) (a b : line) : bool :=
  if by_value && bytes_eqb (fst a) (fst b) then bytes_leb (snd a) (snd b)
  else bytes_leb (fst a) (fst b).

Definition canon_lines (order : list bytes) (by_value : bool) (ls : list line) : list line :=
  let co := map canonical_key order in
  let n := length order in
  map snd (stable_sort_by fst
    (map (fun x => (rank_c co n (fst x), x)) (sort_le (line_leb by_value) ls))).

Definition is_pseudo (l : line) : bool := match fst l with c :: _ => beqb c ":"%byte | [] => false end.

Definition line_eqb (a b : line) : bool := bytes_eqb (fst a) (fst b) && bytes_eqb (snd a) (snd b).
