(* Model/RespRender.v - C02: what an origin PRODUCES, and how a correct sender writes it.

   Specification-level definitions used to STATE the C02 theorems (like Model/H1Render.v for
   C04): the abstract response (status, end-to-end header fields in the order the origin
   emitted them, trailer fields, body), the header multimap a caller must obtain from it
   ([collect]: names canonicalised, values per name in emission order), and the HTTP/1.1
   serialisation of a header section / status line with arbitrary optional whitespace.
   Nothing here models code in /repo; the parsers that are proved to invert these
   renderers are Model/H1Resp.v (HTTP/1.1), Model/MuxResp.v (HTTP/2, HTTP/3).
   No proofs here. *)
From ReqV Require Export Model.H1Resp Model.H1Render.

Definition field := (bytes * bytes)%type.

(* ---------- the header multimap the caller must see ---------- *)

Definition canon_name (k : bytes) : bytes := canon_go true k.

Definition collect_from (m : hmap) (fs : list field) : hmap :=
  fold_left (fun m f => hadd (canon_name (fst f)) (snd f) m) fs m.
Definition collect (fs : list field) : hmap := collect_from [] fs.

Definition named (k : bytes) (f : field) : bool := bytes_eqb (canon_name (fst f)) k.

(* the values of the fields named k (case-insensitively), in emission order *)
Definition values_of (k : bytes) (fs : list field) : list bytes := map snd (filter (named k) fs).
Definition without (k : bytes) (fs : list field) : list field :=
  filter (fun f => negb (named k f)) fs.

(* ---------- a header field as written on an HTTP/1.1 wire ---------- *)

(* name ":" OWS value OWS CRLF  (RFC 9112 5) *)
Record wfield := { wf_name : bytes; wf_pre : bytes; wf_value : bytes; wf_post : bytes }.

Definition render_wfield (f : wfield) : bytes :=
  wf_name f ++ COLON :: wf_pre f ++ wf_value f ++ wf_post f ++ CRLF.
Definition render_wfields (fs : list wfield) : bytes := flat_map render_wfield fs.
Definition field_of (f : wfield) : field := (wf_name f, wf_value f).

(* a field value has no leading / trailing blank (those belong to OWS) *)
Definition no_edge_ws (v : bytes) : bool :=
  match v with
  | [] => true
  | x :: _ => negb (is_sp_tab x) && negb (is_sp_tab (last v x))
  end.

(* RFC 9110 5.1 / 5.5: token name, value of VCHAR / SP / HTAB / obs-text *)
Definition field_ok (f : field) : bool :=
  negb (is_nil (fst f)) && forallb is_tchar (fst f) &&
  forallb valid_value_byte (snd f) && no_edge_ws (snd f).

Definition wfield_ok (f : wfield) : bool :=
  field_ok (field_of f) && forallb is_sp_tab (wf_pre f) && forallb is_sp_tab (wf_post f).

(* ---------- status line ---------- *)

Definition H11 : bytes := bs "HTTP/1.1".

Definition code_text (code : Z) : bytes := dec_of_N (Z.to_N code).

Definition render_status_line (code : Z) (reason : bytes) : bytes :=
  H11 ++ SP :: code_text code ++ SP :: reason ++ CRLF.

Definition reason_ok (reason : bytes) : bool :=
  negb (mem_byte LF reason) && negb (mem_byte CR reason).

(* status line + header section + blank line *)
Definition render_head (code : Z) (reason : bytes) (fs : list wfield) : bytes :=
  render_status_line code reason ++ render_wfields fs ++ CRLF.

(* ---------- the abstract response ---------- *)

Record aresp := {
  a_code : Z;
  a_reason : bytes;
  a_fields : list field;      (* end-to-end header fields, emission order *)
  a_trailers : list field;    (* trailer fields, emission order *)
  a_body : bytes
}.

(* what the caller must end up with, whatever the protocol and framing *)
Record view := {
  v_code : Z;
  v_header : hmap;
  v_trailer : hmap;
  v_body : bytes
}.

Definition view_of (a : aresp) : view :=
  {| v_code := a_code a; v_header := collect (a_fields a);
     v_trailer := collect (a_trailers a); v_body := a_body a |}.

(* Go maps are unordered: two header multimaps are the same when every key has the same
   value list *)
Definition hmap_same (a b : hmap) : Prop := forall k, hget k a = hget k b.

(* ---------- framing fields of an HTTP/1.1 message ---------- *)

(* names with a meaning for the HTTP/1.1 connection or framing: never part of a_fields *)
Definition h1_reserved (k : bytes) : bool :=
  bytes_eqb k K_CONNECTION || bytes_eqb k K_TE || bytes_eqb k K_CL || bytes_eqb k K_TRAILER ||
  bytes_eqb k K_PRAGMA.

Definition end_to_end (fs : list field) : bool :=
  forallb (fun f => negb (h1_reserved (canon_name (fst f)))) fs.
