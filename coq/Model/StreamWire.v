(* Model/StreamWire.v - C03: response bodies on multiplexed streams, at the level of the BYTES
   the peer put on the stream / connection before it ended (Model/StreamBody.v is the level
   of frame events).

   HTTP/3 (internal/http3/body.go hijackableBody/body.Read over http_stream.go stream.Read
   over frames.go frameParser.ParseNext): [h3_wire_read] is io.ReadAll(resp.Body) on a
   response stream that delivered exactly the bytes [s] behind the response HEADERS frame and
   then ended by FIN, RESET_STREAM or CONNECTION_CLOSE.  Frame headers are two QUIC varints
   (Model/QuicVarint.v vi_read = quicvarint.Read), DATA frames feed the body under the
   Content-Length accounting, a HEADERS frame is the trailer section (opaque: its field
   section is handed to qpack and taken to be valid), reserved types and SETTINGS are
   refused, every other type is skipped.

   HTTP/2 (internal/http2/frame.go ReadFrame = Model/H2Frame.v read_frame; transport.go
   clientConnReadLoop.run dispatch): [h2_wire_events] turns the bytes the connection
   delivered after the response HEADERS of stream [sid] into the stream's events.
   No proofs here. *)
From ReqV Require Export Lib.Bytes Model.BodyFraming Model.StreamBody Model.QuicVarint.
From ReqV Require Gen.H2Consts Model.H2Frame.
Local Open Scope N_scope.

(* ------------------------------- HTTP/3 ------------------------------- *)
Inductive h3end := EndFin | EndReset | EndConnClose.

(* terminal condition of a read-to-end: one of StreamBody's, or a frame the reader refuses *)
Inductive h3wres :=
| W3 (e : h3err)
| W3RefusedConn     (* reserved / SETTINGS frame on a request stream: the reader also closes
                       the connection (H3_FRAME_UNEXPECTED) *)
| W3RefusedStream.  (* DATA or HEADERS after the trailer section, oversized SETTINGS frame *)

Definition h3wres_eqb (a b : h3wres) : bool :=
  match a, b with
  | W3 x, W3 y => h3err_eqb x y
  | W3RefusedConn, W3RefusedConn | W3RefusedStream, W3RefusedStream => true
  | _, _ => false
  end.

(* the stream runs dry between two frames.  [strict] = the repaired code (see h3_read) *)
Definition h3_end_boundary (strict : bool) (rem : option N) (e : h3end) : h3err :=
  match e with
  | EndFin => match rem with
              | Some m => if (0 <? m) && strict then H3UnexpectedEOF else H3Clean
              | None => H3Clean
              end
  | EndReset => H3ResetErr
  | EndConnClose => H3ConnErr
  end.

(* the stream runs dry inside a frame (header or payload) *)
Definition h3_end_inside (strict : bool) (e : h3end) : h3err :=
  match e with
  | EndFin => if strict then H3UnexpectedEOF else H3Clean
  | EndReset => H3ResetErr
  | EndConnClose => H3ConnErr
  end.

(* frame types of frames.go ParseNext as seen from stream.Read *)
Definition h3t_data : N := 0.
Definition h3t_headers : N := 1.
Definition h3t_settings : N := 4.
Definition h3t_reserved (t : N) : bool := (t =? 2) || (t =? 6) || (t =? 8) || (t =? 9).

Definition add_data (d : bytes) (r : bytes * h3wres) : bytes * h3wres := (d ++ fst r, snd r).

(* one turn per frame; every frame header has at least 2 bytes: fuel = length + 1.
   [trl]: the trailer section was seen (stream.parsedTrailer). *)
Fixpoint h3_wire_loop (fuel : nat) (strict : bool) (rem : option N) (trl : bool)
         (s : bytes) (e : h3end) : bytes * h3wres :=
  match fuel with
  | O => ([], W3 H3Pending)
  | S f =>
    match vi_read s with
    | None =>        (* quicvarint.Read hit the end of the stream: before the first byte of a
                        frame (between two frames) or inside the frame type *)
        ([], W3 (match s with
                 | [] => h3_end_boundary strict rem e
                 | _ => h3_end_inside strict e
                 end))
    | Some (t, s1) =>
      match vi_read s1 with
      | None => ([], W3 (h3_end_inside strict e))
      | Some (l, s2) =>
        let p := firstn (N.to_nat l) s2 in
        let got := lenN p in
        let s3 := skipn (N.to_nat l) s2 in
        if t =? h3t_data then
          if trl then ([], W3RefusedStream)
          else if l =? 0 then h3_wire_loop f strict rem trl s3 e
          else match rem with
               | None =>
                   if got <? l then (p, W3 (h3_end_inside strict e))
                   else add_data p (h3_wire_loop f strict None trl s3 e)
               | Some m =>
                   if m <? l then
                     if m <=? got then (firstn (N.to_nat m) p, W3 H3TooMuch)
                     else (p, W3 (h3_end_inside strict e))
                   else if got <? l then (p, W3 (h3_end_inside strict e))
                   else add_data p (h3_wire_loop f strict (Some (m - l)) trl s3 e)
               end
        else if t =? h3t_headers then
          if trl then ([], W3RefusedStream)
          else if got <? l then ([], W3 (h3_end_inside strict e))
          else h3_wire_loop f strict rem true s3 e
        else if t =? h3t_settings then
          (* parseSettingsFrame: over 8 KiB -> an error of the read; payload cut short -> a
             truncated frame; whole (payload taken to be a valid SETTINGS list) -> the reader
             refuses the frame and closes the connection *)
          if 8192 <? l then ([], W3RefusedStream)
          else if got <? l then ([], W3 (h3_end_inside strict e))
          else ([], W3RefusedConn)
        else if h3t_reserved t then ([], W3RefusedConn)
        else if got <? l then ([], W3 (h3_end_inside strict e))     (* io.CopyN runs short *)
        else h3_wire_loop f strict rem trl s3 e
      end
    end
  end.

Definition h3_wire_read (strict : bool) (cl : option N) (s : bytes) (e : h3end) : bytes * h3wres :=
  h3_wire_loop (S (length s)) strict cl false s e.

(* the connection stays usable for the next request unless the peer closed it or the reader
   refused a frame the code answers with CONNECTION_CLOSE (H3_FRAME_UNEXPECTED) *)
Definition h3_conn_usable (e : h3end) (r : h3wres) : bool :=
  match e, r with
  | EndConnClose, _ => false
  | _, W3RefusedConn => false
  | _, _ => true
  end.

(* the events of StreamBody.h3ev a wire stands for are defined on the rendering side
   (Proofs/StreamWireProofs.v: h3_render_events), where the refinement
   h3_wire_read = h3_read is proved. *)

(* ------------------------------- HTTP/2 ------------------------------- *)
(* The bytes the connection delivered after the response HEADERS of stream [sid], as the
   read loop sees them (H2Frame.read_frames stops at the first EOF-class error - the connection
   ended at a frame boundary or inside a frame).  Frames of other streams and
   connection-level frames that do not end the stream (SETTINGS, PING, WINDOW_UPDATE,
   PRIORITY, unknown types) are no events of this stream. *)
Fixpoint h2_events_of (sid : N) (goaway : bool) (rs : list (H2Frame.res H2Frame.frame)) : list h2ev :=
  match rs with
  | [] => []
  | r :: rest =>
    match r with
    | H2Frame.Ok (H2Frame.FData h d) =>
        if H2Frame.fh_sid h =? sid then H2Data d (H2Frame.has_flag (H2Frame.fh_flags h) H2Consts.FlagDataEndStream) :: h2_events_of sid goaway rest
        else h2_events_of sid goaway rest
    | H2Frame.Ok (H2Frame.FHeaders h _ _) =>
        if (H2Frame.fh_sid h =? sid) && H2Frame.has_flag (H2Frame.fh_flags h) H2Consts.FlagHeadersEndStream
        then H2Trailers :: h2_events_of sid goaway rest
        else h2_events_of sid goaway rest
    | H2Frame.Ok (H2Frame.FRst h code) =>
        if H2Frame.fh_sid h =? sid then H2Rst code :: h2_events_of sid goaway rest
        else h2_events_of sid goaway rest
    | H2Frame.Ok (H2Frame.FGoAway _ last _ _) =>
        (* a GOAWAY that does not cover the stream aborts it at once (errClientConnGotGoAway,
           rendered here by the same event); one that covers it turns the later end of the
           connection into a GoAwayError (clientConnReadLoop.cleanup) *)
        if last <? sid then [H2GoAwayClose] else h2_events_of sid true rest
    | H2Frame.Ok _ => h2_events_of sid goaway rest
    | H2Frame.Err _ =>
        (* EOF-class: the connection ended (at a frame boundary or inside a frame).  Any other
           frame error ends the read loop with a connection error that aborts every stream;
           malformed frames are C05's subject and are not told apart here. *)
        [if goaway then H2GoAwayClose else H2ConnEnd]
    end
  end.

Definition h2_wire_events (sid max_read : N) (s : bytes) : list h2ev :=
  h2_events_of sid false (H2Frame.read_frames (S (length s)) {| H2Frame.rs_last := 0; H2Frame.rs_max := max_read |} s).
