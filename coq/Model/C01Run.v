(* Model/C01Run.v - case type and checker evaluated on harness-generated cases (C01) *)
From ReqV Require Export Lib.Bytes Model.Url Model.H1Req Model.H2Body.

Inductive c01_case :=
(* url.PathEscape / url.QueryEscape of v, and url.PathUnescape / url.QueryUnescape of v *)
| EscCase (v pe qe : bytes) (pu qu : option bytes)
(* parseRequestURL + the transport's scheme/host test: None = the call failed *)
| UrlCase (base raw : bytes) (rp cp : list param) (cq rq : values)
          (obs : option (bytes * (bytes * bytes)))
(* a whole request through the real client, observed at a recording origin *)
| ReqCase (proto : nat) (a : areq) (obs : req_obs)
(* HTTP/2 body framing: the (size, EOF-with-data) schedule of the body reads and the DATA frames
   (length, END_STREAM) the peer received; the observed lengths are the allowances *)
| H2BodyCase (reads : list (nat * bool)) (frames : list (nat * bool))
(* Expect: 100-continue: the peer's answer to the head; did the whole body arrive, was the connection reused *)
| ExpectCase (ans : continue_answer) (body_arrived reused : bool)
(* everything an origin read off one connection, and the requests (method, target, body) it made of it *)
| SeqCase (raw : bytes) (views : list (bytes * (bytes * bytes)))
(* one Request executed several times: the header maps and cookie lists before the first execution,
   and the Cookie field value the origin saw on every attempt (retry attempts of one execution) *)
| AttemptCase (rh ch : list kv) (rck cck : list (bytes * bytes)) (cookie_seen : list bytes)
with req_obs :=
| OErr                                                      (* the call failed *)
| OH1 (head : bytes) (chunked body_same no_extra : bool)    (* raw head; body compared by the harness *)
| OH23 (fields : list line) (body_same : bool).

Definition obs3_eqb (a : bytes * (bytes * bytes)) (b : bytes * (bytes * bytes)) : bool :=
  bytes_eqb (fst a) (fst b) && bytes_eqb (fst (snd a)) (fst (snd b)) &&
  bytes_eqb (snd (snd a)) (snd (snd b)).

Definition sorted_lines (ls : list line) : list line := sort_le (line_leb true) ls.

(* the h1 reader of the theorems, run on the real head followed by the body *)
Definition observe_tie (a : areq) (q : creq) (head : bytes) : bool :=
  if (600 <? length (a_body a))%nat then true else
  let body := match eff_kind a with BNone => [] | _ => a_body a end in
  match observe_h1 (head ++ body) with
  | Some (v, rest) => bytes_eqb (v_method v) (c_method q) && bytes_eqb (v_target v) (c_path q) &&
                      bytes_eqb (v_body v) body && bytes_eqb rest []
  | None => false
  end.

Definition req_check_h1 (a : areq) (obs : req_obs) : bool :=
  match to_creq a with
  | Unsupported => false
  | Rejected => match obs with OErr => true | _ => false end
  | Sent q =>
      let body := eff_body a in
      match h1_head q body, obs with
      | Rejected, OErr => true
      | Sent hd, OH1 head chunked same noextra =>
          bytes_eqb hd head && Bool.eqb (h1_chunked q body) chunked && same && noextra &&
          (if chunked then true else observe_tie a q head)
      | _, _ => false
      end
  end.

Definition h23_lines (proto : nat) (q : creq) : list line :=
  match proto with 2 => h2_lines q | _ => h3_lines q end.

Definition req_check (proto : nat) (a : areq) (obs : req_obs) : bool :=
  match proto with
  | 1 => req_check_h1 a obs
  | _ => match (match proto with 2 => fields_h2 a | _ => fields_h3 a end), obs with
         | Rejected, OErr => true
         | Sent ls, OH23 fields same => list_eqb line_eqb (sorted_lines ls) (sorted_lines fields) && same
         | _, _ => false
         end
  end.

Definition c01_check (c : c01_case) : bool :=
  match c with
  | EscCase v pe qe pu qu =>
      bytes_eqb (path_escape v) pe && bytes_eqb (query_escape v) qe &&
      opt_bytes_eqb (unescape EPathSeg v) pu && opt_bytes_eqb (unescape EQuery v) qu
  | UrlCase base raw rp cp cq rq obs =>
      match parse_request_url base raw rp cp cq rq, obs with
      | BOk s h t, Some o => obs3_eqb (s, (h, t)) o
      | BErr, None => true
      | _, _ => false
      end
  | ReqCase proto a obs => req_check proto a obs
  | ExpectCase ans arrived reused =>
      Bool.eqb (expect_sends_body false ans) arrived &&
      (negb reused || conn_reusable_after false ans)
  | AttemptCase rh ch rck cck seen =>
      let st0 := mkRs rh rck in
      list_eqb (fun k o => bytes_eqb (header_get (attempt_header (after_attempts ch cck k st0)) (bs "Cookie")) o)
               (seq 0 (length seen)) seen
  | SeqCase raw views =>
      match observe_seq (length views) raw with
      | Some (vs, rest) =>
          bytes_eqb rest [] &&
          list_eqb (fun v o => bytes_eqb (v_method v) (fst o) && bytes_eqb (v_target v) (fst (snd o)) &&
                               bytes_eqb (v_body v) (snd (snd o))) vs views
      | None => false
      end
  | H2BodyCase reads frames =>
      let rs := map (fun r => (repeat x00 (fst r), snd r)) reads in
      let fs := h2_body_frames rs (map fst frames) in
      list_eqb (fun f o => Nat.eqb (length (fst f)) (fst o) && Bool.eqb (snd f) (snd o)) fs frames
  end.
