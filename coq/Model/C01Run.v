(* Model/C01Run.v - case type and checker evaluated on harness-generated cases (C01) *)
From ReqV Require Export Lib.Bytes Model.Url.

Inductive c01_case :=
(* url.PathEscape / url.QueryEscape of v, and url.PathUnescape / url.QueryUnescape of v *)
| EscCase (v pe qe : bytes) (pu qu : option bytes)
(* parseRequestURL + the transport's scheme/host test: None = the call failed *)
| UrlCase (base raw : bytes) (rp cp : list param) (cq rq : values)
          (obs : option (bytes * (bytes * bytes))).

Definition obs3_eqb (a : bytes * (bytes * bytes)) (b : bytes * (bytes * bytes)) : bool :=
  bytes_eqb (fst a) (fst b) && bytes_eqb (fst (snd a)) (fst (snd b)) &&
  bytes_eqb (snd (snd a)) (snd (snd b)).

Definition c01_check (c : c01_case) : bool :=
  match c with
  | EscCase v pe qe pu qu =>
      bytes_eqb (path_escape v) pe && bytes_eqb (query_escape v) qe &&
      opt_bytes_eqb (unescape EPathSeg v) pu && opt_bytes_eqb (unescape EQuery v) qu
  | UrlCase base raw rp cp cq rq obs =>
      match parse_request_url base raw rp cp cq rq, obs with
      | BOk s h t, Some o => obs3_eqb (s, (h, t)) o
      | BErr, None => true
      | _, _ => false
      end
  end.
