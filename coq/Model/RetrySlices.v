(* Model/RetrySlices.v - C10: the storage of retry conditions / hooks across the client and the
   requests built from it.

   Modelled Go: a slice value = (backing array, len, cap); retry.go retryOption.Clone (run by
   Client.R() for every request), the Set*/Add* retry setters of client.go / request.go on the
   RetryConditions / RetryHooks field:
     Add:  ro.X = append(ro.X, f)   - writes IN PLACE into the backing array when len < cap,
                                      otherwise allocates a larger array and copies
     Set:  ro.X = []T{f}            - a fresh one-element array
     Clone (deep):    o.X = append(o.X (nil), ro.X...)  - a fresh array (or nil for an empty source)
     Clone (shallow): o := *ro      - the same (array, len, cap): the seeded variant
   Which of the two Clone does is regenerated from the source by gosync (Gen/RetryClone.v).
   Elements are the identities of the functions (Z).  The growth policy of append is a
   parameter ([grow old_cap needed]); nothing proved depends on it.  No proofs here. *)
From ReqV Require Export Lib.Bytes.

Record slice := mkSl { sl_arr : nat; sl_len : nat; sl_cap : nat }.

(* backing arrays; cell 0 is the empty array every nil slice points to *)
Definition heap := list (list Z).
Definition nil_slice : slice := mkSl 0 0 0.
Definition heap0 : heap := [[]].

Fixpoint set_nth {A} (n : nat) (x : A) (l : list A) : list A :=
  match l, n with
  | [], _ => []
  | _ :: r, O => x :: r
  | y :: r, S n' => y :: set_nth n' x r
  end.

(* what the slice denotes *)
Definition sl_view (h : heap) (s : slice) : list Z := firstn (sl_len s) (nth (sl_arr s) h []).

Inductive clone_mode := CloneDeep | CloneShallow.

Section Slices.
Variable grow : nat -> nat -> nat.

(* append(s, x) *)
Definition sl_append (h : heap) (s : slice) (x : Z) : heap * slice :=
  if (sl_len s <? sl_cap s)%nat then
    (set_nth (sl_arr s) (set_nth (sl_len s) x (nth (sl_arr s) h [])) h,
     mkSl (sl_arr s) (S (sl_len s)) (sl_cap s))
  else
    let nc := Nat.max (S (sl_len s)) (grow (sl_cap s) (S (sl_len s))) in
    (h ++ [sl_view h s ++ [x] ++ repeat 0%Z (nc - S (sl_len s))], mkSl (length h) (S (sl_len s)) nc).

(* []T{x} *)
Definition sl_single (h : heap) (x : Z) : heap * slice := (h ++ [[x]], mkSl (length h) 1 1).

(* append(nil, s...) *)
Definition sl_copy (h : heap) (s : slice) : heap * slice :=
  match sl_len s with
  | O => (h, nil_slice)
  | S _ =>
      let nc := Nat.max (sl_len s) (grow 0 (sl_len s)) in
      (h ++ [sl_view h s ++ repeat 0%Z (nc - sl_len s)], mkSl (length h) (sl_len s) nc)
  end.

Definition sl_clone (mode : clone_mode) (h : heap) (s : slice) : heap * slice :=
  match mode with
  | CloneDeep => sl_copy h s
  | CloneShallow => (h, s)
  end.

(* the option slots of one client: slot 0 = the client's own option, slot i+1 = the i-th
   request built from it.  SNew = Client.R(). *)
Inductive sop :=
| SAdd (k : nat) (x : Z)
| SSet (k : nat) (x : Z)
| SNew.

Definition world := (heap * list slice)%type.
Definition world0 : world := (heap0, [nil_slice]).

Definition wstep (mode : clone_mode) (w : world) (op : sop) : world :=
  match op with
  | SAdd k x =>
      if (k <? length (snd w))%nat then
        let r := sl_append (fst w) (nth k (snd w) nil_slice) x in (fst r, set_nth k (snd r) (snd w))
      else w
  | SSet k x =>
      if (k <? length (snd w))%nat then
        let r := sl_single (fst w) x in (fst r, set_nth k (snd r) (snd w))
      else w
  | SNew =>
      let r := sl_clone mode (fst w) (nth 0 (snd w) nil_slice) in (fst r, snd w ++ [snd r])
  end.

Definition wrun (mode : clone_mode) (ops : list sop) (w : world) : world := fold_left (wstep mode) ops w.

Definition views (w : world) : list (list Z) := map (sl_view (fst w)) (snd w).
End Slices.

(* what the caller means: every slot is a list of its own; a new request starts from a COPY of
   the client's list *)
Definition pstep (p : list (list Z)) (op : sop) : list (list Z) :=
  match op with
  | SAdd k x => if (k <? length p)%nat then set_nth k (nth k p [] ++ [x]) p else p
  | SSet k x => if (k <? length p)%nat then set_nth k [x] p else p
  | SNew => p ++ [nth 0 p []]
  end.
Definition prun (ops : list sop) (p : list (list Z)) : list (list Z) := fold_left pstep ops p.

(* Go's growth for small slices of pointer-sized elements, used when the model is run on
   harness cases (any other policy gives the same views under the deep clone) *)
Definition go_grow (old needed : nat) : nat := Nat.max needed (2 * old).
