(* Model/H2Monitor.v - the bookkeeping a STRICT HTTP/2 server keeps about one connection
   (RFC 9113): the windows it granted (per stream and connection, incl. the 6.9.2 delta rule
   when it changes INITIAL_WINDOW_SIZE - windows may go negative), the limits it advertised
   (MAX_FRAME_SIZE, MAX_CONCURRENT_STREAMS; a changed value binds the client once the client
   has acknowledged the SETTINGS frame carrying it, until then the larger of old/new is
   tolerated), open/closed streams, header-block contiguity, SETTINGS acknowledgements, and the
   credit the client granted in the other direction.

   `monitor_step` judges one frame; it is written independently of the client machine
   (Model/H2Conn.v).  The theorems (Proofs/H2ConnProofs.v) say that it accepts every frame the
   client machine can emit in any interleaving; Model/C06Run.v runs the same function over the
   traces recorded from the real client by the strict peer of the harness.  No proofs here. *)
From Coq Require Import ZArith Bool List.
Import ListNotations.
Open Scope Z_scope.

Inductive frame :=
| FSettings (kvs : list (Z * Z))
| FSettingsAck
| FWindowUpdate (sid inc : Z)
| FHeaders (sid len : Z) (end_headers end_stream : bool)
| FContinuation (sid len : Z) (end_headers : bool)
| FData (sid len : Z) (end_stream : bool)
| FRst (sid : Z)
| FPriority (sid : Z)
| FPing (ack : bool)
| FGoAway (last code : Z)
| FOther (typ sid len : Z).

(* C f: the client sent f (seen by the peer); P f: the peer sent f *)
Inductive ev := C (f : frame) | P (f : frame).

(* violation classes *)
Definition V_STREAM_WINDOW := 1.
Definition V_CONN_WINDOW := 2.
Definition V_FRAME_TOO_LARGE := 3.
Definition V_TOO_MANY_STREAMS := 4.
Definition V_STREAM_ID := 5.
Definition V_HEADER_BLOCK := 6.
Definition V_CLOSED_STREAM := 7.
Definition V_SPURIOUS_ACK := 8.
Definition V_SETTINGS_NOT_ACKED := 9.
Definition V_IDLE_STREAM := 10.
Definition V_CLIENT_KILLED_CONN := 13.

(* SETTINGS identifiers *)
Definition S_MAX_CONCURRENT_STREAMS := 3.
Definition S_INITIAL_WINDOW_SIZE := 4.
Definition S_MAX_FRAME_SIZE := 5.

Record mstream := mkMS {
  ms_id : Z;
  ms_win : Z;            (* send window the peer granted the client on this stream *)
  ms_recv : Z;           (* window the client granted the peer on this stream *)
  ms_cli_closed : bool;  (* client sent END_STREAM or RST_STREAM *)
  ms_cli_reset : bool;
  ms_peer_ended : bool;  (* peer sent END_STREAM *)
  ms_peer_reset : bool
}.

Definition ms_closed (s : mstream) : bool :=
  ms_cli_reset s || ms_peer_reset s || (ms_cli_closed s && ms_peer_ended s).

Record mon := mkMon {
  m_max_frame : Z;                 (* acknowledged values *)
  m_init_win : Z;
  m_max_streams : option Z;        (* None = unlimited *)
  m_pending : list (list (Z * Z)); (* SETTINGS sent by the peer, not yet acknowledged; oldest first *)
  m_conn_win : Z;                  (* connection send window granted to the client *)
  m_streams : list mstream;        (* every stream ever opened, newest first *)
  m_last_sid : Z;
  m_hdr_open : Z;                  (* stream with an unfinished header block, 0 = none *)
  m_sent : Z;                      (* peer SETTINGS sent / acknowledged *)
  m_acked : Z;
  m_pings : list Z;                (* per outstanding peer PING: value of m_sent when it was sent *)
  m_c_conn_win : Z;                (* what the client granted the peer: connection / initial stream *)
  m_c_init_win : Z
}.

Definition mon0 : mon :=
  mkMon 16384 65535 None [] 65535 [] 0 0 0 0 [] 65535 65535.

Definition set_streams (m : mon) (l : list mstream) : mon :=
  mkMon (m_max_frame m) (m_init_win m) (m_max_streams m) (m_pending m) (m_conn_win m) l
        (m_last_sid m) (m_hdr_open m) (m_sent m) (m_acked m) (m_pings m) (m_c_conn_win m) (m_c_init_win m).
Definition set_conn_win (m : mon) (w : Z) : mon :=
  mkMon (m_max_frame m) (m_init_win m) (m_max_streams m) (m_pending m) w (m_streams m)
        (m_last_sid m) (m_hdr_open m) (m_sent m) (m_acked m) (m_pings m) (m_c_conn_win m) (m_c_init_win m).
Definition set_hdr_open (m : mon) (h : Z) : mon :=
  mkMon (m_max_frame m) (m_init_win m) (m_max_streams m) (m_pending m) (m_conn_win m) (m_streams m)
        (m_last_sid m) h (m_sent m) (m_acked m) (m_pings m) (m_c_conn_win m) (m_c_init_win m).
Definition set_c_conn_win (m : mon) (w : Z) : mon :=
  mkMon (m_max_frame m) (m_init_win m) (m_max_streams m) (m_pending m) (m_conn_win m) (m_streams m)
        (m_last_sid m) (m_hdr_open m) (m_sent m) (m_acked m) (m_pings m) w (m_c_init_win m).

Fixpoint find_ms (sid : Z) (l : list mstream) : option mstream :=
  match l with
  | [] => None
  | s :: r => if ms_id s =? sid then Some s else find_ms sid r
  end.

Definition upd_ms (sid : Z) (f : mstream -> mstream) (l : list mstream) : list mstream :=
  map (fun s => if ms_id s =? sid then f s else s) l.

Definition ms_add_win (d : Z) (s : mstream) : mstream :=
  mkMS (ms_id s) (ms_win s + d) (ms_recv s) (ms_cli_closed s) (ms_cli_reset s) (ms_peer_ended s) (ms_peer_reset s).
Definition ms_add_recv (d : Z) (s : mstream) : mstream :=
  mkMS (ms_id s) (ms_win s) (ms_recv s + d) (ms_cli_closed s) (ms_cli_reset s) (ms_peer_ended s) (ms_peer_reset s).
Definition ms_set_cli_closed (s : mstream) : mstream :=
  mkMS (ms_id s) (ms_win s) (ms_recv s) true (ms_cli_reset s) (ms_peer_ended s) (ms_peer_reset s).
Definition ms_set_cli_reset (s : mstream) : mstream :=
  mkMS (ms_id s) (ms_win s) (ms_recv s) true true (ms_peer_ended s) (ms_peer_reset s).
Definition ms_set_peer_ended (s : mstream) : mstream :=
  mkMS (ms_id s) (ms_win s) (ms_recv s) (ms_cli_closed s) (ms_cli_reset s) true (ms_peer_reset s).
Definition ms_set_peer_reset (s : mstream) : mstream :=
  mkMS (ms_id s) (ms_win s) (ms_recv s) (ms_cli_closed s) (ms_cli_reset s) (ms_peer_ended s) true.

(* largest value of setting `id` among base and everything still pending *)
Fixpoint kvs_max (id : Z) (kvs : list (Z * Z)) (base : Z) : Z :=
  match kvs with
  | [] => base
  | (k, v) :: r => kvs_max id r (if k =? id then Z.max base v else base)
  end.
Fixpoint pending_max (id : Z) (pend : list (list (Z * Z))) (base : Z) : Z :=
  match pend with
  | [] => base
  | kvs :: r => pending_max id r (kvs_max id kvs base)
  end.

Definition max_frame_allowed (m : mon) : Z := pending_max S_MAX_FRAME_SIZE (m_pending m) (m_max_frame m).

Definition open_count (l : list mstream) : Z :=
  Z.of_nat (length (filter (fun s => negb (ms_closed s)) l)).

Definition streams_allowed (m : mon) : bool :=
  match m_max_streams m with
  | None => true
  | Some a => open_count (m_streams m) <? pending_max S_MAX_CONCURRENT_STREAMS (m_pending m) a
  end.

(* the client acknowledged the oldest pending SETTINGS frame: its values now bind *)
Definition apply_setting (m : mon) (kv : Z * Z) : mon :=
  let '(id, v) := kv in
  if id =? S_MAX_FRAME_SIZE then
    mkMon v (m_init_win m) (m_max_streams m) (m_pending m) (m_conn_win m) (m_streams m)
          (m_last_sid m) (m_hdr_open m) (m_sent m) (m_acked m) (m_pings m) (m_c_conn_win m) (m_c_init_win m)
  else if id =? S_MAX_CONCURRENT_STREAMS then
    mkMon (m_max_frame m) (m_init_win m) (Some v) (m_pending m) (m_conn_win m) (m_streams m)
          (m_last_sid m) (m_hdr_open m) (m_sent m) (m_acked m) (m_pings m) (m_c_conn_win m) (m_c_init_win m)
  else if id =? S_INITIAL_WINDOW_SIZE then
    let d := v - m_init_win m in
    mkMon (m_max_frame m) v (m_max_streams m) (m_pending m) (m_conn_win m)
          (map (fun s => if ms_closed s then s else ms_add_win d s) (m_streams m))
          (m_last_sid m) (m_hdr_open m) (m_sent m) (m_acked m) (m_pings m) (m_c_conn_win m) (m_c_init_win m)
  else m.

Definition apply_settings (m : mon) (kvs : list (Z * Z)) : mon := fold_left apply_setting kvs m.

(* the client's own SETTINGS: only its INITIAL_WINDOW_SIZE matters to the credit bookkeeping *)
Definition apply_client_setting (m : mon) (kv : Z * Z) : mon :=
  let '(id, v) := kv in
  if id =? S_INITIAL_WINDOW_SIZE then
    let d := v - m_c_init_win m in
    mkMon (m_max_frame m) (m_init_win m) (m_max_streams m) (m_pending m) (m_conn_win m)
          (map (ms_add_recv d) (m_streams m))
          (m_last_sid m) (m_hdr_open m) (m_sent m) (m_acked m) (m_pings m) (m_c_conn_win m) v
  else m.

Definition frame_len (f : frame) : option Z :=
  match f with
  | FHeaders _ l _ _ | FContinuation _ l _ | FData _ l _ | FOther _ _ l => Some l
  | _ => None
  end.

Definition is_continuation_on (f : frame) (sid : Z) : bool :=
  match f with FContinuation s _ _ => s =? sid | _ => false end.

Definition ok (m : mon) : mon + Z := inl m.
Definition bad (c : Z) : mon + Z := inr c.

(* a frame sent by the peer *)
Definition mon_peer (m : mon) (f : frame) : mon :=
  match f with
  | FSettings kvs =>
      mkMon (m_max_frame m) (m_init_win m) (m_max_streams m) (m_pending m ++ [kvs]) (m_conn_win m) (m_streams m)
            (m_last_sid m) (m_hdr_open m) (m_sent m + 1) (m_acked m) (m_pings m) (m_c_conn_win m) (m_c_init_win m)
  | FWindowUpdate sid inc =>
      if sid =? 0 then set_conn_win m (m_conn_win m + inc)
      else set_streams m (upd_ms sid (ms_add_win inc) (m_streams m))
  | FData sid len es =>
      let m1 := set_c_conn_win m (m_c_conn_win m - len) in
      set_streams m1 (upd_ms sid (fun s => let s1 := ms_add_recv (- len) s in if es then ms_set_peer_ended s1 else s1) (m_streams m1))
  | FHeaders sid _ _ es =>
      if es then set_streams m (upd_ms sid ms_set_peer_ended (m_streams m)) else m
  | FRst sid => set_streams m (upd_ms sid ms_set_peer_reset (m_streams m))
  | FPing false =>
      mkMon (m_max_frame m) (m_init_win m) (m_max_streams m) (m_pending m) (m_conn_win m) (m_streams m)
            (m_last_sid m) (m_hdr_open m) (m_sent m) (m_acked m) (m_pings m ++ [m_sent m]) (m_c_conn_win m) (m_c_init_win m)
  | _ => m
  end.

(* a frame received from the client: inl = admissible (new state), inr = violation class *)
Definition mon_client (m : mon) (f : frame) : mon + Z :=
  if negb (m_hdr_open m =? 0) && negb (is_continuation_on f (m_hdr_open m)) then bad V_HEADER_BLOCK
  else if match frame_len f with Some l => max_frame_allowed m <? l | None => false end then bad V_FRAME_TOO_LARGE
  else
  match f with
  | FSettings kvs => ok (fold_left apply_client_setting kvs m)
  | FSettingsAck =>
      match m_pending m with
      | [] => bad V_SPURIOUS_ACK
      | kvs :: rest =>
          let m1 := mkMon (m_max_frame m) (m_init_win m) (m_max_streams m) rest (m_conn_win m) (m_streams m)
                          (m_last_sid m) (m_hdr_open m) (m_sent m) (m_acked m + 1) (m_pings m) (m_c_conn_win m) (m_c_init_win m) in
          ok (apply_settings m1 kvs)
      end
  | FWindowUpdate sid inc =>
      if sid =? 0 then ok (set_c_conn_win m (m_c_conn_win m + inc))
      else ok (set_streams m (upd_ms sid (ms_add_recv inc) (m_streams m)))
  | FPriority _ => ok m
  | FPing true =>
      match m_pings m with
      | [] => ok m
      | mark :: rest =>
          if m_acked m <? mark then bad V_SETTINGS_NOT_ACKED
          else ok (mkMon (m_max_frame m) (m_init_win m) (m_max_streams m) (m_pending m) (m_conn_win m) (m_streams m)
                         (m_last_sid m) (m_hdr_open m) (m_sent m) (m_acked m) rest (m_c_conn_win m) (m_c_init_win m))
      end
  | FPing false => ok m
  | FRst sid =>
      match find_ms sid (m_streams m) with
      | None => bad V_IDLE_STREAM
      | Some _ => ok (set_streams m (upd_ms sid ms_set_cli_reset (m_streams m)))
      end
  | FHeaders sid len eh es =>
      match find_ms sid (m_streams m) with
      | Some s =>
          if ms_cli_closed s then bad V_CLOSED_STREAM
          else
            let m1 := if es then set_streams m (upd_ms sid ms_set_cli_closed (m_streams m)) else m in
            ok (if eh then m1 else set_hdr_open m1 sid)
      | None =>
          if Z.even sid || (sid <=? m_last_sid m) then bad V_STREAM_ID
          else if negb (streams_allowed m) then bad V_TOO_MANY_STREAMS
          else
            let s := mkMS sid (m_init_win m) (m_c_init_win m) es false false false in
            ok (mkMon (m_max_frame m) (m_init_win m) (m_max_streams m) (m_pending m) (m_conn_win m) (s :: m_streams m)
                      sid (if eh then 0 else sid) (m_sent m) (m_acked m) (m_pings m) (m_c_conn_win m) (m_c_init_win m))
      end
  | FContinuation sid len eh =>
      if m_hdr_open m =? 0 then bad V_HEADER_BLOCK
      else ok (if eh then set_hdr_open m 0 else m)
  | FData sid len es =>
      match find_ms sid (m_streams m) with
      | None => bad V_IDLE_STREAM
      | Some s =>
          if ms_cli_closed s then bad V_CLOSED_STREAM
          else
            let cw := m_conn_win m - len in
            if (0 <? len) && negb (ms_closed s) && (ms_win s - len <? 0) then bad V_STREAM_WINDOW
            else if (0 <? len) && (cw <? 0) then bad V_CONN_WINDOW
            else
              let upd s0 := let s1 := if ms_closed s0 then s0 else ms_add_win (- len) s0 in
                            if es then ms_set_cli_closed s1 else s1 in
              ok (set_streams (set_conn_win m cw) (upd_ms sid upd (m_streams m)))
      end
  | FGoAway _ code => if code =? 0 then ok m else bad V_CLIENT_KILLED_CONN
  | FOther _ _ _ => ok m
  end.

Definition monitor_step (m : mon) (e : ev) : mon + Z :=
  match e with
  | P f => ok (mon_peer m f)
  | C f => mon_client m f
  end.

(* first violation: (index of the event, class); None = the whole trace is admissible *)
Fixpoint monitor_run (m : mon) (evs : list ev) (idx : nat) : option (nat * Z) * mon :=
  match evs with
  | [] => (None, m)
  | e :: r =>
      match monitor_step m e with
      | inl m' => monitor_run m' r (S idx)
      | inr c => (Some (idx, c), m)
      end
  end.

Definition accepts (m : mon) (evs : list ev) : bool :=
  match fst (monitor_run m evs 0) with None => true | Some _ => false end.
