(* Model/AuthReexec.v - C20: ONE Request object executed several times while credentials are set
   in between - on the client (SetCommonBasicAuth / SetCommonBearerAuthToken: Client.Headers) and
   on the request (SetBasicAuth / SetBearerAuthToken: Request.Headers).  middleware.go
   parseRequestHeader merges the client's header into the request when the request has none and
   remembers the merged slice; request.go unmergeClientSettings takes it back at the next
   execution iff that very slice is still in place (slice identity: a request-level Set installs
   a new slice, also one with an equal value).  No proofs here. *)
From ReqV Require Export Lib.Bytes Model.Base64.

Inductive auth_op :=
| CBasic (u p : bytes)      (* Client.SetCommonBasicAuth *)
| CBearer (t : bytes)       (* Client.SetCommonBearerAuthToken *)
| RBasic (u p : bytes)      (* Request.SetBasicAuth *)
| RBearer (t : bytes)       (* Request.SetBearerAuthToken *)
| Send                      (* Request.Do: unmerge, merge, transmit *)
| SendR.                    (* Request.Do whose first attempt gets a retryable result: two attempts *)

(* Request.Headers["Authorization"]: the value and whether the slice is the one the last
   execution merged from the client; Request.RetryAttempt as the last execution left it *)
Record rq_state := mkRq { st_client : option bytes; st_req : option (bytes * bool); st_attempt : nat }.

Definition rq_init : rq_state := mkRq None None 0.

(* [still_merged cur merged_flag]: unmergeClientSettings' test on the current slice *)
Definition unmerge_identity (cur : option (bytes * bool)) : option (bytes * bool) :=
  match cur with
  | Some (_, true) => None      (* the merged slice is still in place: delete *)
  | x => x
  end.

(* unmergeClientSettings also resets RetryAttempt - always (the code); a seeded change returned
   early when nothing had been merged, leaving RetryAttempt as it was *)
Definition reset_always (s : rq_state) : nat := 0.
Definition reset_if_merged (s : rq_state) : nat :=
  match st_req s with Some (_, true) => 0 | _ => st_attempt s end.

(* parseRequestHeader: the client's header is merged while RetryAttempt = 0, if the request has none *)
Definition merge_header (attempt : nat) (client : option bytes) (r : option (bytes * bool)) : option (bytes * bool) :=
  match attempt, r with
  | O, None => match client with Some c => Some (c, true) | None => None end
  | _, x => x
  end.

(* one execution: take back, reset, then per attempt merge and transmit *)
Definition rq_send_with (unmerge : option (bytes * bool) -> option (bytes * bool)) (reset : rq_state -> nat)
           (retried : bool) (s : rq_state) : list (option bytes) * rq_state :=
  let a0 := reset s in
  let r1 := unmerge (st_req s) in
  let r2 := merge_header a0 (st_client s) r1 in
  if retried
  then let r3 := merge_header (S a0) (st_client s) r2 in
       ([option_map fst r2; option_map fst r3], mkRq (st_client s) r3 (S a0))
  else ([option_map fst r2], mkRq (st_client s) r2 a0).

Definition rq_step_with unmerge reset (s : rq_state) (o : auth_op) : list (option bytes) * rq_state :=
  match o with
  | CBasic u p => ([], mkRq (Some (basic_header u p)) (st_req s) (st_attempt s))
  | CBearer t => ([], mkRq (Some (bearer_header t)) (st_req s) (st_attempt s))
  | RBasic u p => ([], mkRq (st_client s) (Some (basic_header u p, false)) (st_attempt s))
  | RBearer t => ([], mkRq (st_client s) (Some (bearer_header t, false)) (st_attempt s))
  | Send => rq_send_with unmerge reset false s
  | SendR => rq_send_with unmerge reset true s
  end.

(* the Authorization header of every transmission, in order (None = no header) *)
Fixpoint rq_run_with unmerge reset (s : rq_state) (ops : list auth_op) : list (option bytes) :=
  match ops with
  | [] => []
  | o :: r => let '(out, s') := rq_step_with unmerge reset s o in out ++ rq_run_with unmerge reset s' r
  end.
Definition rq_run := rq_run_with unmerge_identity reset_always.

(* ---------- what must be transmitted: the credentials given ---------- *)

(* latest request-level credential if any was ever set on the request, else the client's current *)
Record spec_state := mkSp { sp_client : option bytes; sp_req : option bytes }.
Definition spec_step (s : spec_state) (o : auth_op) : spec_state :=
  match o with
  | CBasic u p => mkSp (Some (basic_header u p)) (sp_req s)
  | CBearer t => mkSp (Some (bearer_header t)) (sp_req s)
  | RBasic u p => mkSp (sp_client s) (Some (basic_header u p))
  | RBearer t => mkSp (sp_client s) (Some (bearer_header t))
  | Send | SendR => s
  end.
Definition spec_sent (s : spec_state) : option bytes :=
  match sp_req s with Some h => Some h | None => sp_client s end.
Fixpoint spec_run (s : spec_state) (ops : list auth_op) : list (option bytes) :=
  match ops with
  | [] => []
  | Send :: r => spec_sent s :: spec_run s r
  | SendR :: r => spec_sent s :: spec_sent s :: spec_run s r   (* the retry sends what the first attempt sent *)
  | o :: r => spec_run (spec_step s o) r
  end.

(* a seeded change compared VALUES: a request-level value equal to what was merged last time
   counts as "still the client's" ([last] = the value merged by the previous execution) *)
Record rqv_state := mkRqv { sv_client : option bytes; sv_req : option bytes; sv_merged : option bytes }.
Fixpoint rqv_run (s : rqv_state) (ops : list auth_op) : list (option bytes) :=
  match ops with
  | [] => []
  | CBasic u p :: r => rqv_run (mkRqv (Some (basic_header u p)) (sv_req s) (sv_merged s)) r
  | CBearer t :: r => rqv_run (mkRqv (Some (bearer_header t)) (sv_req s) (sv_merged s)) r
  | RBasic u p :: r => rqv_run (mkRqv (sv_client s) (Some (basic_header u p)) (sv_merged s)) r
  | RBearer t :: r => rqv_run (mkRqv (sv_client s) (Some (bearer_header t)) (sv_merged s)) r
  | SendR :: r => rqv_run s r   (* not used with this variant *)
  | Send :: r =>
      let r1 := match sv_req s, sv_merged s with
                | Some cur, Some m => if bytes_eqb cur m then None else Some cur
                | x, _ => x
                end in
      match r1 with
      | Some h => Some h :: rqv_run (mkRqv (sv_client s) (Some h) None) r
      | None => sv_client s :: rqv_run (mkRqv (sv_client s) (sv_client s) (sv_client s)) r
      end
  end.

(* ---------- several clients: Client.Clone and credential setters on either ---------- *)

(* Client.Headers is a map the client owns; Transport.Clone gives the clone a COPY.  Clients are
   numbered in order of creation (0 = the first one); [heap] holds the Authorization entry of
   every header map ever allocated, [owner i] = the map client i uses. *)
Inductive cl_op :=
| KBasic (i : nat) (u p : bytes)   (* client i: SetCommonBasicAuth *)
| KBearer (i : nat) (t : bytes)    (* client i: SetCommonBearerAuthToken *)
| KClone (i : nat)                 (* a new client := client i .Clone() *)
| KSend (i : nat).                 (* client i sends a fresh request *)

Record cl_state := mkCl { cl_heap : list (option bytes); cl_owner : list nat }.
Definition cl_init : cl_state := mkCl [None] [0].

Fixpoint set_nth {A} (n : nat) (x : A) (l : list A) : list A :=
  match l, n with
  | [], _ => []
  | _ :: r, O => x :: r
  | y :: r, S m => y :: set_nth m x r
  end.

Definition cl_get (s : cl_state) (i : nat) : option bytes := nth (nth i (cl_owner s) 0) (cl_heap s) None.
Definition cl_set (s : cl_state) (i : nat) (h : bytes) : cl_state :=
  mkCl (set_nth (nth i (cl_owner s) 0) (Some h) (cl_heap s)) (cl_owner s).

(* [share]: false = the code (the clone's map is a new copy); true = a seeded change (same map) *)
Definition cl_clone (share : bool) (s : cl_state) (i : nat) : cl_state :=
  if share then mkCl (cl_heap s) (cl_owner s ++ [nth i (cl_owner s) 0])
  else mkCl (cl_heap s ++ [cl_get s i]) (cl_owner s ++ [length (cl_heap s)]).

Fixpoint cl_run_with (share : bool) (s : cl_state) (ops : list cl_op) : list (option bytes) :=
  match ops with
  | [] => []
  | KBasic i u p :: r => cl_run_with share (cl_set s i (basic_header u p)) r
  | KBearer i t :: r => cl_run_with share (cl_set s i (bearer_header t)) r
  | KClone i :: r => cl_run_with share (cl_clone share s i) r
  | KSend i :: r => cl_get s i :: cl_run_with share s r
  end.
Definition cl_run := cl_run_with false.

(* what must be transmitted: each client has its own credential; a clone starts with a copy *)
Fixpoint cls_run (creds : list (option bytes)) (ops : list cl_op) : list (option bytes) :=
  match ops with
  | [] => []
  | KBasic i u p :: r => cls_run (set_nth i (Some (basic_header u p)) creds) r
  | KBearer i t :: r => cls_run (set_nth i (Some (bearer_header t)) creds) r
  | KClone i :: r => cls_run (creds ++ [nth i creds None]) r
  | KSend i :: r => nth i creds None :: cls_run creds r
  end.

(* every client index an operation names exists at that point *)
Fixpoint ops_ok (n : nat) (ops : list cl_op) : bool :=
  match ops with
  | [] => true
  | KBasic i _ _ :: r | KBearer i _ :: r | KSend i :: r => Nat.ltb i n && ops_ok n r
  | KClone i :: r => Nat.ltb i n && ops_ok (S n) r
  end.
