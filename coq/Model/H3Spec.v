(* Model/H3Spec.v - which received HTTP/3 field sections are well-formed, transcribed from the RFC
   text (RFC 9114 §4.1.2, §4.2, §4.3, §4.3.1, §4.3.2; RFC 9220 for :protocol; RFC 9110 §5.1, §5.5,
   §5.6.2 for what a field name / value may contain, §8.6 for Content-Length).  Declarative: written
   without reference to parseHeaders or its loop.  The Content-Length clause is NOT part of
   §4.2-4.3; it records what the code does on top (see design.d/C05.md). *)
From ReqV Require Import Lib.Bytes Lib.BigEndian.
Open Scope N_scope.

Definition rfield := (bytes * bytes)%type.

(* RFC 9110 §5.6.2: tchar *)
Definition rfc_tchar (b : byte) : Prop :=
  In b (bs "!#$%&'*+-.^_`|~0123456789abcdefghijklmnopqrstuvwxyzABCDEFGHIJKLMNOPQRSTUVWXYZ").
Definition rfc_upper (b : byte) : Prop := In b (bs "ABCDEFGHIJKLMNOPQRSTUVWXYZ").
(* RFC 9110 §5.5 / RFC 9114 §10.3: no control characters in a value except HTAB (and no DEL) *)
Definition rfc_value_char (b : byte) : Prop := (32 <= bN b \/ b = x09) /\ b <> x7f.

(* §4.3: a pseudo-header field name begins with ':' *)
Definition rfc_is_pseudo (name : bytes) : Prop := exists r, name = ":"%byte :: r.

(* §4.3.1 (+ RFC 9220) and §4.3.2 *)
Definition rfc_request_pseudo : list bytes := [bs ":method"; bs ":scheme"; bs ":authority"; bs ":path"; bs ":protocol"].
Definition rfc_response_pseudo : list bytes := [bs ":status"].
Definition rfc_defined_pseudo (is_request : bool) : list bytes :=
  if is_request then rfc_request_pseudo else rfc_response_pseudo.

(* §4.2: connection-specific fields *)
Definition rfc_connection_specific : list bytes :=
  [bs "connection"; bs "keep-alive"; bs "proxy-connection"; bs "transfer-encoding"; bs "upgrade"].

(* §4.2, §4.1.2: a regular field name is a non-empty token without upper-case characters *)
Definition rfc_regular_name (n : bytes) : Prop :=
  n <> [] /\ Forall rfc_tchar n /\ Forall (fun b => ~ rfc_upper b) n.

Definition rfc_field_ok (is_request : bool) (f : rfield) : Prop :=
  Forall rfc_value_char (snd f) /\
  ((rfc_is_pseudo (fst f) /\ In (fst f) (rfc_defined_pseudo is_request))    (* defined, and for this direction *)
   \/
   (~ rfc_is_pseudo (fst f) /\ rfc_regular_name (fst f) /\
    ~ In (fst f) rfc_connection_specific /\
    (fst f = bs "te" -> snd f = bs "trailers"))).

(* §4.3: all pseudo-header fields before all regular fields *)
Definition rfc_pseudo_first (fs : list rfield) : Prop :=
  exists ps rs, fs = ps ++ rs /\ Forall (fun f => rfc_is_pseudo (fst f)) ps /\
                Forall (fun f => ~ rfc_is_pseudo (fst f)) rs.

(* Content-Length (RFC 9110 §8.6; outside §4.2-4.3): repeats must agree; the value is empty
   (taken as absent by the code) or a decimal number below 2^63 *)
Definition content_length_values (fs : list rfield) : list bytes :=
  map snd (filter (fun f => bytes_eqb (fst f) (bs "content-length")) fs).
Definition decimal_value (s : bytes) : N := fold_left (fun a b => a * 10 + (bN b - 48)) s 0.
Definition rfc_decimal (s : bytes) : Prop := s <> [] /\ Forall (fun b => In b (bs "0123456789")) s.
Definition content_length_ok (fs : list rfield) : Prop :=
  (forall a b, In a (content_length_values fs) -> In b (content_length_values fs) -> a = b) /\
  (forall a, In a (content_length_values fs) -> a = [] \/ (rfc_decimal a /\ decimal_value a < 2 ^ 63)).

(* a header section (request or response) *)
Definition rfc9114_header_section_ok (is_request : bool) (fs : list rfield) : Prop :=
  Forall (rfc_field_ok is_request) fs /\ rfc_pseudo_first fs /\ content_length_ok fs.

(* a trailer section: §4.3 "Pseudo-header fields MUST NOT appear in trailer sections" + §4.2 *)
Definition rfc9114_trailer_section_ok (fs : list rfield) : Prop :=
  Forall (fun f => ~ rfc_is_pseudo (fst f) /\ rfc_field_ok false f) fs.

(* a response: §4.3.2 ":status ... MUST be included in all responses"; the value must be an integer
   (the code takes what strconv.Atoi takes - a sign and any number of digits within int64 - where a
   strict reading demands three digits; recorded interpretation) *)
Definition status_values (fs : list rfield) : list bytes :=
  map snd (filter (fun f => bytes_eqb (fst f) (bs ":status")) fs).
