(* Model/Demux.v - dispatch of received frames to request streams (C09: "responses are never
   mixed up" on multiplexed connections).

   HTTP/2: clientConnReadLoop.processData / processHeaders look the stream up with
   cc.streams[f.StreamID] (streamByID) and append the payload to that stream's bufPipe; frames
   for ids that are not (or no longer) in cc.streams are dropped.  HTTP/3: every request has
   its own QUIC stream, which is the same dispatch done by quic-go.  The wire order is an
   arbitrary interleaving of the per-stream sequences. *)
From Coq Require Import List Arith Bool.
From ReqV Require Import Lib.Bytes.
Import ListNotations.

Definition sid := nat.

Record dstate := mkD { d_open : list sid; d_buf : sid -> list bytes }.

Definition d_upd (f : sid -> list bytes) (i : sid) (v : list bytes) : sid -> list bytes :=
  fun j => if Nat.eqb j i then v else f j.

Definition d_init (open : list sid) : dstate := mkD open (fun _ => []).

(* one DATA frame (i, p) arriving on the connection *)
Definition d_step (s : dstate) (f : sid * bytes) : dstate :=
  let '(i, p) := f in
  if existsb (Nat.eqb i) (d_open s)
  then mkD (d_open s) (d_upd (d_buf s) i (d_buf s i ++ [p]))
  else s.                                   (* streamByID == nil: dropped *)

Definition d_run (open : list sid) (wire : list (sid * bytes)) : dstate :=
  fold_left d_step wire (d_init open).

(* what stream i receives *)
Definition demux (open : list sid) (wire : list (sid * bytes)) (i : sid) : list bytes :=
  d_buf (d_run open wire) i.

(* wire is an interleaving of the per-stream sequences f *)
Inductive Interleave : (sid -> list bytes) -> list (sid * bytes) -> Prop :=
| IL_nil : forall f, (forall i, f i = []) -> Interleave f []
| IL_cons : forall f i x l wire,
    f i = x :: l -> Interleave (d_upd f i l) wire -> Interleave f ((i, x) :: wire).
