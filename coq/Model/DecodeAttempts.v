(* Model/DecodeAttempts.v - one request, several attempts (C14).

   Go code modelled: transport.go persistConn.roundTrip writes the transport's own
   `Accept-Encoding: gzip` into req.extraHeaders() - a header map made for THIS attempt - never
   into req.Header, the caller's map.  Transport.roundTrip re-sends the same *http.Request after a
   retryable failure (kept-alive connection closed by the server before a byte of answer), and a caller
   may hand the same *http.Request to RoundTrip again: every attempt evaluates
   `req.Header.Get("Accept-Encoding") == ""` on the caller's map.  http2 (cs.requestedGzip +
   encodeHeaders) and http3 (requestWriter) write the field straight onto the wire.
   The model makes the request object the state that is threaded through the attempts.
   `attempt_own_header` is the variant that sets the field on the caller's map (NOT the code; kept for
   the refutation).  No proofs in this file. *)
From ReqV Require Export Lib.Bytes Model.Decode.

(* one attempt: did the transport ask for gzip, Accept-Encoding on the wire, the request afterwards *)
Definition attempt (st : stack) (c : reqcfg) : (bool * bytes) * reqcfg :=
  ((asked_gzip st c, sent_accept_encoding st c), c).

Definition attempt_own_header (st : stack) (c : reqcfg) : (bool * bytes) * reqcfg :=
  ((asked_gzip st c, sent_accept_encoding st c),
   if asked_gzip st c
   then {| q_disable := q_disable c; q_ae := bs "gzip"; q_range := q_range c; q_head := q_head c |}
   else c).

Fixpoint run_attempts (step : reqcfg -> (bool * bytes) * reqcfg) (n : nat) (c : reqcfg)
  : list (bool * bytes) * reqcfg :=
  match n with
  | O => ([], c)
  | S n' =>
      let '(x, c') := step c in
      let '(xs, c'') := run_attempts step n' c' in (x :: xs, c'')
  end.
