(* Model/H2HdrLimit.v - the header-list limit the HTTP/2 frame reader enforces vs. the one the
   connection advertises, for every way of configuring it and every connection of a transport (C07).

   Go code modelled: internal/http2/transport.go
     Transport.maxHeaderListSize     0 -> 10 MiB, 0xffffffff -> 0 (no limit), else the value
     Transport.newClientConn         for _, s := range t.Settings { case SettingMaxHeaderListSize:
                                         t.MaxHeaderListSize = s.Val }      (custom SETTINGS frame)
                                     cc.fr.MaxHeaderListSize = t.maxHeaderListSize()   (AFTER that loop)
                                     initial SETTINGS: the custom frame as given, else the default
                                     frame with MAX_HEADER_LIST_SIZE = t.maxHeaderListSize() when not 0
   t.MaxHeaderListSize is transport state: it is carried from one connection to the next.
   [copy_first] = true is the code; false the variant that builds the framer before the copy.
   No proofs here. *)
From ReqV Require Export Lib.Bytes.
Open Scope N_scope.

Definition SETTING_MHLS : N := 6.
Definition default_mhls : N := 10485760.

Record h2t := { t_mhls : N; t_custom : list (N * N) }.

Definition max_header_list_size (v : N) : N :=
  if v =? 0 then default_mhls else if v =? 4294967295 then 0 else v.

(* the loop over the custom SETTINGS frame: the last MAX_HEADER_LIST_SIZE entry wins *)
Definition copy_custom (t : h2t) : h2t :=
  {| t_mhls := fold_left (fun acc s => if fst s =? SETTING_MHLS then snd s else acc) (t_custom t) (t_mhls t);
     t_custom := t_custom t |}.

(* MAX_HEADER_LIST_SIZE as it goes out in the connection's first SETTINGS frame (None = not sent) *)
Definition advertised (t : h2t) : option N :=
  match t_custom t with
  | [] => let m := max_header_list_size (t_mhls t) in if m =? 0 then None else Some m
  | cs => fold_left (fun acc s => if fst s =? SETTING_MHLS then Some (snd s) else acc) cs None
  end.

(* one new connection: the transport afterwards, the framer's limit, what was advertised *)
Definition new_conn (copy_first : bool) (t : h2t) : h2t * N * option N :=
  let t' := copy_custom t in
  (t', max_header_list_size (t_mhls (if copy_first then t' else t)), advertised t').

(* the k-th connection of a transport *)
Fixpoint nth_conn (copy_first : bool) (k : nat) (t : h2t) : h2t * N * option N :=
  match k with
  | O => new_conn copy_first t
  | S k' => let '(t', _, _) := new_conn copy_first t in nth_conn copy_first k' t'
  end.
