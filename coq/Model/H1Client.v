(* Model/H1Client.v - C02: what the HTTP/1.1 client stack hands to the caller for the bytes a
   server sent on one connection.

   transport.go persistConn.readResponse: _readResponse in a loop that skips informational
   responses (every 1xx except 101, at most 5 of them); persistConn.readLoop: the body the
   caller reads is the one readTransfer installed (http.NoBody when Method == HEAD or
   ContentLength == 0); then Model/RespAPI.v (auto-read, restored Body, ToBytes, SetOutput).
   The response parser itself is Model/H1Resp.v (C04).  pc.br is a bufio.Reader of 4096
   bytes (Transport.ReadBufferSize default).  Content codings (C14) and charset decoding
   (C15) are other properties: the responses considered here carry no Content-Encoding.
   No proofs here. *)
From ReqV Require Export Lib.Bytes Model.H1Resp Model.RespAPI.

Definition br_size : nat := 4096.

Inductive final_res :=
| FinErr (e : herr)              (* _readResponse failed *)
| FinTooMany1xx                  (* "net/http: too many 1xx informational responses" *)
| FinOk (r : resp) (rest : bytes)
| FinHeaderTooLarge              (* "server response headers exceeded N bytes; aborted" *)
| FinFuel.

Definition is_1xx_nonterminal (code : Z) : bool :=
  (100 <=? code)%Z && (code <=? 199)%Z && negb (code =? 101)%Z.

Definition max_1xx : nat := 5.

(* num1xx = informational responses already skipped *)
Fixpoint read_final (fuel : nat) (meth : bytes) (bufsize : nat) (num1xx : nat) (s : bytes) : final_res :=
  match fuel with
  | O => FinFuel
  | S f =>
      match read_response_head meth bufsize s with
      | inl e => FinErr e
      | inr (r, rest) =>
          if is_1xx_nonterminal (r_code r) then
            if max_1xx <? S num1xx then FinTooMany1xx
            else read_final f meth bufsize (S num1xx) rest
          else FinOk r rest
      end
  end.

Definition read_final_response (meth : bytes) (s : bytes) : final_res :=
  read_final (S (S max_1xx)) meth br_size 0 s.

Definition berr_clean (e : berr) : bool := match e with BOk => true | _ => false end.

(* the reader behind Response.Body for the final response *)
Definition body_reader (b : body_result) : reader :=
  {| rd_rem := b_data b; rd_end := if berr_clean (b_end b) then BEof else BFail |}.

(* http.go isProtocolSwitchResponse: 101 + Upgrade + "Connection: upgrade"; the caller then owns
   the connection: Body (readWriteCloserBody) delivers whatever follows, until the peer closes *)
Definition K_UPGRADE := bs "Upgrade".
Definition is_switch (r : resp) : bool :=
  (r_code r =? 101)%Z &&
  match hget K_UPGRADE (r_header r) with Some (u :: _) => negb (is_nil u) | _ => false end &&
  header_values_contain_token (match hget K_CONNECTION (r_header r) with Some v => v | None => [] end)
                              (bs "Upgrade").

Definition switch_body (r : resp) (rest : bytes) : body_result :=
  {| b_data := rest; b_end := BOk; b_trailer := r_trailer_declared r; b_rest := [] |}.

Definition final_body (bufsize : nat) (r : resp) (rest : bytes) : body_result :=
  if is_switch r then switch_body r rest else read_body bufsize r rest.

(* the informational responses skipped on the way, as httptrace.Got1xxResponse reports them *)
Fixpoint interim_heads (fuel : nat) (meth : bytes) (bufsize : nat) (s : bytes) : list (Z * hmap) :=
  match fuel with
  | O => []
  | S f =>
      match read_response_head meth bufsize s with
      | inl _ => []
      | inr (r, rest) =>
          if is_1xx_nonterminal (r_code r) then (r_code r, r_header r) :: interim_heads f meth bufsize rest
          else []
      end
  end.

(* Transport.MaxResponseHeaderBytes: pc.readLimit is the budget of ONE response head; readResponse
   resets it after every informational response, so interim responses do not eat the budget of
   the final one.  (The code charges raw bytes read from the connection, i.e. up to one bufio
   buffer more than the head; the model charges the head itself.) *)
Fixpoint read_final_lim (fuel : nat) (meth : bytes) (bufsize lim : nat) (num1xx : nat) (s : bytes) : final_res :=
  match fuel with
  | O => FinFuel
  | S f =>
      match read_response_head meth bufsize s with
      | inl e => FinErr e
      | inr (r, rest) =>
          if lim <? length s - length rest then FinHeaderTooLarge
          else if is_1xx_nonterminal (r_code r) then
            if max_1xx <? S num1xx then FinTooMany1xx
            else read_final_lim f meth bufsize lim (S num1xx) rest
          else FinOk r rest
      end
  end.

(* every head of the exchange (interim ones and the final one) is within the limit by itself *)
Fixpoint heads_fit (fuel : nat) (meth : bytes) (bufsize lim : nat) (s : bytes) : bool :=
  match fuel with
  | O => true
  | S f =>
      match read_response_head meth bufsize s with
      | inl _ => true
      | inr (r, rest) =>
          (length s - length rest <=? lim) &&
          (if is_1xx_nonterminal (r_code r) then heads_fit f meth bufsize lim rest else true)
      end
  end.

Record h1_delivery := {
  d_resp : resp;
  d_body : body_result;
  d_api : api_obs
}.

(* one exchange: the server's bytes [s] (then EOF), request method, read mode, caller buffer sizes *)
Definition h1_exchange (meth : bytes) (m : mode) (sizes : list nat) (s : bytes) : option h1_delivery :=
  match read_final_response meth s with
  | FinOk r rest =>
      let b := final_body br_size r rest in
      Some {| d_resp := r; d_body := b; d_api := run_mode m (r_code r) sizes (body_reader b) |}
  | _ => None
  end.
