(* Model/Base64.v - C20: RFC 4648 base64, standard alphabet with padding, as used by
   encoding/base64.StdEncoding (internal/util/util.go basicAuth), the Basic and Bearer header
   values (util.BasicAuthHeaderValue, Request.SetBearerAuthToken) and the server-side recovery
   (net/http parseBasicAuth; a bearer extractor).  No proofs here. *)
From ReqV Require Export Lib.Bytes.

Definition b64_alphabet : bytes :=
  bs "ABCDEFGHIJKLMNOPQRSTUVWXYZabcdefghijklmnopqrstuvwxyz0123456789+/".

Definition pad : byte := "="%byte.

(* sextet -> character (n < 64) *)
Definition b64_char (n : N) : byte := nth (N.to_nat n) b64_alphabet pad.

(* character -> sextet; None for bytes outside the alphabet (incl. '=') *)
Definition b64_val (c : byte) : option N :=
  let n := bN c in
  if is_upper c then Some (n - 65)%N
  else if is_lower c then Some (n - 71)%N
  else if is_digit c then Some (n + 4)%N
  else if beqb c "+"%byte then Some 62%N
  else if beqb c "/"%byte then Some 63%N
  else None.

(* three bytes -> four sextets; the short tails pad with zero bits (RFC 4648 section 4) *)
Fixpoint b64_encode (s : bytes) : bytes :=
  match s with
  | [] => []
  | [a] =>
      let x := bN a in
      [b64_char (x / 4)%N; b64_char ((x mod 4) * 16)%N; pad; pad]
  | [a; b] =>
      let x := bN a in let y := bN b in
      [b64_char (x / 4)%N; b64_char ((x mod 4) * 16 + y / 16)%N; b64_char ((y mod 16) * 4)%N; pad]
  | a :: b :: c :: r =>
      let x := bN a in let y := bN b in let z := bN c in
      b64_char (x / 4)%N :: b64_char ((x mod 4) * 16 + y / 16)%N ::
      b64_char ((y mod 16) * 4 + z / 64)%N :: b64_char (z mod 64)%N :: b64_encode r
  end.

(* Decoder: groups of four characters; padding only in the last group.  Like Go's
   non-strict StdEncoding the unused low bits of a padded group are ignored.  (Go also skips
   CR/LF inside the input; header values cannot contain them, so that is not modelled.) *)
Fixpoint b64_decode (s : bytes) : option bytes :=
  match s with
  | [] => Some []
  | c1 :: c2 :: c3 :: c4 :: r =>
      match b64_val c1, b64_val c2 with
      | Some n1, Some n2 =>
          let b1 := byte_of_N_total (n1 * 4 + n2 / 16)%N in
          if beqb c4 pad then
            match r with
            | [] =>
                if beqb c3 pad then Some [b1]
                else match b64_val c3 with
                     | Some n3 => Some [b1; byte_of_N_total ((n2 mod 16) * 16 + n3 / 4)%N]
                     | None => None
                     end
            | _ :: _ => None
            end
          else
            match b64_val c3, b64_val c4, b64_decode r with
            | Some n3, Some n4, Some t =>
                Some (b1 :: byte_of_N_total ((n2 mod 16) * 16 + n3 / 4)%N
                         :: byte_of_N_total ((n3 mod 4) * 64 + n4)%N :: t)
            | _, _, _ => None
            end
      | _, _ => None
      end
  | _ => None
  end.

Definition colon_b : byte := ":"%byte.

(* util.BasicAuthHeaderValue *)
Definition basic_credential (user pass : bytes) : bytes := user ++ colon_b :: pass.
Definition basic_header (user pass : bytes) : bytes :=
  bs "Basic " ++ b64_encode (basic_credential user pass).

(* Request.SetBearerAuthToken / Client.SetCommonBearerAuthToken: "Bearer " + token *)
Definition bearer_header (token : bytes) : bytes := bs "Bearer " ++ token.

(* strings.Cut(s, ":") *)
Definition cut_colon (s : bytes) : option (bytes * bytes) :=
  match index_byte colon_b s with
  | Some i => Some (firstn i s, skipn (S i) s)
  | None => None
  end.

(* net/http parseBasicAuth: case-insensitive "Basic " prefix, base64, cut at first colon *)
Definition parse_basic (h : bytes) : option (bytes * bytes) :=
  if bytes_eqb (to_lower (firstn 6 h)) (bs "basic ") then
    match b64_decode (skipn 6 h) with
    | Some c => cut_colon c
    | None => None
    end
  else None.

(* the bearer extractor of the harness origin: exact "Bearer " prefix, rest verbatim *)
Definition parse_bearer (h : bytes) : option bytes :=
  if has_prefix (bs "Bearer ") h then Some (skipn 7 h) else None.
