(* Model/RespRead.v - C03: reading the body through the Response API more than once.

   response.go Response.ToBytes (ToString = ToBytes; the auto-read inside the call is the first
   ToBytes): state carried by the Response between calls = r.Err and r.body.
     if r.Err != nil  -> (nil, r.Err)
     if r.body != nil -> (r.body, nil)
     otherwise read the underlying body to its end; the deferred function stores what was read
     in r.body EVEN WHEN THE READ FAILED, and the error in r.Err.
   [under] = what the underlying read-to-end yields: the bytes and whether it ended cleanly
   (that is the subject of the rest of C03).  No proofs here. *)
From ReqV Require Export Lib.Bytes.

Record resp_state := mkRs { rs_err : bool; rs_body : option bytes }.
Definition rs_init : resp_state := mkRs false None.

(* result: Some b = (b, nil); None = (nil, error) *)
Definition to_bytes (under : bytes * bool) (s : resp_state) : option bytes * resp_state :=
  if rs_err s then (None, s)
  else match rs_body s with
       | Some b => (Some b, s)
       | None =>
           let '(d, ok) := under in
           if ok then (Some d, mkRs false (Some d)) else (None, mkRs true (Some d))
       end.

(* the seeded variant: the cached-body check first *)
Definition to_bytes_cache_first (under : bytes * bool) (s : resp_state) : option bytes * resp_state :=
  match rs_body s with
  | Some b => (Some b, s)
  | None =>
      if rs_err s then (None, s)
      else let '(d, ok) := under in
           if ok then (Some d, mkRs false (Some d)) else (None, mkRs true (Some d))
  end.

(* n successive reads *)
Fixpoint reads (tb : bytes * bool -> resp_state -> option bytes * resp_state)
         (under : bytes * bool) (n : nat) (s : resp_state) : list (option bytes) :=
  match n with
  | O => []
  | S k => let '(r, s') := tb under s in r :: reads tb under k s'
  end.
