(* Model/Url.v - C01: how the request URL is built.
     net/url: shouldEscape / escape / unescape / validEncoded / setPath / EscapedPath /
              getScheme / Parse (authority parsing simplified, see parse_authority) /
              RequestURI / Values.Encode                       (Go 1.23 net/url/url.go)
     req:     parseRequestURL (middleware.go): strings.Replace per path parameter (request
              level first, then client level), url.Parse, base-URL join, query merge,
              removeEmptyPort (http_request.go)
   Go maps (PathParams, url.Values) are association lists whose order stands for the
   unspecified iteration order.  No proofs here. *)
From ReqV Require Export Lib.Bytes.

Definition in_str (c : byte) (s : string) : bool := mem_byte c (bs s).
Definition is_alnum (c : byte) : bool := is_alpha c || is_digit c.

(* ---------- net/url escaping ---------- *)
Inductive emode := EPath | EPathSeg | EQuery | EFragment.

Definition emode_eqb (a b : emode) : bool :=
  match a, b with
  | EPath, EPath | EPathSeg, EPathSeg | EQuery, EQuery | EFragment, EFragment => true
  | _, _ => false
  end.

(* shouldEscape for the four modes used here (host / zone / userinfo are not) *)
Definition should_escape (m : emode) (c : byte) : bool :=
  if is_alnum c then false
  else if in_str c "-_.~" then false
  else if in_str c "$&+,/:;=?@" then
    match m with
    | EPath => beqb c "?"%byte
    | EPathSeg => in_str c "/;,?"
    | EQuery => true
    | EFragment => false
    end
  else match m with
       | EFragment => negb (in_str c "!()*")
       | _ => true
       end.

Definition upper_hex (d : N) : byte :=
  if (d <? 10)%N then byte_of_N_total (48 + d) else byte_of_N_total (55 + d).

Definition pct (c : byte) : bytes := ["%"%byte; upper_hex (bN c / 16); upper_hex (bN c mod 16)].

Definition escape_byte (m : emode) (c : byte) : bytes :=
  if should_escape m c then
    (if emode_eqb m EQuery && beqb c " "%byte then ["+"%byte] else pct c)
  else [c].

Definition escape (m : emode) (s : bytes) : bytes := flat_map (escape_byte m) s.

Definition path_escape : bytes -> bytes := escape EPathSeg.     (* url.PathEscape *)
Definition query_escape : bytes -> bytes := escape EQuery.      (* url.QueryEscape *)

Definition hex_val (c : byte) : option N :=
  if is_digit c then Some (bN c - 48)%N
  else if (97 <=? bN c)%N && (bN c <=? 102)%N then Some (bN c - 87)%N
  else if (65 <=? bN c)%N && (bN c <=? 70)%N then Some (bN c - 55)%N
  else None.

(* unescape: fails exactly on a '%' not followed by two hex digits *)
Fixpoint unescape (m : emode) (s : bytes) : option bytes :=
  match s with
  | [] => Some []
  | c :: r =>
      if beqb c "%"%byte then
        match r with
        | h1 :: h2 :: r' =>
            match hex_val h1, hex_val h2 with
            | Some a, Some b =>
                match unescape m r' with
                | Some t => Some (byte_of_N_total (16 * a + b) :: t)
                | None => None
                end
            | _, _ => None
            end
        | _ => None
        end
      else
        match unescape m r with
        | Some t => Some ((if emode_eqb m EQuery && beqb c "+"%byte then " "%byte else c) :: t)
        | None => None
        end
  end.

Definition valid_encoded_byte (m : emode) (c : byte) : bool :=
  in_str c "!$&'()*+,;=:@[]%" || negb (should_escape m c).
Definition valid_encoded (m : emode) (s : bytes) : bool := forallb (valid_encoded_byte m) s.

(* ---------- strings.Replace(s, old, new, -1) for a non-empty old ----------
   leftmost, non-overlapping; [skip] = bytes of a match still to be dropped *)
Fixpoint repl_go (old new : bytes) (skip : nat) (s : bytes) : bytes :=
  match s with
  | [] => []
  | c :: r =>
      match skip with
      | S k => repl_go old new k r
      | O => if has_prefix old s then new ++ repl_go old new (length old - 1) r
             else c :: repl_go old new 0 r
      end
  end.
Definition replace_all (old new s : bytes) : bytes := repl_go old new 0 s.

Definition lbrace : byte := "{"%byte.
Definition rbrace : byte := "}"%byte.
Definition placeholder (k : bytes) : bytes := lbrace :: k ++ [rbrace].

Definition param := (bytes * bytes)%type.

(* the two loops of parseRequestURL over r.PathParams and c.PathParams, in list order *)
Fixpoint subst_params (t : bytes) (kvs : list param) : bytes :=
  match kvs with
  | [] => t
  | (k, v) :: r => subst_params (replace_all (placeholder k) (path_escape v) t) r
  end.

(* ---------- url.URL and url.Parse ---------- *)
Record purl := mkU {
  u_scheme : bytes;
  u_opaque : bytes;
  u_host : bytes;
  u_path : bytes;       (* decoded *)
  u_rawpath : bytes;    (* "" when the default encoding of u_path is the original text *)
  u_forceq : bool;
  u_rawq : bytes;
  u_frag : bool         (* a non-empty fragment is present *)
}.

Inductive presult := POk (u : purl) | PErr | PUnsupported.

Definition is_ctl (c : byte) : bool := (bN c <? 32)%N || (bN c =? 127)%N.

Definition cut_at (c : byte) (s : bytes) : bytes * option bytes :=
  match index_byte c s with
  | Some i => (firstn i s, Some (skipn (S i) s))
  | None => (s, None)
  end.

(* getScheme: Some (scheme, rest) | None = "missing protocol scheme" *)
Fixpoint get_scheme_go (i : nat) (acc whole s : bytes) : option (bytes * bytes) :=
  match s with
  | [] => Some ([], whole)
  | c :: r =>
      if is_alpha c then get_scheme_go (S i) (c :: acc) whole r
      else if is_digit c || in_str c "+-." then
        (match i with O => Some ([], whole) | _ => get_scheme_go (S i) (c :: acc) whole r end)
      else if beqb c ":"%byte then
        (match i with O => None | _ => Some (rev acc, r) end)
      else Some ([], whole)
  end.
Definition get_scheme (s : bytes) : option (bytes * bytes) := get_scheme_go 0 [] s s.

Definition count_byte (c : byte) (s : bytes) : nat := length (filter (beqb c) s).

Definition set_path (p : bytes) : option (bytes * bytes) :=
  match unescape EPath p with
  | None => None
  | Some path => Some (path, if bytes_eqb (escape EPath path) p then [] else p)
  end.

(* req's keepPathEscapes (the repair of the %2F loss, see fix commit): every byte of RawPath that
   URL.EscapedPath would refuse is percent-encoded, so RawPath stays authoritative *)
Definition keep_byte (c : byte) : bytes := if valid_encoded_byte EPath c then [c] else pct c.
Definition keep_path_escapes (rp : bytes) : bytes := flat_map keep_byte rp.

Definition escaped_path_of (path rawpath : bytes) : bytes :=
  if negb (bytes_eqb rawpath []) && valid_encoded EPath rawpath &&
     opt_bytes_eqb (unescape EPath rawpath) (Some path)
  then rawpath
  else if bytes_eqb path (bs "*") then bs "*"
  else escape EPath path.
Definition escaped_path (u : purl) : bytes := escaped_path_of (u_path u) (u_rawpath u).

(* host part as parseHost accepts it, for the hosts the harness uses: no userinfo, no
   IPv6 literal, no percent-escape (those shapes are PUnsupported, i.e. outside the model) *)
Definition host_byte_ok (c : byte) : bool :=
  is_alnum c || in_str c "-_.~!$&'()*+,;=:<>""" || (128 <=? bN c)%N.

Definition valid_optional_port (p : bytes) : bool :=
  match p with
  | [] => true
  | c :: r => beqb c ":"%byte && forallb is_digit r
  end.

Inductive aresult := AOk (h : bytes) | AErr | AUnsupported.
Definition parse_authority (a : bytes) : aresult :=
  if mem_byte "@"%byte a || mem_byte "["%byte a || mem_byte "]"%byte a || mem_byte "%"%byte a
  then AUnsupported
  else
    let port_ok := match last_index_byte ":"%byte a with
                   | Some i => valid_optional_port (skipn i a)
                   | None => true
                   end in
    if port_ok && forallb host_byte_ok a then AOk a else AErr.

Definition starts_with (p : string) (s : bytes) : bool := has_prefix (bs p) s.

(* strings.HasSuffix(s, "c") without List.rev (quadratic) *)
Definition ends_with (c : byte) (s : bytes) : bool :=
  match s with [] => false | _ => beqb (last s x00) c end.

Definition parse_url (raw : bytes) : presult :=
  let '(u, fr) := cut_at "#"%byte raw in
  let frag := match fr with Some f => f | None => [] end in
  if existsb is_ctl u then PErr
  else match unescape EFragment frag with
  | None => PErr
  | Some dfrag =>
  let hasfrag := negb (bytes_eqb dfrag []) in
  if bytes_eqb u (bs "*") then POk (mkU [] [] [] (bs "*") [] false [] hasfrag)
  else match get_scheme u with
  | None => PErr
  | Some (scheme0, rest0) =>
    let scheme := to_lower scheme0 in
    let '(rest1, forceq, rawq) :=
      if ends_with "?"%byte rest0 && Nat.eqb (count_byte "?"%byte rest0) 1
      then (firstn (length rest0 - 1) rest0, true, [])
      else match cut_at "?"%byte rest0 with
           | (a, Some q) => (a, false, q)
           | (a, None) => (a, false, [])
           end in
    if negb (starts_with "/" rest1) && negb (bytes_eqb scheme [])
    then POk (mkU scheme rest1 [] [] [] forceq rawq hasfrag)          (* opaque *)
    else if negb (starts_with "/" rest1) &&
            mem_byte ":"%byte (fst (cut_at "/"%byte rest1))
    then PErr                                   (* first path segment cannot contain colon *)
    else
      let with_auth := (negb (bytes_eqb scheme []) || negb (starts_with "///" rest1)) &&
                       starts_with "//" rest1 in
      let '(auth, rest2) :=
        if with_auth then
          let r := skipn 2 rest1 in
          match index_byte "/"%byte r with
          | Some i => (firstn i r, skipn i r)
          | None => (r, [])
          end
        else ([], rest1) in
      match (if with_auth then parse_authority auth else AOk []) with
      | AErr => PErr
      | AUnsupported => PUnsupported
      | AOk host =>
          match set_path rest2 with
          | None => PErr
          | Some (path, rawpath) => POk (mkU scheme [] host path rawpath forceq rawq hasfrag)
          end
      end
  end end.

(* URL.String() of a URL without scheme and host; a non-empty fragment is stood for by "#f" (it
   never reaches the wire and, once parsed, re-parses; its presence makes the text non-empty) *)
Definition rel_string (u : purl) : bytes :=
  escaped_path u ++ (if u_forceq u || negb (bytes_eqb (u_rawq u) []) then "?"%byte :: u_rawq u else [])
  ++ (if u_frag u then bs "#f" else []).

Definition request_uri (u : purl) : bytes :=
  let p := escaped_path u in
  (if bytes_eqb p [] then bs "/" else p) ++
  (if u_forceq u || negb (bytes_eqb (u_rawq u) []) then "?"%byte :: u_rawq u else []).

(* ---------- url.Values ---------- *)
Definition values := list (bytes * list bytes).

Fixpoint bytes_ltb (a b : bytes) : bool :=
  match a, b with
  | _, [] => false
  | [], _ :: _ => true
  | x :: a', y :: b' => if (bN x <? bN y)%N then true else if (bN y <? bN x)%N then false else bytes_ltb a' b'
  end.

Fixpoint insert_key (x : bytes * list bytes) (l : values) : values :=
  match l with
  | [] => [x]
  | y :: t => if bytes_ltb (fst y) (fst x) then y :: insert_key x t else x :: y :: t
  end.
Fixpoint sort_keys (l : values) : values :=
  match l with
  | [] => []
  | x :: t => insert_key x (sort_keys t)
  end.

Definition pair_text (k v : bytes) : bytes := query_escape k ++ "="%byte :: query_escape v.
Definition flat_pairs (m : values) : list (bytes * bytes) :=
  flat_map (fun kv => map (fun v => (fst kv, v)) (snd kv)) m.
(* Values.Encode: keys sorted, "k=v" joined by '&' *)
Definition encode_values (m : values) : bytes :=
  join_with (bs "&") (map (fun p => pair_text (fst p) (snd p)) (flat_pairs (sort_keys m))).

Definition has_key (k : bytes) (m : values) : bool := existsb (fun kv => bytes_eqb (fst kv) k) m.

(* the two loops over c.QueryParams and r.QueryParams: Add every client value, then per
   request key Del + Add.  Keys without values never enter the map. *)
Definition is_nil_l {A} (l : list A) : bool := match l with [] => true | _ => false end.
Definition merge_query (cq rq : values) : values :=
  filter (fun kv => negb (is_nil_l (snd kv)))
         (rq ++ filter (fun kv => negb (has_key (fst kv) rq)) cq).

(* ---------- parseRequestURL ---------- *)
Inductive bresult := BOk (scheme host target : bytes) | BErr | BUnsupported.

Definition norm (keep : bool) (u : purl) : purl :=
  if keep then mkU (u_scheme u) (u_opaque u) (u_host u) (u_path u) (keep_path_escapes (u_rawpath u))
                   (u_forceq u) (u_rawq u) (u_frag u)
  else u.

Definition is_abs (u : purl) : bool := negb (bytes_eqb (u_scheme u) []).

(* hasPort + strings.TrimSuffix(host, ":") *)
Definition remove_empty_port (h : bytes) : bytes :=
  let lc := last_index_byte ":"%byte h in
  let lb := last_index_byte "]"%byte h in
  let hasport := match lc, lb with
                 | Some i, Some j => Nat.ltb j i
                 | Some _, None => true
                 | None, _ => false
                 end in
  if hasport && has_suffix (bs ":") h then firstn (length h - 1) h else h.

Definition is_blank (s : bytes) : bool := forallb (beqb " "%byte) s.

Definition ensure_slash (s : bytes) : bytes :=
  match s with
  | [] => []
  | c :: _ => if beqb c "/"%byte then s else "/"%byte :: s
  end.

(* [keep] = the repaired code (RawPath normalised after every url.Parse); false = pinned *)
Definition build_url (keep : bool) (base raw : bytes) (rp cp : list param) (cq rq : values) : bresult :=
  let t := subst_params raw (rp ++ cp) in
  match parse_url t with
  | PErr => BErr
  | PUnsupported => BUnsupported
  | POk u0 =>
      let u0 := norm keep u0 in
      if negb (is_abs u0) && negb (bytes_eqb (u_host u0) []) then BUnsupported else
      let r1 := if is_abs u0 then POk u0 else parse_url (base ++ ensure_slash (rel_string u0)) in
      match r1 with
      | PErr => BErr
      | PUnsupported => BUnsupported
      | POk u1 =>
          let u1 := norm keep u1 in
          let q := merge_query cq rq in
          let rawq := if is_nil_l q then u_rawq u1
                      else if is_blank (u_rawq u1) then encode_values q
                      else u_rawq u1 ++ "&"%byte :: encode_values q in
          let u2 := mkU (u_scheme u1) (u_opaque u1) (remove_empty_port (u_host u1)) (u_path u1)
                        (u_rawpath u1) (u_forceq u1) rawq (u_frag u1) in
          (* Transport.roundTrip: scheme, host *)
          if negb (bytes_eqb (u_scheme u2) (bs "http") || bytes_eqb (u_scheme u2) (bs "https")) then BErr
          else if bytes_eqb (u_host u2) [] then BErr
          else if negb (bytes_eqb (u_opaque u2) []) then BUnsupported
          else BOk (u_scheme u2) (u_host u2) (request_uri u2)
      end
  end.

(* the code as it is now: RawPath normalised after every url.Parse (parseURLKeepEscapes);
   [build_url false] is the pinned code *)
Definition parse_request_url := build_url true.
Definition parse_request_url_pinned := build_url false.

(* ---------- specification-level vocabulary for the theorems ---------- *)
(* a template as a list of tokens: literal text without braces, or {key} with a brace-free key *)
Inductive ttok := TLit (s : bytes) | THole (k : bytes).

Definition brace_free (s : bytes) : bool := negb (mem_byte lbrace s) && negb (mem_byte rbrace s).
Definition wf_tok (t : ttok) : bool := match t with TLit s => brace_free s | THole k => brace_free k end.
Definition tok_text (t : ttok) : bytes := match t with TLit s => s | THole k => placeholder k end.
Definition render_toks (ts : list ttok) : bytes := concat (map tok_text ts).

(* map lookup: the first binding of the key *)
Fixpoint lookup (k : bytes) (kvs : list param) : option bytes :=
  match kvs with
  | [] => None
  | (k', v) :: r => if bytes_eqb k' k then Some v else lookup k r
  end.

(* what the caller described for one token *)
Definition fill (kvs : list param) (t : ttok) : bytes :=
  match t with
  | TLit s => s
  | THole k => match lookup k kvs with Some v => path_escape v | None => placeholder k end
  end.

(* the query string as a server reads it: pairs split at '&', key and value at the first '=' *)
Definition parse_pair (p : bytes) : option (bytes * bytes) :=
  let '(k, v) := cut_at "="%byte p in
  match unescape EQuery k, unescape EQuery (match v with Some x => x | None => [] end) with
  | Some dk, Some dv => Some (dk, dv)
  | _, _ => None
  end.
Fixpoint all_some {A} (l : list (option A)) : option (list A) :=
  match l with
  | [] => Some []
  | Some x :: r => match all_some r with Some t => Some (x :: t) | None => None end
  | None :: _ => None
  end.
Definition parse_query (s : bytes) : option (list (bytes * bytes)) :=
  match s with
  | [] => Some []
  | _ => all_some (map parse_pair (split_byte "&"%byte s))
  end.
