(* Model/H2Meta.v - executable model of Framer.readMetaFrame / MetaHeadersFrame.checkPseudos
   (/repo/internal/http2/frame.go) over the DECODED header block: HPACK itself (golang.org/x/net's
   decoder, not forked) is abstracted - the model's input is, per HEADERS/CONTINUATION fragment, its
   byte length and the fields whose encoding completes inside it (the harness cuts blocks at field
   boundaries for the cases it hands to the model and keeps every string within SetMaxStringLength).
   No proofs here. *)
From ReqV Require Export Lib.Bytes Lib.BigEndian Model.H2Frame Model.H3Frame.
Open Scope N_scope.

Definition hfield := (bytes * bytes)%type.
Inductive meta_res := MOk (fields : list hfield) (truncated : bool) | MErr (e : h2err).

(* http2.go validWireHeaderFieldName: non-empty, token characters, no upper-case letter *)
Definition valid_wire_name (n : bytes) : bool :=
  match n with [] => false | _ => forallb (fun b => is_token_byte b && negb (is_upper b)) n end.
(* hpack.HeaderField.Size *)
Definition hf_size (f : hfield) : N := lenN (fst f) + lenN (snd f) + 32.

Record mstate := { ms_remain : N; ms_regular : bool; ms_invalid : bool; ms_emit : bool;
                   ms_trunc : bool; ms_fields : list hfield }.

(* the emit callback (called by the decoder only while emitting is enabled) *)
Definition meta_emit (st : mstate) (f : hfield) : mstate :=
  if negb (ms_emit st) then st
  else
    let pseudo := is_pseudo (fst f) in
    let regular' := ms_regular st || negb pseudo in
    let invalid := ms_invalid st || negb (valid_field_value (snd f)) ||
                   (if pseudo then ms_regular st else negb (valid_wire_name (fst f))) in
    if invalid then
      {| ms_remain := ms_remain st; ms_regular := regular'; ms_invalid := true; ms_emit := false;
         ms_trunc := ms_trunc st; ms_fields := ms_fields st |}
    else if ms_remain st <? hf_size f then
      {| ms_remain := 0; ms_regular := regular'; ms_invalid := false; ms_emit := false;
         ms_trunc := true; ms_fields := ms_fields st |}
    else
      {| ms_remain := ms_remain st - hf_size f; ms_regular := regular'; ms_invalid := false; ms_emit := true;
         ms_trunc := ms_trunc st; ms_fields := ms_fields st ++ [f] |}.

(* the per-fragment loop: size guard (uint32 arithmetic), invalid-then-CONTINUATION guard, decode *)
Fixpoint meta_frags (st : mstate) (frags : list (N * list hfield)) : res mstate :=
  match frags with
  | [] => Ok st
  | (len, fs) :: r =>
      if (2 * ms_remain st) mod 2 ^ 32 <? len then Err (EConn ErrCodeProtocol)
      else if ms_invalid st then Err (EConn ErrCodeProtocol)
      else meta_frags (fold_left meta_emit fs st) r
  end.

(* MetaHeadersFrame.PseudoFields / checkPseudos *)
Fixpoint pseudo_prefix (fs : list hfield) : list hfield :=
  match fs with
  | f :: r => if is_pseudo (fst f) then f :: pseudo_prefix r else []
  | [] => []
  end.
Definition request_pseudo_names : list bytes := [bs ":method"; bs ":path"; bs ":scheme"; bs ":authority"; bs ":protocol"].
Fixpoint check_pseudos_from (seen : list bytes) (isreq isresp : bool) (pf : list hfield) : bool :=
  match pf with
  | [] => negb (isreq && isresp)
  | f :: r =>
      let n := fst f in
      if mem_bytes n request_pseudo_names then
        if mem_bytes n seen then false else check_pseudos_from (n :: seen) true isresp r
      else if bytes_eqb n (bs ":status") then
        if mem_bytes n seen then false else check_pseudos_from (n :: seen) isreq true r
      else false
  end.
Definition check_pseudos (fields : list hfield) : bool :=
  check_pseudos_from [] false false (pseudo_prefix fields).

Definition h2_meta (max_list sid : N) (frags : list (N * list hfield)) : meta_res :=
  let st0 := {| ms_remain := max_list; ms_regular := false; ms_invalid := false; ms_emit := true;
                ms_trunc := false; ms_fields := [] |} in
  match meta_frags st0 frags with
  | Err e => MErr e
  | Ok st =>
      if ms_invalid st then MErr (EStream sid ErrCodeProtocol)
      else if negb (check_pseudos (ms_fields st)) then MErr (EStream sid ErrCodeProtocol)
      else MOk (ms_fields st) (ms_trunc st)
  end.
