(* Model/H2Meta.v - executable model of Framer.readMetaFrame / MetaHeadersFrame.checkPseudos
   (/repo/internal/http2/frame.go) over the DECODED header block: HPACK itself (golang.org/x/net's
   decoder, not forked) is abstracted - the model's input is, per HEADERS/CONTINUATION fragment, its
   byte length and the fields whose encoding completes inside it (the harness cuts blocks at field
   boundaries for the cases it hands to the model and keeps every string within SetMaxStringLength).
   No proofs here. *)
From ReqV Require Export Lib.Bytes Lib.BigEndian Model.H2Frame Model.H3Frame.
Open Scope N_scope.

Definition hfield := (bytes * bytes)%type.
Inductive meta_res := MOk (fields : list hfield) (truncated : bool) | MErr (e : h2err).

(* http2.go validWireHeaderFieldName: non-empty, token characters, no upper-case letter *)
Definition valid_wire_name (n : bytes) : bool :=
  match n with [] => false | _ => forallb (fun b => is_token_byte b && negb (is_upper b)) n end.
(* hpack.HeaderField.Size *)
Definition hf_size (f : hfield) : N := lenN (fst f) + lenN (snd f) + 32.

Record mstate := { ms_remain : N; ms_regular : bool; ms_invalid : bool; ms_emit : bool;
                   ms_trunc : bool; ms_fields : list hfield }.

(* the emit callback (called by the decoder only while emitting is enabled) *)
Definition meta_emit (st : mstate) (f : hfield) : mstate :=
  if negb (ms_emit st) then st
  else
    let pseudo := is_pseudo (fst f) in
    let regular' := ms_regular st || negb pseudo in
    let invalid := ms_invalid st || negb (valid_field_value (snd f)) ||
                   (if pseudo then ms_regular st else negb (valid_wire_name (fst f))) in
    if invalid then
      {| ms_remain := ms_remain st; ms_regular := regular'; ms_invalid := true; ms_emit := false;
         ms_trunc := ms_trunc st; ms_fields := ms_fields st |}
    else if ms_remain st <? hf_size f then
      {| ms_remain := 0; ms_regular := regular'; ms_invalid := false; ms_emit := false;
         ms_trunc := true; ms_fields := ms_fields st |}
    else
      {| ms_remain := ms_remain st - hf_size f; ms_regular := regular'; ms_invalid := false; ms_emit := true;
         ms_trunc := ms_trunc st; ms_fields := ms_fields st ++ [f] |}.

(* the per-fragment loop: size guard (uint32 arithmetic), invalid-then-CONTINUATION guard, decode *)
Fixpoint meta_frags (st : mstate) (frags : list (N * list hfield)) : res mstate :=
  match frags with
  | [] => Ok st
  | (len, fs) :: r =>
      if (2 * ms_remain st) mod 2 ^ 32 <? len then Err (EConn ErrCodeProtocol)
      else if ms_invalid st then Err (EConn ErrCodeProtocol)
      else meta_frags (fold_left meta_emit fs st) r
  end.

(* MetaHeadersFrame.PseudoFields / checkPseudos *)
Fixpoint pseudo_prefix (fs : list hfield) : list hfield :=
  match fs with
  | f :: r => if is_pseudo (fst f) then f :: pseudo_prefix r else []
  | [] => []
  end.
Definition request_pseudo_names : list bytes := [bs ":method"; bs ":path"; bs ":scheme"; bs ":authority"; bs ":protocol"].
Fixpoint check_pseudos_from (seen : list bytes) (isreq isresp : bool) (pf : list hfield) : bool :=
  match pf with
  | [] => negb (isreq && isresp)
  | f :: r =>
      let n := fst f in
      if mem_bytes n request_pseudo_names then
        if mem_bytes n seen then false else check_pseudos_from (n :: seen) true isresp r
      else if bytes_eqb n (bs ":status") then
        if mem_bytes n seen then false else check_pseudos_from (n :: seen) isreq true r
      else false
  end.
Definition check_pseudos (fields : list hfield) : bool :=
  check_pseudos_from [] false false (pseudo_prefix fields).

Definition h2_meta (max_list sid : N) (frags : list (N * list hfield)) : meta_res :=
  let st0 := {| ms_remain := max_list; ms_regular := false; ms_invalid := false; ms_emit := true;
                ms_trunc := false; ms_fields := [] |} in
  match meta_frags st0 frags with
  | Err e => MErr e
  | Ok st =>
      if ms_invalid st then MErr (EStream sid ErrCodeProtocol)
      else if negb (check_pseudos (ms_fields st)) then MErr (EStream sid ErrCodeProtocol)
      else MOk (ms_fields st) (ms_trunc st)
  end.

(* ---------- several header blocks on one connection ---------- *)
(* The Framer's hpack decoder (Framer.ReadMetaHeaders) lives as long as the connection; besides its
   dynamic table (HPACK, abstracted) it carries ONE flag from block to block: whether it still
   emits fields (the emit callback switches it off on an invalid field or a size overflow).
   h2_meta_run emit0 = one readMetaFrame call that starts with the decoder's flag at emit0; second
   component: the flag it leaves behind (None: connection error, nothing is read any more). *)
Definition h2_meta_run (emit0 : bool) (max_list sid : N) (frags : list (N * list hfield)) : meta_res * option bool :=
  let st0 := {| ms_remain := max_list; ms_regular := false; ms_invalid := false; ms_emit := emit0;
                ms_trunc := false; ms_fields := [] |} in
  match meta_frags st0 frags with
  | Err e => (MErr e, None)
  | Ok st =>
      (if ms_invalid st then MErr (EStream sid ErrCodeProtocol)
       else if negb (check_pseudos (ms_fields st)) then MErr (EStream sid ErrCodeProtocol)
       else MOk (ms_fields st) (ms_trunc st), Some (ms_emit st))
  end.

(* readMetaFrame: `hdec.SetEmitEnabled(true)` first, whatever the previous block left behind *)
Definition h2_meta_from (dec_emit : bool) := h2_meta_run true.
(* the same without that line (what a decoder "emitting by default" would give): for the refutation *)
Definition h2_meta_from_noreset (dec_emit : bool) := h2_meta_run dec_emit.

(* ReadFrame over a sequence of header blocks (stream id, fragments) until a connection error *)
Fixpoint h2_meta_seq_with (run : bool -> N -> N -> list (N * list hfield) -> meta_res * option bool)
         (dec_emit : bool) (max_list : N) (blocks : list (N * list (N * list hfield))) : list meta_res :=
  match blocks with
  | [] => []
  | (sid, frags) :: r =>
      let '(res, e') := run dec_emit max_list sid frags in
      res :: match e' with Some e => h2_meta_seq_with run e max_list r | None => [] end
  end.
Definition h2_meta_seq := h2_meta_seq_with h2_meta_from.

(* ---------- the rest of the decoder's carried state: is it between two blocks? ---------- *)
(* Besides the emit flag the hpack decoder carries its position: after hdec.Close() it expects the
   first field of a block (only there may a dynamic table size update stand) and holds no unfinished
   field representation.  Per block two more inputs: su = the block opens with a size update (the peer
   takes a new SETTINGS_HEADER_TABLE_SIZE into use), torn = the block ends inside a field
   representation.  readMetaFrame calls hdec.Close() BEFORE it looks at the malformed-field verdict:
   a torn block is a connection COMPRESSION_ERROR whatever else it holds, and every block that does
   not kill the connection leaves the decoder closed.  close_first = false: the malformed-field
   stream error returned before Close (for the refutation). *)
Definition h2_meta_run2 (close_first : bool) (dec : bool * bool) (* emit flag, decoder still open *)
           (max_list sid : N) (su torn : bool) (frags : list (N * list hfield)) : meta_res * option (bool * bool) :=
  if snd dec && su then (MErr (EConn ErrCodeCompression), None)   (* size update in mid-block: hpack refuses *)
  else
    match h2_meta_run true max_list sid frags with
    | (r, None) => (r, None)
    | (r, Some e) =>
        let invalid_err := match meta_frags {| ms_remain := max_list; ms_regular := false; ms_invalid := false;
                                               ms_emit := true; ms_trunc := false; ms_fields := [] |} frags with
                           | Ok st => ms_invalid st | Err _ => false end in
        if close_first then
          if torn then (MErr (EConn ErrCodeCompression), None) else (r, Some (e, false))
        else
          if invalid_err then (r, Some (e, true))                  (* returned before Close: left open *)
          else if torn then (MErr (EConn ErrCodeCompression), None) else (r, Some (e, false))
    end.

Fixpoint h2_meta_seq2 (close_first : bool) (dec : bool * bool) (max_list : N)
         (blocks : list (N * (bool * bool) * list (N * list hfield))) : list meta_res :=
  match blocks with
  | [] => []
  | (sid, (su, torn), frags) :: r =>
      let '(res, d') := h2_meta_run2 close_first dec max_list sid su torn frags in
      res :: match d' with Some d => h2_meta_seq2 close_first d max_list r | None => [] end
  end.

(* ---------- Framer.ErrorDetail over a sequence of ReadFrame calls ---------- *)
(* Framer.errDetail is one more thing the Framer carries from call to call: the detail of the last
   error (set by readMetaFrame for a malformed field / pseudo-header misuse).  ReadFrame clears it
   FIRST, so what ErrorDetail() says after a call is about that call.  Events: a header block
   (HEADERS + CONTINUATION, as above) or a frame the frame parser itself refuses with a stream error
   before checkFrameOrder is reached (WINDOW_UPDATE with increment 0, HEADERS padded beyond its
   payload).  Observed per event: the result and whether ErrorDetail() is non-nil.
   reset_first = false: the reset moved into checkFrameOrder (for the refutation). *)
Inductive fevent :=
| EvBlock (sid : N) (su torn : bool) (frags : list (N * list hfield))
| EvRejected (sid : N).

Definition read_event (reset_first : bool) (dec : bool * bool) (detail : bool) (max_list : N) (ev : fevent)
  : (meta_res * bool) * option ((bool * bool) * bool) :=
  match ev with
  | EvRejected sid =>
      let d := if reset_first then false else detail in
      ((MErr (EStream sid ErrCodeProtocol), d), Some (dec, d))
  | EvBlock sid su torn frags =>
      let '(res, dec') := h2_meta_run2 true dec max_list sid su torn frags in
      (* the HEADERS frame itself parsed: the detail is cleared either way, then set by a stream error *)
      let d := match res with MErr (EStream _ _) => true | _ => false end in
      ((res, d), match dec' with Some x => Some (x, d) | None => None end)
  end.

Fixpoint read_events (reset_first : bool) (dec : bool * bool) (detail : bool) (max_list : N) (evs : list fevent)
  : list (meta_res * bool) :=
  match evs with
  | [] => []
  | ev :: r =>
      let '(o, st) := read_event reset_first dec detail max_list ev in
      o :: match st with Some (dec', d') => read_events reset_first dec' d' max_list r | None => [] end
  end.
