(* Model/H2EncConn.v - one HTTP/2 connection's request header encoder over a sequence of exchanges
   (ClientConn.encodeHeaders / encodeTrailers in internal/http2/transport.go: cc.henc with its HPACK
   dynamic table lives as long as the connection).  HPACK itself (golang.org/x/net/http2/hpack, not
   forked) is a Section variable: an encoder state S, a peer decoder state D, and the one fact the
   proofs need about them (a block decodes to its fields and keeps the two in step).  What IS the
   fork's: the discipline that a header / trailer list larger than the peer's
   SETTINGS_MAX_HEADER_LIST_SIZE is refused in a first pass, before the encoder is touched.
   No proofs here. *)
From ReqV Require Export Lib.Bytes Lib.BigEndian Model.H2Frame Model.H3Frame Model.H2Meta.
Open Scope N_scope.

(* the first pass of encodeHeaders / encodeTrailers: hlSize > cc.peerMaxHeaderListSize *)
Definition hlist_size (fs : list hfield) : N := fold_right (fun f a => hf_size f + a) 0 fs.
Definition over_limit (limit : N) (fs : list hfield) : bool := limit <? hlist_size fs.

Section Conn.
Variables S D B : Type.                               (* encoder state, peer decoder state, header block *)
Variable enc : S -> list hfield -> B * S.            (* henc.WriteField for every field, in order *)
Variable dec : D -> B -> option (list hfield * D).   (* the peer: hpack.Decoder.DecodeFull *)

(* two_pass = true: the code as it is (size counted first, encoder untouched on refusal);
   false: encode while counting, drop the bytes on refusal (for the refutation) *)
Definition conn_send (two_pass : bool) (limit : N) (s : S) (fs : list hfield) : option B * S :=
  if two_pass then
    if over_limit limit fs then (None, s) else let '(b, s') := enc s fs in (Some b, s')
  else
    let '(b, s') := enc s fs in if over_limit limit fs then (None, s') else (Some b, s').

(* the whole connection: what the peer decodes from the blocks that were sent, in order;
   None for a refused exchange, Some None if the peer could not decode *)
Fixpoint conn_run (two_pass : bool) (limit : N) (s : S) (d : D) (xs : list (list hfield))
  : list (option (option (list hfield))) :=
  match xs with
  | [] => []
  | fs :: r =>
      match conn_send two_pass limit s fs with
      | (None, s') => None :: conn_run two_pass limit s' d r
      | (Some b, s') =>
          match dec d b with
          | Some (got, d') => Some (Some got) :: conn_run two_pass limit s' d' r
          | None => [Some None]
          end
      end
  end.
End Conn.

(* a small concrete HPACK (dynamic table = list of fields, newest first; a field in the table is
   sent as its index, any other as a literal that both sides insert) - only to exhibit the failure
   of the one-pass variant *)
Inductive tok := TIdx (i : nat) | TLit (f : hfield).
Definition hfield_eqb (a b : hfield) : bool := bytes_eqb (fst a) (fst b) && bytes_eqb (snd a) (snd b).
Fixpoint tbl_find (f : hfield) (t : list hfield) : option nat :=
  match t with
  | [] => None
  | g :: r => if hfield_eqb f g then Some O else match tbl_find f r with Some i => Some (S i) | None => None end
  end.
Fixpoint toy_enc_toks (t : list hfield) (fs : list hfield) : list tok * list hfield :=
  match fs with
  | [] => ([], t)
  | f :: r => match tbl_find f t with
              | Some i => let '(ts, t') := toy_enc_toks t r in (TIdx i :: ts, t')
              | None => let '(ts, t') := toy_enc_toks (f :: t) r in (TLit f :: ts, t')
              end
  end.
Fixpoint toy_dec_toks (t : list hfield) (ts : list tok) : option (list hfield * list hfield) :=
  match ts with
  | [] => Some ([], t)
  | TIdx i :: r => match nth_error t i with
                   | Some f => match toy_dec_toks t r with Some (fs, t') => Some (f :: fs, t') | None => None end
                   | None => None
                   end
  | TLit f :: r => match toy_dec_toks (f :: t) r with Some (fs, t') => Some (f :: fs, t') | None => None end
  end.
