(* Model/HeaderKeepAlive.v - C16: the HTTP/1.1 transport's own "Connection: close".
   transport.go persistConn.roundTrip: with Transport.DisableKeepAlives the transport adds the extra
   header Connection: close - unless the request already asks for it (http_request.go reqWantsClose:
   req.Close, or the token "close" in the FIRST value of the canonical Connection header; http.go
   hasToken: ASCII case-insensitive, bounded by blank, comma or tab) or switches protocols.
   The extra headers (Accept-Encoding: gzip, Connection: close) are written after the caller's map,
   key-sorted when there is no order list, through SortKeyValues otherwise.
   (Request.Close and protocol switches are outside the modelled domain.) *)
From ReqV Require Export Model.HeaderCollect.

Definition is_token_boundary (b : byte) : bool := beqb b " "%byte || beqb b ","%byte || beqb b x09.

(* the maximal runs of non-boundary bytes *)
Fixpoint pieces_go (acc : bytes) (v : bytes) : list bytes :=
  match v with
  | [] => [rev acc]
  | c :: r => if is_token_boundary c then rev acc :: pieces_go [] r else pieces_go (c :: acc) r
  end.

Definition has_token (v token : bytes) : bool :=
  existsb (fun p => bytes_eqb (to_lower p) token) (pieces_go [] v).

Definition req_wants_close (h : list kv) : bool :=
  has_token (header_get h (bs "Connection")) (bs "close").

Definition conn_close_kv (dka : bool) (q : creq) : list kv :=
  if dka && negb (req_wants_close (c_hdr q)) then [(bs "Connection", [bs "close"])] else [].

(* the variant that looks at Request.Close only (never set here): the caller's header is not consulted *)
Definition conn_close_kv_blind (dka : bool) (q : creq) : list kv :=
  if dka then [(bs "Connection", [bs "close"])] else [].

Definition h1_kvs_ka (extra : bool -> creq -> list kv) (dka : bool) (q : creq) : list kv :=
  let h := c_hdr q in
  [(bs "Host", [c_host q])] ++ h1_ua h ++ cl_kv (bs "Content-Length") (c_method q) (c_clen q) ++
  (if is_nil (order_list h) then sort_by_key (h1_user h) else h1_user h) ++
  gzip_kv (bs "Accept-Encoding") q ++ extra dka q.

Definition h1_lines_ka (dka : bool) (q : creq) : list line :=
  flatten (sort_if (order_list (c_hdr q)) (h1_kvs_ka conn_close_kv dka q)).
