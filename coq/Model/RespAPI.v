(* Model/RespAPI.v - C02: the Response API layer of req as a small reader algebra.

   client.go Client.roundTrip (auto-read + "restore body for re-reads"), response.go
   Response.ToBytes / Bytes (the cache Response.body, Response.Err), middleware.go
   handleDownload (SetOutput / SetOutputFile: io.Copy from the cache if there is one, else
   from Response.Body), Request.DisableAutoReadResponse.

   A body stream is the bytes still to come followed by a sticky terminal condition
   (io.EOF or another error).  Buffer sizes are the caller's: every theorem quantifies over
   them.  What is NOT modelled: Close (ToBytes and handleDownload close the body they
   drained), the response-body transformer hook, unmarshalling (SetSuccessResult), timing
   callbacks.  No proofs here. *)
From ReqV Require Export Lib.Bytes.

Inductive bend := BEof | BFail.        (* io.EOF / any other error *)

Definition bend_eqb (a b : bend) : bool :=
  match a, b with BEof, BEof | BFail, BFail => true | _, _ => false end.

Record reader := { rd_rem : bytes; rd_end : bend }.

Definition exhausted (r : reader) : reader := {| rd_rem := []; rd_end := rd_end r |}.

(* one Read into a buffer of n bytes (n > 0): the data, the error if any, the reader
   afterwards.  An exhausted reader reports its terminal condition, again and again. *)
Definition rd_read (n : nat) (r : reader) : bytes * option bend * reader :=
  match rd_rem r with
  | [] => ([], Some (rd_end r), r)
  | _ => (firstn n (rd_rem r), None, {| rd_rem := skipn n (rd_rem r); rd_end := rd_end r |})
  end.

(* a caller loop: Read with the given buffer sizes until an error is returned (or the
   list of sizes runs out: then no terminal condition was seen) *)
Fixpoint drain (sizes : list nat) (r : reader) : bytes * option bend * reader :=
  match sizes with
  | [] => ([], None, r)
  | n :: ns =>
      match rd_read n r with
      | (d, Some e, r') => (d, Some e, r')
      | (d, None, r') => let '(d', e', r'') := drain ns r' in (d ++ d', e', r'')
      end
  end.

(* io.ReadAll: everything up to the terminal condition; ok = it was io.EOF *)
Definition read_all (r : reader) : bytes * bool * reader :=
  (rd_rem r, bend_eqb (rd_end r) BEof, exhausted r).

(* io.Copy(w, r): what reached the writer; ok = the source ended with io.EOF *)
Definition copy_to (w : bytes) (r : reader) : bytes * bool * reader :=
  (w ++ rd_rem r, bend_eqb (rd_end r) BEof, exhausted r).

(* bytes.NewReader(b) *)
Definition mem_reader (b : bytes) : reader := {| rd_rem := b; rd_end := BEof |}.

(* ---------- Response ---------- *)

Record rstate := {
  s_err : bool;               (* Response.Err != nil *)
  s_cache : option bytes;     (* Response.body; None = nil = nothing read yet *)
  s_body : reader             (* Response.Response.Body *)
}.

(* Response.ToBytes: (bytes returned, no error returned, state afterwards) *)
Definition to_bytes (s : rstate) : bytes * bool * rstate :=
  if s_err s then ([], false, s)
  else match s_cache s with
       | Some b => (b, true, s)
       | None =>
           let '(d, ok, r') := read_all (s_body s) in
           (d, ok, {| s_err := negb ok; s_cache := Some d; s_body := r' |})
       end.

(* Response.Bytes *)
Definition bytes_of (s : rstate) : option bytes := s_cache s.

Record flags := {
  f_disable_auto : bool;      (* Client/Request.DisableAutoReadResponse *)
  f_save : bool               (* Request.SetOutput / SetOutputFile (isSaveResponse) *)
}.

(* Client.roundTrip after httpClient.Do succeeded with status [code] and body [body]:
   auto-read + restored Body, then the afterResponse chain (handleDownload; parseResponseBody
   does nothing without a result type).  [out] = what the output writer / file received. *)
Definition after_do (fl : flags) (code : Z) (body : reader) : rstate * bytes :=
  let s0 := {| s_err := false; s_cache := None; s_body := body |} in
  let s1 :=
    if negb (f_disable_auto fl) && negb (f_save fl) && (199 <? code)%Z then
      let '(_, _, s) := to_bytes s0 in
      {| s_err := s_err s; s_cache := s_cache s;
         s_body := mem_reader (match s_cache s with Some b => b | None => [] end) |}
    else s0 in
  if f_save fl then
    let src := match s_cache s1 with Some b => mem_reader b | None => s_body s1 end in
    let '(w, ok, src') := copy_to [] src in
    ({| s_err := s_err s1 || negb ok; s_cache := s_cache s1;
        s_body := match s_cache s1 with Some _ => s_body s1 | None => src' end |}, w)
  else (s1, []).

(* ---------- what the harness observes, per read mode ---------- *)

Inductive mode :=
| MAuto        (* default: Bytes(), then stream the restored Body, then ToBytes again *)
| MStream      (* DisableAutoReadResponse, caller reads Body with its own buffer sizes *)
| MToBytes     (* DisableAutoReadResponse, then ToBytes twice *)
| MOutput.     (* SetOutput / SetOutputFile *)

Record api_obs := {
  o_err : bool;               (* the call returned an error *)
  o_bytes : option bytes;     (* Response.Bytes() right after the call *)
  o_stream : bytes;           (* concatenation of what the Read loop returned *)
  o_stream_end : option bend; (* the error that ended the Read loop *)
  o_again : bytes;            (* a final ToBytes *)
  o_again_ok : bool;
  o_out : bytes               (* output writer / file contents *)
}.

Definition flags_of (m : mode) : flags :=
  match m with
  | MAuto => {| f_disable_auto := false; f_save := false |}
  | MStream | MToBytes => {| f_disable_auto := true; f_save := false |}
  | MOutput => {| f_disable_auto := false; f_save := true |}
  end.

Definition run_mode (m : mode) (code : Z) (sizes : list nat) (body : reader) : api_obs :=
  let '(s, out) := after_do (flags_of m) code body in
  match m with
  | MAuto =>
      let '(d, e, r') := drain sizes (s_body s) in
      let s' := {| s_err := s_err s; s_cache := s_cache s; s_body := r' |} in
      let '(b2, ok2, _) := to_bytes s' in
      {| o_err := s_err s; o_bytes := bytes_of s; o_stream := d; o_stream_end := e;
         o_again := b2; o_again_ok := ok2; o_out := out |}
  | MStream =>
      let '(d, e, _) := drain sizes (s_body s) in
      {| o_err := s_err s; o_bytes := bytes_of s; o_stream := d; o_stream_end := e;
         o_again := []; o_again_ok := true; o_out := out |}
  | MToBytes =>
      let '(b1, ok1, s1) := to_bytes s in
      let '(b2, ok2, _) := to_bytes s1 in
      {| o_err := s_err s; o_bytes := bytes_of s; o_stream := b1;
         o_stream_end := Some (if ok1 then BEof else BFail);
         o_again := b2; o_again_ok := ok2; o_out := out |}
  | MOutput =>
      {| o_err := s_err s; o_bytes := bytes_of s; o_stream := []; o_stream_end := None;
         o_again := []; o_again_ok := true; o_out := out |}
  end.
