(* Model/RespAPI.v - C02: the Response API layer of req as a small reader algebra.

   client.go Client.roundTrip (auto-read + "restore body for re-reads"), response.go
   Response.ToBytes / Bytes (the cache Response.body, Response.Err), middleware.go
   handleDownload (SetOutput / SetOutputFile: io.Copy from the cache if there is one, else
   from Response.Body), Request.DisableAutoReadResponse.

   A body stream is the bytes still to come followed by a sticky terminal condition
   (io.EOF or another error).  Buffer sizes are the caller's: every theorem quantifies over
   them.  What is NOT modelled: Close (ToBytes and handleDownload close the body they
   drained), the response-body transformer hook, unmarshalling (SetSuccessResult), timing
   callbacks.  No proofs here. *)
From ReqV Require Export Lib.Bytes.

Inductive bend := BEof | BFail.        (* io.EOF / any other error *)

Definition bend_eqb (a b : bend) : bool :=
  match a, b with BEof, BEof | BFail, BFail => true | _, _ => false end.

Record reader := { rd_rem : bytes; rd_end : bend }.

Definition exhausted (r : reader) : reader := {| rd_rem := []; rd_end := rd_end r |}.

(* one Read into a buffer of n bytes (n > 0): the data, the error if any, the reader
   afterwards.  An exhausted reader reports its terminal condition, again and again. *)
Definition rd_read (n : nat) (r : reader) : bytes * option bend * reader :=
  match rd_rem r with
  | [] => ([], Some (rd_end r), r)
  | _ => (firstn n (rd_rem r), None, {| rd_rem := skipn n (rd_rem r); rd_end := rd_end r |})
  end.

(* a caller loop: Read with the given buffer sizes until an error is returned (or the
   list of sizes runs out: then no terminal condition was seen) *)
Fixpoint drain (sizes : list nat) (r : reader) : bytes * option bend * reader :=
  match sizes with
  | [] => ([], None, r)
  | n :: ns =>
      match rd_read n r with
      | (d, Some e, r') => (d, Some e, r')
      | (d, None, r') => let '(d', e', r'') := drain ns r' in (d ++ d', e', r'')
      end
  end.

(* io.ReadAll: everything up to the terminal condition; ok = it was io.EOF *)
Definition read_all (r : reader) : bytes * bool * reader :=
  (rd_rem r, bend_eqb (rd_end r) BEof, exhausted r).

(* io.Copy(w, r): what reached the writer; ok = the source ended with io.EOF *)
Definition copy_to (w : bytes) (r : reader) : bytes * bool * reader :=
  (w ++ rd_rem r, bend_eqb (rd_end r) BEof, exhausted r).

(* bytes.NewReader(b) *)
Definition mem_reader (b : bytes) : reader := {| rd_rem := b; rd_end := BEof |}.

(* ---------- Response ---------- *)

Record rstate := {
  s_err : bool;               (* Response.Err != nil *)
  s_cache : option bytes;     (* Response.body; None = nil = nothing read yet *)
  s_body : reader             (* Response.Response.Body *)
}.

(* Response.ToBytes: (bytes returned, no error returned, state afterwards) *)
Definition to_bytes (s : rstate) : bytes * bool * rstate :=
  if s_err s then ([], false, s)
  else match s_cache s with
       | Some b => (b, true, s)
       | None =>
           let '(d, ok, r') := read_all (s_body s) in
           (d, ok, {| s_err := negb ok; s_cache := Some d; s_body := r' |})
       end.

(* Response.Bytes *)
Definition bytes_of (s : rstate) : option bytes := s_cache s.

Record flags := {
  f_disable_auto : bool;      (* Client/Request.DisableAutoReadResponse *)
  f_save : bool               (* Request.SetOutput / SetOutputFile (isSaveResponse) *)
}.

(* Client.roundTrip after httpClient.Do succeeded with status [code] and body [body]:
   auto-read + restored Body, then the afterResponse chain (handleDownload; parseResponseBody
   does nothing without a result type).  [out] = what the output writer / file received. *)
Definition after_do (fl : flags) (code : Z) (body : reader) : rstate * bytes :=
  let s0 := {| s_err := false; s_cache := None; s_body := body |} in
  let s1 :=
    if negb (f_disable_auto fl) && negb (f_save fl) && (199 <? code)%Z then
      let '(_, _, s) := to_bytes s0 in
      {| s_err := s_err s; s_cache := s_cache s;
         s_body := mem_reader (match s_cache s with Some b => b | None => [] end) |}
    else s0 in
  if f_save fl then
    let src := match s_cache s1 with Some b => mem_reader b | None => s_body s1 end in
    let '(w, ok, src') := copy_to [] src in
    ({| s_err := s_err s1 || negb ok; s_cache := s_cache s1;
        s_body := match s_cache s1 with Some _ => s_body s1 | None => src' end |}, w)
  else (s1, []).

(* ---------- what the harness observes, per read mode ---------- *)

Inductive mode :=
| MAuto        (* default: Bytes(), then stream the restored Body, then ToBytes again *)
| MStream      (* DisableAutoReadResponse, caller reads Body with its own buffer sizes *)
| MToBytes     (* DisableAutoReadResponse, then ToBytes twice *)
| MOutput.     (* SetOutput / SetOutputFile *)

Record api_obs := {
  o_err : bool;               (* the call returned an error *)
  o_bytes : option bytes;     (* Response.Bytes() right after the call *)
  o_stream : bytes;           (* concatenation of what the Read loop returned *)
  o_stream_end : option bend; (* the error that ended the Read loop *)
  o_again : bytes;            (* a final ToBytes *)
  o_again_ok : bool;
  o_out : bytes               (* output writer / file contents *)
}.

Definition flags_of (m : mode) : flags :=
  match m with
  | MAuto => {| f_disable_auto := false; f_save := false |}
  | MStream | MToBytes => {| f_disable_auto := true; f_save := false |}
  | MOutput => {| f_disable_auto := false; f_save := true |}
  end.

Definition run_mode (m : mode) (code : Z) (sizes : list nat) (body : reader) : api_obs :=
  let '(s, out) := after_do (flags_of m) code body in
  match m with
  | MAuto =>
      let '(d, e, r') := drain sizes (s_body s) in
      let s' := {| s_err := s_err s; s_cache := s_cache s; s_body := r' |} in
      let '(b2, ok2, _) := to_bytes s' in
      {| o_err := s_err s; o_bytes := bytes_of s; o_stream := d; o_stream_end := e;
         o_again := b2; o_again_ok := ok2; o_out := out |}
  | MStream =>
      let '(d, e, _) := drain sizes (s_body s) in
      {| o_err := s_err s; o_bytes := bytes_of s; o_stream := d; o_stream_end := e;
         o_again := []; o_again_ok := true; o_out := out |}
  | MToBytes =>
      let '(b1, ok1, s1) := to_bytes s in
      let '(b2, ok2, _) := to_bytes s1 in
      {| o_err := s_err s; o_bytes := bytes_of s; o_stream := b1;
         o_stream_end := Some (if ok1 then BEof else BFail);
         o_again := b2; o_again_ok := ok2; o_out := out |}
  | MOutput =>
      {| o_err := s_err s; o_bytes := bytes_of s; o_stream := []; o_stream_end := None;
         o_again := []; o_again_ok := true; o_out := out |}
  end.

(* ====================================================================== *)
(* Round 2: the API layer in more detail                                  *)
(* ====================================================================== *)
(* response.go ToBytes with Client.SetResponseBodyTransformer, Bytes/String/ToString (views of
   the cache), UnmarshalJson (ToBytes, then the unmarshaller gets exactly those bytes);
   client.go roundTrip + middleware.go parseResponseBody (SetSuccessResult: unmarshalBody ->
   ToBytes fills the cache before handleDownload) + handleDownload with an output writer
   that may fail after accepting some bytes, and the download callback wrapper
   (callbackReader: a pass-through that reports the total once the stream hit io.EOF).
   Any sequence of caller operations afterwards. *)

(* ToBytes and handleDownload close the body they drained: a later Read fails ("read on closed
   response body", errClosedResponseBody, a cancelled QUIC stream) *)
Definition closed_reader : reader := {| rd_rem := []; rd_end := BFail |}.

(* the transformer hook: None = it returned an error *)
Definition transformer := bytes -> option bytes.

Definition to_bytes_t (tf : option transformer) (s : rstate) : bytes * bool * rstate :=
  if s_err s then ([], false, s)
  else match s_cache s with
       | Some b => (b, true, s)
       | None =>
           let '(d, ok, _) := read_all (s_body s) in
           let r' := closed_reader in
           if ok then
             match tf with
             | None => (d, true, {| s_err := false; s_cache := Some d; s_body := r' |})
             | Some f =>
                 match f d with
                 | Some d' => (d', true, {| s_err := false; s_cache := Some d'; s_body := r' |})
                 | None => ([], false, {| s_err := true; s_cache := None; s_body := r' |})
                 end
             end
           else (d, false, {| s_err := true; s_cache := Some d; s_body := r' |})
       end.

Record cfg := {
  c_disable_auto : bool;          (* DisableAutoReadResponse *)
  c_save : bool;                  (* SetOutput / SetOutputFile *)
  c_cap : option nat;             (* the output writer fails after accepting this many bytes *)
  c_callback : bool;              (* SetDownloadCallback (with SetOutput) *)
  c_result : bool;                (* SetSuccessResult: parseResponseBody unmarshals the body *)
  c_tf : option transformer
}.

(* io.Copy into a writer that accepts at most [cap] bytes: what it received, no error *)
Definition copy_capped (cap : option nat) (r : reader) : bytes * bool :=
  match cap with
  | None => (rd_rem r, bend_eqb (rd_end r) BEof)
  | Some n => if length (rd_rem r) <=? n then (rd_rem r, bend_eqb (rd_end r) BEof)
              else (firstn n (rd_rem r), false)
  end.

Record done := {
  a_state : rstate;          (* the Response handed to the caller *)
  a_out : bytes;             (* what the output writer / file received *)
  a_callbacks : list nat;    (* DownloadedSize values reported (interval = never: only the final one) *)
  a_unmarshal : option bytes (* bytes handed to the unmarshaller by parseResponseBody *)
}.

Definition success_state (code : Z) : bool := (199 <? code)%Z && (code <? 300)%Z.

Definition finish (c : cfg) (code : Z) (body : reader) : done :=
  let s0 := {| s_err := false; s_cache := None; s_body := body |} in
  (* auto-read + restored Body *)
  let s1 :=
    if negb (c_disable_auto c) && negb (c_save c) && (199 <? code)%Z then
      let '(_, _, s) := to_bytes_t (c_tf c) s0 in
      {| s_err := s_err s; s_cache := s_cache s;
         s_body := mem_reader (match s_cache s with Some b => b | None => [] end) |}
    else s0 in
  (* parseResponseBody *)
  let '(s2, um) :=
    if c_result c && success_state code && negb (code =? 204)%Z then
      let '(b, ok, s) := to_bytes_t (c_tf c) s1 in (s, if ok then Some b else None)
    else (s1, None) in
  (* did the transport body reach io.EOF through the callback wrapper? *)
  let total := length (rd_rem body) in
  let eof_seen (through_all : bool) :=
    through_all && bend_eqb (rd_end body) BEof && negb (total =? 0) in
  if c_save c then
    match s_cache s2 with
    | Some b =>   (* already read (by parseResponseBody): copy from the cache *)
        let '(w, ok) := copy_capped (c_cap c) (mem_reader b) in
        {| a_state := {| s_err := s_err s2 || negb ok; s_cache := s_cache s2; s_body := s_body s2 |};
           a_out := w;
           a_callbacks := if c_callback c && eof_seen true then [total] else [];
           a_unmarshal := um |}
    | None =>
        if s_err s2 then
          (* an earlier stage failed without leaving a body (fix 42fc3cf): nothing is copied *)
          {| a_state := s2; a_out := []; a_callbacks := []; a_unmarshal := um |}
        else
        let '(w, ok) := copy_capped (c_cap c) (s_body s2) in
        {| a_state := {| s_err := s_err s2 || negb ok; s_cache := None; s_body := closed_reader |};
           a_out := w;
           a_callbacks := if c_callback c && negb (s_err s2) &&
                             eof_seen (match c_cap c with None => true | Some n => total <=? n end)
                          then [total] else [];
           a_unmarshal := um |}
    end
  else {| a_state := s2; a_out := []; a_callbacks := []; a_unmarshal := um |}.

(* what the caller does with the Response afterwards, any number of times, in any order *)
Inductive op :=
| OpBytes                       (* Bytes() / String() *)
| OpToBytes                     (* ToBytes() / ToString() *)
| OpRead (sizes : list nat)     (* a Read loop on Response.Body with these buffer sizes *)
| OpUnmarshal.                  (* UnmarshalJson *)

Inductive op_out :=
| OutBytes (b : option bytes)
| OutToBytes (b : bytes) (ok : bool)
| OutRead (d : bytes) (e : option bend)
| OutUnmarshal (input : option bytes).   (* the bytes handed to the unmarshaller; None = error first *)

Fixpoint run_ops (tf : option transformer) (ops : list op) (s : rstate) : list op_out :=
  match ops with
  | [] => []
  | OpBytes :: r => OutBytes (s_cache s) :: run_ops tf r s
  | OpToBytes :: r => let '(b, ok, s') := to_bytes_t tf s in OutToBytes b ok :: run_ops tf r s'
  | OpRead sizes :: r =>
      let '(d, e, rd') := drain sizes (s_body s) in
      OutRead d e :: run_ops tf r {| s_err := s_err s; s_cache := s_cache s; s_body := rd' |}
  | OpUnmarshal :: r =>
      let '(b, ok, s') := to_bytes_t tf s in
      OutUnmarshal (if ok then Some b else None) :: run_ops tf r s'
  end.

(* ====================================================================== *)
(* SetOutputFile: the file system as state across exchanges               *)
(* ====================================================================== *)
(* middleware.go handleDownload: file = outputFile, prefixed with Client.outputDirectory when
   that is set and the name is not absolute, filepath.Clean'ed (the names considered are
   clean); directories are created; os.Create = create or TRUNCATE; io.Copy.  The content of
   the file afterwards is what was written, whatever the file held before. *)
Definition store := list (bytes * bytes).    (* path -> content *)

Fixpoint store_get (p : bytes) (st : store) : option bytes :=
  match st with
  | [] => None
  | (q, c) :: r => if bytes_eqb p q then Some c else store_get p r
  end.

Fixpoint store_put (p c : bytes) (st : store) : store :=
  match st with
  | [] => [(p, c)]
  | (q, c0) :: r => if bytes_eqb p q then (q, c) :: r else (q, c0) :: store_put p c r
  end.

Definition is_abs (p : bytes) : bool := match p with x :: _ => beqb x "/"%byte | [] => false end.

Definition output_path (dir file : bytes) : bytes :=
  match dir with
  | [] => file
  | _ => if is_abs file then file else dir ++ "/"%byte :: file
  end.

Definition download_to_file (st : store) (dir file written : bytes) : store :=
  store_put (output_path dir file) written st.

(* a sequence of exchanges of one client, each saving its body to a file *)
Fixpoint download_all (st : store) (dir : bytes) (steps : list (bytes * Z * bytes)) : list store :=
  match steps with
  | [] => []
  | (file, code, body) :: r =>
      let d := finish {| c_disable_auto := false; c_save := true; c_cap := None; c_callback := false;
                         c_result := false; c_tf := None |} code {| rd_rem := body; rd_end := BEof |} in
      let st' := download_to_file st dir file (a_out d) in
      st' :: download_all st' dir r
  end.
