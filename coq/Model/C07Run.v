(* Model/C07Run.v - case type and checker evaluated on harness-generated cases (C07).
   Every observation was made on the REAL client (child process of harness/c07). *)
From ReqV Require Export Lib.Bytes Model.Decode Model.BodyStages Model.H1Resp Model.H1Limits Model.AltSvc Model.H2Info.
From ReqV Require Model.Digest Model.H3Frame Model.H3Limits Gen.C07Consts Model.H2GoAway.

(* run-length piece for big hostile streams: [repN n b] = n copies of byte b *)
Definition repN (n b : N) : bytes := repeat (byte_of_N_total b) (N.to_nat n).

Inductive h1obs :=
| OErr                                         (* the call returned an error and no response *)
| OResp (code : Z) (body_ok : bool) (body_len : N).

Inductive c07_case :=
(* the reader stack found (by reflection) under Response.Body after RoundTrip *)
| StageCase (st : stack) (q : reqcfg) (wire_cl : Z) (ended auto : bool) (p : pcfg) (resp_ae ce ct : bytes)
            (o : ct_oracle) (obs_tags : list ltag) (obs_nil : bool)
(* a hostile byte stream served to the real client over TCP; [limit] = MaxResponseHeaderBytes,
   [slack] = read buffer size (bytes possibly buffered before a budget reset) *)
| H1Case (meth : bytes) (bufsize limit slack : N) (stream : bytes) (cmp_body : bool) (obs : h1obs)
(* altsvcutil.ParseHeader on a header text: entries (protocol, host, port, "ma accepted") and error *)
| AltSvcCase (input : bytes) (obs : list (bytes * bytes * bytes * bool)) (obs_err : perr)
(* parseChallenge on a WWW-Authenticate text: accepted or not *)
| ChallengeCase (input : bytes) (obs_ok : bool)
(* bytes served on an HTTP/3 response stream to the real client (default control stream);
   [max] = MaxResponseHeaderBytes, [q] = what quic-go's QPACK decoder makes of each field section *)
| H3Case (max : N) (q : H3Limits.qoracle) (stream : bytes) (obs : h1obs)
(* HTTP/2: the :status values of the HEADERS blocks served on the stream, in order (none with END_STREAM) *)
| H2InfoCase (codes : list Z) (obs : h1obs)
(* a digest challenge through parseChallenge + authorize: 0 = not parsed, 1 = algorithm refused, 2 = algorithm accepted *)
| DigestAlgCase (chal : bytes) (obs : N)
(* the header map of an accepted head: number of distinct (canonical) names and of values *)
| HdrCase (meth : bytes) (bufsize : N) (stream : bytes) (nkeys nvals : N)
(* HTTP/2: the GOAWAY frames served, and the GoAwayError the pending request ended with *)
| GoAwayCase (frames : list H2GoAway.gframe) (obs_last obs_code : N) (obs_debug : bytes).

Definition perr_eqb (a b : perr) : bool :=
  match a, b with
  | PNil, PNil | PEOF, PEOF | PErr AQuote, PErr AQuote | PErr AExpectMa, PErr AExpectMa
  | PErr AParseInt, PErr AParseInt => true
  | _, _ => false            (* PFuel never matches *)
  end.

Definition entry_eqb (e : entry) (o : bytes * bytes * bytes * bool) : bool :=
  let '(p, h, pt, ma) := o in
  bytes_eqb (e_proto e) p && bytes_eqb (e_host e) h && bytes_eqb (e_port e) pt && Bool.eqb (e_ma e) ma.

Definition ltag_eqb (a b : ltag) : bool :=
  match a, b with
  | TEofSignal, TEofSignal | TGzipH1, TGzipH1 | TCallback, TCallback | TCharset, TCharset
  | TEndChecked, TEndChecked | TTracked, TTracked
  | TAutoDecode, TAutoDecode | TDump, TDump => true
  | TCompress x, TCompress y => enc_eqb x y
  | _, _ => false
  end.

Definition berr_is_ok (e : berr) : bool := match e with BOk => true | _ => false end.

Definition xmatch (x : exchange) (cmp_body : bool) (o : h1obs) : bool :=
  match x, o with
  | XErr, OErr => true
  | XResp code _ b, OResp code' ok len =>
      (code =? code')%Z &&
      (negb cmp_body ||
       (Bool.eqb (berr_is_ok (b_end b)) ok &&
        (negb ok || (N.of_nat (length (b_data b)) =? len)%N)))
  | _, _ => false
  end.

Definition c07_check (c : c07_case) : bool :=
  match c with
  | StageCase st q wire_cl ended auto p resp_ae ce ct o tags bottom_nil =>
      let tc := {| t_head := q_head q; t_wire_cl := wire_cl; t_ended := ended;
                   t_asked := asked_gzip st q; t_auto := auto |} in
      (* which response header guards the decoder stage is read off the source by gosync *)
      let guard := guard_value (bytes_eqb C07Consts.fork_autodecode_guard_header (bs "Content-Encoding"))
                               resp_ae ce (transport_rewrites st tc ce) in
      (* the harness walks the stack after the body has been read (at least one Read) *)
      let b := after_first_read (pipeline st tc p guard ce ct o) in
      let '(ts, n) := flatten b in
      list_eqb ltag_eqb ts tags && Bool.eqb n bottom_nil && sound b
  | H1Case m bsz lim slack s cmp o =>
      (* the first head sees exactly [limit] bytes; a head behind an informational response sees
         between [limit] and [limit + slack] bytes (what was already buffered); the call is
         monotone in that number (H1LimitsProofs.call_monotone), so the observation must
         agree with one of the two ends *)
      (* a budget beyond the end of the stream is the same as the stream's length (firstn) *)
      let len := N.of_nat (length s) in
      let v1 := N.to_nat (N.min lim len) in
      xmatch (run_exchange2 m (N.to_nat bsz) v1 v1 s) cmp o ||
      xmatch (run_exchange2 m (N.to_nat bsz) v1 (N.to_nat (N.min (lim + slack) len)) s) cmp o
  | AltSvcCase v es e =>
      let '(es', e') := parse_header v in
      list_eqb entry_eqb es' es && perr_eqb e' e
  | ChallengeCase v ok =>
      Bool.eqb (match Digest.parse_challenge v with inl _ => true | inr _ => false end) ok
  | H2InfoCase codes o =>
      match h2_info_run false istate0 (map (fun c => EvHeaders c false) codes), o with
      | RFinal code _, OResp code' _ _ => (code =? code')%Z
      | RErr, OErr | ROpen _, OErr => true
      | _, _ => false
      end
  | DigestAlgCase chal o =>
      match Digest.parse_challenge chal with
      | inr _ => (o =? 0)%N
      | inl c => match Digest.lookup_alg (Digest.c_algorithm c) with
                 | None => (o =? 1)%N
                 | Some _ => (o =? 2)%N
                 end
      end
  | GoAwayCase fs l c d =>
      match H2GoAway.goaway_run None fs with
      | Some st => (H2GoAway.gs_last st =? l)%N && (H2GoAway.gs_code st =? c)%N && bytes_eqb (H2GoAway.gs_debug st) d
      | None => false
      end
  | HdrCase m bsz s nk nv =>
      match read_response_head m (N.to_nat bsz) s with
      | inr (r, _) => (N.of_nat (length (r_header r)) =? nk)%N &&
                      (N.of_nat (fold_left (fun a kv => (a + length (snd kv))%nat) (r_header r) 0%nat) =? nv)%N
      | inl _ => false
      end
  | H3Case max q s o =>
      match H3Limits.h3_read_call max q s, o with
      | H3Limits.H3Resp _ code _, OResp code' _ _ => (code =? code')%Z
      | H3Limits.H3CallErr _, OErr | H3Limits.H3TooMany1xx, OErr => true
      | _, _ => false
      end
  end.
