(* Model/CharsetFind.v - charsets.FindEncoding (internal/charsets/charsets.go:21-41) for C15:
   the byte-order-mark table (regenerated from the source by gosync) in front of the HTML prescan.
   Abstract: htmlcharset.Lookup ([lookup_name]: label -> encoding and canonical name) and the prescan
   ([prescan]: content -> encoding and name, x/net/html tokenizer inside).  No proofs here. *)
From ReqV Require Export Lib.Bytes Model.Charset.
From ReqV Require Import Gen.CharsetBoms.

Section Find.
  Variable enc : Type.
  Variable lookup_name : bytes -> option (enc * bytes).   (* htmlcharset.Lookup(label) *)
  Variable prescan : bytes -> option (enc * bytes).       (* charsets.prescan(content); nil encoding = None *)

  (* for _, b := range boms { if bytes.HasPrefix(content, b.bom) { enc, name = Lookup(b.enc); if enc != nil {...return} } } *)
  Fixpoint find_bom (tbl : list (bytes * bytes)) (content : bytes) : option (enc * bytes) :=
    match tbl with
    | [] => None
    | (mark, label) :: r =>
        if has_prefix mark content then
          match lookup_name label with
          | Some x => Some x
          | None => find_bom r content
          end
        else find_bom r content
    end.

  Definition is_utf8_name (name : bytes) : bool := bytes_eqb (to_lower name) (bs "utf-8").

  Definition drop_utf8 (x : option (enc * bytes)) : option enc :=
    match x with
    | Some (e, name) => if is_utf8_name name then None else Some e
    | None => None
    end.

  Definition find_encoding_m (content : bytes) : option enc :=
    if is_empty content then None
    else match find_bom charset_boms content with
         | Some x => drop_utf8 (Some x)
         | None => drop_utf8 (prescan content)
         end.
End Find.

Arguments find_bom {enc}.
Arguments drop_utf8 {enc}.
Arguments find_encoding_m {enc}.
