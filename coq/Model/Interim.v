(* Model/Interim.v - C03: one exchange = the header blocks the peer sent on the stream (interim
   1xx responses, then the final one) followed by the body; and a content-coding on top of
   the framing.

   Interim responses: transport.go persistConn.readResponse (HTTP/1.1), internal/http2
   handleResponse (cs.num1xx, pastHeaders reset), internal/http3 client.go doRequest loop over
   requestStream.ReadResponse: every non-terminal 1xx block (100..199 except 101) is skipped,
   at most five of them; the Content-Length accounting of the body is built from the block
   that is NOT skipped - whatever the skipped ones declared.  [accounting_cl]: a response
   that cannot have content (1xx i.e. 101, 204, 304) owes no DATA for its Content-Length
   (http2 handleResponse bodyAllowedForStatus, http3 ReadResponse bodyLength).

   Content-coding: internal/compress readers (gzip, deflate, br, zstd) over the framed body:
   the decoder [dec] is a parameter (what it returns on a complete coded stream); the reader
   reports success only when the framing below ended cleanly as well (the decoder's io.EOF
   is not the end of the message).  No proofs here. *)
From ReqV Require Export Lib.Bytes Lib.BigEndian Model.BodyFraming Model.StreamBody Model.StreamWire.
Local Open Scope N_scope.

Record hblock := mkHb { hb_status : N; hb_cl : option N }.

Definition is_interim (b : hblock) : bool :=
  (100 <=? hb_status b) && (hb_status b <=? 199) && negb (hb_status b =? 101).

Definition max_1xx : nat := 5.

Inductive final_res :=
| FinalNone            (* the stream ended before a final header block *)
| FinalTooMany         (* "too many 1xx informational responses" *)
| Final (b : hblock).

Fixpoint final_block (budget : nat) (bs : list hblock) {struct bs} : final_res :=
  match bs with
  | [] => FinalNone
  | b :: r =>
      if is_interim b then
        match budget with O => FinalTooMany | S k => final_block k r end
      else Final b
  end.

Definition bodiless (st : N) : bool :=
  (st =? 204) || (st =? 304) || ((100 <=? st) && (st <=? 199)).

Definition accounting_cl (b : hblock) : option N :=
  match hb_cl b with
  | Some n => if (0 <? n) && bodiless (hb_status b) then Some 0 else Some n
  | None => None
  end.

(* None = the call fails (no final response) *)
Definition h3_exchange (bs : list hblock) (wire : bytes) (e : h3end) : option (bytes * h3wres) :=
  match final_block max_1xx bs with
  | Final b => Some (h3_wire_read true (accounting_cl b) wire e)
  | _ => None
  end.

Definition h2_exchange (bs : list hblock) (hdr_end : bool) (evs : list h2ev) : option (bytes * h2err) :=
  match final_block max_1xx bs with
  | Final b => Some (h2_read (accounting_cl b) hdr_end evs)
  | _ => None
  end.

(* the accounting carried over from the FIRST header block of the stream (a seeded variant of
   http3 ReadResponse reused the body object built for an interim block) - kept to be refuted *)
Definition h3_exchange_carried (bs : list hblock) (wire : bytes) (e : h3end) : option (bytes * h3wres) :=
  match bs, final_block max_1xx bs with
  | b0 :: _, Final _ => Some (h3_wire_read true (accounting_cl b0) wire e)
  | _, _ => None
  end.

(* ---- content-coding on top of a framed read-to-end ---- *)
Section Coded.
  Variable dec : bytes -> option bytes.   (* the decoder on a whole coded stream; None = its error *)
  Definition coded_read {E : Type} (clean : E -> bool) (r : bytes * E) : option bytes :=
    if clean (snd r) then dec (fst r) else None.
End Coded.

Definition h2_clean (e : h2err) : bool := h2err_eqb e H2Clean.
Definition h3w_clean (r : h3wres) : bool := h3wres_eqb r (W3 H3Clean).

(* the decoder as far as a harness case knows it: the [zlen] bytes of the coded stream decode
   to [plen] bytes, no proper non-empty prefix decodes; a body of no bytes at all is an empty
   body for gzip.NewReader (io.EOF), brotli and zstd, and io.ErrUnexpectedEOF for flate *)
Inductive coding := CGzip | CDeflate | CBr | CZstd.
Definition empty_is_empty_body (c : coding) : bool :=
  match c with CDeflate => false | _ => true end.
(* andybalholm/brotli's Reader returns a clean io.EOF when its source runs dry at the start
   of a Read call, finished stream or not (BrotliReader, known finding): whether a proper
   non-empty prefix of a brotli stream is reported as truncated depends on where the reads
   fall, so a case cannot tell; every other decoder rejects such a prefix *)
Definition prefix_verdict_unknown (c : coding) (zlen : N) (d : bytes) : bool :=
  match c, d with
  | CBr, _ :: _ => lenN d <? zlen
  | _, _ => false
  end.
Definition dec_by_len (c : coding) (zlen plen : N) (d : bytes) : option bytes :=
  if lenN d =? zlen then Some (repeat x00 (N.to_nat plen))
  else match d with
       | [] => if empty_is_empty_body c then Some [] else None
       | _ => None
       end.
