(* Model/DecodeLive.v - settings changed between exchanges on live connections (C14).

   Go code modelled: the three stacks read the configuration where they use it, through the shared
   *transport.Options: persistConn.roundTrip `pc.t.DisableCompression` (request time) and readLoop
   `pc.t.AutoDecompression` (response time); http2 roundTrip `cc.t.DisableCompression`, handleResponse
   `cs.cc.t.AutoDecompression`; http3 SendRequestHeader `s.DisableCompression` (s.Options is the shared
   pointer; `s.disableCompression` is the same field passed by value when the stream is opened, i.e. at
   request time) and ReadResponse `s.AutoDecompression`.  Client.EnableAutoDecompress() /
   DisableAutoDecompress() / DisableCompression() / EnableCompression() write those fields.  A
   connection lives across such changes; nothing about the decision is remembered in it.
   The model threads a connection record - with the settings it was opened under, which is what a
   stack COULD remember - through a list of exchanges, each made under the settings current at that
   time.  `live_exchange_snapshot` is the variant where HTTP/2 decides on AutoDecompression as it was
   when the connection was opened (NOT the code; kept for the refutation).  No proofs in this file. *)
From ReqV Require Export Lib.Bytes Model.Decode.

Record settings := { set_disable : bool; set_auto : bool }.
Record liveconn := { lc_opened : settings; lc_exchanges : nat }.

(* what the caller does in one exchange: its own Accept-Encoding / Range, the method *)
Record reqshape := { rq_ae : bytes; rq_range : bytes; rq_head : bool }.

Definition cfg_under (s : settings) (q : reqshape) : reqcfg :=
  {| q_disable := set_disable s; q_ae := rq_ae q; q_range := rq_range q; q_head := rq_head q |}.

Definition live_exchange (st : stack) (lc : liveconn) (cur : settings) (q : reqshape) (ended : bool)
  (r : resp) : resp * liveconn :=
  (respond st (cfg_under cur q) (set_auto cur) ended r,
   {| lc_opened := lc_opened lc; lc_exchanges := S (lc_exchanges lc) |}).

Definition live_exchange_snapshot (st : stack) (lc : liveconn) (cur : settings) (q : reqshape)
  (ended : bool) (r : resp) : resp * liveconn :=
  (respond st (cfg_under cur q)
           (match st with H2 => set_auto (lc_opened lc) | _ => set_auto cur end) ended r,
   {| lc_opened := lc_opened lc; lc_exchanges := S (lc_exchanges lc) |}).

Definition live_step := (settings * reqshape * bool * resp)%type.

Fixpoint live_run (ex : liveconn -> settings -> reqshape -> bool -> resp -> resp * liveconn)
  (lc : liveconn) (steps : list live_step) : list resp :=
  match steps with
  | [] => []
  | (cur, q, ended, r) :: rest =>
      let '(r', lc') := ex lc cur q ended r in r' :: live_run ex lc' rest
  end.

(* ---------- several clients (Client.Clone) ---------- *)

(* Transport.Clone builds a NEW http2 transport (own connection pool) pointing at the clone's own
   Options; http1 idle connections and the http3 round tripper are the clone's own as well.  A
   population of clients is the list of their current settings; an exchange names its client. *)
Definition client_exchange (st : stack) (cs : list settings) (k : nat) (q : reqshape) (ended : bool)
  (r : resp) : option resp :=
  match nth_error cs k with
  | Some s => Some (respond st (cfg_under s q) (set_auto s) ended r)
  | None => None
  end.

(* NOT the code: clones share client 0's HTTP/2 connection pool, an HTTP/2 exchange of any client
   runs on a connection whose transport - and settings - are client 0's *)
Definition client_exchange_shared_h2_pool (st : stack) (cs : list settings) (k : nat) (q : reqshape)
  (ended : bool) (r : resp) : option resp :=
  match nth_error cs k, nth_error cs 0 with
  | Some s, Some s0 =>
      Some (respond st (cfg_under s q) (match st with H2 => set_auto s0 | _ => set_auto s end) ended r)
  | _, _ => None
  end.

(* ---------- what travels with the request, and what would stay on the connection ---------- *)

(* HTTP/1: "the transport added Accept-Encoding: gzip" travels with the request (requestAndChan.addedGzip,
   set by roundTrip, read by readLoop for THAT request); a response without a body (204, 304,
   Content-Length: 0, HEAD) takes the early `continue` of readLoop and never looks at it.  In
   `live_exchange` the decision is a function of the exchange's own request.  NOT the code: the flag as
   a field of the connection that roundTrip sets and readLoop takes only where it builds a body - after
   a bodiless answer it stays set for the next exchange on the kept-alive connection. *)
Record h1conn := { pc_added : bool }.

Definition bodiless (q : reqshape) (r : resp) : bool := rq_head q || (r_cl r =? 0)%Z.

Definition h1_exchange_connflag (pc : h1conn) (cur : settings) (q : reqshape) (r : resp)
  : resp * h1conn :=
  let added := asked_gzip H1 (cfg_under cur q) || pc_added pc in   (* roundTrip only ever sets it *)
  if bodiless q r then (r, {| pc_added := added |})                 (* the early continue: not taken *)
  else
    let ce := content_encoding (r_ce r) in
    (apply_action (if added && equal_fold ce tok_gzip then Gunzip
                   else if set_auto cur then auto_action ce else Untouched) r,
     {| pc_added := false |}).

Fixpoint h1_run_connflag (pc : h1conn) (steps : list live_step) : list resp :=
  match steps with
  | [] => []
  | (cur, q, _, r) :: rest =>
      let '(r', pc') := h1_exchange_connflag pc cur q r in r' :: h1_run_connflag pc' rest
  end.

(* ---------- the charset step after the decoding decision ---------- *)

(* Transport.RoundTrip runs autoDecodeResponseBody (charset -> UTF-8, property C15) on what the decode
   decision of the stack returned.  Its guard: `t.disableAutoDecode || res.Header.Get("Content-Encoding")
   != ""` -> leave alone: a body that still carries a Content-Encoding - ANY non-empty value, decodable by
   the transport or not - is not text in any charset yet.  NOT the code: a guard that knows an
   enumerated list of codings only. *)
Definition charset_step_applies (disable_autodecode : bool) (r : resp) : bool :=
  negb disable_autodecode && is_empty (header_get (r_ce r)).

Definition known_coding_tokens : list bytes :=
  [bs "gzip"; bs "x-gzip"; bs "deflate"; bs "br"; bs "zstd"; bs "compress"; bs "x-compress"].

Definition charset_step_applies_listed (disable_autodecode : bool) (r : resp) : bool :=
  negb disable_autodecode &&
  negb (existsb (fun t => bytes_eqb (to_lower (header_get (r_ce r))) t) known_coding_tokens).

(* ---------- body wrappers (download callback, dump) ---------- *)

(* Transport.wrapResponseBody puts a byte-preserving wrapper (download progress, dump) on the MESSAGE
   body: below the decoder where there is one (`b.body.body = wrap(b.body.body)` for transport.go's
   gzipReader, SetUnderlyingBody for the compress readers), on res.Body otherwise.  The body the caller
   holds keeps its shape.  NOT the code: `res.Body = wrap(b.body)` - the wrapper replaces the decoder. *)
Definition wrap_body (b : body) : body := b.

Definition wrap_replacing_decoder (b : body) : body :=
  match b with Lazy _ w => Raw w | other => other end.

Definition with_body (r : resp) (b : body) : resp :=
  {| r_ce := r_ce r; r_clh := r_clh r; r_other := r_other r; r_cl := r_cl r; r_unc := r_unc r;
     r_body := b; r_short := r_short r |}.
