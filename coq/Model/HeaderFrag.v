(* Model/HeaderFrag.v - C16: an HTTP/2 header block of any size arrives.
   internal/http2/transport.go ClientConn.writeHeaders: the block is cut into a HEADERS frame and
   CONTINUATION frames of at most the peer's SETTINGS_MAX_FRAME_SIZE; with a HEADERS priority
   configured the first fragment is 5 bytes shorter (the priority fields are part of that frame's
   payload); END_HEADERS is computed AFTER the cut: set when nothing is left. *)
From ReqV Require Export Lib.Bytes.

Record hframe := mk_hframe {
  f_prio : bool;       (* HEADERS frame carrying the 5 priority bytes *)
  f_frag : bytes;      (* header block fragment *)
  f_end : bool }.      (* END_HEADERS *)

Definition is_nilb (l : bytes) : bool := match l with [] => true | _ => false end.

Fixpoint split_block (fuel : nat) (first prio : bool) (max : nat) (hdrs : bytes) : list hframe :=
  match fuel with
  | O => []
  | S f =>
      if is_nilb hdrs then []
      else
        let m := if first && prio && (5 <? max) then max - 5 else max in
        let chunk := firstn m hdrs in
        let rest := skipn m hdrs in
        mk_hframe (first && prio) chunk (is_nilb rest) :: split_block f false prio max rest
  end.

Definition write_headers (prio : bool) (max : nat) (hdrs : bytes) : list hframe :=
  split_block (length hdrs) true prio max hdrs.

(* the variant that decides END_HEADERS before the cut: "what is left fits into one frame" *)
Fixpoint split_block_early (fuel : nat) (first prio : bool) (max : nat) (hdrs : bytes) : list hframe :=
  match fuel with
  | O => []
  | S f =>
      if is_nilb hdrs then []
      else
        let e := length hdrs <=? max in
        let m := if first && prio && (5 <? max) then max - 5 else max in
        mk_hframe (first && prio) (firstn m hdrs) e :: split_block_early f false prio max (skipn m hdrs)
  end.

Definition payload_len (f : hframe) : nat := length (f_frag f) + (if f_prio f then 5 else 0).

(* what a peer reassembles: fragments up to and including the first END_HEADERS *)
Fixpoint reassemble (fs : list hframe) : bytes :=
  match fs with
  | [] => []
  | f :: r => if f_end f then f_frag f else f_frag f ++ reassemble r
  end.

(* the same cut on lengths only (what the harness observes: payload length and END_HEADERS per
   frame); Proofs/HeaderFragProofs.v split_len_is_shape ties it to split_block *)
From Coq Require Import NArith.
Fixpoint split_len (fuel : nat) (first prio : bool) (max left : N) : list (N * bool) :=
  match fuel with
  | O => []
  | S f =>
      if (left =? 0)%N then []
      else
        let m := if first && prio && (5 <? max)%N then (max - 5)%N else max in
        let chunk := N.min m left in
        let rest := (left - chunk)%N in
        ((chunk + (if first && prio then 5 else 0))%N, (rest =? 0)%N) :: split_len f false prio max rest
  end.

Definition frames_fuel (max left : N) : nat := N.to_nat (left / (N.max 1 (max - 5))) + 2.
Definition write_headers_len (prio : bool) (max left : N) : list (N * bool) :=
  split_len (frames_fuel max left) true prio max left.
