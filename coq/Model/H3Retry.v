(* Model/H3Retry.v - how often one HTTP/3 call may send its request (C07).

   Go code modelled: internal/http3/roundtrip.go RoundTripOpt, after a failed round trip:
       if isReused && req.Context().Err() == nil {
           if timeout error { return r.RoundTripOpt(req, opt) }
           if !opt.OnlyCachedConn && isReplayable(req) && (isConnClosed(conn) || isConnError(err)) {
               return r.RoundTripOpt(req, opt) } }
   The failed connection has been removed, so the next attempt dials: isReused = false there.
   The peer is hostile: it may fail EVERY attempt.  [guarded] = true is the code (both retry branches
   under isReused), false the variant whose replay branch lost the guard.  No proofs here. *)
From ReqV Require Export Lib.Bytes.

Inductive failure := FTimeout | FConnClosed | FOther.

Record rcfg := { r_replayable : bool; r_only_cached : bool }.

Definition retry_allowed (guarded : bool) (c : rcfg) (reused ctx_done : bool) (f : failure) : bool :=
  if ctx_done then false
  else match f with
       | FTimeout => reused
       | FConnClosed => (if guarded then reused else true) && negb (r_only_cached c) && r_replayable c
       | FOther => false
       end.

(* attempts made when the i-th attempt fails with [fails i] (a peer that never lets one succeed);
   [fuel] bounds the recursion, [None] = still retrying when it ran out *)
Fixpoint attempts (guarded : bool) (c : rcfg) (fuel : nat) (reused : bool) (fails : list failure) : option nat :=
  match fuel with
  | O => None
  | S f =>
      match fails with
      | [] => Some 1                         (* this attempt succeeds *)
      | x :: r =>
          if retry_allowed guarded c reused false x
          then match attempts guarded c f false r with Some n => Some (S n) | None => None end
          else Some 1
      end
  end.
