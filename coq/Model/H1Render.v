(* Model/H1Render.v - specification-level renderers used to STATE the C04 theorems (what a
   well-formed sender puts on the wire).  Not a model of any code in /repo. *)
From ReqV Require Export Model.H1Resp.

Definition CRLF : bytes := [CR; LF].

(* a chunk as sent: the text of its size line (without CRLF; may carry leading zeros, any hex
   case, extensions, trailing blanks) and its data *)
Definition render_chunk (c : bytes * bytes) : bytes := fst c ++ CRLF ++ snd c ++ CRLF.
Definition render_chunks (cs : list (bytes * bytes)) : bytes := flat_map render_chunk cs.

(* [l] is an acceptable size line announcing [n] bytes for a reader whose bufio buffer holds
   [bufsize] bytes *)
Definition size_line_ok (bufsize : nat) (l : bytes) (n : N) : Prop :=
  mem_byte LF l = false /\ length l + 2 <= bufsize /\ length l + 2 < max_line_length /\
  parse_hex_uint (remove_chunk_extension (trim_trailing_ws (l ++ CRLF))) = HexOk n.

(* every chunk is non-empty, announced correctly, and the overhead accounting (started at
   [ex]) never exceeds the limit *)
Fixpoint chunks_ok (bufsize : nat) (ex : Z) (cs : list (bytes * bytes)) : Prop :=
  match cs with
  | [] => True
  | (l, d) :: r =>
      let ex' := excess_after ex (length (l ++ CRLF)) (N.of_nat (length d)) in
      d <> [] /\ size_line_ok bufsize l (N.of_nat (length d)) /\
      (ex' <= excess_limit)%Z /\ chunks_ok bufsize ex' r
  end.

(* sufficient, overhead-free shape: size line at most 14 bytes longer than twice the data *)
Definition chunk_plain (bufsize : nat) (c : bytes * bytes) : Prop :=
  snd c <> [] /\ size_line_ok bufsize (fst c) (N.of_nat (length (snd c))) /\
  (Z.of_nat (length (fst c)) + 4 <= 16 + 2 * Z.of_nat (length (snd c)))%Z /\
  (Z.of_nat (length (snd c)) < 2 ^ 60)%Z.
