(* Model/ConnectHdr.v - C19: the client-level option ProxyConnectHeader and the CONNECT to an http proxy.
   Transport.dialConn takes hdr := t.ProxyConnectHeader (no GetProxyConnectHeader callback), makes one when nil,
   and - when the proxy URL in force has credentials - sets Proxy-Authorization on a COPY (ch_clone_before_auth,
   regenerated from the source) or on the option's map itself.  `stuck` = credentials left in the option's map.
   Credentials are (user, password), (0, 0) = none; ch_given = which header the caller configured, 0 = nil. *)
From Coq Require Import List Arith Bool.
Import ListNotations.

Record chtbl := { ch_clone_before_auth : bool }.
Definition good_ch : chtbl := {| ch_clone_before_auth := true |}.

Record chopt := { ch_given : nat; ch_stuck : nat * nat }.
Definition chopt0 : chopt := {| ch_given := 0; ch_stuck := (0, 0) |}.
Definition no_auth (a : nat * nat) : bool := (fst a =? 0) && (snd a =? 0).

(* one CONNECT under the credentials `auth` of the proxy URL in force: (option afterwards, credentials sent) *)
Definition ch_dial (t : chtbl) (o : chopt) (auth : nat * nat) : chopt * (nat * nat) :=
  if no_auth auth then (o, if ch_given o =? 0 then (0, 0) else ch_stuck o)
  else if ch_clone_before_auth t || (ch_given o =? 0) then (o, auth)
  else ({| ch_given := ch_given o; ch_stuck := auth |}, auth).

Inductive chop :=
| ChSetHeader (v : nat)            (* SetProxyConnectHeader(a fresh header v), 0 = nil *)
| ChDial (auth : nat * nat).       (* an https request through the proxy in force *)

Definition ch_step (t : chtbl) (o : chopt) (x : chop) : chopt :=
  match x with
  | ChSetHeader v => {| ch_given := v; ch_stuck := (0, 0) |}
  | ChDial a => fst (ch_dial t o a)
  end.

(* programs over clients: proxy setting (credentials), configured header, Clone (Options.Clone clones the map), requests *)
Inductive chstep :=
| CkSetProxy (c u p : nat)
| CkSetHeader (c v : nat)
| CkClone (src dst : nat)
| CkReq (c u p v : nat) (optclean : bool).   (* observed: credentials + configured header in the CONNECT; the option read back has no Proxy-Authorization *)

Record chclient := { cc_auth : nat * nat; cc_opt : chopt }.
Definition chclient0 : chclient := {| cc_auth := (0, 0); cc_opt := chopt0 |}.
Definition ckget (c : nat) (l : list (nat * chclient)) : chclient :=
  match find (fun kv => fst kv =? c) l with Some kv => snd kv | None => chclient0 end.
Definition ckset (c : nat) (x : chclient) (l : list (nat * chclient)) := (c, x) :: filter (fun kv => negb (fst kv =? c)) l.

Fixpoint ch_run (t : chtbl) (st : list (nat * chclient)) (l : list chstep) : bool :=
  match l with
  | [] => true
  | CkSetProxy c u p :: r => ch_run t (ckset c {| cc_auth := (u, p); cc_opt := cc_opt (ckget c st) |} st) r
  | CkSetHeader c v :: r => ch_run t (ckset c {| cc_auth := cc_auth (ckget c st); cc_opt := ch_step t (cc_opt (ckget c st)) (ChSetHeader v) |} st) r
  | CkClone s d :: r => ch_run t (ckset d (ckget s st) st) r
  | CkReq c u p v clean :: r =>
      let x := ckget c st in
      let '(o', a) := ch_dial t (cc_opt x) (cc_auth x) in
      (fst a =? u) && (snd a =? p) && (ch_given o' =? v) && Bool.eqb (no_auth (ch_stuck o')) clean
      && ch_run t (ckset c {| cc_auth := cc_auth x; cc_opt := o' |} st) r
  end.
