(* Model/DecodeSession.v - several decoded response bodies alive at the same time (C14).

   Go code modelled:
     internal/compress/{gzip,deflate,brotli,zstd}_reader.go and transport.go gzipReader: every reader
     value owns its decompressor: the first Read calls gzip.NewReader / flate.NewReader /
     brotli.NewReader / zstd.NewReader on ITS OWN underlying body, which allocates a NEW object; the
     reader keeps the pointer (gz.zr) and every later Read goes through it; Close closes the
     underlying body (GzipReader additionally sets the sticky fs.ErrClosed) and the object becomes
     garbage.  Nothing is shared between two reader values, no package-level state.

   The model makes the pointer structure explicit: a session has a heap of decompressor objects
   (address -> running decoder state, `rd` of Model/Decode.v), an allocation counter (Go's `new`:
   an address never handed out before), and one `sreader` per response that is either a state
   without a decompressor (`SRd`: plain body, decoder not started), a pointer into the heap
   (`SRStarted z`), or closed.  Operations are addressed to one response and arbitrarily
   interleaved.  That the result of an operation on response i is a function of response i's own
   body and own operations is a THEOREM about this model (Proofs/DecodeSessionProofs.v), not a
   definition: it needs that no two live readers hold the same address.  `sess_step_pooled` is the
   same session with decompressors recycled through a free list that Close feeds without clearing
   the reader's pointer (the shape of a sync.Pool recycling bug) - kept for the refutation.
   No proofs in this file. *)
From ReqV Require Export Lib.Bytes Model.Decode.

(* ---------- one reader alone, with Close ---------- *)

(* Read until n bytes were delivered or a Read returned an error (io.ReadFull without the
   EOF -> ErrUnexpectedEOF translation).  The model's rd_read delivers min(n, remaining) bytes, so
   at most one more call is needed to learn the terminal status. *)
Definition rd_read_full (dec : codec) (n : nat) (r : rd) : bytes * option rerr * rd :=
  match rd_read dec n r with
  | (b, Some e, r') => (b, Some e, r')
  | (b, None, r') =>
      if Nat.ltb (length b) n then
        let '(b2, e2, r'') := rd_read dec (n - length b) r' in (b ++ b2, e2, r'')
      else (b, None, r')
  end.

Inductive rop := OReadFull (n : nat) | OClose.

(* outcome of one operation: nil error / a Read error (io.EOF included) / read on a closed body /
   no such response *)
Inductive ostat := StOk | StEnd (e : rerr) | StClosed | StBadIndex.

Definition ostat_of (e : option rerr) : ostat :=
  match e with None => StOk | Some x => StEnd x end.

Definition opres := (bytes * ostat)%type.

Inductive crd := COpen (r : rd) | CClosed.

Definition crd_step (dec : codec) (op : rop) (c : crd) : opres * crd :=
  match c, op with
  | CClosed, OReadFull _ => (([], StClosed), CClosed)
  | CClosed, OClose => (([], StOk), CClosed)            (* closing twice is harmless *)
  | COpen _, OClose => (([], StOk), CClosed)
  | COpen r, OReadFull n =>
      let '(b, e, r') := rd_read_full dec n r in ((b, ostat_of e), COpen r')
  end.

Fixpoint crd_run (dec : codec) (ops : list rop) (c : crd) : list opres * crd :=
  match ops with
  | [] => ([], c)
  | op :: rest =>
      let '(x, c') := crd_step dec op c in
      let '(xs, c'') := crd_run dec rest c' in (x :: xs, c'')
  end.

(* ---------- a session: heap of decompressor objects + one reader per response ---------- *)

Inductive sreader :=
| SRd (r : rd)          (* holds no decompressor: plain body, or decoder not started (zr == nil) *)
| SRStarted (z : nat)   (* zr == address z *)
| SRClosed.

Definition heap := nat -> rd.
Definition heap_upd (h : heap) (z : nat) (v : rd) : heap := fun k => if Nat.eqb k z then v else h k.

Record sess := { s_next : nat; s_heap : heap; s_rds : list sreader }.

Fixpoint set_nth {A} (i : nat) (v : A) (l : list A) : list A :=
  match l, i with
  | [], _ => []
  | _ :: t, O => v :: t
  | x :: t, S i' => x :: set_nth i' v t
  end.

Definition sess_open (bodies : list body) : sess :=
  {| s_next := 0; s_heap := fun _ => RNil; s_rds := map (fun b => SRd (open_body b)) bodies |}.

(* the object gzip.NewReader(body) (flate.NewReader, ...) returns: a running decoder over the whole
   of THAT body *)
Definition new_decoder (dec : codec) (e : enc) (w : bytes) : rd :=
  RRun (s_data (dec e w)) (s_end (dec e w)).

Definition sess_step (dec : codec) (o : nat * rop) (s : sess) : opres * sess :=
  let '(i, op) := o in
  match nth_error (s_rds s) i with
  | None => (([], StBadIndex), s)
  | Some a =>
      match a, op with
      | SRClosed, OReadFull _ => (([], StClosed), s)
      | SRClosed, OClose => (([], StOk), s)
      | _, OClose =>
          (([], StOk), {| s_next := s_next s; s_heap := s_heap s; s_rds := set_nth i SRClosed (s_rds s) |})
      | SRd (RLazy e w), OReadFull n =>
          let z := s_next s in                                   (* a new object *)
          let '(b, err, obj') := rd_read_full dec n (new_decoder dec e w) in
          ((b, ostat_of err),
           {| s_next := S z; s_heap := heap_upd (s_heap s) z obj';
              s_rds := set_nth i (SRStarted z) (s_rds s) |})
      | SRd r, OReadFull n =>
          let '(b, err, r') := rd_read_full dec n r in
          ((b, ostat_of err),
           {| s_next := s_next s; s_heap := s_heap s; s_rds := set_nth i (SRd r') (s_rds s) |})
      | SRStarted z, OReadFull n =>
          let '(b, err, obj') := rd_read_full dec n (s_heap s z) in
          ((b, ostat_of err),
           {| s_next := s_next s; s_heap := heap_upd (s_heap s) z obj'; s_rds := s_rds s |})
      end
  end.

Fixpoint sess_run (dec : codec) (ops : list (nat * rop)) (s : sess) : list opres * sess :=
  match ops with
  | [] => ([], s)
  | o :: rest =>
      let '(x, s') := sess_step dec o s in
      let '(xs, s'') := sess_run dec rest s' in (x :: xs, s'')
  end.

(* what response i saw: the results of the operations addressed to it, in order *)
Fixpoint results_of (i : nat) (ops : list (nat * rop)) (res : list opres) : list opres :=
  match ops, res with
  | (j, _) :: ops', x :: res' =>
      if Nat.eqb j i then x :: results_of i ops' res' else results_of i ops' res'
  | _, _ => []
  end.

Fixpoint project (i : nat) (ops : list (nat * rop)) : list rop :=
  match ops with
  | [] => []
  | (j, op) :: rest => if Nat.eqb j i then op :: project i rest else project i rest
  end.

Definition delivered_bytes (res : list opres) : bytes := concat (map fst res).

(* ---------- the same with recycled decompressors (NOT the code: kept for the refutation) ---------- *)

(* Close hands the decompressor to a free list but the reader keeps its pointer (a second Close hands
   it over again); the first Read of a later response takes one from the list and re-targets it
   (Reset) to its own body. *)
Inductive preader :=
| PRd (r : rd)
| PStarted (z : nat)
| PClosed (zr : option nat).

Record psess := { p_next : nat; p_pool : list nat; p_heap : heap; p_rds : list preader }.

Definition psess_open (bodies : list body) : psess :=
  {| p_next := 0; p_pool := []; p_heap := fun _ => RNil; p_rds := map (fun b => PRd (open_body b)) bodies |}.

Definition sess_step_pooled (dec : codec) (o : nat * rop) (s : psess) : opres * psess :=
  let '(i, op) := o in
  match nth_error (p_rds s) i with
  | None => (([], StBadIndex), s)
  | Some a =>
      match a, op with
      | PClosed _, OReadFull _ => (([], StClosed), s)
      | PClosed None, OClose => (([], StOk), s)
      | PClosed (Some z), OClose =>
          (([], StOk), {| p_next := p_next s; p_pool := z :: p_pool s; p_heap := p_heap s; p_rds := p_rds s |})
      | PStarted z, OClose =>
          (([], StOk), {| p_next := p_next s; p_pool := z :: p_pool s; p_heap := p_heap s;
                          p_rds := set_nth i (PClosed (Some z)) (p_rds s) |})
      | PRd _, OClose =>
          (([], StOk), {| p_next := p_next s; p_pool := p_pool s; p_heap := p_heap s;
                          p_rds := set_nth i (PClosed None) (p_rds s) |})
      | PRd (RLazy e w), OReadFull n =>
          let '(z, pool', next') :=
            match p_pool s with
            | z :: rest => (z, rest, p_next s)
            | [] => (p_next s, [], S (p_next s))
            end in
          let '(b, err, obj') := rd_read_full dec n (new_decoder dec e w) in
          ((b, ostat_of err),
           {| p_next := next'; p_pool := pool'; p_heap := heap_upd (p_heap s) z obj';
              p_rds := set_nth i (PStarted z) (p_rds s) |})
      | PRd r, OReadFull n =>
          let '(b, err, r') := rd_read_full dec n r in
          ((b, ostat_of err),
           {| p_next := p_next s; p_pool := p_pool s; p_heap := p_heap s; p_rds := set_nth i (PRd r') (p_rds s) |})
      | PStarted z, OReadFull n =>
          let '(b, err, obj') := rd_read_full dec n (p_heap s z) in
          ((b, ostat_of err),
           {| p_next := p_next s; p_pool := p_pool s; p_heap := heap_upd (p_heap s) z obj'; p_rds := p_rds s |})
      end
  end.

Fixpoint sess_run_pooled (dec : codec) (ops : list (nat * rop)) (s : psess) : list opres * psess :=
  match ops with
  | [] => ([], s)
  | o :: rest =>
      let '(x, s') := sess_step_pooled dec o s in
      let '(xs, s'') := sess_run_pooled dec rest s' in (x :: xs, s'')
  end.
