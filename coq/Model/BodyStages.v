(* Model/BodyStages.v - the response-body wrapping pipeline (C07).

   Go code modelled (as it is after fix 4ac0921 / b03ea4e; the pinned variant is kept as
   [transport_body_pinned] for the refutation):
     transport.go  readLoop (bodyEOFSignal, gzipReader / compress reader on top)   -> transport_body H1
     internal/http2/transport.go handleResponse (noBody | transportResponseBody,
                   compress.NewGzipReader / NewCompressReader on top)              -> transport_body H2
     internal/http3/http_stream.go ReadResponse                                    -> transport_body H3
     transport.go  wrapResponseBody (type switch: *gzipReader | CompressReader | default) -> wrap_cb
     transport.go  autoDecodeResponseBody                                          -> decode_decision / decode_stage
     internal/dump WrapResponseBodyIfNeeded (one wrapper per dumper with ResponseBody) -> dump_stage
     roundtrip.go  RoundTrip -> handleResponseBody: wrap, then decode, then dump    -> pipeline

   Go's nil is modelled: a body is an [option layer], every wrapper carries the reader it wraps
   as an [option layer].  [sound] says that no reader in the stack is nil, which is what a
   Read/Close on the outermost body needs in order not to dereference nil.
   mime.ParseMediaType, htmlcharset.Lookup and ianaindex.MIME.Encoding are outside the model:
   their verdicts arrive as a [ct_oracle] (universally quantified in the theorems, recorded from
   the real libraries by the harness).  The decompress decision is Model/Decode.v (C14). *)
From ReqV Require Export Lib.Bytes Model.Decode.

Inductive ltag :=
| TEofSignal            (* transport.go bodyEOFSignal (h1, responses with a body) *)
| TGzipH1               (* transport.go gzipReader; its body field is the *bodyEOFSignal *)
| TCompress (e : enc)   (* internal/compress {Gzip,Deflate,Brotli,Zstd}Reader *)
| TEndChecked           (* internal/compress endChecked (withMessageEnd): what New*Reader return since 4cfb689;
                           its dec field is the reader above *)
| TTracked              (* internal/compress trackedBody: put between the decoder and its body by endChecked's
                           first Read *)
| TCallback             (* middleware.go callbackReader (download callback) *)
| TCharset              (* decode.go decodeReaderCloser: charset named in Content-Type *)
| TAutoDecode           (* decode.go autoDecodeReadCloser: charset sniffed from the body *)
| TDump.                (* internal/dump body wrapper *)

Inductive layer :=
| Base                                   (* the framing-level body: never nil at its call site *)
| Wrap (t : ltag) (inner : option layer).

Definition body := option layer.

Fixpoint sound_layer (l : layer) : bool :=
  match l with
  | Base => true
  | Wrap _ None => false
  | Wrap _ (Some l') => sound_layer l'
  end.

Definition sound (b : body) : bool :=
  match b with None => false | Some l => sound_layer l end.

(* outermost first; the bool says whether the stack bottoms out in nil *)
Fixpoint flatten_layer (l : layer) : list ltag * bool :=
  match l with
  | Base => ([], false)
  | Wrap t None => ([t], true)
  | Wrap t (Some l') => let '(ts, n) := flatten_layer l' in (t :: ts, n)
  end.

Definition flatten (b : body) : list ltag * bool :=
  match b with None => ([], true) | Some l => flatten_layer l end.

(* ---------- stage 0: what the transport hands to RoundTrip ---------- *)

Record tcfg := {
  t_head : bool;       (* request method is HEAD *)
  t_wire_cl : Z;       (* h1: Response.ContentLength after readTransfer *)
  t_ended : bool;      (* h2: END_STREAM on the HEADERS frame *)
  t_asked : bool;      (* the transport itself asked for gzip *)
  t_auto : bool        (* Options.AutoDecompression *)
}.

(* compress.New*Reader(body) = withMessageEnd(&XReader{Body: body}); transport.go's own gzipReader
   (h1, transport asked for gzip) is not wrapped *)
Definition mk_dec (t : ltag) (under : layer) : layer :=
  match t with
  | TCompress _ => Wrap TEndChecked (Some (Wrap t (Some under)))
  | _ => Wrap t (Some under)
  end.

Definition on_top (a : action) (under : layer) (gz : ltag) : body :=
  match a with
  | Untouched => Some under
  | Gunzip => Some (mk_dec gz under)
  | Decompress e => Some (mk_dec (TCompress e) under)
  end.

Definition transport_body (st : stack) (c : tcfg) (ce : bytes) : body :=
  match st with
  | H1 =>
      if negb (t_head c) && negb (t_wire_cl c =? 0)%Z
      then on_top (decide_h1 (t_head c) (t_wire_cl c) (t_asked c) (t_auto c) ce)
                  (Wrap TEofSignal (Some Base)) TGzipH1
      else Some Base
  | H2 => on_top (decide_h2 (t_head c) (t_ended c) (t_asked c) (t_auto c) ce) Base (TCompress Gzip)
  | H3 => on_top (decide_h3 (t_head c) (t_asked c) (t_auto c) ce) Base (TCompress Gzip)
  end.

(* the pinned code stored whatever NewCompressReader returned - nil included *)
Definition on_top_pinned (a : action_pinned) (under : layer) (gz : ltag) : body :=
  match a with
  | PUntouched => Some under
  | PGunzip => Some (Wrap gz (Some under))
  | PDecompress e => Some (Wrap (TCompress e) (Some under))
  | PNil | PNilKeep => None
  end.

Definition transport_body_pinned (st : stack) (c : tcfg) (ce : bytes) : body :=
  match st with
  | H1 =>
      if negb (t_head c) && negb (t_wire_cl c =? 0)%Z
      then on_top_pinned (decide_h1_pinned (t_head c) (t_wire_cl c) (t_asked c) (t_auto c) ce)
                         (Wrap TEofSignal (Some Base)) TGzipH1
      else Some Base
  | H2 => if t_head c || t_ended c then Some Base
          else on_top_pinned (if t_asked c && equal_fold ce tok_gzip then PGunzip
                              else if t_auto c then auto_action_pinned ce else PUntouched)
                             Base (TCompress Gzip)
  | H3 => on_top_pinned (decide_h3_pinned (t_asked c) (t_auto c) ce) Base (TCompress Gzip)
  end.

(* ---------- stage 1: wrapResponseBody (download callback) ---------- *)

(* switch b := res.Body.(type) {
     case *gzipReader:            b.body.body = wrap(b.body.body)
     case compress.CompressReader: b.SetUnderlyingBody(wrap(b.GetUnderlyingBody()))
     default:                     res.Body = wrap(res.Body) }
   wrap(x) = &callbackReader{ReadCloser: x} whatever x is (nil included). *)
Definition wrap_cb (b : body) : body :=
  match b with
  | Some (Wrap TGzipH1 (Some (Wrap TEofSignal x))) =>
      Some (Wrap TGzipH1 (Some (Wrap TEofSignal (Some (Wrap TCallback x)))))
  | Some (Wrap TGzipH1 _) => None     (* b.body is not a live *bodyEOFSignal: Go would fault here *)
  | Some (Wrap (TCompress e) x) => Some (Wrap (TCompress e) (Some (Wrap TCallback x)))
  (* endChecked is a CompressReader too; before the first Read its Get/SetUnderlyingBody go to the decoder *)
  | Some (Wrap TEndChecked (Some (Wrap (TCompress e) x))) =>
      Some (Wrap TEndChecked (Some (Wrap (TCompress e) (Some (Wrap TCallback x)))))
  | Some (Wrap TEndChecked _) => None  (* e.dec is not a live decoder: Go would fault here *)
  | _ => Some (Wrap TCallback b)
  end.

(* ---------- stage 2: autoDecodeResponseBody ---------- *)

Record ct_oracle := {
  o_parse_err : bool;          (* mime.ParseMediaType(contentType) returned an error *)
  o_charset : option bytes;    (* params["charset"] *)
  o_known : bool               (* htmlcharset.Lookup / ianaindex.MIME.Encoding found an encoding *)
}.

Definition text_markers : list bytes := [bs "text"; bs "json"; bs "xml"; bs "html"; bs "java"].

(* decode.go autoDecodeText *)
Definition auto_decode_text (ct : bytes) : bool := existsb (fun m => contains_sub m ct) text_markers.

Record dcfg := {
  d_disable : bool;              (* Transport.disableAutoDecode *)
  d_custom : option bool         (* verdict of a caller-supplied autoDecodeContentType func, if set *)
}.

Inductive decision := DNone | DCharset | DSniff.

(* [guard] = the value of the response header the function looks at first and, when non-empty,
   leaves the body alone: res.Header.Get(<name>) - the name is regenerated from the source
   (Gen/C07Consts.fork_autodecode_guard_header; "Accept-Encoding" in the pinned code), see
   [guard_value] below for what the header holds at that point *)
Definition decode_decision (d : dcfg) (guard ct : bytes) (o : ct_oracle) : decision :=
  if d_disable d || negb (is_empty guard) then DNone
  else if negb (match d_custom d with Some v => v | None => auto_decode_text ct end) then DNone
  else if o_parse_err o then DSniff
  else match o_charset o with
       | Some cs =>
           let cs := to_lower cs in
           if contains_sub (bs "utf-8") cs || contains_sub (bs "utf8") cs then DNone
           else if o_known o then DCharset else DNone
       | None => DSniff
       end.

(* &decodeReaderCloser{res.Body, ...} / newAutoDecodeReadCloser(res.Body, t): wrap what is there *)
Definition decode_stage (dd : decision) (b : body) : body :=
  match dd with
  | DNone => b
  | DCharset => Some (Wrap TCharset b)
  | DSniff => Some (Wrap TAutoDecode b)
  end.

(* ---------- stage 3: one dump wrapper per dumper that dumps response bodies ---------- *)

Fixpoint dump_stage (n : nat) (b : body) : body :=
  match n with
  | O => b
  | S k => dump_stage k (Some (Wrap TDump b))
  end.

(* ---------- handleResponseBody ---------- *)

Record pcfg := {
  p_callback : bool;     (* a wrapResponseBodyFunc travels in the request context *)
  p_decode : dcfg;
  p_dumpers : nat        (* dumpers whose ResponseBody() is on *)
}.

Definition handle_response_body (p : pcfg) (guard ct : bytes) (o : ct_oracle) (b : body) : body :=
  let b1 := if p_callback p then wrap_cb b else b in
  let b2 := decode_stage (decode_decision (p_decode p) guard ct o) b1 in
  dump_stage (p_dumpers p) b2.

(* did the transport rewrite the response (decode => Content-Encoding / Content-Length deleted)? *)
Definition transport_rewrites (st : stack) (c : tcfg) (ce : bytes) : bool :=
  match (match st with
         | H1 => if negb (t_head c) && negb (t_wire_cl c =? 0)%Z
                 then decide_h1 (t_head c) (t_wire_cl c) (t_asked c) (t_auto c) ce else Untouched
         | H2 => decide_h2 (t_head c) (t_ended c) (t_asked c) (t_auto c) ce
         | H3 => decide_h3 (t_head c) (t_asked c) (t_auto c) ce
         end) with
  | Untouched => false
  | _ => true
  end.

(* what the guard header holds when autoDecodeResponseBody runs: the response's Accept-Encoding
   value, or - when the guard is Content-Encoding - the coding as received unless the transport
   decoded the body (then the header is gone) *)
Definition guard_value (guard_is_ce : bool) (resp_ae ce : bytes) (rewritten : bool) : bytes :=
  if guard_is_ce then (if rewritten then [] else ce) else resp_ae.

Definition pipeline (st : stack) (c : tcfg) (p : pcfg) (guard ce ct : bytes) (o : ct_oracle) : body :=
  handle_response_body p guard ct o (transport_body st c ce).

Definition pipeline_pinned (st : stack) (c : tcfg) (p : pcfg) (guard ce ct : bytes) (o : ct_oracle) : body :=
  handle_response_body p guard ct o (transport_body_pinned st c ce).

(* ---------- the first Read on the body ---------- *)

(* endChecked.Read, first call: e.tb = &trackedBody{body: e.dec.GetUnderlyingBody()};
   e.dec.SetUnderlyingBody(e.tb) - wherever the endChecked sits in the stack *)
Fixpoint first_read_layer (l : layer) : layer :=
  match l with
  | Base => Base
  | Wrap TEndChecked (Some (Wrap (TCompress e) x)) =>
      Wrap TEndChecked (Some (Wrap (TCompress e) (Some (Wrap TTracked
        (match x with Some l' => Some (first_read_layer l') | None => None end)))))
  | Wrap t (Some l') => Wrap t (Some (first_read_layer l'))
  | Wrap t None => Wrap t None
  end.

Definition after_first_read (b : body) : body :=
  match b with Some l => Some (first_read_layer l) | None => None end.

(* does a content-transforming layer sit in the stack (the bytes the caller reads are then not
   the framing-level bytes)? *)
Definition is_transform (t : ltag) : bool :=
  match t with TGzipH1 | TCompress _ | TCharset | TAutoDecode => true | _ => false end.
Definition transforms (b : body) : bool := existsb is_transform (fst (flatten b)).
