(* Model/H3Limits.v - the limits around an HTTP/3 response head (C07).

   Go code modelled:
     internal/http3/http_stream.go requestStream.ReadResponse: frameParser.ParseNext (Model/H3Frame.v,
       C05), first frame must be HEADERS, hf.Length > maxHeaderBytes => error BEFORE the block is
       allocated, io.ReadFull of the block, QPACK decoding (outside the model: an oracle table from
       block to fields), updateResponseFromHeaders (H3Frame.h3_response)
     internal/http3/client.go doRequest: loop over informational responses (max1xxResponses = 5,
       101 is final)
   No proofs here. *)
From ReqV Require Export Lib.Bytes Lib.BigEndian Model.QuicVarint Model.H3Frame.
Open Scope N_scope.

Inductive h3head :=
| HdOk (block rest : bytes)
| HdParseErr (e : h3err)
| HdNotHeaders
| HdTooLarge (l : N)
| HdShort.

Definition h3_read_head (max : N) (input : bytes) : h3head :=
  match h3_parse_next input with
  | (H3Err e, _) => HdParseErr e
  | (H3Ok (H3Headers l), rest) =>
      if max <? l then HdTooLarge l
      else if lenN rest <? l then HdShort
      else HdOk (firstn (N.to_nat l) rest) (skipn (N.to_nat l) rest)
  | (H3Ok _, _) => HdNotHeaders
  end.

(* QPACK is outside the model: what the decoder makes of a block (None = decoding error) *)
Definition qoracle := list (bytes * option (list field)).

Fixpoint qlookup (b : bytes) (q : qoracle) : option (option (list field)) :=
  match q with
  | [] => None
  | (k, v) :: r => if bytes_eqb k b then Some v else qlookup b r
  end.

Definition h3_is_1xx_nonterminal (code : Z) : bool :=
  ((100 <=? code) && (code <=? 199) && negb (code =? 101))%Z.

Inductive h3call :=
| H3CallErr (n1xx : nat)
| H3TooMany1xx
| H3NoOracle                          (* harness artefact: a block the oracle table does not know *)
| H3Resp (n1xx : nat) (code : Z) (rest : bytes).

Fixpoint h3_read_loop (budget : nat) (max : N) (q : qoracle) (n1xx : nat) (input : bytes) : h3call :=
  match h3_read_head max input with
  | HdOk block rest =>
      match qlookup block q with
      | None => H3NoOracle
      | Some None => H3CallErr n1xx
      | Some (Some fs) =>
          match h3_response fs with
          | HErr _ => H3CallErr n1xx
          | HOk (_, code) =>
              if h3_is_1xx_nonterminal code then
                match budget with
                | O => H3TooMany1xx
                | S b => h3_read_loop b max q (S n1xx) rest
                end
              else H3Resp n1xx code rest
          end
      end
  | _ => H3CallErr n1xx
  end.

Definition h3_read_call (max : N) (q : qoracle) (input : bytes) : h3call :=
  h3_read_loop 5 max q 0 input.
