(* Model/H1Req.v - C01: from the API-level description of a request to what each protocol writer
   is given and writes.
     req:      parseRequestHeader / parseRequestCookie / parseRequestURL / parseRequestBody
               (middleware.go), Client.roundTrip (client.go: Host override, ContentLength, cookies),
               Transport.roundTrip (transport.go: validateHeaders, validMethod),
               persistConn.writeRequest (host cleaning, request line) + transferWriter (framing)
     net/http: Request.AddCookie, sanitizeCookieName / sanitizeCookieValue
     the header lines themselves are C16's collectors (Model/HeaderCollect.v, imported)
   plus a specification-level reader [observe_h1] of an HTTP/1.1 request.  No proofs here. *)
From ReqV Require Export Model.Url Model.HeaderCollect Model.BodyFraming.

Inductive body_kind := BNone | BKnown | BStream | BMarshal.

Record areq := mkA {
  a_method : bytes;
  a_base : bytes; a_raw : bytes;                 (* Client.BaseURL, Request.RawURL *)
  a_rp : list param; a_cp : list param;          (* Request.PathParams, Client.PathParams *)
  a_cq : values; a_rq : values;                  (* Client.QueryParams, Request.QueryParams *)
  a_rhdr : list kv; a_chdr : list kv;            (* Request.Headers, Client.Headers *)
  a_rck : list (bytes * bytes); a_cck : list (bytes * bytes);   (* cookies: name, value *)
  a_bkind : body_kind; a_body : bytes;           (* body bytes (for BMarshal: the marshalled text) *)
  a_sniffed : bytes;                             (* http.DetectContentType(body), supplied *)
  a_compress : bool
}.

Definition has_hkey (k : bytes) (h : list kv) : bool := existsb (fun x => bytes_eqb (fst x) k) h.

(* parseRequestHeader: a client-level key is used when the request has no value under that key *)
Definition merge_headers (rh ch : list kv) : list kv :=
  filter (fun x => negb (is_nil (snd x) && has_hkey (fst x) ch)) rh ++
  filter (fun x => is_nil (hvals rh (fst x))) ch.

(* http.Header.Set: canonical key, replaces *)
Definition hset (h : list kv) (k : bytes) (v : bytes) : list kv :=
  filter (fun x => negb (bytes_eqb (fst x) (canonical_key k))) h ++ [(canonical_key k, [v])].

(* net/http cookie sanitizers *)
Definition cookie_name_byte (c : byte) : byte := if beqb c x0a || beqb c x0d then "-"%byte else c.
Definition sanitize_cookie_name (n : bytes) : bytes := map cookie_name_byte n.
Definition valid_cookie_value_byte (c : byte) : bool :=
  (32 <=? bN c)%N && (bN c <? 127)%N && negb (in_str c """;\").
Definition sanitize_cookie_value (v : bytes) : bytes :=
  let v' := filter valid_cookie_value_byte v in
  if is_nil v' then v'
  else if mem_byte " "%byte v' || mem_byte ","%byte v' then """"%byte :: v' ++ [""""%byte] else v'.
Definition cookie_pair (c : bytes * bytes) : bytes :=
  sanitize_cookie_name (fst c) ++ "="%byte :: sanitize_cookie_value (snd c).

(* Request.AddCookie *)
Definition add_cookie (h : list kv) (c : bytes * bytes) : list kv :=
  let cur := header_get h (bs "Cookie") in
  hset h (bs "Cookie") (if is_nil cur then cookie_pair c else cur ++ bs "; " ++ cookie_pair c).

Definition payload_forbidden (m : bytes) : bool := m_is m "HEAD" || m_is m "OPTIONS".
Definition lacks_body (m : bytes) : bool :=
  m_is m "GET" || m_is m "HEAD" || m_is m "DELETE" || m_is m "OPTIONS" || m_is m "PROPFIND" || m_is m "SEARCH".

Definition content_type : bytes := bs "Content-Type".
Definition json_ct : bytes := bs "application/json; charset=utf-8".

(* parseRequestBody on the merged headers *)
Definition body_headers (a : areq) (h : list kv) : list kv :=
  if payload_forbidden (a_method a) then h else
  match a_bkind a with
  | BKnown =>
      if negb (is_nil (header_get (a_chdr a) content_type)) then h
      else if negb (is_nil (header_get h content_type)) then h
      else hset h content_type (a_sniffed a)
  | BMarshal => if is_nil (header_get h content_type) then hset h content_type json_ct else h
  | _ => h
  end.

Definition eff_kind (a : areq) : body_kind :=
  if payload_forbidden (a_method a) then BNone else a_bkind a.

(* http.Request.ContentLength / Body as Client.roundTrip sets them, seen through outgoingLength:
   0 = no body, n > 0 = known, -1 = unknown (a non-nil body of declared length 0) *)
Definition out_len (a : areq) : Z :=
  match eff_kind a with
  | BNone => 0
  | BStream => -1
  | _ => if is_nil (a_body a) then -1 else Z.of_nat (length (a_body a))
  end.

(* httpguts *)
Definition valid_field_value (v : bytes) : bool :=
  forallb (fun c => negb (is_ctl c) || beqb c x09) v.
Definition valid_headers (h : list kv) : bool :=
  forallb (fun x => valid_field_name (fst x) && forallb valid_field_value (snd x)) h.
Definition valid_method (m : bytes) : bool := negb (is_nil m) && forallb is_tchar m.
Definition valid_host_byte (c : byte) : bool := is_alnum c || in_str c "!$%&()*+,-.:;=[]'_~".
Definition valid_host_header (h : bytes) : bool := forallb valid_host_byte h.
Definition is_ascii (s : bytes) : bool := forallb (fun c => (bN c <? 128)%N) s.

(* Client.roundTrip: http.Request.Host is the Host override, else the host of the URL - never empty
   for a URL with a host.  The writers use Request.Host and fall back to URL.Host only when it is
   empty; Transport.roundTripAltSvc rewrites URL.Host to the alternative endpoint and leaves
   Request.Host alone. *)
Definition req_host_field (override url_host : bytes) : bytes :=
  if is_nil override then url_host else override.
Definition writer_authority (req_host url_host : bytes) : bytes :=
  if is_nil req_host then url_host else req_host.

Inductive outcome (A : Type) := Sent (x : A) | Rejected | Unsupported.
Arguments Sent {A} x. Arguments Rejected {A}. Arguments Unsupported {A}.

(* checkRequestCookie (http_request.go): the name is a token, the value holds cookie-octets only *)
Definition valid_cookie (c : bytes * bytes) : bool :=
  valid_method (fst c) && forallb valid_cookie_value_byte (snd c).

(* everything up to the protocol writers: the http.Request the transport works on *)
Definition to_creq_gen (mcheck : bool) (a : areq) : outcome creq :=
  let h0 := merge_headers (a_rhdr a) (a_chdr a) in
  match parse_request_url (a_base a) (a_raw a) (a_rp a) (a_cp a) (a_cq a) (a_rq a) with
  | BErr => Rejected
  | BUnsupported => Unsupported
  | BOk scheme uhost target =>
      let h1 := body_headers a h0 in
      let host := writer_authority (req_host_field (header_get h1 (bs "Host")) uhost) uhost in
      let h2 := fold_left add_cookie (a_rck a ++ a_cck a) h1 in
      if negb (forallb valid_cookie (a_rck a ++ a_cck a)) then Rejected      (* checkRequestCookie *)
      else if negb (valid_headers h2) then Rejected
      else if is_nil (a_method a) then Unsupported        (* "" means GET; not generated *)
      else if mcheck && negb (valid_method (a_method a)) then Rejected   (* before the forced-version switch *)
      else Sent (mk_creq (a_method a) host target scheme h2 (out_len a) (a_compress a))
  end.

Definition to_creq : areq -> outcome creq := to_creq_gen true.

(* ---------- HTTP/2 and HTTP/3: the field list handed to the HPACK / QPACK encoder ----------
   (encodeHeaders: Host validity, then C16's collectors; header names and values were validated
   by Transport.roundTrip and again by encodeHeaders) *)
Definition fields_h23 (lines : creq -> list line) (mcheck : bool) (a : areq) : outcome (list line) :=
  match to_creq_gen mcheck a with
  | Sent q => if negb (is_ascii (c_host q)) then Unsupported
              else if negb (valid_host_header (c_host q)) then Rejected
              else Sent (lines q)
  | Rejected => Rejected
  | Unsupported => Unsupported
  end.
Definition fields_h2 : areq -> outcome (list line) := fields_h23 h2_lines true.
Definition fields_h3 : areq -> outcome (list line) := fields_h23 h3_lines true.
(* before fix 962230a the forced HTTP/2 path did not reach validMethod *)
Definition fields_h2_pinned : areq -> outcome (list line) := fields_h23 h2_lines false.

(* ---------- HTTP/1.1 ---------- *)
(* transferWriter: chunked iff the length is unknown and (the method usually has a body or the
   probe finds a byte) *)
Definition h1_chunked (q : creq) (body : bytes) : bool :=
  (c_clen q <? 0)%Z && negb (m_is (c_method q) "CONNECT") &&
  (negb (lacks_body (c_method q)) || negb (is_nil body)).

(* the length transferWriter works with after the probe *)
Definition h1_clen (q : creq) (body : bytes) : Z :=
  if (c_clen q <? 0)%Z && negb (h1_chunked q body) then 0 else c_clen q.

Definition te_line : kv := (bs "Transfer-Encoding", [bs "chunked"]).

(* C16's h1_kvs with the Transfer-Encoding line in the place of Content-Length *)
Definition h1_kvs_te (q : creq) : list kv :=
  let h := c_hdr q in
  [(bs "Host", [c_host q])] ++ h1_ua h ++ [te_line] ++
  (if is_nil (order_list h) then sort_by_key (h1_user h) else h1_user h) ++
  gzip_kv (bs "Accept-Encoding") q.

Definition h1_field_lines (q : creq) (body : bytes) : list line :=
  if h1_chunked q body then flatten (sort_if (order_list (c_hdr q)) (h1_kvs_te q))
  else h1_lines (mk_creq (c_method q) (c_host q) (c_path q) (c_scheme q) (c_hdr q) (h1_clen q body) (c_compress q)).

Definition render_line (l : line) : bytes := fst l ++ bs ": " ++ snd l ++ crlf.
Definition render_head (method target : bytes) (ls : list line) : bytes :=
  method ++ " "%byte :: target ++ bs " HTTP/1.1" ++ crlf ++ concat (map render_line ls) ++ crlf.

(* persistConn.writeRequest up to the blank line; the host is cleaned here *)
Definition h1_head (q : creq) (body : bytes) : outcome bytes :=
  if negb (valid_method (c_method q)) then Rejected
  else if m_is (c_method q) "CONNECT" then Unsupported          (* authority-form target, unframed body *)
  else if negb (is_ascii (c_host q)) || mem_byte "["%byte (c_host q) then Unsupported
  else if negb (valid_host_header (c_host q)) then Rejected     (* pinned: Host emptied, see h1_head_pinned *)
  else if existsb is_ctl (c_path q) then Rejected
  else Sent (render_head (c_method q) (c_path q) (h1_field_lines q body)).

(* before the repair an invalid Host was replaced by the empty string and the request sent *)
Definition h1_head_pinned (q : creq) (body : bytes) : outcome bytes :=
  if negb (valid_method (c_method q)) then Rejected
  else if negb (is_ascii (c_host q)) || mem_byte "["%byte (c_host q) then Unsupported
  else
    let host := if valid_host_header (c_host q) then c_host q else [] in
    let q' := mk_creq (c_method q) host (c_path q) (c_scheme q) (c_hdr q) (c_clen q) (c_compress q) in
    if existsb is_ctl (c_path q) then Rejected
    else Sent (render_head (c_method q) (c_path q) (h1_field_lines q' body)).

(* body bytes as framed: Content-Length = verbatim; chunked = any partition into chunks *)
Definition hex_chunk (d : bytes) : chunk := mkChunk (hex_of_N (N.of_nat (length d))) [] d.
Definition chunked_body (parts : list bytes) : bytes :=
  render_chunked (map hex_chunk parts) (bs "0") [] [].

(* ---------- a specification-level reader of one HTTP/1.1 request ---------- *)
Record view := mkView {
  v_method : bytes; v_target : bytes;
  v_fields : list line;          (* names as written, values without surrounding blanks *)
  v_body : bytes
}.

Fixpoint read_line (s : bytes) : option (bytes * bytes) :=
  match s with
  | [] => None
  | c :: r =>
      if beqb c CR then
        match r with
        | d :: r' => if beqb d LF then Some ([], r')
                     else match read_line r with Some (l, t) => Some (c :: l, t) | None => None end
        | [] => None
        end
      else match read_line r with Some (l, t) => Some (c :: l, t) | None => None end
  end.

Definition parse_field (l : bytes) : option line :=
  match cut_at ":"%byte l with
  | (n, Some v) => Some (n, trim is_sp_tab v)
  | (_, None) => None
  end.

Fixpoint read_fields (fuel : nat) (s : bytes) : option (list line * bytes) :=
  match fuel with
  | O => None
  | S f =>
      match read_line s with
      | None => None
      | Some ([], rest) => Some ([], rest)
      | Some (l, rest) =>
          match parse_field l, read_fields f rest with
          | Some fl, Some (fs, t) => Some (fl :: fs, t)
          | _, _ => None
          end
      end
  end.

Definition field_values (name : string) (fs : list line) : list bytes :=
  map snd (filter (fun l => equal_fold (fst l) (bs name)) fs).

Fixpoint parse_dec (s : bytes) (acc : N) : option N :=
  match s with
  | [] => Some acc
  | c :: r => if is_digit c then parse_dec r (acc * 10 + (bN c - 48))%N else None
  end.

Definition observe_h1 (w : bytes) : option (view * bytes) :=
  match read_line w with
  | None => None
  | Some (rl, r1) =>
      match split_byte " "%byte rl with
      | [m; t; v] =>
          if negb (bytes_eqb v (bs "HTTP/1.1")) then None else
          match read_fields (S (length r1)) r1 with
          | None => None
          | Some (fs, r2) =>
              match field_values "Transfer-Encoding" fs, field_values "Content-Length" fs with
              | [], [] => Some (mkView m t fs [], r2)
              | [], [cl] =>
                  match parse_dec cl 0 with
                  | Some n => let '(b, rest, missing) := take_N n r2 in
                              if (missing =? 0)%N then Some (mkView m t fs b, rest) else None
                  | None => None
                  end
              | [te], [] =>
                  if bytes_eqb te (bs "chunked") then
                    let r := read_chunked r2 in
                    if is_clean (rd_err r) then Some (mkView m t fs (rd_data r), rd_rest r) else None
                  else None
              | _, _ => None      (* both, or repeated: ambiguous framing *)
              end
          end
      | _ => None
      end
  end.

(* ---------- what h2 / h3 carry, as an origin sees it: regular fields by lower-cased name,
   values without surrounding blanks, cookie crumbs re-joined ---------- *)
Definition trim_line (l : line) : line := (fst l, trim is_sp_tab (snd l)).

(* deterministic test bodies shared with the harness (so long bodies need no literal) *)
Definition body_byte (seed i : N) : byte := byte_of_N_total ((seed + i * 131 + (i / 256) * 17) mod 256).
Definition gen_body (seed n : N) : bytes :=
  snd (N.iter n (fun st => let i := N.pred (fst st) in (i, body_byte seed i :: snd st)) (n, [])).

(* bodies above 600 bytes are stood for by their length in the Coq cases (the model looks only at the
   length and the emptiness of a long body; the bytes themselves are compared by the harness) *)
Definition long_body (n : N) : bytes := N.iter n (cons x00) [].

(* ---------- the whole HTTP/1.1 request, and what the caller described ---------- *)
Definition eff_body (a : areq) : bytes := match eff_kind a with BNone => [] | _ => a_body a end.

(* [parts]: the pieces in which a body of unknown length happens to be read (any partition) *)
Definition render_h1 (a : areq) (parts : list bytes) : outcome bytes :=
  match to_creq a with
  | Sent q =>
      match h1_head q (eff_body a) with
      | Sent hd => Sent (hd ++ (if h1_chunked q (eff_body a) then chunked_body parts else eff_body a))
      | Rejected => Rejected
      | Unsupported => Unsupported
      end
  | Rejected => Rejected
  | Unsupported => Unsupported
  end.

(* the request as described through the API: method, target built from the URL parts, the field
   lines with their values as HTTP defines them (no surrounding blanks), the body bytes *)
Definition described (a : areq) : option view :=
  match to_creq a with
  | Sent q => Some (mkView (c_method q) (c_path q)
                           (map trim_line (h1_field_lines q (eff_body a))) (eff_body a))
  | _ => None
  end.

(* no caller-chosen key spells a framing field (only the verbatim-key setters can do that) *)
Definition framing_name (k : bytes) : bool :=
  equal_fold k (bs "content-length") || equal_fold k (bs "transfer-encoding").
Definition no_framing_keys (h : list kv) : bool := forallb (fun x => negb (framing_name (fst x))) h.

(* ---------- the caller's own fields, as each protocol carries them ----------
   [managed_name]: names a writer treats specially (omitted as connection-specific on HTTP/2 and
   HTTP/3, written by the transport itself, or re-shaped: User-Agent, Cookie, Trailer) - C16's
   subject.  Everything else is the caller's data and must arrive the same way on every protocol. *)
Definition managed_name (k : bytes) : bool :=
  let l := to_lower k in
  mem_bytes l h23_exclude || bytes_eqb l (bs "trailer") || bytes_eqb l (bs "user-agent") ||
  bytes_eqb l (bs "cookie").
Definition unmanaged_line (l : line) : bool := negb (managed_name (fst l)).

(* names compared case-insensitively (HTTP/2 and HTTP/3 lower-case them), values as HTTP defines them *)
Definition caller_fields_h1 (h : list kv) : list line :=
  map (fun l => (to_lower (fst l), snd l)) (filter unmanaged_line (flatten (h1_user h))).
Definition caller_fields_h23 (entry : kv -> list kv) (h : list kv) : list line :=
  map (fun l => (to_lower (fst l), trim is_sp_tab (snd l))) (filter unmanaged_line (flatten (flat_map entry h))).

(* the Cookie header Client.roundTrip builds: the caller-written value (if any), then one pair
   per cookie, joined by "; " *)
Definition cookie_header (cur : bytes) (cks : list (bytes * bytes)) : bytes :=
  join_with (bs "; ") ((if is_nil cur then [] else [cur]) ++ map cookie_pair cks).

(* ---------- several exchanges on one connection ---------- *)
(* reading n requests off a connection, one after the other *)
Fixpoint observe_seq (n : nat) (w : bytes) : option (list view * bytes) :=
  match n with
  | O => Some ([], w)
  | S k => match observe_h1 w with
           | Some (v, rest) => match observe_seq k rest with
                               | Some (vs, r) => Some (v :: vs, r)
                               | None => None
                               end
           | None => None
           end
  end.

(* "Expect: 100-continue" (persistConn.readResponse / waitForContinue): what the peer did before
   the body was due *)
Inductive continue_answer := Got100 | FinalNo100 (resp_close : bool) | TimerFired.

(* the body is withheld only when a final response arrived and the connection is going to close *)
Definition expect_sends_body (req_close : bool) (ans : continue_answer) : bool :=
  match ans with
  | Got100 | TimerFired => true
  | FinalNo100 rc => negb (rc || req_close)
  end.

(* the connection may serve another request afterwards only if neither side closes it *)
Definition conn_reusable_after (req_close : bool) (ans : continue_answer) : bool :=
  match ans with
  | FinalNo100 true => false
  | _ => negb req_close
  end.

(* the bytes one exchange leaves on the connection *)
Definition exchange_wire (head framed_body : bytes) (req_close : bool) (ans : continue_answer) : bytes :=
  head ++ (if expect_sends_body req_close ans then framed_body else []).

(* ---------- the HTTP/3 request writer shared by all requests of one connection ----------
   requestWriter.writeHeaders runs under the writer's mutex: the field section is encoded into the
   shared headerBuf, copied - with the frame header - into a buffer of the request's own, and
   headerBuf is Reset.  The state carried from one request to the next is headerBuf's content.
   (That the critical section is atomic and the copy private is validated by the concurrent cells
   of the harness, not proved.) *)
Definition h3w_write (st : list line) (q : creq) : list line * list line := (st ++ h3_lines q, []).
Fixpoint h3w_run (st : list line) (qs : list creq) : list (list line) :=
  match qs with
  | [] => []
  | q :: r => let '(f, st') := h3w_write st q in f :: h3w_run st' r
  end.

(* ---------- one Request executed several times (retry attempts, sending it again) ----------
   What the middlewares leave IN the Request between attempts: parseRequestHeader stores the client
   defaults into Request.Headers, parseRequestCookie appends the client cookies on attempt 0.
   Client.roundTrip then works on a CLONE of the header map (AddCookie, and the cookie jar, write
   into the clone). *)
Record rstate := mkRs { rs_hdr : list kv; rs_cks : list (bytes * bytes) }.

Definition run_middleware (ch : list kv) (cck : list (bytes * bytes)) (attempt : nat) (s : rstate) : rstate :=
  mkRs (merge_headers (rs_hdr s) ch)
       (match attempt with O => rs_cks s ++ cck | _ => rs_cks s end).

(* the header of the http.Request of one attempt *)
Definition attempt_header (s : rstate) : list kv := fold_left add_cookie (rs_cks s) (rs_hdr s).

(* state after attempts 0..k *)
Fixpoint after_attempts (ch : list kv) (cck : list (bytes * bytes)) (k : nat) (s : rstate) : rstate :=
  match k with
  | O => run_middleware ch cck 0 s
  | S j => run_middleware ch cck (S j) (after_attempts ch cck j s)
  end.

(* the variant in which the attempt's http.Request shares the Request's header map (no clone):
   what AddCookie writes stays in the Request *)
Definition run_attempt_shared (ch : list kv) (cck : list (bytes * bytes)) (attempt : nat) (s : rstate) : rstate :=
  let s' := run_middleware ch cck attempt s in mkRs (attempt_header s') (rs_cks s').

(* ---------- the HPACK state one HTTP/2 connection carries from request to request ----------
   encodeHeaders: a first pass adds up the size of the field list and refuses the request when it
   exceeds the peer's SETTINGS_MAX_HEADER_LIST_SIZE; only then are the fields given to the
   connection's encoder.  The codec itself is abstract. *)
Definition field_list_size (ls : list line) : N :=
  fold_left (fun acc l => (acc + N.of_nat (length (fst l)) + N.of_nat (length (snd l)) + 32)%N) ls 0%N.

(* ---------- the body of one Request object across its setters and sends ----------
   SetBody(value) records the value (marshalled at every send), SetBodyBytes / SetBodyString record
   bytes; the last setter wins (fix a2d471f); a send marshals the value as it is then. *)
Section BodyOfSends.
  Context {V : Type} (marshal : V -> bytes).
  Inductive body_op := SetValue (v : V) | SetBytes (b : bytes) | SendNow.
  Record bstate := mkBs { b_value : option V; b_bytes : bytes }.

  Definition body_step (st : bstate) (op : body_op) : bstate * option bytes :=
    match op with
    | SetValue v => (mkBs (Some v) (b_bytes st), None)
    | SetBytes b => (mkBs None b, None)
    | SendNow => match b_value st with
                 | Some v => (mkBs (Some v) (marshal v), Some (marshal v))
                 | None => (st, Some (b_bytes st))
                 end
    end.

  Fixpoint body_run (st : bstate) (ops : list body_op) : list bytes :=
    match ops with
    | [] => []
    | op :: r => let '(st', out) := body_step st op in
                 match out with Some b => b :: body_run st' r | None => body_run st' r end
    end.

  (* what the API calls describe: at every send, the last thing that was set *)
  Fixpoint described_bodies (cur : bytes) (ops : list body_op) : list bytes :=
    match ops with
    | [] => []
    | SetValue v :: r => described_bodies (marshal v) r
    | SetBytes b :: r => described_bodies b r
    | SendNow :: r => cur :: described_bodies cur r
    end.

  (* the variant that marshals a value only while the request holds no bytes yet *)
  Definition body_step_cached (st : bstate) (op : body_op) : bstate * option bytes :=
    match op with
    | SendNow => match b_value st, b_bytes st with
                 | Some v, [] => (mkBs (Some v) (marshal v), Some (marshal v))
                 | _, b => (st, Some b)
                 end
    | _ => body_step st op
    end.
End BodyOfSends.

(* ---------- round 6: settings changed between two executions of one Request ---------- *)
(* Request.unmergeClientSettings: the client cookies the previous execution appended at position
   [pos] ([n] of them) are cut out, what the caller added behind them stays *)
Definition unmerge_cookies {A} (pos n : nat) (cks : list A) : list A := firstn pos cks ++ skipn (pos + n) cks.
(* the variant that truncates at the merge position *)
Definition unmerge_cookies_truncating {A} (pos : nat) (cks : list A) : list A := firstn pos cks.

(* handleMarshalBody: the content type that selects the marshaller - the request's own, else the client's *)
Definition marshal_ct (rh ch : list kv) : bytes :=
  let r := header_get rh content_type in if is_nil r then header_get ch content_type else r.
(* the variant that asks the client first *)
Definition marshal_ct_client_first (rh ch : list kv) : bytes :=
  let c := header_get ch content_type in if is_nil c then header_get rh content_type else c.

(* internal/http3 RoundTripOpt: a request that failed on a cached connection which turned out to be
   closed is sent again AS IT IS (the same http.Request, its Body already consumed) when
   isReplayable says so: no body, and an idempotent method or an idempotency key *)
Definition h3_replayable (has_body idempotent : bool) : bool := negb has_body && idempotent.
Definition h3_replayable_getbody (has_body has_getbody idempotent : bool) : bool :=
  (negb has_body || has_getbody) && idempotent.
(* what the replay carries: the body was consumed by the first attempt *)
Definition h3_replay_body (body : bytes) : bytes := [].

(* ---------- round 7: a file part of a multipart upload ----------
   writeMultipartFormFile: the first Read goes into the 512-byte sniff buffer and is written, the
   remainder is copied with io.Copy (reads until io.EOF); [reads] = the pieces the reader delivers *)
Definition file_part (reads : list bytes) : bytes :=
  match reads with
  | [] => []
  | r0 :: rest => r0 ++ concat rest
  end.
(* the variant that takes a first Read shorter than the sniff buffer for the whole content *)
Definition file_part_short_first_is_all (reads : list bytes) : bytes :=
  match reads with
  | [] => []
  | r0 :: rest => if Nat.ltb (length r0) 512 then r0 else r0 ++ concat rest
  end.

(* ---------- round 8: the URL of a retry attempt ----------
   parseRequestURL runs for every attempt on the ingredients as they are then; a variant that keeps
   the URL resolved by the first attempt while RawURL is unchanged carries state between attempts *)
Definition attempt_url (base raw : bytes) (rp cp : list param) (cq rq : values) : bresult :=
  parse_request_url base raw rp cp cq rq.
Definition attempt_url_cached (cache : option (bytes * bresult)) (base raw : bytes) (rp cp : list param)
  (cq rq : values) : bresult :=
  match cache with
  | Some (raw0, u) => if bytes_eqb raw0 raw then u else parse_request_url base raw rp cp cq rq
  | None => parse_request_url base raw rp cp cq rq
  end.
