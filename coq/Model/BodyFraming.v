(* Model/BodyFraming.v - C03/C02: how a response body is delimited and read to its end.

   HTTP/1.1 (transfer.go readTransfer/body.readLocked/readTrailer, internal/chunked.go,
   transport.go readLoop): a response on the wire is an opaque header block of [hlen] bytes
   (parsed elsewhere: status + declared framing; the full header parser is C04's model)
   followed by the body in one of three framings.  The readers below are functions over
   the bytes received before the connection ended ("io.ReadAll(resp.Body)" on a connection
   that delivers exactly those bytes and then EOF): what is delivered, the terminal error,
   the unread rest, whether the connection's EOF was observed (persistConn.sawEOF).
   No proofs here (Proofs/BodyFramingProofs.v). *)
From ReqV Require Export Lib.Bytes.

Definition CR : byte := x0d.
Definition LF : byte := x0a.
Definition SEMI : byte := ";"%byte.
Definition crlf : bytes := [CR; LF].
Definition crlfcrlf : bytes := [CR; LF; CR; LF].

(* terminal condition of a body read-to-end, a small enum of the Go errors *)
Inductive rerr :=
| Clean            (* io.EOF after a complete message *)
| UnexpectedEOF    (* io.ErrUnexpectedEOF *)
| MalformedChunk   (* "malformed chunked encoding" *)
| BadChunkByte     (* "invalid byte in chunk length" *)
| ChunkTooLarge    (* "http chunk length too large" *)
| LineTooLong      (* "header line too long" *)
| TrailerEOF       (* "http: unexpected EOF reading trailer" *)
| TrailerTooLong   (* "http: suspiciously long trailer after chunked body" *)
| TrailerBad       (* net/textproto error inside the trailer block *)
| OutOfFuel.       (* model artefact, excluded by chunk_fuel_suffices *)

Definition rerr_eqb (a b : rerr) : bool :=
  match a, b with
  | Clean, Clean | UnexpectedEOF, UnexpectedEOF | MalformedChunk, MalformedChunk
  | BadChunkByte, BadChunkByte | ChunkTooLarge, ChunkTooLarge | LineTooLong, LineTooLong
  | TrailerEOF, TrailerEOF | TrailerTooLong, TrailerTooLong | TrailerBad, TrailerBad
  | OutOfFuel, OutOfFuel => true
  | _, _ => false
  end.

Definition is_clean (e : rerr) : bool := match e with Clean => true | _ => false end.

Record rd := mkRd {
  rd_data : bytes;        (* bytes handed to the caller before the terminal condition *)
  rd_err : rerr;          (* terminal condition *)
  rd_rest : bytes;        (* bytes received but not consumed by this message *)
  rd_saw_eof : bool;      (* the reader hit the end of the connection (pc.sawEOF) *)
  rd_trailer : bytes      (* raw trailer block (field lines, each with its CRLF) *)
}.

Definition prepend (d : bytes) (r : rd) : rd :=
  mkRd (d ++ rd_data r) (rd_err r) (rd_rest r) (rd_saw_eof r) (rd_trailer r).

(* take up to n bytes: (taken, rest, how many are missing) *)
Fixpoint take_N (n : N) (l : bytes) : bytes * bytes * N :=
  match l with
  | [] => ([], [], n)
  | x :: r =>
      if (n =? 0)%N then ([], l, 0%N)
      else let '(t, rest, m) := take_N (N.pred n) r in (x :: t, rest, m)
  end.

(* ---- Content-Length: io.LimitReader(r, n) under body.readLocked -------------------- *)
(* EOF from the connection with lr.N > 0 => io.ErrUnexpectedEOF; lr.N == 0 => io.EOF
   without touching the connection again. *)
Definition read_cl (n : N) (s : bytes) : rd :=
  let '(d, rest, missing) := take_N n s in
  if (missing =? 0)%N then mkRd d Clean rest false []
  else mkRd d UnexpectedEOF [] true [].

(* ---- until close: body{src: r}; any end of the connection is a clean end ----------- *)
Definition read_until_close (s : bytes) : rd := mkRd s Clean [] true [].

(* ---- chunked: internal/chunked.go ----------------------------------------------------- *)
Definition max_line_length : N := 4096.   (* maxLineLength = bufio buffer size of pc.br *)

(* bufio.Reader.ReadSlice('\n'): the line including its LF, and what follows *)
Fixpoint split_lf (s : bytes) : option (bytes * bytes) :=
  match s with
  | [] => None
  | x :: r =>
      if beqb x LF then Some ([x], r)
      else match split_lf r with
           | Some (l, t) => Some (x :: l, t)
           | None => None
           end
  end.

Inductive line_res := LineOk (line rest : bytes) | LineErr (e : rerr).

(* readChunkLine before trimming: EOF => ErrUnexpectedEOF, ErrBufferFull or a line of
   maxLineLength bytes or more => ErrLineTooLong *)
Definition read_chunk_line (s : bytes) : line_res :=
  match split_lf s with
  | None => if (max_line_length <=? N.of_nat (length s))%N then LineErr LineTooLong
            else LineErr UnexpectedEOF
  | Some (l, rest) => if (max_line_length <=? N.of_nat (length l))%N then LineErr LineTooLong
                      else LineOk l rest
  end.

Definition is_ascii_space (b : byte) : bool :=
  beqb b " "%byte || beqb b x09 || beqb b LF || beqb b CR.

(* trimTrailingWhitespace *)
Fixpoint trim_trailing_ws (s : bytes) : bytes :=
  match s with
  | [] => []
  | x :: r => match trim_trailing_ws r with
              | [] => if is_ascii_space x then [] else [x]
              | t => x :: t
              end
  end.

(* removeChunkExtension: everything before the first ';' *)
Fixpoint remove_chunk_ext (s : bytes) : bytes :=
  match s with
  | [] => []
  | x :: r => if beqb x SEMI then [] else x :: remove_chunk_ext r
  end.

Definition hex_digit (b : byte) : option N :=
  let n := bN b in
  if (48 <=? n)%N && (n <=? 57)%N then Some (n - 48)%N
  else if (97 <=? n)%N && (n <=? 102)%N then Some (n - 87)%N
  else if (65 <=? n)%N && (n <=? 70)%N then Some (n - 55)%N
  else None.

(* parseHexUint: the digit test precedes the "i == 16" test; the empty string is 0 *)
Fixpoint parse_hex_go (i : nat) (v : bytes) (n : N) : N + rerr :=
  match v with
  | [] => inl n
  | b :: r =>
      match hex_digit b with
      | None => inr BadChunkByte
      | Some d => if Nat.eqb i 16 then inr ChunkTooLarge
                  else parse_hex_go (S i) r (n * 16 + d)%N
      end
  end.
Definition parse_hex_uint (v : bytes) : N + rerr := parse_hex_go 0 v 0%N.

Definition chunk_size_of_line (l : bytes) : N + rerr :=
  parse_hex_uint (remove_chunk_ext (trim_trailing_ws l)).

(* first position of CRLFCRLF *)
Fixpoint find_dcrlf (s : bytes) : option nat :=
  match s with
  | [] => None
  | _ :: r => if has_prefix crlfcrlf s then Some 0
              else match find_dcrlf r with Some i => Some (S i) | None => None end
  end.

(* one trailer field line "name: value" (without CRLF): a non-empty name made of token
   bytes before the first colon; the value has no control byte except TAB.  This is the
   subset of net/textproto.ReadMIMEHeader the harness generates; anything else is
   reported as TrailerBad by the model and never generated (full header parsing: C04). *)
Definition is_token_byte (b : byte) : bool :=
  is_alpha b || is_digit b || mem_byte b (bs "!#$%&'*+-.^_`|~").
Definition is_value_byte (b : byte) : bool :=
  beqb b x09 || ((32 <=? bN b)%N && negb (bN b =? 127)%N).
Definition trailer_line_ok (l : bytes) : bool :=
  match index_byte ":"%byte l with
  | None => false
  | Some i => negb (Nat.eqb i 0) && forallb is_token_byte (firstn i l)
              && forallb is_value_byte (skipn (S i) l)
  end.

(* split a block "l1 CRLF l2 CRLF ... ln CRLF" into its lines; None if it does not end in
   CRLF or contains a bare LF *)
Fixpoint split_crlf_lines (fuel : nat) (s : bytes) : option (list bytes) :=
  match fuel with
  | O => None
  | S f =>
      match s with
      | [] => Some []
      | _ => match split_lf s with
             | None => None
             | Some (l, rest) =>
                 match rev l with
                 | _ :: c :: body => (* l = rev body ++ [c; LF] *)
                     if beqb c CR then
                       match split_crlf_lines f rest with
                       | Some ls => Some (rev body :: ls)
                       | None => None
                       end
                     else None
                 | _ => None
                 end
             end
      end
  end.

Definition trailer_block_ok (tb : bytes) : bool :=
  match split_crlf_lines (S (length tb)) tb with
  | Some ls => forallb trailer_line_ok ls
  | None => false
  end.

Definition peek_window : nat := N.to_nat 4096.   (* bufio buffer of pc.br *)

(* body.readTrailer: Peek(2) == CRLF is the common case; fewer than 2 bytes => errTrailerEOF;
   otherwise a CRLFCRLF must be visible inside the buffer (seeUpcomingDoubleCRLF) and the
   block is handed to textproto. *)
Definition read_trailer (s : bytes) : rd :=
  match s with
  | a :: b :: r =>
      if beqb a CR && beqb b LF then mkRd [] Clean r false []
      else match find_dcrlf (firstn peek_window s) with
           | None => mkRd [] TrailerTooLong s (Nat.ltb (length s) peek_window) []
           | Some i =>
               let tb := firstn (i + 2) s in
               if trailer_block_ok tb then mkRd [] Clean (skipn (i + 4) s) false tb
               else mkRd [] TrailerBad (skipn (i + 4) s) false []
           end
  | _ => mkRd [] TrailerEOF [] true []
  end.

(* chunkedReader.Read driven to its end by io.ReadAll, then body.readLocked's trailer step.
   Each iteration consumes at least the LF of a chunk-size line: fuel = length + 1. *)
Fixpoint chunk_loop (fuel : nat) (s : bytes) : rd :=
  match fuel with
  | O => mkRd [] OutOfFuel s false []
  | S f =>
      match read_chunk_line s with
      | LineErr e => mkRd [] e [] (match e with UnexpectedEOF => true | _ => false end) []
      | LineOk l rest =>
          match chunk_size_of_line l with
          | inr e => mkRd [] e rest false []
          | inl n =>
              if (n =? 0)%N then read_trailer rest
              else
                let '(d, rest', missing) := take_N n rest in
                if negb (missing =? 0)%N then mkRd d UnexpectedEOF [] true []
                else match rest' with
                     | a :: b :: rest'' =>
                         if beqb a CR && beqb b LF then prepend d (chunk_loop f rest'')
                         else mkRd d MalformedChunk rest'' false []
                     | _ => mkRd d UnexpectedEOF [] true []   (* io.ReadFull of the CRLF *)
                     end
          end
      end
  end.

Definition read_chunked (s : bytes) : rd := chunk_loop (S (length s)) s.

(* ---- one HTTP/1.1 response read ---------------------------------------------------------- *)
Inductive framing :=
| FrCL (n : N)      (* Content-Length: n  (n = 0: NoBody) *)
| FrChunked
| FrClose           (* neither: body ends when the connection does *)
| FrNone.           (* HEAD / 1xx / 204 / 304 / keep-alive without length: NoBody *)

Definition read_body (fr : framing) (s : bytes) : rd :=
  match fr with
  | FrCL n => read_cl n s
  | FrChunked => read_chunked s
  | FrClose => read_until_close s
  | FrNone => mkRd [] Clean s false []
  end.

Inductive h1_outcome :=
| CallError                 (* the round trip itself fails: header block incomplete *)
| BodyRead (r : rd).

(* [wire]: every byte received on the connection before it ended.  The header block is
   opaque: it is complete exactly when all of its [hlen] bytes have arrived. *)
Definition h1_read (hlen : N) (fr : framing) (wire : bytes) : h1_outcome :=
  let '(_, rest, missing) := take_N hlen wire in
  if (missing =? 0)%N then BodyRead (read_body fr rest) else CallError.

(* ---- connection reuse: transport.go readLoop ------------------------------------------ *)
Record conn_flags := mkCf {
  cf_resp_close : bool;     (* resp.Close (Connection: close, HTTP/1.0, until-close framing) *)
  cf_req_close : bool;      (* Request.Close *)
  cf_status_1xx : bool;     (* resp.StatusCode <= 199 *)
  cf_wrote_request : bool;  (* pc.wroteRequest() *)
  cf_put_idle_ok : bool     (* tryPutIdleConn succeeded (keep-alives on, pool not full) *)
}.

(* alive && bodyEOF && !pc.sawEOF && pc.wroteRequest() && pc.br.Buffered() == 0 &&
   tryPutIdleConn(trace).  [rd_rest]: bytes received behind the message.  (The Buffered()
   conjunct is the C03 repair; bytes that arrive only after the decision are caught by the
   idle read loop - readLoopPeekFailLocked, "Unsolicited response received on idle HTTP
   channel" - which closes the connection unless a new request has already claimed it; that
   window is goroutine scheduling and is not modelled.) *)
Definition reuse_decision (cf : conn_flags) (r : rd) : bool :=
  negb (cf_resp_close cf || cf_req_close cf || cf_status_1xx cf)
  && is_clean (rd_err r) && negb (rd_saw_eof r) && cf_wrote_request cf
  && match rd_rest r with [] => true | _ => false end
  && cf_put_idle_ok cf.

Definition conn_serves_next (cf : conn_flags) (r : rd) : bool := reuse_decision cf r.

(* ---- rendering (what a correct origin puts on the wire) --------------------------------- *)
Record chunk := mkChunk {
  c_size : bytes;   (* hex digits of the size *)
  c_ext : bytes;    (* "" or ";ext..." *)
  c_data : bytes
}.

Definition render_chunk (c : chunk) : bytes :=
  c_size c ++ c_ext c ++ crlf ++ c_data c ++ crlf.

Definition render_chunks (cs : list chunk) : bytes := concat (map render_chunk cs).

(* last-chunk line: zero size [z] ("0", "000"), extension; then trailer block and CRLF *)
Definition render_chunked (cs : list chunk) (z zext : bytes) (tb : bytes) : bytes :=
  render_chunks cs ++ z ++ zext ++ crlf ++ tb ++ crlf.

Definition chunks_data (cs : list chunk) : bytes := concat (map c_data cs).

(* lower-case hex rendering of a chunk size (fmt "%x") *)
Definition hex_char (d : N) : byte :=
  if (d <? 10)%N then byte_of_N_total (48 + d) else byte_of_N_total (87 + d).
Fixpoint hex_fuel (fuel : nat) (n : N) (acc : bytes) : bytes :=
  match fuel with
  | O => acc
  | S f => let acc' := hex_char (n mod 16) :: acc in
           if (n <? 16)%N then acc' else hex_fuel f (n / 16) acc'
  end.
Definition hex_of_N (n : N) : bytes := hex_fuel (S (N.to_nat (N.log2 n))) n [].
