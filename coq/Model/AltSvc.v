(* Model/AltSvc.v - the Alt-Svc header parser (C07).

   Go code modelled: internal/altsvcutil/altsvcutil.go
     altAvcParser.parseKv   -> parse_kv      (bytes.Buffer = the remaining bytes)
     altAvcParser.parseOne  -> parse_one     (incl. the "drain useless fields" loop -> drain)
     altAvcParser.Parse     -> parse_loop / parse_header
     splitHostPort, validOptionalPort -> split_host_port
     strconv.ParseInt(ma, 10, 64)     -> parse_int64 (sign, decimal digits, int64 range)
   Loops carry explicit fuel with a distinguished [PFuel] result; AltSvcProofs shows it is never
   produced (every parseKv call on a non-empty buffer consumes at least one byte).
   Not modelled: the expiry time (time.Now() + ma) - only whether an "ma" was accepted; inputs
   are compared on ASCII only (strings.TrimSpace also trims Unicode spaces).  No proofs here. *)
From ReqV Require Export Lib.Bytes.

Definition EQ : byte := "="%byte.
Definition DQ : byte := x22.
Definition COMMA : byte := ","%byte.
Definition SEMI : byte := ";"%byte.
Definition COLON : byte := ":"%byte.
Definition LBR : byte := "["%byte.
Definition RBR : byte := "]"%byte.

(* strings.TrimSpace on ASCII: \t \n \v \f \r and space *)
Definition is_go_space (b : byte) : bool :=
  ((9 <=? bN b)%N && (bN b <=? 13)%N) || (bN b =? 32)%N.
Definition trim_space (s : bytes) : bytes := trim is_go_space s.

Definition is_nil {A} (l : list A) : bool := match l with [] => true | _ => false end.

Inductive aerr := AQuote | AExpectMa | AParseInt.
Inductive perr := PNil | PEOF | PErr (e : aerr) | PFuel.

(* bytes.Buffer.ReadBytes('='): up to and including the first '=', or everything (io.EOF) *)
Fixpoint read_to_eq (s : bytes) : bytes * bytes :=
  match s with
  | [] => ([], [])
  | x :: r => if beqb x EQ then ([x], r)
              else let '(a, b) := read_to_eq r in (x :: a, b)
  end.

(* first ',' or ';': its index and whether it is a ';' *)
Fixpoint find_delim (s : bytes) : option (nat * bool) :=
  match s with
  | [] => None
  | x :: r => if beqb x COMMA then Some (0, false)
              else if beqb x SEMI then Some (0, true)
              else match find_delim r with
                   | Some (i, b) => Some (S i, b)
                   | None => None
                   end
  end.

Record kv := { k_key : bytes; k_val : bytes; k_next : bool; k_err : perr; k_rest : bytes }.

Definition parse_kv (s : bytes) : kv :=
  match s with
  | [] => {| k_key := []; k_val := []; k_next := false; k_err := PEOF; k_rest := [] |}
  | _ =>
      let '(line, rest) := read_to_eq s in
      let key := trim_space (removelast line) in
      match rest with
      | [] => {| k_key := key; k_val := []; k_next := false; k_err := PEOF; k_rest := [] |}
      | q :: tl =>
          if beqb q DQ then
            match index_byte DQ tl with
            | None => {| k_key := key; k_val := []; k_next := false; k_err := PErr AQuote; k_rest := rest |}
            | Some i =>
                let value := firstn i tl in
                match skipn (S i) tl with
                | [] => {| k_key := key; k_val := value; k_next := false; k_err := PEOF; k_rest := [] |}
                | b :: r2 => {| k_key := key; k_val := value; k_next := beqb b SEMI; k_err := PNil; k_rest := r2 |}
                end
            end
          else
            match find_delim rest with
            | Some (S i, semi) =>
                {| k_key := key; k_val := firstn (S i) rest; k_next := semi; k_err := PNil;
                   k_rest := skipn (S (S i)) rest |}
            | Some (O, semi) =>     (* delimIndex == 0 is taken for "no delimiter"; nothing consumed *)
                {| k_key := key; k_val := trim_space rest; k_next := semi; k_err := PEOF; k_rest := rest |}
            | None =>
                {| k_key := key; k_val := trim_space rest; k_next := false; k_err := PEOF; k_rest := rest |}
            end
      end
  end.

(* ---------- splitHostPort ---------- *)

Definition valid_optional_port (p : bytes) : bool :=
  match p with
  | [] => true
  | c :: r => beqb c COLON && forallb is_digit r
  end.

Definition split_host_port (hp : bytes) : bytes * bytes :=
  let '(host, port) :=
    match last_index_byte COLON hp with
    | Some i => if valid_optional_port (skipn i hp) then (firstn i hp, skipn (S i) hp) else (hp, [])
    | None => (hp, [])
    end in
  let host' := if has_prefix [LBR] host && has_suffix [RBR] host
               then removelast (tl host) else host in
  (host', port).

(* ---------- strconv.ParseInt(s, 10, 64) ---------- *)

Fixpoint dec_val (acc : Z) (s : bytes) : option Z :=
  match s with
  | [] => Some acc
  | c :: r => if is_digit c then dec_val (acc * 10 + Z.of_N (bN c - 48)) r else None
  end.

Definition parse_int64 (s : bytes) : option Z :=
  let '(neg, digits) :=
    match s with
    | c :: r => if beqb c "-"%byte then (true, r) else if beqb c "+"%byte then (false, r) else (false, s)
    | [] => (false, s)
    end in
  match digits with
  | [] => None
  | _ => match dec_val 0 digits with
         | Some v => let v' := if neg then (- v)%Z else v in
                     if ((- 2 ^ 63 <=? v') && (v' <? 2 ^ 63))%Z then Some v' else None
         | None => None
         end
  end.

(* ---------- parseOne ---------- *)

Record entry := { e_proto : bytes; e_host : bytes; e_port : bytes; e_ma : bool }.

(* for { _, _, haveNextField, err = p.parseKv(); if haveNextField { continue } else { break } } *)
Fixpoint drain (fuel : nat) (s : bytes) : perr * bytes :=
  match fuel with
  | O => (PFuel, s)
  | S f => let k := parse_kv s in
           if k_next k then drain f (k_rest k) else (k_err k, k_rest k)
  end.

Definition K_MA : bytes := bs "ma".

Definition parse_one (s : bytes) : option entry * perr * bytes :=
  let k1 := parse_kv s in
  if is_nil (k_key k1) || is_nil (k_val k1) then (None, k_err k1, k_rest k1)
  else
    let '(host, port) := split_host_port (k_val k1) in
    let e0 := {| e_proto := k_key k1; e_host := host; e_port := port; e_ma := false |} in
    if negb (k_next k1) then (Some e0, k_err k1, k_rest k1)
    else
      let k2 := parse_kv (k_rest k1) in
      if is_nil (k_key k2) || is_nil (k_val k2) then (Some e0, k_err k2, k_rest k2)
      else if negb (bytes_eqb (k_key k2) K_MA) then (Some e0, PErr AExpectMa, k_rest k2)
      else match parse_int64 (k_val k2) with
           | None => (Some e0, PErr AParseInt, k_rest k2)
           | Some _ =>
               let e1 := {| e_proto := k_key k1; e_host := host; e_port := port; e_ma := true |} in
               if negb (k_next k2) then (Some e1, PNil, k_rest k2)
               else let '(e, s3) := drain (S (length (k_rest k2))) (k_rest k2) in (Some e1, e, s3)
           end.

(* ---------- Parse ---------- *)

Fixpoint parse_loop (fuel : nat) (s : bytes) (acc : list entry) : list entry * perr :=
  match fuel with
  | O => (rev acc, PFuel)
  | S f =>
      let '(a, e, s') := parse_one s in
      let acc' := match a with Some x => x :: acc | None => acc end in
      match e with
      | PNil => parse_loop f s' acc'
      | PEOF => (rev acc', PNil)        (* io.EOF ends the loop without an error *)
      | _ => (rev acc', e)
      end
  end.

Definition parse_header (v : bytes) : list entry * perr := parse_loop (S (length v)) v [].
