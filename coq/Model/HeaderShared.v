(* Model/HeaderShared.v - C16: requests overlapping on ONE connection's header writer
   (internal/http3/request_writer.go: one QPACK encoder and one header buffer per connection,
   writeHeaders under requestWriter.mutex; HTTP/2 does the same under ClientConn.wmu).
   Small-step model: every request runs the same little program; a scheduler picks which request
   makes the next step; taking the mutex is possible only when it is free.
     phase 0  mutex.Lock()
     phase 1  encodeHeaders: the field section goes into the shared buffer (from its start)
     phase 2  wr.Write(headerBuf.Bytes()): the stream gets what the buffer holds NOW
     phase 3  headerBuf.Reset(): length 0, the backing array stays
     phase 4  mutex.Unlock()
   [pay] = the request's own field section (QPACK is stateless here: a function of the request). *)
From ReqV Require Export Lib.Bytes.

Record thread := mk_thread { phase : nat; pay : bytes; alias_len : nat; out : option bytes }.

Record wstate := mk_wstate {
  lk : option nat;        (* who holds the mutex *)
  mem : bytes;            (* backing array of the shared buffer *)
  blen : nat;             (* its current length *)
  ths : list thread }.

Fixpoint upd_th (i : nat) (f : thread -> thread) (l : list thread) : list thread :=
  match l, i with
  | [], _ => []
  | t :: r, O => f t :: r
  | t :: r, S j => t :: upd_th j f r
  end.

Definition overwrite (m p : bytes) : bytes := p ++ skipn (length p) m.

Definition set_phase (n : nat) (t : thread) : thread := mk_thread n (pay t) (alias_len t) (out t).

(* writeHeaders as it is: everything under the mutex *)
Definition step_locked (i : nat) (st : wstate) : wstate :=
  match nth_error (ths st) i with
  | None => st
  | Some t =>
      match phase t with
      | 0 => match lk st with
             | None => mk_wstate (Some i) (mem st) (blen st) (upd_th i (set_phase 1) (ths st))
             | Some _ => st                                    (* blocked *)
             end
      | 1 => mk_wstate (lk st) (overwrite (mem st) (pay t)) (length (pay t)) (upd_th i (set_phase 2) (ths st))
      | 2 => mk_wstate (lk st) (mem st) (blen st)
               (upd_th i (fun t => mk_thread 3 (pay t) (alias_len t) (Some (firstn (blen st) (mem st)))) (ths st))
      | 3 => mk_wstate (lk st) (mem st) 0 (upd_th i (set_phase 4) (ths st))
      | 4 => mk_wstate None (mem st) (blen st) (upd_th i (set_phase 5) (ths st))
      | _ => st
      end
  end.

(* the variant that only encodes under the mutex and hands the stream a slice of the shared buffer:
     0 Lock  1 encode  2 fields := headerBuf.Bytes() (an alias: start + length)  3 Reset  4 Unlock
     5 wr.Write(fields): the stream gets what the backing array holds NOW *)
Definition step_alias (i : nat) (st : wstate) : wstate :=
  match nth_error (ths st) i with
  | None => st
  | Some t =>
      match phase t with
      | 0 => match lk st with
             | None => mk_wstate (Some i) (mem st) (blen st) (upd_th i (set_phase 1) (ths st))
             | Some _ => st
             end
      | 1 => mk_wstate (lk st) (overwrite (mem st) (pay t)) (length (pay t)) (upd_th i (set_phase 2) (ths st))
      | 2 => mk_wstate (lk st) (mem st) (blen st)
               (upd_th i (fun t => mk_thread 3 (pay t) (blen st) (out t)) (ths st))
      | 3 => mk_wstate (lk st) (mem st) 0 (upd_th i (set_phase 4) (ths st))
      | 4 => mk_wstate None (mem st) (blen st) (upd_th i (set_phase 5) (ths st))
      | 5 => mk_wstate (lk st) (mem st) (blen st)
               (upd_th i (fun t => mk_thread 6 (pay t) (alias_len t) (Some (firstn (alias_len t) (mem st)))) (ths st))
      | _ => st
      end
  end.

Definition run_sched (step : nat -> wstate -> wstate) (sched : list nat) (st : wstate) : wstate :=
  fold_left (fun s i => step i s) sched st.

Definition start (pays : list bytes) : wstate :=
  mk_wstate None [] 0 (map (fun p => mk_thread 0 p 0 None) pays).
