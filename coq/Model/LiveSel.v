(* Model/LiveSel.v - C19: which protocol a request of a client goes out on when the origin speaks
   HTTP/1.1 and HTTP/2 over TLS and the client may hold a cached HTTP/2 connection from EARLIER
   requests (Transport.roundTrip, transport.go): a forced version returns early for h2 (and h3); the
   lookup of a cached h2 connection is guarded by `t.forceHttpVersion != h1` (g_h1guard, regenerated
   from the source); otherwise ALPN negotiates h2 on a new connection, or an idle HTTP/1.1 connection
   of the pool is reused (unforced: either protocol, the observation decides).  No proofs here. *)
From Coq Require Import List Arith Bool.
Import ListNotations.

Record lguard := { g_h1guard : bool }.
Definition good_guard : lguard := {| g_h1guard := true |}.

(* force: 0 none, 1 HTTP/1.1, 2 HTTP/2; result: Some 1 / Some 2, None = either *)
Definition live_sel (g : lguard) (force : nat) (cached_h2 : bool) : option nat :=
  match force with
  | 1 => if g_h1guard g then Some 1 else if cached_h2 then Some 2 else Some 1
  | 2 => Some 2
  | _ => None
  end.

Record lclient := { l_force : nat; l_cached : bool }.
Inductive lstep :=
| LForce (c v : nat)            (* EnableForceHTTP1 / EnableForceHTTP2 / DisableForceHttpVersion on client c *)
| LClone (src dst : nat)        (* fresh pools, same settings *)
| LReq (c obs : nat).           (* a request of client c; obs = protocol the origin saw (1 / 2) *)

Definition lget (c : nat) (l : list (nat * lclient)) : lclient :=
  match find (fun kv => fst kv =? c) l with Some kv => snd kv | None => {| l_force := 0; l_cached := false |} end.
Definition lset (c : nat) (x : lclient) (l : list (nat * lclient)) : list (nat * lclient) :=
  (c, x) :: filter (fun kv => negb (fst kv =? c)) l.

Fixpoint live_run (g : lguard) (st : list (nat * lclient)) (l : list lstep) : bool :=
  match l with
  | [] => true
  | LForce c v :: t => live_run g (lset c {| l_force := v; l_cached := l_cached (lget c st) |} st) t
  | LClone s d :: t => live_run g (lset d {| l_force := l_force (lget s st); l_cached := false |} st) t
  | LReq c obs :: t =>
      let x := lget c st in
      (match live_sel g (l_force x) (l_cached x) with Some p => p =? obs | None => true end)
      && live_run g (lset c {| l_force := l_force x; l_cached := l_cached x || (obs =? 2) |} st) t
  end.
