(* Model/HeaderResend.v - C16: ONE Request object executed several times (request.go Request.do:
   unmergeClientSettings, then the middleware parseRequestHeader).
   Request.Headers holds the caller's own entries and, after an execution, the copies that
   execution merged from the client; clientMerged.headers remembers those copies BY IDENTITY
   (&cur[0] == &vs[0], same length).  An entry is modelled with a flag: true = still the very slice
   the last execution stored.  Every setter stores a new slice (Header.Set) or changes the length
   (append), so it clears the flag. *)
From ReqV Require Export Model.HeaderCollect Model.HeaderMerge.

Definition rentry := (bytes * list bytes * bool)%type.
Definition re_key (e : rentry) : bytes := fst (fst e).
Definition re_vals (e : rentry) : list bytes := snd (fst e).
Definition re_merged (e : rentry) : bool := snd e.
Definition strip (s : list rentry) : list kv := map (fun e => (re_key e, re_vals e)) s.

Definition rvals (s : list rentry) (k : bytes) : list bytes := hvals (strip s) k.

(* r.Headers[k] = vs with a fresh slice *)
Definition rset (s : list rentry) (k : bytes) (vs : list bytes) (flag : bool) : list rentry :=
  if existsb (fun e => bytes_eqb (re_key e) k) s
  then map (fun e => if bytes_eqb (re_key e) k then (k, vs, flag) else e) s
  else s ++ [(k, vs, flag)].

(* the setters of the Request *)
Definition rapply_op (s : list rentry) (o : hdr_op) : list rentry :=
  match o with
  | OpSet k v => rset s (mime_key k) [v] false
  | OpNC k v => rset s k (rvals s k ++ [v]) false
  | OpOrder ks => rset s header_order_key (rvals s header_order_key ++ ks) false
  | OpPOrder ks => rset s pseudo_header_order_key (rvals s pseudo_header_order_key ++ ks) false
  end.

(* unmergeClientSettings: the copies of the previous execution that are still in place are taken
   back (a remembered copy without values is left alone: len(vs) > 0) *)
Definition unmerge (s : list rentry) : list rentry :=
  filter (fun e => negb (re_merged e) || is_nil (re_vals e)) s.

(* the variant that recognises "its" copy by comparing VALUES with what was merged before *)
Definition unmerge_by_value (remembered : list kv) (s : list rentry) : list rentry :=
  filter (fun e => negb (negb (is_nil (hvals remembered (re_key e))) &&
                          list_eqb bytes_eqb (hvals remembered (re_key e)) (re_vals e))) s.

(* parseRequestHeader: client entries fill the keys without values; each stored copy is remembered *)
Definition rmerge_step (acc : list rentry) (x : kv) : list rentry :=
  if is_nil (rvals acc (fst x)) then rset acc (fst x) (snd x) true else acc.
Definition rmerge (s : list rentry) (ch : list kv) : list rentry := fold_left rmerge_step ch s.

(* parseRequestHeader since df72f46: client headers are merged on the FIRST attempt of an execution
   only (r.RetryAttempt > 0 => return); a retry attempt sends what the first attempt left in
   Request.Headers.  unmergeClientSettings resets RetryAttempt to 0 at the start of an execution, so
   [rexec] below is attempt 0. *)
Definition rmerge_attempt (attempt : nat) (s : list rentry) (ch : list kv) : list rentry :=
  match attempt with O => rmerge s ch | S _ => s end.

(* one execution: new state of Request.Headers (= what Client.roundTrip clones for the transport) *)
Definition rexec (s : list rentry) (ch : list kv) : list rentry := rmerge (unmerge s) ch.

(* the caller's own entries *)
Definition rown (s : list rentry) : list kv := strip (filter (fun e => negb (re_merged e)) s).

(* a whole life of a Request: per execution the setter calls before it and the client's headers at
   that moment; result: the header map of every execution *)
Fixpoint rsession (s : list rentry) (steps : list (list hdr_op * list kv)) : list (list kv) :=
  match steps with
  | [] => []
  | (ops, ch) :: r => let s' := rexec (fold_left rapply_op ops s) ch in strip s' :: rsession s' r
  end.
