(* Model/H2Conn.v - the client connection machine of internal/http2/transport.go, restricted to
   what the peer's limits are about.  One step = one critical section of the Go code:

     EOpen        writeRequest: awaitOpenSlotForStreamLocked + addStreamLocked + encodeAndWriteHeaders
                  (reqHeaderMu makes id allocation and the header block one unit; writeHeaders chunks
                  the block by cc.maxFrameSize)
     ESendData    awaitFlowControl (take = min(available, want, maxFrameSize); outflow.take) + the
                  DATA write of writeRequestBody
     ESendEnd     the final empty DATA / trailers with END_STREAM
     EReset       cleanupWriteRequest with an error: RST_STREAM + forgetStreamID
     EForget      cleanupWriteRequest after both sides ended (or the peer reset): forgetStreamID
     ESettings    processSettings: apply every value in order, then ACK (cc.wmu+cc.mu held: atomic)
     EWindowUpdate, EPeerRst, EGoAway   processWindowUpdate / processResetStream / processGoAway
     EPeerData    processData (takeInflows, padding refund, discard refund, WINDOW_UPDATEs)
     EAppRead     transportResponseBody.Read (inflow.add on connection and stream, WINDOW_UPDATEs)
     EAppClose    transportResponseBody.Close (unread bytes returned to the connection window)
     EOpenRefused writeRequest whose header block is refused locally (encodeHeaders error: header list
                  larger than the peer's MAX_HEADER_LIST_SIZE, invalid header) or that is cancelled
                  between addStreamLocked and the write: the id is taken, nothing is written, the
                  stream is forgotten again - the id is never handed out a second time
     EPeerHeaders processHeaders: response HEADERS (or trailers); END_STREAM ends the peer's half
                  (a response without body, e.g. a final response in the middle of an upload)

   Window arithmetic is done by the gosync-generated functions of Gen/H2Flow.v (flow.go), so int32
   overflow behaves as in the Go code.  An event whose guard is false is a no-op (it cannot
   happen in that state); lists of events are ARBITRARY, i.e. all interleavings.
   Output of a step: the frames in the order the client sees/writes them, P f for a peer frame
   being processed and C f for a frame the client writes.

   ESendData is one critical section in the code as well (since fix a783774 the credit is taken
   with cc.wmu held).  EOpen is not: the stream slot and id are taken under cc.mu, the header
   block is written under cc.wmu (design.d/C06.md, known finding race-open-vs-ack).
   Not modelled: goroutine wake-ups, timers, pings, HPACK, connection errors caused by a
   misbehaving peer (guards exclude window overflows by the peer, DATA after END_STREAM and
   INITIAL_WINDOW_SIZE > 2^31-1). *)
From Coq Require Import ZArith Bool List.
From ReqV Require Import Lib.GoInt Gen.H2Flow Model.H2Flow Model.H2Monitor.
Import ListNotations.
Open Scope Z_scope.

Record cstream := mkCS {
  cs_id : Z;
  cs_flow : Z;            (* cs.flow.n: send window *)
  cs_end_sent : bool;     (* sentEndStream *)
  cs_reset : bool;        (* RST_STREAM written *)
  cs_peer_ended : bool;   (* readClosed *)
  cs_peer_reset : bool;   (* aborted by the peer's RST_STREAM *)
  cs_forgotten : bool;    (* removed from cc.streams *)
  cs_in : inflow;         (* cs.inflow *)
  cs_buf : Z;             (* bytes in cs.bufPipe not yet read by the application *)
  cs_app_closed : bool;   (* response body closed by the application *)
  cs_read_failed : bool   (* cs.readErr set: Read returned "more than declared Content-Length" *)
}.

Record conn := mkConn {
  cc_flow : Z;            (* cc.flow.n *)
  cc_max_frame : Z;       (* peer's limits as the client knows them *)
  cc_max_streams : Z;
  cc_init_win : Z;
  cc_next_id : Z;
  cc_streams : list cstream;   (* newest first; forgotten ones are kept, flagged *)
  cc_seen_settings : bool;
  cc_dead : bool;         (* GOAWAY received / closed: no new streams *)
  cc_in : inflow;         (* cc.inflow *)
  cc_prio_len : Z;        (* 5 if Transport.HeaderPriority is set, else 0 *)
  cc_stream_in : Z        (* initial stream inflow (what the client advertised) *)
}.

(* newClientConn; values from the gosync table.  prio_last = StreamID of the last caller-supplied
   PRIORITY frame (Transport.PriorityFrames), 0 = none: cc.nextStreamID = p.StreamID + 2.
   conn_flow = the increment of the preface WINDOW_UPDATE (t.ConnectionFlow, or
   transportDefaultConnFlow when that is < 1); stream_in = cc.streamRecvWindow. *)
Definition conn0 (prio_len prio_last stream_in conn_flow : Z) : conn :=
  mkConn (snd (out_add_conn 0 c_initialWindowSize)) cc_init_maxFrameSize cc_init_maxConcurrentStreams
         cc_init_initialWindowSize (if prio_last =? 0 then cc_init_nextStreamID else prio_last + 2) [] false false
         (in_init (mkIn 0 0) (wrap32 (wrap32 conn_flow + c_initialWindowSize))) prio_len stream_in.

(* what the client writes right after the connection preface: its SETTINGS, the connection
   WINDOW_UPDATE and the caller's PRIORITY frames *)
Definition preface (kvs : list (Z * Z)) (conn_flow : Z) (prios : list Z) : list ev :=
  C (FSettings kvs) :: C (FWindowUpdate 0 conn_flow) :: map (fun sid => C (FPriority sid)) prios.

(* the strict peer's books once it has read that preface *)
Definition mon_init (stream_in conn_flow : Z) : mon :=
  mkMon 16384 65535 None [] 65535 [] 0 0 0 0 [] (65535 + conn_flow) stream_in.

Inductive cev :=
| EOpen (hlen : Z) (es : bool)
| ESendData (sid want : Z) (fin : bool)
| ESendEnd (sid tlen : Z)
| EReset (sid : Z)
| EForget (sid : Z)
| ESettings (kvs : list (Z * Z))
| EWindowUpdate (sid inc : Z)
| EPeerRst (sid : Z)
| EGoAway (last : Z)
| EPeerData (sid len pad : Z) (es : bool)
| EAppRead (sid n : Z) (eof : bool)
| EAppClose (sid : Z)
| EPeerHeaders (sid : Z) (es : bool)
| EOpenRefused.

Fixpoint find_cs (sid : Z) (l : list cstream) : option cstream :=
  match l with
  | [] => None
  | s :: r => if cs_id s =? sid then Some s else find_cs sid r
  end.

Definition upd_cs (sid : Z) (f : cstream -> cstream) (l : list cstream) : list cstream :=
  map (fun s => if cs_id s =? sid then f s else s) l.

Definition active_count (l : list cstream) : Z :=
  Z.of_nat (length (filter (fun s => negb (cs_forgotten s)) l)).

Definition cs_set_flow (s : cstream) (w : Z) : cstream :=
  mkCS (cs_id s) w (cs_end_sent s) (cs_reset s) (cs_peer_ended s) (cs_peer_reset s) (cs_forgotten s)
       (cs_in s) (cs_buf s) (cs_app_closed s) (cs_read_failed s).
Definition cs_set_end_sent (s : cstream) : cstream :=
  mkCS (cs_id s) (cs_flow s) true (cs_reset s) (cs_peer_ended s) (cs_peer_reset s) (cs_forgotten s)
       (cs_in s) (cs_buf s) (cs_app_closed s) (cs_read_failed s).
Definition cs_set_reset (s : cstream) : cstream :=
  mkCS (cs_id s) (cs_flow s) (cs_end_sent s) true (cs_peer_ended s) (cs_peer_reset s) true
       (cs_in s) (cs_buf s) (cs_app_closed s) (cs_read_failed s).
Definition cs_set_forgotten (s : cstream) : cstream :=
  mkCS (cs_id s) (cs_flow s) (cs_end_sent s) (cs_reset s) (cs_peer_ended s) (cs_peer_reset s) true
       (cs_in s) (cs_buf s) (cs_app_closed s) (cs_read_failed s).
Definition cs_set_peer_ended (s : cstream) : cstream :=
  mkCS (cs_id s) (cs_flow s) (cs_end_sent s) (cs_reset s) true (cs_peer_reset s) (cs_forgotten s)
       (cs_in s) (cs_buf s) (cs_app_closed s) (cs_read_failed s).
Definition cs_set_peer_reset (s : cstream) : cstream :=
  mkCS (cs_id s) (cs_flow s) (cs_end_sent s) (cs_reset s) (cs_peer_ended s) true (cs_forgotten s)
       (cs_in s) (cs_buf s) (cs_app_closed s) (cs_read_failed s).
Definition cs_set_recv (s : cstream) (f : inflow) (buf : Z) : cstream :=
  mkCS (cs_id s) (cs_flow s) (cs_end_sent s) (cs_reset s) (cs_peer_ended s) (cs_peer_reset s) (cs_forgotten s)
       f buf (cs_app_closed s) (cs_read_failed s).
Definition cs_set_read_failed (s : cstream) : cstream :=
  mkCS (cs_id s) (cs_flow s) (cs_end_sent s) (cs_reset s) (cs_peer_ended s) (cs_peer_reset s) (cs_forgotten s)
       (cs_in s) (cs_buf s) (cs_app_closed s) true.
Definition cs_set_app_closed (s : cstream) : cstream :=
  mkCS (cs_id s) (cs_flow s) (cs_end_sent s) (cs_reset s) (cs_peer_ended s) (cs_peer_reset s) (cs_forgotten s)
       (cs_in s) 0 true (cs_read_failed s).

Definition set_cstreams (c : conn) (l : list cstream) : conn :=
  mkConn (cc_flow c) (cc_max_frame c) (cc_max_streams c) (cc_init_win c) (cc_next_id c) l
         (cc_seen_settings c) (cc_dead c) (cc_in c) (cc_prio_len c) (cc_stream_in c).
Definition set_cflow (c : conn) (w : Z) : conn :=
  mkConn w (cc_max_frame c) (cc_max_streams c) (cc_init_win c) (cc_next_id c) (cc_streams c)
         (cc_seen_settings c) (cc_dead c) (cc_in c) (cc_prio_len c) (cc_stream_in c).
Definition set_cdead (c : conn) : conn :=
  mkConn (cc_flow c) (cc_max_frame c) (cc_max_streams c) (cc_init_win c) (cc_next_id c) (cc_streams c)
         (cc_seen_settings c) true (cc_in c) (cc_prio_len c) (cc_stream_in c).
Definition set_cin (c : conn) (f : inflow) : conn :=
  mkConn (cc_flow c) (cc_max_frame c) (cc_max_streams c) (cc_init_win c) (cc_next_id c) (cc_streams c)
         (cc_seen_settings c) (cc_dead c) f (cc_prio_len c) (cc_stream_in c).

(* writeHeaders: HEADERS then CONTINUATIONs, each fragment at most maxf bytes; the first frame
   also carries prio bytes of priority fields, which count toward its payload length (after the
   fix the first fragment is shortened accordingly).  fuel = number of bytes left. *)
Fixpoint cont_frames (fuel : nat) (sid rest maxf : Z) : list frame :=
  match fuel with
  | O => []
  | S k =>
      if rest <=? 0 then []
      else let chunk := Z.min rest maxf in
           FContinuation sid chunk (rest - chunk <=? 0) :: cont_frames k sid (rest - chunk) maxf
  end.

Definition hdr_frames (sid hlen maxf prio : Z) (es : bool) : list frame :=
  let chunk := Z.min hlen (maxf - prio) in
  FHeaders sid (chunk + prio) (hlen - chunk <=? 0) es :: cont_frames (Z.to_nat hlen) sid (hlen - chunk) maxf.

Definition cl (l : list frame) : list ev := map C l.

(* processSettingsNoWrite, one entry *)
Definition client_setting (c : conn) (kv : Z * Z) : conn :=
  let '(id, v) := kv in
  if id =? S_MAX_FRAME_SIZE then
    mkConn (cc_flow c) v (cc_max_streams c) (cc_init_win c) (cc_next_id c) (cc_streams c)
           (cc_seen_settings c) (cc_dead c) (cc_in c) (cc_prio_len c) (cc_stream_in c)
  else if id =? S_MAX_CONCURRENT_STREAMS then
    mkConn (cc_flow c) (cc_max_frame c) v (cc_init_win c) (cc_next_id c) (cc_streams c)
           (cc_seen_settings c) (cc_dead c) (cc_in c) (cc_prio_len c) (cc_stream_in c)
  else if id =? S_INITIAL_WINDOW_SIZE then
    let d := wrap32 (wrap32 v - wrap32 (cc_init_win c)) in
    mkConn (cc_flow c) (cc_max_frame c) (cc_max_streams c) v (cc_next_id c)
           (map (fun s => if cs_forgotten s then s else cs_set_flow s (snd (out_add_stream (cs_flow s) (cc_flow c) d)))
                (cc_streams c))
           (cc_seen_settings c) (cc_dead c) (cc_in c) (cc_prio_len c) (cc_stream_in c)
  else c.

Definition has_setting (id : Z) (kvs : list (Z * Z)) : bool :=
  existsb (fun kv => fst kv =? id) kvs.

Definition settings_valid (kvs : list (Z * Z)) : bool :=
  forallb (fun kv => if fst kv =? S_INITIAL_WINDOW_SIZE then (0 <=? snd kv) && (snd kv <=? 2147483647)
                     else if fst kv =? S_MAX_FRAME_SIZE then (16384 <=? snd kv) && (snd kv <=? 16777215)
                     else (0 <=? snd kv) && (snd kv <=? 4294967295)) kvs.

Definition wu (sid n : Z) : list ev := if 0 <? n then [C (FWindowUpdate sid n)] else [].

Definition in_add_ret (f : inflow) (n : Z) : Z * inflow :=
  match in_add f n with (Ret r, f') => (r, f') | (Panic, f') => (0, f') end.

Definition conn_step (c : conn) (e : cev) : conn * list ev :=
  match e with
  | EOpen hlen es =>
      if negb (cc_dead c) && (active_count (cc_streams c) <? cc_max_streams c) && (1 <=? hlen)
         && (cc_prio_len c <? cc_max_frame c) && (cc_next_id c <? 2147483647) then
        let sid := cc_next_id c in
        let s := mkCS sid (snd (out_add_stream 0 (cc_flow c) (wrap32 (cc_init_win c)))) es false false false false
                      (in_init (mkIn 0 0) (cc_stream_in c)) 0 false false in
        (mkConn (cc_flow c) (cc_max_frame c) (cc_max_streams c) (cc_init_win c) (sid + 2) (s :: cc_streams c)
                (cc_seen_settings c) (cc_dead c) (cc_in c) (cc_prio_len c) (cc_stream_in c),
         cl (hdr_frames sid hlen (cc_max_frame c) (cc_prio_len c) es))
      else (c, [])
  | ESendData sid want fin =>
      match find_cs sid (cc_streams c) with
      | Some s =>
          let a := out_avail_stream (cs_flow s) (cc_flow c) in
          if negb (cs_forgotten s) && negb (cs_end_sent s) && negb (cs_reset s) && (1 <=? want) && (0 <? a) then
            let take := Z.min (Z.min a want) (cc_max_frame c) in
            match out_take_stream (cs_flow s) (cc_flow c) take with
            | Some (n', cn') =>
                let es := fin && (take =? want) in
                (set_cstreams (set_cflow c cn')
                   (upd_cs sid (fun s0 => let s1 := cs_set_flow s0 n' in if es then cs_set_end_sent s1 else s1) (cc_streams c)),
                 [C (FData sid take es)])
            | None => (c, [])
            end
          else (c, [])
      | None => (c, [])
      end
  | ESendEnd sid tlen =>
      match find_cs sid (cc_streams c) with
      | Some s =>
          if negb (cs_forgotten s) && negb (cs_end_sent s) && negb (cs_reset s) && (cc_prio_len c <? cc_max_frame c) then
            (set_cstreams c (upd_cs sid cs_set_end_sent (cc_streams c)),
             if tlen <=? 0 then [C (FData sid 0 true)]
             else cl (hdr_frames sid tlen (cc_max_frame c) (cc_prio_len c) true))
          else (c, [])
      | None => (c, [])
      end
  | EReset sid =>
      match find_cs sid (cc_streams c) with
      | Some s =>
          if negb (cs_forgotten s) && negb (cs_reset s) then
            (set_cstreams c (upd_cs sid cs_set_reset (cc_streams c)), [C (FRst sid)])
          else (c, [])
      | None => (c, [])
      end
  | EForget sid =>
      match find_cs sid (cc_streams c) with
      | Some s =>
          if negb (cs_forgotten s) && ((cs_end_sent s && cs_peer_ended s) || cs_peer_reset s) then
            (set_cstreams c (upd_cs sid cs_set_forgotten (cc_streams c)), [])
          else (c, [])
      | None => (c, [])
      end
  | ESettings kvs =>
      if settings_valid kvs then
        let c1 := fold_left client_setting kvs c in
        let ms := if negb (cc_seen_settings c) && negb (has_setting S_MAX_CONCURRENT_STREAMS kvs)
                  then c_defaultMaxConcurrentStreams else cc_max_streams c1 in
        (mkConn (cc_flow c1) (cc_max_frame c1) ms (cc_init_win c1) (cc_next_id c1) (cc_streams c1)
                true (cc_dead c1) (cc_in c1) (cc_prio_len c1) (cc_stream_in c1),
         [P (FSettings kvs); C FSettingsAck])
      else (c, [])
  | EWindowUpdate sid inc =>
      if (1 <=? inc) && (inc <=? 2147483647) then
        if sid =? 0 then
          let '(okb, n') := out_add_conn (cc_flow c) inc in
          ((if okb then set_cflow c n' else set_cdead c), [P (FWindowUpdate 0 inc)])
        else
          (set_cstreams c (upd_cs sid (fun s => if cs_forgotten s then s
                                                else cs_set_flow s (snd (out_add_stream (cs_flow s) (cc_flow c) inc)))
                                  (cc_streams c)),
           [P (FWindowUpdate sid inc)])
      else (c, [])
  | EPeerRst sid =>
      (set_cstreams c (upd_cs sid (fun s => if cs_forgotten s then s else cs_set_peer_reset s) (cc_streams c)),
       [P (FRst sid)])
  | EGoAway last => (set_cdead c, [P (FGoAway last 0)])
  | EPeerData sid len pad es =>
      if (0 <=? pad) && (pad <=? len) && (len <=? 16777215) then
        match find_cs sid (cc_streams c) with
        | Some s =>
            if cs_forgotten s || cs_peer_reset s then
              (* streamByID = nil: the bytes are discarded, connection credit returned at once *)
              match in_take (cc_in c) len with
              | (Ret true, f1) =>
                  let '(r, f2) := in_add_ret f1 len in
                  (set_cin c f2, P (FData sid len es) :: wu 0 r)
              | _ => (c, [])
              end
            else if cs_peer_ended s then (c, [])
            else
              match in_take2 (cc_in c) (cs_in s) len with
              | (Ret true, (f1, g1)) =>
                  let discard := cs_app_closed s in
                  let refund := pad + (if discard then len - pad else 0) in
                  let '(rc, f2) := in_add_ret f1 refund in
                  let '(rs, g2) := if discard then (0, g1) else in_add_ret g1 refund in
                  let buf' := if discard then cs_buf s else cs_buf s + (len - pad) in
                  (set_cstreams (set_cin c f2)
                     (upd_cs sid (fun s0 => let s1 := cs_set_recv s0 g2 buf' in if es then cs_set_peer_ended s1 else s1) (cc_streams c)),
                   P (FData sid len es) :: wu 0 rc ++ wu sid rs)
              | _ => (c, [])
              end
        | None => (c, [])
        end
      else (c, [])
  | EAppRead sid n eof =>
      match find_cs sid (cc_streams c) with
      | Some s =>
          (* bufPipe.Read hands out data without an error; eof = the one case in which Read
             returns data AND an error: more than the declared Content-Length arrived
             (cs.readErr is set, the stream is aborted; since fix ad75eea the connection
             credit of everything taken out of the pipe is returned, the stream's is not) *)
          if (1 <=? n) && (n <=? cs_buf s) && negb (cs_app_closed s) && negb (cs_read_failed s) then
            let '(rc, f2) := in_add_ret (cc_in c) n in
            let '(rs, g2) := if eof then (0, cs_in s) else in_add_ret (cs_in s) n in
            (set_cstreams (set_cin c f2)
               (upd_cs sid (fun s0 => let s1 := cs_set_recv s0 g2 (cs_buf s - n) in if eof then cs_set_read_failed s1 else s1)
                       (cc_streams c)),
             wu 0 rc ++ wu sid rs)
          else (c, [])
      | None => (c, [])
      end
  | EAppClose sid =>
      match find_cs sid (cc_streams c) with
      | Some s =>
          if negb (cs_app_closed s) then
            let '(rc, f2) := if 0 <? cs_buf s then in_add_ret (cc_in c) (cs_buf s) else (0, cc_in c) in
            (set_cstreams (set_cin c f2) (upd_cs sid cs_set_app_closed (cc_streams c)), wu 0 rc)
          else (c, [])
      | None => (c, [])
      end
  | EPeerHeaders sid es =>
      match find_cs sid (cc_streams c) with
      | Some s =>
          (* streamByID = nil: ignored; after END_STREAM: protocol error, outside the guards *)
          if cs_forgotten s || cs_peer_reset s || cs_peer_ended s then (c, [])
          else (set_cstreams c (upd_cs sid (fun s0 => if es then cs_set_peer_ended s0 else s0) (cc_streams c)),
                [P (FHeaders sid 0 true es)])
      | None => (c, [])
      end
  | EOpenRefused =>
      if negb (cc_dead c) && (active_count (cc_streams c) <? cc_max_streams c) && (cc_next_id c <? 2147483647) then
        (mkConn (cc_flow c) (cc_max_frame c) (cc_max_streams c) (cc_init_win c) (cc_next_id c + 2) (cc_streams c)
                (cc_seen_settings c) (cc_dead c) (cc_in c) (cc_prio_len c) (cc_stream_in c), [])
      else (c, [])
  end.

Fixpoint conn_run (c : conn) (evs : list cev) : conn * list ev :=
  match evs with
  | [] => (c, [])
  | e :: r =>
      let '(c1, o1) := conn_step c e in
      let '(c2, o2) := conn_run c1 r in
      (c2, o1 ++ o2)
  end.

Definition total_buffered (l : list cstream) : Z := fold_right (fun s acc => cs_buf s + acc) 0 l.
