(* Model/QuicVarint.v - executable model of /repo/internal/quic-go/quicvarint/varint.go
   (Len, Append, AppendWithLen, Parse, Read).  Go's uint64 is N with the range guard stated
   where it matters; `None` on the encoder side is the Go panic branch.  No proofs here. *)
From ReqV Require Export Lib.Bytes Lib.BigEndian Gen.QuicVarintConsts.
Open Scope N_scope.

(* func Len(i uint64) int; None = panic("value doesn't fit into 62 bits") *)
Definition vi_len (i : N) : option N :=
  if i <=? maxVarInt1 then Some 1
  else if i <=? maxVarInt2 then Some 2
  else if i <=? maxVarInt4 then Some 4
  else if i <=? maxVarInt8 then Some 8
  else None.

(* uint8(i>>s) *)
Definition sh8 (i s : N) : N := (N.shiftr i s) mod 256.

(* func Append(b []byte, i uint64) []byte - the appended bytes; None = panic *)
Definition vi_append (i : N) : option bytes :=
  if i <=? maxVarInt1 then Some [u8 i]
  else if i <=? maxVarInt2 then Some [u8 (N.lor (sh8 i 8) 64); u8 i]
  else if i <=? maxVarInt4 then
    Some [u8 (N.lor (sh8 i 24) 128); u8 (N.shiftr i 16); u8 (N.shiftr i 8); u8 i]
  else if i <=? maxVarInt8 then
    Some [u8 (N.lor (sh8 i 56) 192); u8 (N.shiftr i 48); u8 (N.shiftr i 40); u8 (N.shiftr i 32);
          u8 (N.shiftr i 24); u8 (N.shiftr i 16); u8 (N.shiftr i 8); u8 i]
  else None.

(* func AppendWithLen(b []byte, i uint64, length int) []byte; None = one of the three panics *)
Definition vi_append_with_len (i length : N) : option bytes :=
  if negb ((length =? 1) || (length =? 2) || (length =? 4) || (length =? 8)) then None
  else match vi_len i with
       | None => None
       | Some l =>
           if l =? length then vi_append i
           else if length <? l then None
           else
             let first := if length =? 2 then [x40] else if length =? 4 then [x80]
                          else if length =? 8 then [xc0] else [] in
             Some (first ++ repeat x00 (N.to_nat (length - l - 1)) ++ be_enc (N.to_nat l) i)
       end.

Inductive vi_res :=
| ViOk (v : N) (consumed : N)
| ViEOF              (* io.EOF: empty input *)
| ViUnexpectedEOF.   (* io.ErrUnexpectedEOF: fewer bytes than the length prefix announces *)

(* func Parse(b []byte) (uint64, int, error) *)
Definition vi_parse (b : bytes) : vi_res :=
  match b with
  | [] => ViEOF
  | first :: _ =>
      let l := N.shiftl 1 (N.shiftr (N.land (bN first) 192) 6) in
      if lenN b <? l then ViUnexpectedEOF
      else
        let b0 := N.land (bN first) 63 in
        if l =? 1 then ViOk b0 1
        else if l =? 2 then ViOk (nthN b 1 + N.shiftl b0 8) 2
        else if l =? 4 then
          ViOk (nthN b 3 + N.shiftl (nthN b 2) 8 + N.shiftl (nthN b 1) 16 + N.shiftl b0 24) 4
        else
          ViOk (nthN b 7 + N.shiftl (nthN b 6) 8 + N.shiftl (nthN b 5) 16 + N.shiftl (nthN b 4) 24
                + N.shiftl (nthN b 3) 32 + N.shiftl (nthN b 2) 40 + N.shiftl (nthN b 1) 48
                + N.shiftl b0 56) 8
  end.

(* func Read(r io.ByteReader) (uint64, error) on a reader holding exactly b; result = value and
   what is left in the reader; None = the reader's error (io.EOF for a bytes.Reader), whatever the
   position it occurs at. *)
Definition vi_read (b : bytes) : option (N * bytes) :=
  match b with
  | [] => None
  | first :: r1 =>
      let l := N.shiftl 1 (N.shiftr (N.land (bN first) 192) 6) in
      let b1 := N.land (bN first) 63 in
      if l =? 1 then Some (b1, r1)
      else match r1 with
      | [] => None
      | c2 :: r2 =>
          if l =? 2 then Some (bN c2 + N.shiftl b1 8, r2)
          else match r2 with
          | c3 :: c4 :: r4 =>
              if l =? 4 then
                Some (bN c4 + N.shiftl (bN c3) 8 + N.shiftl (bN c2) 16 + N.shiftl b1 24, r4)
              else match r4 with
              | c5 :: c6 :: c7 :: c8 :: r8 =>
                  Some (bN c8 + N.shiftl (bN c7) 8 + N.shiftl (bN c6) 16 + N.shiftl (bN c5) 24
                        + N.shiftl (bN c4) 32 + N.shiftl (bN c3) 40 + N.shiftl (bN c2) 48
                        + N.shiftl b1 56, r8)
              | _ => None
              end
          | _ => None
          end
      end
  end.
