(* Model/H2Info.v - HTTP/2 interim (1xx) header blocks and the notification of the request writer (C07).

   Go code modelled: internal/http2/transport.go
     clientConnReadLoop.handleResponse, the branch `statusCode >= 100 && statusCode <= 199`:
       END_STREAM on an interim block is an error; cs.num1xx++ and more than max1xxResponses (5) is an
       error; a `:status 100` tells the request writer through cs.on100 - a channel of capacity 1
       (roundTrip: make(chan struct{}, 1)) that writeRequest receives from AT MOST ONCE (only when
       the request waits for a 100-continue) - with a NON-BLOCKING send
       (select { case cs.on100 <- struct{}{}: default: }); cs.pastHeaders = false ("do it all again").
   The channel is modelled explicitly (occupancy, capacity, blocking or not) because the property is
   about the read loop never getting stuck: a blocking send on a full channel nobody receives from
   is [IBlocked].  No proofs here. *)
From ReqV Require Export Lib.Bytes.

(* a send on a buffered channel with [occ] of [cap] slots taken and no receiver waiting:
   Some occ' = done, None = blocks (for ever, unless somebody receives) *)
Definition chan_send (cap occ : nat) (blocking : bool) : option nat :=
  if occ <? cap then Some (S occ) else if blocking then None else Some occ.

Definition on100_cap : nat := 1.
Definition h2_max_1xx : nat := 5.

Record istate := { i_num1xx : nat; i_on100 : nat }.
Definition istate0 : istate := {| i_num1xx := 0; i_on100 := 0 |}.

Inductive iout :=
| IBlocked                  (* the read loop is stuck in a channel send *)
| IErrTooMany
| IErrEndStream
| INext (s : istate)        (* interim block consumed, wait for the next HEADERS *)
| IFinal (code : Z).

(* [blocking] = false is the code; true is the variant kept for the refutation *)
Definition h2_info_step (blocking : bool) (s : istate) (code : Z) (end_stream : bool) : iout :=
  if ((100 <=? code) && (code <=? 199))%Z then
    if end_stream then IErrEndStream
    else
      let n := S (i_num1xx s) in
      if h2_max_1xx <? n then IErrTooMany
      else if (code =? 100)%Z then
        match chan_send on100_cap (i_on100 s) blocking with
        | None => IBlocked
        | Some o => INext {| i_num1xx := n; i_on100 := o |}
        end
      else INext {| i_num1xx := n; i_on100 := i_on100 s |}
  else IFinal code.

(* what can happen on a stream, in any order: a HEADERS block arrives; the request writer takes
   the notification (at most once in the code; any number of times here) *)
Inductive ievent := EvHeaders (code : Z) (end_stream : bool) | EvWriterTakes.

Inductive irun :=
| RBlocked
| RErr
| RFinal (code : Z) (n1xx : nat)
| ROpen (s : istate).       (* the events ran out before a final response *)

Fixpoint h2_info_run (blocking : bool) (s : istate) (evs : list ievent) : irun :=
  match evs with
  | [] => ROpen s
  | EvWriterTakes :: r => h2_info_run blocking {| i_num1xx := i_num1xx s; i_on100 := pred (i_on100 s) |} r
  | EvHeaders c e :: r =>
      match h2_info_step blocking s c e with
      | IBlocked => RBlocked
      | IErrTooMany | IErrEndStream => RErr
      | INext s' => h2_info_run blocking s' r
      | IFinal c' => RFinal c' (i_num1xx s)
      end
  end.
