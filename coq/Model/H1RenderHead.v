(* Model/H1RenderHead.v - specification-level renderer of a header block, used to STATE the
   C04 header round-trip theorem (what a well-formed sender puts on the wire, including
   obs-fold continuation lines).  Not a model of any code in /repo. *)
From ReqV Require Export Model.H1Resp Model.H1Render.

(* a header field as sent: its name, the first line of its value, and continuation lines,
   each introduced by a non-empty run [ws] of SP / HT *)
Record hfield := { hf_name : bytes; hf_first : bytes; hf_conts : list (bytes * bytes) }.

Definition render_cont (c : bytes * bytes) : bytes := fst c ++ snd c ++ CRLF.
Definition render_field (f : hfield) : bytes :=
  hf_name f ++ COLON :: SP :: hf_first f ++ CRLF ++ flat_map render_cont (hf_conts f).
Definition render_fields (fs : list hfield) : bytes := flat_map render_field fs.

(* the value the receiver must see: the pieces joined by single spaces *)
Definition field_value (f : hfield) : bytes :=
  hf_first f ++ flat_map (fun c => SP :: snd c) (hf_conts f).

Definition starts_clean (v : bytes) : Prop :=
  match v with x :: _ => is_sp_tab x = false | [] => False end.
(* a value piece: non-empty, only field-value bytes, no blank at either end *)
Definition piece_ok (v : bytes) : Prop :=
  forallb valid_value_byte v = true /\ starts_clean v /\ starts_clean (rev v).
Definition cont_ok (c : bytes * bytes) : Prop :=
  fst c <> [] /\ forallb is_sp_tab (fst c) = true /\ piece_ok (snd c).
Definition field_ok (f : hfield) : Prop :=
  hf_name f <> [] /\ forallb is_tchar (hf_name f) = true /\ piece_ok (hf_first f) /\
  Forall cont_ok (hf_conts f).

Definition header_of_fields (fs : list hfield) : hmap :=
  fold_left (fun m f => hadd (canon_go true (hf_name f)) (field_value f) m) fs [].
