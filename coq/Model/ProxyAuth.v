(* Model/ProxyAuth.v - C20: Basic credentials for an HTTP proxy.  transport.go
   connectMethod.proxyAuth (Proxy-Authorization from the proxy URL's userinfo, http.go
   basicAuth), the textual round trip of the userinfo through net/url (Userinfo.String with
   escape mode encodeUserPassword; parseAuthority + unescape), connectMethod.key (the proxy part
   of the connection-pool key is the whole proxy URL text) and the state carried between
   requests: idle proxy connections keep the header value computed when they were dialled
   (persistConn.mutateHeaderFunc / the CONNECT request).  No proofs here. *)
From ReqV Require Export Lib.Bytes Model.Base64.
From ReqV Require Export Gen.ProxyKey.   (* proxy_key_source: regenerated from transport.go *)

(* ---------- net/url: escape / unescape in mode encodeUserPassword ---------- *)

(* shouldEscape(c, encodeUserPassword) *)
Definition ui_should_escape (b : byte) : bool :=
  negb (is_alpha b || is_digit b || mem_byte b (bs "-_.~") || mem_byte b (bs "$&+,;=")).

Definition upper_hex (n : N) : byte := nth (N.to_nat n) (bs "0123456789ABCDEF") "0"%byte.

Fixpoint ui_escape (s : bytes) : bytes :=
  match s with
  | [] => []
  | b :: r => if ui_should_escape b
              then "%"%byte :: upper_hex (bN b / 16)%N :: upper_hex (bN b mod 16)%N :: ui_escape r
              else b :: ui_escape r
  end.

Definition unhex (b : byte) : option N :=
  if is_digit b then Some (bN b - 48)%N
  else if (97 <=? bN b)%N && (bN b <=? 102)%N then Some (bN b - 87)%N
  else if (65 <=? bN b)%N && (bN b <=? 70)%N then Some (bN b - 55)%N
  else None.

(* unescape(s, encodeUserPassword): %XX -> byte, anything else verbatim; None = EscapeError *)
Fixpoint ui_unescape (s : bytes) : option bytes :=
  match s with
  | [] => Some []
  | b :: r =>
      if beqb b "%"%byte then
        match r with
        | h :: l :: r' =>
            match unhex h, unhex l, ui_unescape r' with
            | Some x, Some y, Some t => Some (byte_of_N_total (x * 16 + y) :: t)
            | _, _, _ => None
            end
        | _ => None
        end
      else match ui_unescape r with Some t => Some (b :: t) | None => None end
  end.

(* user name, and the password when one is set (url.User vs url.UserPassword) *)
Definition userinfo := (bytes * option bytes)%type.

(* Userinfo.String *)
Definition ui_string (u : userinfo) : bytes :=
  match snd u with
  | None => ui_escape (fst u)
  | Some p => ui_escape (fst u) ++ ":"%byte :: ui_escape p
  end.

(* the userinfo part of parseAuthority (validUserinfo is the harness's precondition) *)
Definition ui_parse (s : bytes) : option userinfo :=
  match index_byte ":"%byte s with
  | None => match ui_unescape s with Some u => Some (u, None) | None => None end
  | Some i => match ui_unescape (firstn i s), ui_unescape (skipn (S i) s) with
              | Some u, Some p => Some (u, Some p)
              | _, _ => None
              end
  end.

(* ---------- the proxy URL and what is sent to the proxy ---------- *)

Record proxy_url := mkPU { pu_user : option userinfo; pu_host : bytes }.

(* URL.String of "http://[userinfo@]host" *)
Definition pu_string (p : proxy_url) : bytes :=
  bs "http://" ++ match pu_user p with
                  | None => pu_host p
                  | Some u => ui_string u ++ "@"%byte :: pu_host p
                  end.

(* connectMethod.proxyAuth: Username(), Password() (empty when not set), "Basic " + basicAuth *)
Definition proxy_auth (p : proxy_url) : option bytes :=
  match pu_user p with
  | None => None
  | Some (u, Some pw) => Some (basic_header u pw)
  | Some (u, None) => Some (basic_header u [])
  end.

(* ---------- connectMethod.key and the idle-connection pool ---------- *)

(* proxy text, target scheme is https?, target address ("" for plain http through an http proxy) *)
Definition conn_key := (bytes * bool * bytes)%type.

Definition key_eqb (a b : conn_key) : bool :=
  bytes_eqb (fst (fst a)) (fst (fst b)) && Bool.eqb (snd (fst a)) (snd (fst b)) && bytes_eqb (snd a) (snd b).

(* [keytext]: how the proxy URL enters the key - the code: URL.String (pu_string) *)
Definition key_with (keytext : proxy_url -> bytes) (p : proxy_url) (https : bool) (target : bytes) : conn_key :=
  (keytext p, https, if https then target else []).
Definition conn_key_of := key_with pu_string.

(* url.URL.Redacted: the password replaced by "xxxxx" (what a seeded change used for the key) *)
Definition pu_redacted (p : proxy_url) : bytes :=
  pu_string (mkPU (match pu_user p with
                   | Some (u, Some _) => Some (u, Some (bs "xxxxx"))
                   | x => x
                   end) (pu_host p)).

(* an idle connection remembers the Proxy-Authorization it was dialled with *)
Definition pool := list (conn_key * option bytes).

Fixpoint pool_find (k : conn_key) (pl : pool) : option (option bytes) :=
  match pl with
  | [] => None
  | (k', h) :: r => if key_eqb k k' then Some h else pool_find k r
  end.

(* Transport.ProxyConnectHeader (static extra headers for CONNECT) may itself carry a
   Proxy-Authorization, [static]; dialConn works on a Clone of it, and the credentials of the
   proxy URL, when there are any, override it.  Plain-http requests never see that header. *)
Definition connect_auth (static : option bytes) (p : proxy_url) : option bytes :=
  match proxy_auth p with Some h => Some h | None => static end.
Definition sent_auth (static : option bytes) (https : bool) (p : proxy_url) : option bytes :=
  if https then connect_auth static p else proxy_auth p.

(* One request through the proxy.  Result: what the proxy receives for it and the pool after.
   plain http target: the request itself carries the header of the connection it travels on;
   https target: a new tunnel sends one CONNECT with the header, a re-used tunnel sends the
   proxy nothing.  [static] is never changed. *)
Definition proxy_step_with (keytext : proxy_url -> bytes) (static : option bytes) (pl : pool) (p : proxy_url)
           (https : bool) (target : bytes) : list (option bytes) * pool :=
  let k := key_with keytext p https target in
  match pool_find k pl with
  | Some h => (if https then [] else [h], pl)
  | None => ([sent_auth static https p], (k, sent_auth static https p) :: pl)
  end.
Definition proxy_step := proxy_step_with pu_string.

Definition proxy_req := (proxy_url * bool * bytes)%type.

Fixpoint proxy_run_with (keytext : proxy_url -> bytes) (static : option bytes) (pl : pool) (rs : list proxy_req)
  : list (list (option bytes)) :=
  match rs with
  | [] => []
  | (p, https, target) :: r =>
      let '(seen, pl') := proxy_step_with keytext static pl p https target in
      seen :: proxy_run_with keytext static pl' r
  end.
Definition proxy_run := proxy_run_with pu_string.

(* a seeded change dropped the Clone: the credentials of a proxy URL are written INTO the static
   header and stay there for later tunnels ([static] becomes carried state) *)
Fixpoint proxy_run_shared (static : option bytes) (pl : pool) (rs : list proxy_req) : list (list (option bytes)) :=
  match rs with
  | [] => []
  | (p, https, target) :: r =>
      let '(seen, pl') := proxy_step_with pu_string static pl p https target in
      let static' := match pool_find (key_with pu_string p https target) pl, https, proxy_auth p with
                     | None, true, Some h => Some h
                     | _, _, _ => static
                     end in
      seen :: proxy_run_shared static' pl' r
  end.
