(* Model/H1Bufio.v - C04: bufio.Reader.ReadSlice('\n') / ReadLine (Go 1.23.5 bufio.go) and
   textproto's readLineSlice(-1) on top, at the level of buffer-sized fragments.  This is the
   detailed reading of which Model/H1Resp.v [read_line] is the summary
   (Proofs/H1BufioProofs.v read_line_refines_bufio).

   A bufio.Reader of size n over a source that delivers the stream s and then EOF (EOF by a
   separate Read, as net.Conn does): ReadSlice finds the delimiter iff it is among the first n
   unread bytes, reports ErrBufferFull iff >= n bytes without delimiter are unread, otherwise
   returns what is left with the source's error.  fill() slides unread data to the start of
   the buffer, so the outcome does not depend on how the source chunked its reads.
   (Same abstraction as C13's Model/DumpReader.v; kept separate so the two properties do not
   depend on each other's files.)  No proofs here. *)
From ReqV Require Export Lib.Bytes Model.H1Resp.

Inductive slice_err := SNone | SEOF | SBufFull.

Definition read_slice (n : nat) (s : bytes) : bytes * bytes * slice_err :=
  match cut_byte LF (firstn n s) with
  | Some (a, _) => (firstn (S (length a)) s, skipn (S (length a)) s, SNone)
  | None => if n <=? length s then (firstn n s, skipn n s, SBufFull) else (s, [], SEOF)
  end.

(* drop a final "\n" or "\r\n" *)
Definition drop_eol (line : bytes) : bytes :=
  match rev line with
  | x :: r1 =>
      if beqb x LF then
        match r1 with
        | y :: r2 => if beqb y CR then rev r2 else rev r1
        | [] => []
        end
      else line
  | [] => line
  end.

(* ReadLine: (line, isPrefix, err, rest) *)
Definition bufio_read_line (n : nat) (s : bytes) : bytes * bool * slice_err * bytes :=
  let '(line, rest, e) := read_slice n s in
  match e with
  | SBufFull =>
      (* "Handle the case where "\r\n" straddles the buffer": put a trailing CR back *)
      match rev line with
      | x :: r1 => if beqb x CR then (rev r1, true, SNone, CR :: rest) else (line, true, SNone, rest)
      | [] => (line, true, SNone, rest)
      end
  | _ =>
      match line with
      | [] => ([], false, e, rest)                 (* if len(line) == 0 { return (nil, err) } *)
      | _ => (drop_eol line, false, SNone, rest)   (* err = nil; strip the line ending *)
      end
  end.

(* readLineSlice(-1): None = an error (io.EOF) was returned and everything read is dropped *)
Fixpoint read_line_slice (fuel n : nat) (acc s : bytes) : option (option (bytes * bytes)) :=
  match fuel with
  | O => None                                       (* out of fuel *)
  | S f =>
      match bufio_read_line n s with
      | (l, more, SNone, rest) =>
          if more then read_line_slice f n (acc ++ l) rest else Some (Some (acc ++ l, rest))
      | (_, _, _, _) => Some None
      end
  end.
