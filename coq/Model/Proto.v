(* Model/Proto.v - protocol selection and TLS-configuration plumbing of imroc/req (C12).
   Executable model, no proofs here.  Mirrors, branch for branch:
     transport.go   Transport.roundTrip (checkAltSvc, forced-version switch, cached-connection probing of
                    t2 then t3, getConn/dialConn with connectMethod.onlyH1, ALPN hand-off to t2),
                    RoundTrip (roundtrip.go: handleAltSvc on non-h3 responses), handlePendingAltSvc,
                    EnableH2C / EnableForceHTTPx / EnableHTTP3 / Clone / CloseIdleConnections,
                    persistConn.addTLS (cloneTLSConfig, ServerName defaulting, NextProtos cleared for onlyH1)
     internal/http2 Transport.RoundTripOpt (scheme rule, AllowHTTP), dialClientConn, newTLSConfig, dialTLS
                    (DialTLSContext bypass, ALPN check)
     internal/http3 RoundTripper.RoundTripOpt / getClient / AddConn / dial (tls.Config construction)
     client.go      GetTLSClientConfig, SetTLSClientConfig, Enable/DisableInsecureSkipVerify, SetRootCert*,
                    SetCerts, Clone;  internal/transport Options.Clone
   NOT modelled (inputs of the model, exercised by the harness): certificate verification (crypto/tls)
   and the QUIC handshake - represented by [verify_ok] / [negotiate] below, a transcription of
   crypto/tls's documented decision (trusted issuer and matching name, or InsecureSkipVerify;
   server-preference ALPN selection with the http/1.1 fallback), tied to the real thing by the harness. *)
From Coq Require Import List Bool NArith.
From ReqV Require Import Lib.Bytes Gen.ProtoTables.
Import ListNotations.

(* ---------- basic vocabulary ---------- *)
Inductive version := V1 | V2 | V3.
Inductive force := FNone | FH1 | FH2 | FH3.
Inductive stack := S1 | S2 | S3                   (* which dialler builds the tls.Config *)
| SP.                                             (* the first hop to an https:// proxy (HTTP/1 dialler, forProxy) *)
(* failure classes (the harness maps error texts to these) *)
Inductive errclass :=
| ECert      (* certificate / client-certificate rejected *)
| EAlpn      (* no application protocol / http2: unexpected ALPN protocol *)
| EScheme    (* http2: unsupported scheme / http3: unsupported protocol scheme *)
| EDial      (* nobody listening (QUIC handshake timeout) *)
| EProto.    (* protocol garbage: h2 preface to an h1/TLS listener, TLS hello to a plain listener *)
Inductive outcome :=
| Use (v : version)
| Cleartext        (* an https request written in clear to the TLS port (custom/plain DialTLSContext) *)
| Fail (e : errclass).

Definition alpn_h1 : bytes := bs "http/1.1".
Definition mem_bytes (x : bytes) (l : list bytes) : bool := existsb (bytes_eqb x) l.
Definition mem_N (x : N) (l : list N) : bool := existsb (N.eqb x) l.
Definition nilb {A} (l : list A) : bool := match l with [] => true | _ => false end.

(* ---------- tls.Config, the fields the property talks about + NextProtos ---------- *)
Record tlscfg := mkTls {
  t_roots : list N;      (* RootCAs: ids of the CAs in the pool; [] = nil pool = system roots *)
  t_sname : bytes;       (* ServerName; [] = unset *)
  t_certs : list N;      (* Certificates: issuing-CA id of each client certificate, in order *)
  t_skip  : bool;        (* InsecureSkipVerify *)
  t_next  : list bytes   (* NextProtos *)
}.
Definition empty_tls : tlscfg := mkTls [] [] [] false [].
Definition set_next (n : list bytes) (c : tlscfg) := mkTls (t_roots c) (t_sname c) (t_certs c) (t_skip c) n.
Definition set_sname (s : bytes) (c : tlscfg) := mkTls (t_roots c) s (t_certs c) (t_skip c) (t_next c).
Definition set_skip (b : bool) (c : tlscfg) := mkTls (t_roots c) (t_sname c) (t_certs c) b (t_next c).
Definition add_root (r : N) (c : tlscfg) := mkTls (t_roots c ++ [r]) (t_sname c) (t_certs c) (t_skip c) (t_next c).
Definition add_cert (k : N) (c : tlscfg) := mkTls (t_roots c) (t_sname c) (t_certs c ++ [k]) (t_skip c) (t_next c).

(* cloneTLSConfig (transport.go) / `if c != nil { *cfg = *c.Clone() }` (http2) / dial (http3): nil -> &tls.Config{} *)
Definition clone_or_empty (o : option tlscfg) : tlscfg := match o with Some c => c | None => empty_tls end.
(* `if cfg.ServerName == "" { cfg.ServerName = host }` - identical in all three stacks *)
Definition default_sname (host : bytes) (c : tlscfg) : tlscfg := if nilb (t_sname c) then set_sname host c else c.

(* The tls.Config each stack hands to the handshake when dialling [host], given the pointer the
   client holds in Options.TLSClientConfig.  [shadow] = http3.RoundTripper has its own (never set)
   TLSClientConfig field: then HTTP/3 starts from nil whatever the client holds. *)
Definition tls_view_gen (shadow : bool) (s : stack) (only_h1 : bool) (host : bytes) (o : option tlscfg) : tlscfg :=
  match s with
  | S1 | SP => let c := default_sname host (clone_or_empty o) in
          if only_h1 then set_next [] c else c                         (* addTLS *)
  | S2 => let c := clone_or_empty o in                                 (* newTLSConfig *)
          let c := if mem_bytes alpn_h2 (t_next c) then c else set_next (alpn_h2 :: t_next c) c in
          default_sname host c
  | S3 => let c := default_sname host (clone_or_empty (if shadow then None else o)) in
          set_next [alpn_h3] c                                         (* http3 dial *)
  end.
Definition tls_view := tls_view_gen h3_shadow_tls_field.
Definition tls_view_pinned := tls_view_gen true.

(* what the property calls "the client's TLS settings" *)
Definition sec (c : tlscfg) : list N * bytes * list N * bool := (t_roots c, t_sname c, t_certs c, t_skip c).

(* ---------- server / environment ---------- *)
Record server := mkSrv {
  s_alpn   : list bytes;   (* TLS listener NextProtos in the server's preference order *)
  s_h3     : bool;         (* QUIC listener up (same port number) *)
  s_altsvc : bool;         (* TCP responses carry Alt-Svc: h3=":port" *)
  s_h2c    : bool;         (* the plain listener understands prior-knowledge h2c *)
  s_ca     : N;            (* CA that issued the server certificate *)
  s_sans   : list bytes;   (* names in the certificate *)
  s_needcert : option N    (* Some ca: client certificate issued by ca required *)
}.
(* a CONNECT proxy the client may be told to use (SetProxyURL): plain (http://) or behind TLS (https://), with
   its own host name and certificate *)
Record proxy := mkProxy { p_tls : bool; p_host : bytes; p_ca : N; p_sans : list bytes }.
Record env := mkEnv { e_https : bool; e_host : bytes; e_srv : server; e_proxy : option proxy }.
(* the proxy's TLS listener seen as a server: offers http/1.1 only, asks for no client certificate *)
Definition proxy_srv (px : proxy) : server := mkSrv [alpn_h1] false false false (p_ca px) (p_sans px) None.

(* crypto/tls negotiateALPN (server side): server preference; http/1.1-only clients may talk to an
   h2 server without ALPN; otherwise no overlap = fatal alert *)
Inductive neg := Neg (p : bytes) | NoProto | AlpnErr.
Fixpoint first_common (srv cli : list bytes) : option bytes :=
  match srv with
  | [] => None
  | s :: r => if mem_bytes s cli then Some s else first_common r cli
  end.
Definition negotiate (srv cli : list bytes) : neg :=
  if nilb srv || nilb cli then NoProto else
  match first_common srv cli with
  | Some p => Neg p
  | None => if mem_bytes alpn_h2 srv && mem_bytes alpn_h1 cli then NoProto else AlpnErr
  end.

(* crypto/tls verification, abstractly: issuer in the pool and name in the certificate, or skip *)
Definition verify_ok (c : tlscfg) (s : server) : bool :=
  t_skip c || (mem_N (s_ca s) (t_roots c) && mem_bytes (t_sname c) (s_sans s)).
(* client certificate: the first configured certificate whose issuer the server names is sent *)
Definition clientcert_ok (c : tlscfg) (s : server) : bool :=
  match s_needcert s with None => true | Some ca => mem_N ca (t_certs c) end.

Inductive hs := HsOk (p : option bytes) | HsFail (e : errclass).
Definition handshake (srv_protos : list bytes) (c : tlscfg) (s : server) : hs :=
  match negotiate srv_protos (t_next c) with
  | AlpnErr => HsFail EAlpn
  | n => if negb (verify_ok c s) then HsFail ECert
         else if negb (clientcert_ok c s) then HsFail ECert
         else HsOk (match n with Neg p => Some p | _ => None end)
  end.

(* one handshake as the server's listeners see it *)
Record dial := mkDial { d_stack : stack; d_sni : bytes; d_alpn : list bytes; d_ok : bool }.
Definition mk_dial (s : stack) (c : tlscfg) (h : hs) : dial :=
  mkDial s (t_sname c) (t_next c) (match h with HsOk _ => true | _ => false end).

(* ---------- client state ---------- *)
Inductive altst := ANone | APending (ready : bool) | AJar.
(* entry of http3 RoundTripper.clients: none; established; dial finished with an error (handed to the next
   user, who removes the entry); still dialling (a background AddConn dial to a port nobody answers on: it runs
   under context.Background and only ends with quic-go's own handshake timeout, > 5 s - every user meanwhile
   waits until its own deadline) *)
Inductive t3st := T3None | T3Conn | T3Failed (e : errclass) | T3Dialing
| T3Dead.  (* a connection the CLIENT considers established (its handshake completed) that the server has
              closed: the client certificate is checked after the client's side of the TLS 1.3 handshake is done *)
Record client := mkClient {
  c_tls   : option tlscfg;   (* Options.TLSClientConfig *)
  c_force : force;           (* Transport.forceHttpVersion *)
  c_h3    : bool;            (* t3 != nil (and altSvcJar / pendingAltSvcs allocated) *)
  c_allow_http : bool;       (* t2.AllowHTTP *)
  c_plain_dialtls : bool;    (* Options.DialTLSContext = plain net.Dial (installed by EnableH2C) *)
  c_udial : option tlscfg;   (* Options.DialTLSContext = a caller-supplied function (SetDialTLS) that returns a
                                TLS connection it has handshaken itself with this configuration *)
  c_uhs   : option tlscfg;   (* Options.TLSHandshakeContext = a caller-supplied handshake (SetTLSHandshake) that
                                runs crypto/tls over the given connection with this configuration *)
  c_idle  : bool;            (* idle HTTP/1 connection under the key with onlyH1 = false *)
  c_idle1 : bool;            (* idle HTTP/1 connection under the key with onlyH1 = true *)
  c_t2    : bool;            (* t2's pool has a connection for the origin *)
  c_t3    : t3st;
  c_alt   : altst;           (* pendingAltSvcs / altSvcJar entry for the origin *)
  c_bg    : bool;            (* a handlePendingAltSvc goroutine has been started and has not run yet *)
  c_fp    : bool;            (* Options.TLSHandshakeContext = the utls handshake SetTLSFingerprintX / ImpersonateX
                                install: bound to the transport, it reads the client's TLS settings at every
                                handshake; Clone installs it anew on the clone *)
  c_route : bool;            (* Options.Proxy = the environment's proxy (SetProxyURL) *)
  c_alti  : bool             (* the HTTP/1 idle list holds the persistConn{alt: t2} that dialConn returned after an
                                ALPN hand-off (key onlyH1 = false); such an entry is never taken out, a request that
                                gets it goes through t2.RoundTrip - which may dial *)
}.
(* req.C(): transport.go T() + client.go C() *)
Definition new_client : client :=
  mkClient (Some (mkTls [] [] [] false default_next_protos)) FNone false false false None None false false false T3None ANone false false false false.

Definition with_tls o c := mkClient o (c_force c) (c_h3 c) (c_allow_http c) (c_plain_dialtls c) (c_udial c) (c_uhs c) (c_idle c) (c_idle1 c) (c_t2 c) (c_t3 c) (c_alt c) (c_bg c) (c_fp c) (c_route c) (c_alti c).
Definition with_force f c := mkClient (c_tls c) f (c_h3 c) (c_allow_http c) (c_plain_dialtls c) (c_udial c) (c_uhs c) (c_idle c) (c_idle1 c) (c_t2 c) (c_t3 c) (c_alt c) (c_bg c) (c_fp c) (c_route c) (c_alti c).
Definition with_h3 b c := mkClient (c_tls c) (c_force c) b (c_allow_http c) (c_plain_dialtls c) (c_udial c) (c_uhs c) (c_idle c) (c_idle1 c) (c_t2 c) (c_t3 c) (c_alt c) (c_bg c) (c_fp c) (c_route c) (c_alti c).
Definition with_h2c a p c := mkClient (c_tls c) (c_force c) (c_h3 c) a p None (c_uhs c) (c_idle c) (c_idle1 c) (c_t2 c) (c_t3 c) (c_alt c) (c_bg c) (c_fp c) (c_route c) (c_alti c).
Definition with_allow a c := mkClient (c_tls c) (c_force c) (c_h3 c) a (c_plain_dialtls c) (c_udial c) (c_uhs c) (c_idle c) (c_idle1 c) (c_t2 c) (c_t3 c) (c_alt c) (c_bg c) (c_fp c) (c_route c) (c_alti c).
(* EnableH2C / DisableH2C.  Pinned code: EnableH2C also installed a plain net.Dial in the DialTLSContext slot
   (which every https connection of the client then used) and DisableH2C cleared the slot; repaired code: only the
   http2 AllowHTTP flag changes, http:// requests are dialled plain by the http2 transport itself *)
Definition set_h2c (b : bool) (c : client) : client :=
  if h2c_installs_plain_dialtls then with_h2c b b c else with_allow b c.
Definition with_idle i i1 c := mkClient (c_tls c) (c_force c) (c_h3 c) (c_allow_http c) (c_plain_dialtls c) (c_udial c) (c_uhs c) i i1 (c_t2 c) (c_t3 c) (c_alt c) (c_bg c) (c_fp c) (c_route c) (c_alti c).
Definition with_t2 b c := mkClient (c_tls c) (c_force c) (c_h3 c) (c_allow_http c) (c_plain_dialtls c) (c_udial c) (c_uhs c) (c_idle c) (c_idle1 c) b (c_t3 c) (c_alt c) (c_bg c) (c_fp c) (c_route c) (c_alti c).
Definition with_t3 x c := mkClient (c_tls c) (c_force c) (c_h3 c) (c_allow_http c) (c_plain_dialtls c) (c_udial c) (c_uhs c) (c_idle c) (c_idle1 c) (c_t2 c) x (c_alt c) (c_bg c) (c_fp c) (c_route c) (c_alti c).
(* SetDialTLS(fn) / SetDialTLS(nil): the single DialTLSContext slot (EnableH2C's plain dialler is overwritten) *)
Definition with_udial o c := mkClient (c_tls c) (c_force c) (c_h3 c) (c_allow_http c) false o (c_uhs c) (c_idle c) (c_idle1 c) (c_t2 c) (c_t3 c) (c_alt c) (c_bg c) (c_fp c) (c_route c) (c_alti c).
Definition with_uhs o c := mkClient (c_tls c) (c_force c) (c_h3 c) (c_allow_http c) (c_plain_dialtls c) (c_udial c) o (c_idle c) (c_idle1 c) (c_t2 c) (c_t3 c) (c_alt c) (c_bg c) (c_fp c) (c_route c) (c_alti c).
Definition with_alti b c := mkClient (c_tls c) (c_force c) (c_h3 c) (c_allow_http c) (c_plain_dialtls c) (c_udial c) (c_uhs c) (c_idle c) (c_idle1 c) (c_t2 c) (c_t3 c) (c_alt c) (c_bg c) (c_fp c) (c_route c) b.
Definition with_route b c := mkClient (c_tls c) (c_force c) (c_h3 c) (c_allow_http c) (c_plain_dialtls c) (c_udial c) (c_uhs c) (c_idle c) (c_idle1 c) (c_t2 c) (c_t3 c) (c_alt c) (c_bg c) (c_fp c) b (c_alti c).
(* the single TLSHandshakeContext slot: SetTLSHandshake(fn) replaces a fingerprint handshake, SetTLSFingerprint a fn *)
Definition with_hs (o : option tlscfg) (fp : bool) c := mkClient (c_tls c) (c_force c) (c_h3 c) (c_allow_http c) (c_plain_dialtls c) (c_udial c) o (c_idle c) (c_idle1 c) (c_t2 c) (c_t3 c) (c_alt c) (c_bg c) fp (c_route c) (c_alti c).
Definition with_alt a bg c := mkClient (c_tls c) (c_force c) (c_h3 c) (c_allow_http c) (c_plain_dialtls c) (c_udial c) (c_uhs c) (c_idle c) (c_idle1 c) (c_t2 c) (c_t3 c) a bg (c_fp c) (c_route c) (c_alti c).

(* ---------- configuration operations ---------- *)
(* client.go GetTLSClientConfig: allocate {NextProtos: h2, http/1.1} when the pointer is nil *)
Definition get_tls (c : client) : tlscfg :=
  match c_tls c with Some t => t | None => mkTls [] [] [] false getcfg_next_protos end.
Definition mutate (f : tlscfg -> tlscfg) (c : client) : client := with_tls (Some (f (get_tls c))) c.

(* what is done to a clone that is used once and thrown away (OFork) *)
Inductive forkact :=
| FkNone
| FkSetTLS (o : option tlscfg)
| FkSkip (b : bool)
| FkAddRoot (r : N)
| FkSName (s : bytes)
| FkForce (f : force)
| FkH2C (b : bool)
| FkDialTLS (o : option tlscfg)
| FkHandshake (o : option tlscfg)
| FkProxy (b : bool).

Inductive op :=
| OSetTLS (o : option tlscfg)   (* SetTLSClientConfig(conf) *)
| OSkip (b : bool)              (* Enable/DisableInsecureSkipVerify = GetTLSClientConfig().InsecureSkipVerify = b *)
| OAddRoot (r : N)              (* SetRootCertFromString / SetRootCertsFromFile *)
| OAddCert (k : N)              (* SetCerts *)
| OSName (s : bytes)            (* GetTLSClientConfig().ServerName = s *)
| OForce (f : force)            (* EnableForceHTTP1/2/3, DisableForceHttpVersion (FNone) *)
| OEnableH3                     (* EnableHTTP3 *)
| OH2C (b : bool)               (* EnableH2C / DisableH2C *)
| ODialTLS (o : option tlscfg)  (* SetDialTLS(fn doing its own TLS with this configuration) / SetDialTLS(nil) *)
| OFingerprint                  (* SetTLSFingerprintChrome - stands for every SetTLSFingerprintX / ImpersonateX *)
| OHandshake (o : option tlscfg) (* SetTLSHandshake(fn running crypto/tls with this configuration) / (nil) *)
| OProxy (b : bool)             (* SetProxyURL(the environment's proxy) / SetProxy(nil), followed by
                                   CloseIdleConnections (idle connections are keyed by the proxy: those made on
                                   the other route would merely be out of reach) *)
| OWrap                         (* Transport.WrapRoundTripFunc(a pass-through middleware): the chain ends in the
                                   roundTrip of the transport it is installed on - of the CLONE on a clone - and
                                   is transparent to protocol selection and TLS *)
| OClone                        (* Clone(): go on with the clone *)
| OCloseIdle                    (* Transport.CloseIdleConnections *)
| OBg                           (* the pending handlePendingAltSvc goroutine (if any) runs now *)
| OReq                          (* one GET to the origin *)
| OReqClose                     (* one GET carrying Connection: close *)
| OFork (a : forkact).          (* c2 := Clone(); a applied to c2; one GET with c2 (+ its Alt-Svc goroutine); c2 is
                                   dropped and the sequence goes on with the ORIGINAL client *)

(* ---------- the round trip ---------- *)
Definition res := (outcome * list dial * client)%type.

(* caller-supplied TLS (documented: valid for HTTP/1 and HTTP/2 only, HTTP/3 keeps using TLSClientConfig):
   DialTLSContext, when set, is consulted first by both TCP diallers; TLSHandshakeContext otherwise *)
Definition fingerprint_alpn : list bytes := [alpn_h2; alpn_h1].   (* utls HelloChrome_Auto: ALPN h2, http/1.1 *)
(* the fingerprint handshake works with the client's OWN settings of the moment (trust roots, server name, client
   certificates, skip-verify; after repair of the missing name / certificates) and the ALPN list of the imitated
   browser *)
Definition fp_cfg (c : client) : tlscfg :=
  let t := clone_or_empty (c_tls c) in mkTls (t_roots t) (t_sname t) (t_certs t) (t_skip t) fingerprint_alpn.
Definition hs_slot (c : client) : option tlscfg :=
  if c_fp c then Some (fp_cfg c) else c_uhs c.
Definition user_tls (c : client) : option tlscfg :=
  match c_udial c with Some t => Some t | None => hs_slot c end.
(* the tls.Config a TCP dial of stack s handshakes with (the harness's caller-supplied functions default the
   server name to the dialled host like every stack does) *)
Definition tcp_cfg (s : stack) (only_h1 : bool) (host : bytes) (c : client) : tlscfg :=
  match user_tls c with
  | Some t => default_sname host t
  | None => tls_view s only_h1 host (c_tls c)
  end.
Definition stack_quic (s : stack) : bool := match s with S3 => true | _ => false end.

(* http3 RoundTripper.dial + quic handshake *)
Definition h3_dial (e : env) (c : client) : hs * dial :=
  let cfg := tls_view S3 false (e_host e) (c_tls c) in
  let h := if s_h3 (e_srv e) then handshake [alpn_h3] cfg (e_srv e) else HsFail EDial in
  (h, mk_dial S3 cfg h).
Definition hs_err (h : hs) : errclass := match h with HsFail e => e | HsOk _ => EProto end.

(* http3 RoundTripper.RoundTripOpt on an authority without entry: dial, then the request *)
Definition rt_h3_fresh (e : env) (c : client) : res :=
  let '(h, d) := h3_dial e c in
  match h with
  | HsOk _ => (Use V3, [d], with_t3 T3Conn c)
  | HsFail EDial => (Fail EDial, [], c)
      (* nobody answers: the request's own deadline expires first (QUIC gives up after 10 s); the dial runs with
         the context of the request that started it and ends with it: the entry is left with that error and is
         dropped by the next getClient (5efe32e), i.e. it is as good as absent *)
  | HsFail er => (Fail er, [d], c)
  end.

(* http3 RoundTripper.RoundTripOpt; None = ErrNoCachedConn *)
Definition rt_h3 (only_cached : bool) (e : env) (c : client) : option res :=
  if negb (e_https e) then Some (Fail EScheme, [], c) else
  match c_t3 c with
  | T3Conn => Some (Use V3, [], c)
  | T3Dialing => Some (Fail EDial, [], c)                        (* ctx.Done() while waiting on cl.dialing *)
  | T3Dead =>
      (* the round trip on the closed connection fails with the connection's error and removes the entry; a
         replayable request on a reused connection is then tried once more on a new connection - unless only
         cached connections may be used *)
      if only_cached then Some (Fail ECert, [], with_t3 T3None c)
      else Some (rt_h3_fresh e (with_t3 T3None c))
  | T3Failed _ =>
      (* an entry whose dial has ended with an error is dropped by getClient: as if there were none (before
         5efe32e it handed its error to the next request; the harness waits for the end of a dial) *)
      if only_cached then None else Some (rt_h3_fresh e (with_t3 T3None c))
  | T3None => if only_cached then None else Some (rt_h3_fresh e c)
  end.

(* http2 Transport.RoundTripOpt with dialling (forced HTTP/2) *)
Definition rt_h2_dial (e : env) (c : client) : res :=
  if negb (e_https e || c_allow_http c) then (Fail EScheme, [], c) else
  if c_t2 c then (Use V2, [], c) else
  if negb (e_https e) && h2_plain_dial_for_http then
    (* h2c: dialClientConn dials an http:// request without the TLS hooks *)
    if s_h2c (e_srv e) then (Use V2, [], with_t2 true c) else (Fail EProto, [], c)
  else
  if c_plain_dialtls c then
    (* dialTLS: DialTLSContext set -> that connection is used as is, no TLS, no ALPN check *)
    if negb (e_https e) && s_h2c (e_srv e) then (Use V2, [], with_t2 true c)
    else (Fail EProto, [], c)
  else if negb (e_https e) then (Fail EProto, [], c)               (* TLS hello to the plain listener *)
  else
    let cfg := tcp_cfg S2 false (e_host e) c in
    let h := handshake (s_alpn (e_srv e)) cfg (e_srv e) in
    match h with
    | HsFail er => (Fail er, [mk_dial S2 cfg h], c)
    | HsOk p => if opt_bytes_eqb p (Some alpn_h2) then (Use V2, [mk_dial S2 cfg h], with_t2 true c)
                else match c_udial c with
                     | Some _ => (Fail EProto, [mk_dial S2 cfg h], c)  (* DialTLSContext's connection is used as is: h2 spoken to an HTTP/1.1 server *)
                     | None => (Fail EAlpn, [mk_dial S2 cfg h], c)     (* http2: unexpected ALPN protocol *)
                     end
    end.

(* getConn + dialConn + the request on the connection obtained *)
Definition rt_conn_direct (e : env) (c : client) : res :=
  let only_h1 := match c_force c with FH1 => true | _ => false end in     (* connectMethodForRequest *)
  if negb only_h1 && e_https e && c_alti c then
    (* the idle list hands out the persistConn{alt: t2} of an earlier hand-off: t2.RoundTrip - a cached HTTP/2
       connection, or (none left: the last one was used up by a Connection: close request) a dial of its own *)
    if c_t2 c then (Use V2, [], c) else rt_h2_dial e c
  else
  if (if only_h1 then c_idle1 c else c_idle c) then (Use V1, [], c) else  (* idle connection under that key *)
  let idle c' := if only_h1 then with_idle (c_idle c') true c' else with_idle true (c_idle1 c') c' in
  if negb (e_https e) then (Use V1, [], idle c) else
  if c_plain_dialtls c then (Cleartext, [], c) else                       (* customDialTLS: not a tls Conn *)
  let cfg := tcp_cfg S1 only_h1 (e_host e) c in
  let h := handshake (s_alpn (e_srv e)) cfg (e_srv e) in
  match h with
  | HsFail er => (Fail er, [mk_dial S1 cfg h], c)
  | HsOk p =>
      if opt_bytes_eqb p (Some alpn_h2) then
        if only_h1
        then (Fail EProto, [mk_dial S1 cfg h], c)   (* only with caller-supplied TLS (addTLS offers no ALPN under onlyH1):
                                                       h2 negotiated, no hand-off because HTTP/1.1 is forced, HTTP/1.1
                                                       written to an HTTP/2 server *)
        else (Use V2, [mk_dial S1 cfg h], with_alti true (with_t2 true c))   (* t2.AddConn, alt = t2 *)
      else (Use V1, [mk_dial S1 cfg h], idle c)
  end.

(* the same through a CONNECT proxy (https:// target): the idle list is keyed by proxy AND target (connectMethod.key
   drops the target only for plain-http targets), so a tunnel is reused for its own authority only; a new one =
   first hop (plain TCP, or TLS with the PROXY's name under the client's settings - through DialTLSContext when the
   caller set one), CONNECT target, then the handshake with the ORIGIN inside the tunnel: its name is the target's
   (cm.tlsHost), its configuration the client's (or the TLSHandshakeContext hook's; DialTLSContext is not consulted
   for it), and the ALPN hand-off as on a direct connection *)
Definition rt_conn_proxy (px : proxy) (e : env) (c : client) : res :=
  let only_h1 := match c_force c with FH1 => true | _ => false end in
  if negb only_h1 && c_alti c then
    if c_t2 c then (Use V2, [], c) else rt_h2_dial e c
  else
  if (if only_h1 then c_idle1 c else c_idle c) then (Use V1, [], c) else
  let idle c' := if only_h1 then with_idle (c_idle c') true c' else with_idle true (c_idle1 c') c' in
  let pcfg := match c_udial c with
              | Some t => default_sname (p_host px) t
              | None => tls_view SP only_h1 (p_host px) (c_tls c)
              end in
  let hp := if p_tls px then handshake (s_alpn (proxy_srv px)) pcfg (proxy_srv px) else HsOk None in
  let pd := if p_tls px then [mk_dial SP pcfg hp] else [] in
  match hp with
  | HsFail er => (Fail er, pd, c)
  | HsOk _ =>
    let cfg := match hs_slot c with
               | Some t => default_sname (e_host e) t
               | None => tls_view S1 only_h1 (e_host e) (c_tls c)
               end in
    let h := handshake (s_alpn (e_srv e)) cfg (e_srv e) in
    match h with
    | HsFail er => (Fail er, pd ++ [mk_dial S1 cfg h], c)
    | HsOk p =>
        if opt_bytes_eqb p (Some alpn_h2) then
          if only_h1 then (Fail EProto, pd ++ [mk_dial S1 cfg h], c)
          else (Use V2, pd ++ [mk_dial S1 cfg h], with_alti true (with_t2 true c))
        else (Use V1, pd ++ [mk_dial S1 cfg h], idle c)
    end
  end.

Definition route (e : env) (c : client) : option proxy :=
  if c_route c && e_https e then e_proxy e else None.   (* plain-http targets through a proxy are not modelled *)

Definition rt_conn (e : env) (c : client) : res :=
  match route e c with
  | Some px => rt_conn_proxy px e c
  | None => rt_conn_direct e c
  end.

(* Transport.checkAltSvc; None = nothing applicable, go on *)
Definition check_altsvc (e : env) (c : client) : option res :=
  if negb (c_h3 c) then None else
  match c_alt c with
  | APending true =>
      match rt_h3 false e c with
      | Some (Use v, ds, c') => Some (Use v, ds, with_alt AJar (c_bg c') c')       (* SetAltSvc, delete pending *)
      | Some (o, ds, c') => Some (o, ds, with_alt (APending false) (c_bg c') c')   (* Transport = nil; single entry *)
      | None => None
      end
  | AJar => rt_h3 false e c                                                       (* roundTripAltSvc *)
  | _ => None
  end.

Definition round_trip_gen (guard : bool) (e : env) (c : client) : res :=
  match (if guard && negb (match c_force c with FNone => true | _ => false end) then None
         else check_altsvc e c) with
  | Some r => r
  | None =>
    match c_force c with
    | FH3 => match rt_h3 false e c with Some r => r | None => (Fail EProto, [], c) end
    | FH2 => rt_h2_dial e c
    | f =>
      if e_https e && negb (match f with FH1 => true | _ => false end) then
        if c_t2 c then (Use V2, [], c)                                   (* t2.RoundTripOnlyCachedConn *)
        else if c_h3 c then
          match rt_h3 true e c with Some r => r | None => rt_conn e c end
        else rt_conn e c
      else rt_conn e c
    end
  end.

(* roundtrip.go RoundTrip: Alt-Svc of a successful non-h3 response -> handleAltSvc *)
Definition after_response (e : env) (r : res) : res :=
  let '(o, ds, c) := r in
  match o with
  | Use V1 | Use V2 =>
      if c_h3 c && s_altsvc (e_srv e) && (e_https e || negb altsvc_https_only) then
        match c_alt c with
        | ANone => (o, ds, with_alt (APending false) true c)            (* go handlePendingAltSvc *)
        | _ => r
        end
      else r
  | _ => r
  end.

Definition do_req_gen (guard : bool) (e : env) (c : client) : res := after_response e (round_trip_gen guard e c).

(* A request carrying Connection: close (isConnectionCloseRequest).  HTTP/1.1: the connection it travels on -
   idle or new - is not kept.  HTTP/2: clientConnPool.GetClientConn gives it a connection of its own whenever it
   may dial (forced HTTP/2; also the round trip that follows the ALPN hand-off of a connection the HTTP/1 dialler
   has just made - that one stays pooled and a second, single-use one is dialled by the http2 transport); a cached
   connection used through RoundTripOnlyCachedConn is marked doNotReuse and closed afterwards.  HTTP/3 does not
   look at the header. *)
Definition clear_idle (c : client) : client :=
  match c_force c with
  | FH1 => with_idle (c_idle c) false c
  | _ => with_idle false (c_idle1 c) c
  end.
Definition last_stack (ds : list dial) : option stack :=
  match rev ds with [] => None | d :: _ => Some (d_stack d) end.
Definition own_h2_conn (e : env) (c : client) : outcome * list dial :=
  let '(o, ds, _) := rt_h2_dial e (with_t2 false c) in (o, ds).
Definition round_trip_close (guard : bool) (e : env) (c : client) : res :=
  match c_force c with
  | FH2 => let '(o, ds) := own_h2_conn e c in (o, ds, c)
  | _ =>
    let '(o, ds, c1) := round_trip_gen guard e c in
    match o with
    | Use V2 =>
        match last_stack ds with
        | Some S1 => let '(o2, ds2) := own_h2_conn e c1 in (o2, ds ++ ds2, c1)   (* hand-off (direct or through a
                                            tunnel), then the own connection *)
        | _ => (o, ds, with_t2 false c1)   (* a cached connection, used up; or dialled by the http2 transport itself
                                              (alt entry of the idle list): that IS the own, single-use connection *)
        end
    | Use V1 => (o, ds, clear_idle c1)
    | _ => (o, ds, c1)
    end
  end.
Definition do_req_close_gen (guard : bool) (e : env) (c : client) : res := after_response e (round_trip_close guard e c).
Definition do_req_close := do_req_close_gen altsvc_only_unforced.
Definition do_req := do_req_gen altsvc_only_unforced.
Definition do_req_pinned := do_req_gen false.

(* handlePendingAltSvc: t3.AddConn returns as soon as the dial has been STARTED, so the entry becomes
   "ready" at once; the outcome of the dial is found by the next request that uses the entry *)
Definition do_bg (e : env) (c : client) : list dial * client :=
  if negb (c_bg c) then ([], c) else
  match c_t3 c with
  | T3None | T3Failed _ =>
      let c := with_t3 T3None c in
      let '(h, d) := h3_dial e c in
      match h with
      | HsOk _ => ([d], with_alt (APending true) false (with_t3 T3Conn c))
      | HsFail EDial => ([], with_alt (APending true) false (with_t3 T3Dialing c))
      | HsFail ECert =>
          if verify_ok (tls_view S3 false (e_host e) (c_tls c)) (e_srv e)
          then (* only the client certificate is refused: the dial itself succeeds (the server's verdict arrives
                  after the client's handshake is complete), AddConn reports success *)
               ([d], with_alt (APending true) false (with_t3 T3Dead c))
          else ([d], with_alt (APending true) false c)   (* the failed entry is dropped by the next getClient *)
      | HsFail er => ([d], with_alt (APending true) false c)
      end
  | T3Conn | T3Dialing | T3Dead => ([], with_alt (APending true) false c)
  end.

(* Transport.Clone (+ Options.Clone): configuration copied, connection state fresh *)
Definition do_clone (c : client) : client :=
  mkClient (c_tls c) (c_force c) (c_h3 c) (clone_copies_allow_http && c_allow_http c) (c_plain_dialtls c)
           (c_udial c) (c_uhs c) false false false T3None ANone false (c_fp c) (c_route c) false.

(* Alt-Svc bookkeeping as the hook VerifAltSvcState reports it *)
Inductive altobs := AOff | AObsNone | AObsPending | AObsReady | AObsJar.
Definition alt_obs (c : client) : altobs :=
  if negb (c_h3 c) then AOff else
  match c_alt c with ANone => AObsNone | APending false => AObsPending | APending true => AObsReady | AJar => AObsJar end.
Inductive obs :=
| ObsReq (o : outcome) (ds : list dial)
| ObsBg (ds : list dial) (a : altobs)
| ObsCfg
| ObsFork (o : outcome) (ds : list dial) (bg : list dial) (a : altobs).   (* what the throw-away clone did *)

Definition fork_apply (a : forkact) (c : client) : client :=
  match a with
  | FkNone => c
  | FkSetTLS t => with_tls t c
  | FkSkip b => mutate (set_skip b) c
  | FkAddRoot r => mutate (add_root r) c
  | FkSName s => mutate (set_sname s) c
  | FkForce FH3 => with_force FH3 (with_h3 true c)
  | FkForce f => with_force f c
  | FkH2C b => set_h2c b c
  | FkDialTLS o => with_udial o c
  | FkHandshake o => with_hs o false c
  | FkProxy b => with_route b c
  end.

Definition step_gen (guard : bool) (e : env) (c : client) (o : op) : obs * client :=
  match o with
  | OSetTLS t => (ObsCfg, with_tls t c)
  | OSkip b => (ObsCfg, mutate (set_skip b) c)
  | OAddRoot r => (ObsCfg, mutate (add_root r) c)
  | OAddCert k => (ObsCfg, mutate (add_cert k) c)
  | OSName s => (ObsCfg, mutate (set_sname s) c)
  | OForce FH3 => (ObsCfg, with_force FH3 (with_h3 true c))
  | OForce f => (ObsCfg, with_force f c)
  | OEnableH3 => (ObsCfg, with_h3 true c)
  | OH2C b => (ObsCfg, set_h2c b c)
  | ODialTLS o => (ObsCfg, with_udial o c)
  | OHandshake o => (ObsCfg, with_hs o false c)
  | OFingerprint => (ObsCfg, with_hs None true c)
  | OProxy b => (ObsCfg, with_route b (with_alti false (with_idle false false (with_t2 false (if closeidle_closes_h3 then with_t3 T3None c else c)))))
  | OWrap => (ObsCfg, c)
  | OClone => (ObsCfg, do_clone c)
  | OCloseIdle => (ObsCfg, with_alti false (with_idle false false (with_t2 false (if closeidle_closes_h3 then with_t3 T3None c else c))))
  | OBg => let '(ds, c') := do_bg e c in (ObsBg ds (alt_obs c'), c')
  | OReq => let '(o, ds, c') := do_req_gen guard e c in (ObsReq o ds, c')
  | OReqClose => let '(o, ds, c') := do_req_close_gen guard e c in (ObsReq o ds, c')
  | OFork a =>
      (* the clone has its own configuration copy, connection pools and Alt-Svc bookkeeping: whatever is done to
         it and with it leaves the original exactly as it was *)
      let '(o, ds, c2) := do_req_gen guard e (fork_apply a (do_clone c)) in
      let '(ds2, c3) := do_bg e c2 in
      (ObsFork o ds ds2 (alt_obs c3), c)
  end.
Definition step := step_gen altsvc_only_unforced.

Fixpoint run_gen (guard : bool) (e : env) (c : client) (ops : list op) : list obs * client :=
  match ops with
  | [] => ([], c)
  | o :: r => let '(x, c1) := step_gen guard e c o in
              let '(xs, c2) := run_gen guard e c1 r in (x :: xs, c2)
  end.
Definition run := run_gen altsvc_only_unforced.
Definition run_pinned := run_gen false.

(* ---------- two names of the origin (round 3) ----------
   Connection caches, Alt-Svc bookkeeping and the http3 client entries are keyed by the authority of the URL;
   the configuration is the client's.  A client talking to the same origin under two authorities A and B
   (say localhost:p and 127.0.0.1:p) is therefore a pair of per-authority states that always carry the same
   configuration: a request / background event / throw-away clone is directed at one authority and touches
   that component only, every other operation is applied to both. *)
Definition host_directed (o : op) : bool :=
  match o with OReq | OReqClose | OBg | OFork _ => true | _ => false end.

Definition step2 (eA eB : env) (w : client * client) (t : bool * op) : obs * (client * client) :=
  let '(cA, cB) := w in
  let '(b, o) := t in
  if host_directed o then
    if b then let '(x, cB') := step eB cB o in (x, (cA, cB'))
    else let '(x, cA') := step eA cA o in (x, (cA', cB))
  else
    let '(x, cA') := step eA cA o in
    let '(_, cB') := step eB cB o in (x, (cA', cB')).

Fixpoint run2 (eA eB : env) (w : client * client) (ops : list (bool * op)) : list obs * (client * client) :=
  match ops with
  | [] => ([], w)
  | t :: r => let '(x, w1) := step2 eA eB w t in
              let '(xs, w2) := run2 eA eB w1 r in (x :: xs, w2)
  end.

(* what one authority sees of a two-authority sequence: everything but what was directed at the other *)
Fixpoint proj_host (b : bool) (ops : list (bool * op)) : list op :=
  match ops with
  | [] => []
  | (b', o) :: r => if negb (host_directed o) || Bool.eqb b b' then o :: proj_host b r else proj_host b r
  end.
