(* Model/H1Resp.v - C04 (and C07): executable semantics of Go 1.23.5's HTTP/1.1 response
   reader: net/http.ReadResponse (response.go) + net/textproto.Reader (ReadLine,
   ReadMIMEHeader, readContinuedLineSlice, canonicalMIMEHeaderKey) + net/http/transfer.go
   (readTransfer, parseTransferEncoding, fixLength, shouldClose, fixTrailer, body.Read,
   readTrailer, seeUpcomingDoubleCRLF) + net/http/internal/chunked.go (chunkedReader,
   readChunkLine, parseHexUint, chunk-overhead limit).  The fork's reader in /repo
   (transport.go _readResponse, transfer.go, textproto_reader.go, internal/chunked.go) is a
   copy of that code (+ dump hooks) and is tied to this model by the C04 harness, as is the
   reference itself.

   A stream is the list of bytes the server sends followed by EOF.  Every parser returns
   the unconsumed rest.  bufio's buffer size matters in exactly four places, all modelled:
   an unterminated last line that ends exactly at a buffer boundary is lost (io.EOF), the chunk-size line must fit the buffer (ReadSlice -> ErrBufferFull), must be shorter
   than 4096, and the trailer's terminating CRLFCRLF must lie within one buffer.
   No proofs here. *)
From ReqV Require Export Lib.Bytes.

Definition CR : byte := x0d.
Definition LF : byte := x0a.
Definition SP : byte := " "%byte.
Definition HT : byte := x09.
Definition COLON : byte := ":"%byte.
Definition COMMA : byte := ","%byte.
Definition SEMI : byte := ";"%byte.
Definition DASH : byte := "-"%byte.

Definition is_nil {A} (l : list A) : bool := match l with [] => true | _ => false end.

(* bytes.Cut(s, [c]): before / after the first c *)
Fixpoint cut_byte (c : byte) (s : bytes) : option (bytes * bytes) :=
  match s with
  | [] => None
  | x :: r => if beqb x c then Some ([], r)
              else match cut_byte c r with
                   | Some (a, b) => Some (x :: a, b)
                   | None => None
                   end
  end.

(* ---------- bufio.Reader.ReadLine, concatenated by textproto.readLineSlice ---------- *)

(* drop ONE trailing CR *)
Fixpoint strip_cr (l : bytes) : bytes :=
  match l with
  | [] => []
  | [x] => if beqb x CR then [] else [x]
  | x :: r => x :: strip_cr r
  end.

Definition ends_with_cr (l : bytes) : bool :=
  match rev l with x :: _ => beqb x CR | [] => false end.

(* A last line WITHOUT LF, read through a bufio.Reader of [bufsize] bytes: ReadLine hands out
   buffer-sized fragments (isPrefix; a trailing CR is put back); if the bytes run out exactly at
   a fragment boundary the next ReadLine reports io.EOF and readLineSlice drops the whole line. *)
Fixpoint unterminated_lost (fuel bufsize : nat) (s : bytes) : bool :=
  match fuel with
  | O => false
  | S f =>
      if length s <? bufsize then is_nil s
      else let k := if ends_with_cr (firstn bufsize s) then bufsize - 1 else bufsize in
           unterminated_lost f bufsize (skipn k s)
  end.

(* None = io.EOF.  A last line without LF is returned whole (unless lost, see above). *)
Definition read_line (bufsize : nat) (s : bytes) : option (bytes * bytes) :=
  match s with
  | [] => None
  | _ => match cut_byte LF s with
         | Some (a, r) => Some (strip_cr a, r)
         | None => if unterminated_lost (S (length s)) bufsize s then None else Some (s, [])
         end
  end.

(* textproto trim: spaces and tabs, both ends *)
Definition trim_sp_tab (s : bytes) : bytes := trim is_sp_tab s.

(* textproto.TrimString: ASCII space = SP HT LF CR *)
Definition is_ascii_space (b : byte) : bool := beqb b SP || beqb b HT || beqb b LF || beqb b CR.
Definition trim_string (s : bytes) : bytes := trim is_ascii_space s.

(* ---------- errors ---------- *)

Inductive herr :=          (* ReadResponse returned an error *)
| HUnexpectedEOF
| HMalformedResponse       (* no space in the status line *)
| HMalformedStatus
| HMalformedVersion
| HMalformedHeader         (* textproto.ProtocolError / message too large *)
| HBadTransferEncoding
| HBadContentLength        (* multiple differing / empty / not a 63-bit decimal *)
| HBadTrailerKey
| HOther                   (* harness: an error the classifier does not know; never produced by the model *)
| HOutOfFuel.              (* model artefact; excluded by H1RespProofs.fuel_suffices *)

Inductive berr :=          (* what draining the body ended with *)
| BOk                      (* io.EOF: message complete *)
| BUnexpectedEOF
| BMalformedChunk          (* chunk data not followed by CRLF *)
| BLineTooLong
| BInvalidHex
| BHexTooLarge
| BEmptyHex
| BTooMuchNonData
| BTrailerEOF
| BTrailerTooLong
| BTrailerMalformed
| BOther
| BOutOfFuel.

(* ---------- header multimap (Go map[string][]string as association list) ---------- *)

Definition hmap := list (bytes * list bytes).

Fixpoint hget (k : bytes) (m : hmap) : option (list bytes) :=
  match m with
  | [] => None
  | (k', vs) :: r => if bytes_eqb k k' then Some vs else hget k r
  end.

Fixpoint hdel (k : bytes) (m : hmap) : hmap :=
  match m with
  | [] => []
  | (k', vs) :: r => if bytes_eqb k k' then hdel k r else (k', vs) :: hdel k r
  end.

(* m[k] = append(m[k], v) *)
Fixpoint hadd (k v : bytes) (m : hmap) : hmap :=
  match m with
  | [] => [(k, [v])]
  | (k', vs) :: r => if bytes_eqb k k' then (k', vs ++ [v]) :: r else (k', vs) :: hadd k v r
  end.

(* m[k] = vs *)
Fixpoint hset (k : bytes) (vs : list bytes) (m : hmap) : hmap :=
  match m with
  | [] => [(k, vs)]
  | (k', vs') :: r => if bytes_eqb k k' then (k', vs) :: r else (k', vs') :: hset k vs r
  end.

(* ---------- character classes ---------- *)

(* RFC 7230 tchar = net/textproto validHeaderFieldByte = the fork's isTokenTable
   (Gen/H1Tables.v regenerates the fork's table; H1RespProofs.token_table_agrees). *)
Definition is_tchar (b : byte) : bool :=
  is_digit b || is_alpha b ||
  mem_byte b (bs "!#$%&'*+-.^_`|~").

(* validHeaderValueByte: HTAB, SP..~, obs-text *)
Definition valid_value_byte (b : byte) : bool :=
  beqb b HT || ((32 <=? bN b)%N && negb (bN b =? 127)%N).

(* canonicalMIMEHeaderKey: None = rejected; keys containing a space are kept verbatim *)
Fixpoint canon_go (upper : bool) (k : bytes) : bytes :=
  match k with
  | [] => []
  | c :: r =>
      let c' := if upper && is_lower c then upper_byte c
                else if negb upper && is_upper c then lower_byte c
                else c in
      c' :: canon_go (beqb c' DASH) r
  end.

Definition canonical_key (k : bytes) : option bytes :=
  if is_nil k then None
  else if forallb is_tchar k then Some (canon_go true k)
  else if forallb (fun c => is_tchar c || beqb c SP) k then Some k
  else None.

(* textproto.CanonicalMIMEHeaderKey on a string (used by fixTrailer): unchanged when it
   holds a byte that is not a tchar *)
Definition canonical_header_key (k : bytes) : bytes :=
  if forallb is_tchar k then canon_go true k else k.

(* ---------- ReadMIMEHeader ---------- *)

Inductive fres (A : Type) := FOk (a : A) | FFuel.
Arguments FOk {A} _.
Arguments FFuel {A}.

(* continuation lines of readContinuedLineSlice; [buf] = trim(first line) *)
Fixpoint cont_lines (fuel bufsize : nat) (buf s : bytes) : fres (bytes * bytes) :=
  match fuel with
  | O => FFuel
  | S f =>
      match s with
      | x :: _ =>
          if is_sp_tab x then
            let s' := drop_while is_sp_tab s in          (* skipSpace() > 0 *)
            match read_line bufsize s' with
            | None => FOk (buf ++ [SP], [])              (* read error: break *)
            | Some (l, r) => cont_lines f bufsize (buf ++ SP :: trim_sp_tab l) r
            end
          else FOk (buf, s)
      | [] => FOk (buf, s)
      end
  end.

Fixpoint mime_loop (fuel bufsize : nat) (m : hmap) (s : bytes) : herr + (hmap * bytes) :=
  match fuel with
  | O => inl HOutOfFuel
  | S f =>
      match read_line bufsize s with
      | None => inl HUnexpectedEOF
      | Some (line, r) =>
          if is_nil line then inr (m, r)
          else if negb (mem_byte COLON line) then inl HMalformedHeader
          else
            match cont_lines (S (length r)) bufsize (trim_sp_tab line) r with
            | FFuel => inl HOutOfFuel
            | FOk (kv, r') =>
                match cut_byte COLON kv with
                | None => inl HMalformedHeader
                | Some (k, v) =>
                    match canonical_key k with
                    | None => inl HMalformedHeader
                    | Some key =>
                        if forallb valid_value_byte v
                        then mime_loop f bufsize (hadd key (trim_left is_sp_tab v) m) r'
                        else inl HMalformedHeader
                    end
                end
            end
      end
  end.

(* the initial line must not start with a blank: readLineSlice(80) then ProtocolError - or
   io.EOF when the (short, unterminated) line is lost *)
Definition read_mime_header (bufsize : nat) (s : bytes) : herr + (hmap * bytes) :=
  match s with
  | x :: _ =>
      if is_sp_tab x then
        match read_line bufsize s with
        | None => if length s <=? 80 then inl HUnexpectedEOF else inl HMalformedHeader
        | Some _ => inl HMalformedHeader
        end
      else mime_loop (S (length s)) bufsize [] s
  | [] => mime_loop (S (length s)) bufsize [] s
  end.

(* ---------- status line ---------- *)

Definition digit_val (b : byte) : option Z :=
  if is_digit b then Some (Z.of_N (bN b) - 48)%Z else None.

Fixpoint digits_val (acc : Z) (s : bytes) : option Z :=
  match s with
  | [] => Some acc
  | b :: r => match digit_val b with
              | Some d => digits_val (acc * 10 + d)%Z r
              | None => None
              end
  end.

(* strconv.Atoi on a short string: optional sign, then >= 1 digit *)
Definition atoi (s : bytes) : option Z :=
  match s with
  | [] => None
  | c :: r =>
      if beqb c "-"%byte then
        (if is_nil r then None else match digits_val 0 r with Some n => Some (- n)%Z | None => None end)
      else if beqb c "+"%byte then
        (if is_nil r then None else digits_val 0 r)
      else digits_val 0 s
  end.

(* http.ParseHTTPVersion *)
Definition parse_http_version (v : bytes) : option (Z * Z) :=
  match v with
  | [h; t1; t2; p; sl; a; d; b] =>
      if bytes_eqb [h; t1; t2; p; sl] (bs "HTTP/") && beqb d "."%byte then
        match digit_val a, digit_val b with
        | Some x, Some y => Some (x, y)
        | _, _ => None
        end
      else None
  | _ => None
  end.

Record status_line := { sl_proto : bytes; sl_status : bytes; sl_code : Z; sl_major : Z; sl_minor : Z }.

Definition parse_status_line (line : bytes) : herr + status_line :=
  match cut_byte SP line with
  | None => inl HMalformedResponse
  | Some (proto, status) =>
      let st := drop_while (beqb SP) status in
      let code := match cut_byte SP st with Some (c, _) => c | None => st end in
      if negb (length code =? 3) then inl HMalformedStatus
      else match atoi code with
           | None => inl HMalformedStatus
           | Some n =>
               if (n <? 0)%Z then inl HMalformedStatus
               else match parse_http_version proto with
                    | None => inl HMalformedVersion
                    | Some (ma, mi) =>
                        inr {| sl_proto := proto; sl_status := st; sl_code := n;
                               sl_major := ma; sl_minor := mi |}
                    end
           end
  end.

(* ---------- transfer.go ---------- *)

(* httpguts: token comparison is ASCII-only and case-insensitive *)
Definition token_equal (t1 t2 : bytes) : bool :=
  (length t1 =? length t2) && forallb (fun b => (bN b <? 128)%N) t1 &&
  bytes_eqb (to_lower t1) (to_lower t2).

Definition header_value_contains_token (v tok : bytes) : bool :=
  existsb (fun f => token_equal (trim_sp_tab f) tok) (split_byte COMMA v).

Definition header_values_contain_token (vs : list bytes) (tok : bytes) : bool :=
  existsb (fun v => header_value_contains_token v tok) vs.

Definition K_CONNECTION := bs "Connection".
Definition K_CL := bs "Content-Length".
Definition K_TE := bs "Transfer-Encoding".
Definition K_TRAILER := bs "Trailer".
Definition K_PRAGMA := bs "Pragma".
Definition K_CACHE := bs "Cache-Control".

(* shouldClose(major, minor, header, removeCloseHeader = true) *)
Definition should_close (major minor : Z) (h : hmap) : bool * hmap :=
  if (major <? 1)%Z then (true, h)
  else
    let conv := match hget K_CONNECTION h with Some v => v | None => [] end in
    let has_close := header_values_contain_token conv (bs "close") in
    if (major =? 1)%Z && (minor =? 0)%Z then
      (has_close || negb (header_values_contain_token conv (bs "keep-alive")), h)
    else if has_close then (true, hdel K_CONNECTION h)
    else (false, h).

Definition fix_pragma_cache_control (h : hmap) : hmap :=
  match hget K_PRAGMA h with
  | Some (v :: _) =>
      if bytes_eqb v (bs "no-cache") then
        match hget K_CACHE h with
        | Some _ => h
        | None => hset K_CACHE [bs "no-cache"] h
        end
      else h
  | _ => h
  end.

(* parseTransferEncoding: (chunked, header) *)
Definition parse_transfer_encoding (major minor : Z) (h : hmap) : herr + (bool * hmap) :=
  match hget K_TE h with
  | None => inr (false, h)
  | Some raw =>
      let h' := hdel K_TE h in
      if negb ((major >? 1)%Z || ((major =? 1)%Z && (minor >=? 1)%Z)) then inr (false, h')
      else match raw with
           | [v] => if bytes_eqb (to_lower v) (bs "chunked") then inr (true, h')
                    else inl HBadTransferEncoding
           | _ => inl HBadTransferEncoding
           end
  end.

(* strconv.ParseUint(s, 10, 63): non-empty, digits only, < 2^63 *)
Definition parse_uint63 (s : bytes) : option Z :=
  if is_nil s then None
  else match digits_val 0 s with
       | Some n => if (n <? 2 ^ 63)%Z then Some n else None
       | None => None
       end.

(* parseContentLength: -1 when absent *)
Definition parse_content_length (cls : list bytes) : option Z :=
  match cls with
  | [] => Some (-1)%Z
  | c :: _ => parse_uint63 (trim_string c)
  end.

Definition is_head (meth : bytes) : bool := bytes_eqb meth (bs "HEAD").

Definition body_allowed_for_status (code : Z) : bool :=
  negb (((100 <=? code)%Z && (code <=? 199)%Z) || (code =? 204)%Z || (code =? 304)%Z).

(* fixLength(isResponse = true, ...): (realLength, header) *)
Definition fix_length (code : Z) (meth : bytes) (h : hmap) (chunked : bool) : herr + (Z * hmap) :=
  let cls0 := match hget K_CL h with Some v => v | None => [] end in
  let dedup :=
    match cls0 with
    | c0 :: (_ :: _) as rest =>
        let first := trim_string c0 in
        if forallb (fun c => bytes_eqb first (trim_string c)) rest
        then inr (hadd K_CL first (hdel K_CL h), [first])
        else inl HBadContentLength
    | _ => inr (h, cls0)
    end in
  match dedup with
  | inl e => inl e
  | inr (h1, cls) =>
      match (if is_nil cls then Some 0%Z else parse_content_length cls) with
      | None => inl HBadContentLength
      | Some n =>
          if is_head meth then inr (0%Z, h1)
          else if (code / 100 =? 1)%Z then inr (0%Z, h1)
          else if (code =? 204)%Z || (code =? 304)%Z then inr (0%Z, h1)
          else if chunked then inr ((-1)%Z, hdel K_CL h1)
          else if negb (is_nil cls) then inr (n, h1)
          else inr ((-1)%Z, hdel K_CL h1)
      end
  end.

(* foreachHeaderElement *)
Definition header_elements (v : bytes) : list bytes :=
  let v := trim_string v in
  if is_nil v then []
  else if negb (mem_byte COMMA v) then [v]
  else filter (fun f => negb (is_nil f)) (map trim_string (split_byte COMMA v)).

Definition bad_trailer_key (k : bytes) : bool :=
  bytes_eqb k K_TE || bytes_eqb k K_TRAILER || bytes_eqb k K_CL.

(* fixTrailer: (declared trailer keys - nil values in Go -, header) *)
Definition fix_trailer (h : hmap) (chunked : bool) : herr + (hmap * hmap) :=
  match hget K_TRAILER h with
  | None => inr ([], h)
  | Some vv =>
      if negb chunked then inr ([], h)
      else
        let keys := map canonical_header_key (flat_map header_elements vv) in
        if existsb bad_trailer_key keys then inl HBadTrailerKey
        else inr (fold_left (fun t k => hset k [] t) keys [], hdel K_TRAILER h)
  end.

Inductive framing := FrNone | FrChunked | FrLength (n : Z) | FrUntilClose.

Record resp := {
  r_proto : bytes; r_code : Z; r_status : bytes;
  r_header : hmap;
  r_content_length : Z;          (* Response.ContentLength *)
  r_chunked : bool;              (* Response.TransferEncoding == ["chunked"] *)
  r_close : bool;                (* Response.Close *)
  r_framing : framing;           (* which body reader readTransfer installed *)
  r_trailer_declared : hmap      (* Response.Trailer before the body is read *)
}.

(* readTransfer for a response to a request with method [meth] *)
Definition read_transfer (meth : bytes) (sl : status_line) (h0 : hmap) : herr + resp :=
  let '(close0, h1) := should_close (sl_major sl) (sl_minor sl) h0 in
  let '(ma, mi) := if (sl_major sl =? 0)%Z && (sl_minor sl =? 0)%Z then (1, 1)%Z
                   else (sl_major sl, sl_minor sl) in
  match parse_transfer_encoding ma mi h1 with
  | inl e => inl e
  | inr (chunked, h2) =>
      match fix_length (sl_code sl) meth h2 chunked with
      | inl e => inl e
      | inr (real_len, h3) =>
          match (if is_head meth
                 then parse_content_length (match hget K_CL h3 with Some v => v | None => [] end)
                 else Some real_len) with
          | None => inl HBadContentLength
          | Some cl =>
              match fix_trailer h3 chunked with
              | inl e => inl e
              | inr (tr, h4) =>
                  let close1 := close0 ||
                    ((real_len =? -1)%Z && negb chunked && body_allowed_for_status (sl_code sl)) in
                  let fr :=
                    if chunked then
                      (if is_head meth || negb (body_allowed_for_status (sl_code sl))
                       then FrNone else FrChunked)
                    else if (real_len =? 0)%Z then FrNone
                    else if (real_len >? 0)%Z then FrLength real_len
                    else if close1 then FrUntilClose else FrNone in
                  inr {| r_proto := sl_proto sl; r_code := sl_code sl; r_status := sl_status sl;
                         r_header := h4; r_content_length := cl; r_chunked := chunked;
                         r_close := close1; r_framing := fr; r_trailer_declared := tr |}
              end
          end
      end
  end.

(* ---------- internal/chunked.go ---------- *)

Definition hex_digit_val (b : byte) : option N :=
  let n := bN b in
  if (48 <=? n)%N && (n <=? 57)%N then Some (n - 48)%N
  else if (97 <=? n)%N && (n <=? 102)%N then Some (n - 87)%N
  else if (65 <=? n)%N && (n <=? 70)%N then Some (n - 55)%N
  else None.

Inductive hexres := HexOk (n : N) | HexEmpty | HexInvalid | HexTooLarge.

(* the loop of parseHexUint: i = index of the current byte *)
Fixpoint hex_loop (i : nat) (acc : N) (v : bytes) : hexres :=
  match v with
  | [] => HexOk acc
  | b :: r =>
      match hex_digit_val b with
      | None => HexInvalid
      | Some d => if (i =? 16)%nat then HexTooLarge
                  else hex_loop (S i) (acc * 16 + d)%N r
      end
  end.

(* parseHexUint as in Go 1.23.5 (and in the fork after the fix) *)
Definition parse_hex_uint (v : bytes) : hexres :=
  if is_nil v then HexEmpty else hex_loop 0 0 v.

(* the fork's parseHexUint as pinned: no empty check, so "" parses as 0 *)
Definition parse_hex_uint_pinned (v : bytes) : hexres := hex_loop 0 0 v.

Definition trim_trailing_ws (s : bytes) : bytes := trim_right is_ascii_space s.

Definition remove_chunk_extension (s : bytes) : bytes :=
  match cut_byte SEMI s with Some (a, _) => a | None => s end.

Definition max_line_length : nat := 4096.

(* readChunkLine on a bufio.Reader of size [bufsize]: the line incl. its LF, and the rest *)
Definition read_chunk_line (bufsize : nat) (s : bytes) : berr + (bytes * bytes) :=
  match cut_byte LF (firstn bufsize s) with
  | Some (a, _) =>
      let n := S (length a) in
      if max_line_length <=? n then inl BLineTooLong
      else inr (firstn n s, skipn n s)
  | None => if bufsize <=? length s then inl BLineTooLong else inl BUnexpectedEOF
  end.

(* Go int64 arithmetic wraps *)
Definition wrap64 (z : Z) : Z := ((z + 2 ^ 63) mod 2 ^ 64 - 2 ^ 63)%Z.

Definition excess_limit : Z := 16384.

(* beginChunk's overhead accounting; [n] is the chunk size just parsed *)
Definition excess_after (excess : Z) (line_len : nat) (n : N) : Z :=
  let e1 := wrap64 (excess + wrap64 (Z.of_nat line_len + 2)) in
  let e2 := wrap64 (e1 - wrap64 (16 + wrap64 (2 * wrap64 (Z.of_N n)))) in
  Z.max e2 0.

Inductive chunk_end := CEof (rest : bytes) | CErr (e : berr).

(* Drain a chunkedReader: data delivered before the end, and how it ended.  CEof rest: the
   last-chunk line has been consumed; [rest] starts with the trailer section. *)
Fixpoint dechunk (fuel : nat) (bufsize : nat) (excess : Z) (s : bytes) : bytes * chunk_end :=
  match fuel with
  | O => ([], CErr BOutOfFuel)
  | S f =>
      match read_chunk_line bufsize s with
      | inl e => ([], CErr e)
      | inr (line, rest) =>
          match parse_hex_uint (remove_chunk_extension (trim_trailing_ws line)) with
          | HexEmpty => ([], CErr BEmptyHex)
          | HexInvalid => ([], CErr BInvalidHex)
          | HexTooLarge => ([], CErr BHexTooLarge)
          | HexOk n =>
              let ex := excess_after excess (length line) n in
              if (n =? 0)%N then ([], CEof rest)
              else if (ex >? excess_limit)%Z then ([], CErr BTooMuchNonData)
              else if (N.of_nat (length rest) <? n)%N then (rest, CErr BUnexpectedEOF)
              else
                let k := N.to_nat n in
                let data := firstn k rest in
                match skipn k rest with
                | c1 :: c2 :: rest' =>
                    if beqb c1 CR && beqb c2 LF then
                      let '(d, e) := dechunk f bufsize ex rest' in (data ++ d, e)
                    else (data, CErr BMalformedChunk)
                | _ => (data, CErr BUnexpectedEOF)
                end
          end
      end
  end.

Definition dechunk_all (bufsize : nat) (s : bytes) : bytes * chunk_end :=
  dechunk (S (length s)) bufsize 0 s.

(* seeUpcomingDoubleCRLF: CRLFCRLF ends within the first bufsize bytes *)
Definition double_crlf : bytes := [CR; LF; CR; LF].
Definition see_upcoming_double_crlf (bufsize : nat) (s : bytes) : bool :=
  contains_sub double_crlf (firstn bufsize s).

(* mergeSetHeader(&Trailer, hdr) *)
Definition merge_set_header (declared : hmap) (sent : hmap) : hmap :=
  if is_nil declared then sent
  else fold_left (fun t kv => hset (fst kv) (snd kv) t) sent declared.

(* body.readTrailer: (trailer sent, rest) *)
Definition read_trailer (bufsize : nat) (s : bytes) : berr + (hmap * bytes) :=
  match s with
  | c1 :: c2 :: rest =>
      if beqb c1 CR && beqb c2 LF then inr ([], rest)
      else if negb (see_upcoming_double_crlf bufsize s) then inl BTrailerTooLong
      else match read_mime_header bufsize s with
           | inl HUnexpectedEOF => inl BTrailerEOF
           | inl HOutOfFuel => inl BOutOfFuel
           | inl _ => inl BTrailerMalformed
           | inr (h, rest') => inr (h, rest')
           end
  | _ => inl BTrailerEOF
  end.

(* ---------- the whole message ---------- *)

Record body_result := {
  b_data : bytes;        (* what io.ReadAll(resp.Body) returned *)
  b_end : berr;          (* BOk = clean end of message *)
  b_trailer : hmap;      (* Response.Trailer afterwards *)
  b_rest : bytes         (* unconsumed stream; meaningful when b_end = BOk *)
}.

Definition read_body (bufsize : nat) (r : resp) (s : bytes) : body_result :=
  match r_framing r with
  | FrNone => {| b_data := []; b_end := BOk; b_trailer := r_trailer_declared r; b_rest := s |}
  | FrUntilClose => {| b_data := s; b_end := BOk; b_trailer := r_trailer_declared r; b_rest := [] |}
  | FrLength n =>
      if (Z.of_nat (length s) <? n)%Z
      then {| b_data := s; b_end := BUnexpectedEOF; b_trailer := r_trailer_declared r; b_rest := [] |}
      else {| b_data := firstn (Z.to_nat n) s; b_end := BOk;
              b_trailer := r_trailer_declared r; b_rest := skipn (Z.to_nat n) s |}
  | FrChunked =>
      match dechunk_all bufsize s with
      | (d, CErr e) => {| b_data := d; b_end := e; b_trailer := r_trailer_declared r; b_rest := [] |}
      | (d, CEof rest) =>
          match read_trailer bufsize rest with
          | inl e => {| b_data := d; b_end := e; b_trailer := r_trailer_declared r; b_rest := [] |}
          | inr (t, rest') =>
              {| b_data := d; b_end := BOk;
                 b_trailer := merge_set_header (r_trailer_declared r) t; b_rest := rest' |}
          end
      end
  end.

(* ReadResponse up to and including readTransfer: the response and the rest of the stream *)
Definition read_response_head (meth : bytes) (bufsize : nat) (s : bytes) : herr + (resp * bytes) :=
  match read_line bufsize s with
  | None => inl HUnexpectedEOF
  | Some (line, s1) =>
      match parse_status_line line with
      | inl e => inl e
      | inr sl =>
          match read_mime_header bufsize s1 with
          | inl e => inl e
          | inr (h, s2) =>
              match read_transfer meth sl (fix_pragma_cache_control h) with
              | inl e => inl e
              | inr r => inr (r, s2)
              end
          end
      end
  end.

Inductive outcome :=
| Rejected (e : herr)
| Accepted (r : resp) (b : body_result).

Definition parse_response (meth : bytes) (bufsize : nat) (s : bytes) : outcome :=
  match read_response_head meth bufsize s with
  | inl e => Rejected e
  | inr (r, rest) => Accepted r (read_body bufsize r rest)
  end.

(* how many bytes of the stream belong to the message *)
Definition consumed (s : bytes) (b : body_result) : nat := length s - length (b_rest b).
