(* Model/LifecycleH3.v - one HTTP/3 request (internal/http3): RoundTripper.RoundTripOpt (client
   cache entry, the dial goroutine that runs with the context of the request that started it,
   select { cl.dialing | ctx.Done }), SingleDestinationRoundTripper.roundTrip (handshake wait,
   openRequestStream, the cancel goroutine CancelWrite+CancelRead, doRequest: SendRequestHeader,
   body goroutine, ReadResponse; error replacement by ctx.Err()), hijackableBody.Read.
   NO proofs here.  [fx] selects the current code (true) or the pinned code (false) for the three
   repaired behaviours: request body closed on the early error paths, a failed dial does not stay
   in the cache for the next request, a body read that fails after the context ended reports the
   context's error.
   Labels: Z* environment, L* scheduling choices. *)
From Coq Require Import List Bool Arith.
From ReqV Require Import Model.Lifecycle.
Import ListNotations.

Inductive cst3 := C3Conn | C3Stream | C3Send | C3Wait | C3Ret (r : callres).
Inductive dial3 := D3Ready | D3Running | D3Err.
Inductive entry3 := E3None | E3Dialing | E3Ready | E3Failed.
Inductive bg3 := BgNone | BgRunning | BgDone.

Record h3 := mkH3 {
  c3 : cst3;             (* the caller of RoundTrip *)
  d3 : dial3;            (* the connection / the dial goroutine started by this request *)
  e3 : entry3;           (* this host's entry in RoundTripper.clients *)
  ctx3 : option cause;
  cg3 : bool;            (* the cancel goroutine is alive *)
  scancel : bool;        (* CancelWrite + CancelRead were called on the request stream *)
  bg : bg3;              (* the goroutine sending the request body *)
  bclosed3 : bool;       (* request body closed *)
  pipe3 : bodyres;       (* the response body as the caller sees it *)
  sblocked : bool        (* the peer's bidirectional stream limit is used up: OpenStreamSync blocks *)
}.

Inductive label3 :=
| ZConnReady | ZStreamLimit | ZStreamGranted | ZHdrSent | ZBodySent | ZResp (b : bool) | ZData | ZEnd | ZCancel (c : cause)
| LProceed | LStreamOpen | LStreamCtx | LWaitCtx | LDialCtx | LDialErrSeen | LCancelG | LHdrFail | LReadFail | LBgFail | LBodyFail.

Record cfg3 := mkCfg3 { c3_reuse : bool; c3_body : bool; c3_limit : bool (* the peer's stream limit is used up by another request *) }.

Definition init3 (c : cfg3) : h3 :=
  if c3_reuse c then mkH3 C3Conn D3Ready E3Ready None false false BgNone false BNone (c3_limit c)
  else mkH3 C3Conn D3Running E3Dialing None false false BgNone false BNone (c3_limit c).

Definition with_c (s : h3) (c : cst3) : h3 :=
  mkH3 c (d3 s) (e3 s) (ctx3 s) (cg3 s) (scancel s) (bg s) (bclosed3 s) (pipe3 s) (sblocked s).
Definition with_bclosed (s : h3) (b : bool) : h3 :=
  mkH3 (c3 s) (d3 s) (e3 s) (ctx3 s) (cg3 s) (scancel s) (bg s) (bclosed3 s || b) (pipe3 s) (sblocked s).
Definition with_pipe (s : h3) (p : bodyres) : h3 :=
  mkH3 (c3 s) (d3 s) (e3 s) (ctx3 s) (cg3 s) (scancel s) (bg s) (bclosed3 s) p (sblocked s).
Definition with_cg (s : h3) (g : bool) : h3 :=
  mkH3 (c3 s) (d3 s) (e3 s) (ctx3 s) g (scancel s) (bg s) (bclosed3 s) (pipe3 s) (sblocked s).
Definition with_entry (s : h3) (d : dial3) (e : entry3) : h3 :=
  mkH3 (c3 s) d e (ctx3 s) (cg3 s) (scancel s) (bg s) (bclosed3 s) (pipe3 s) (sblocked s).
Definition with_bg (s : h3) (g : bg3) : h3 :=
  mkH3 (c3 s) (d3 s) (e3 s) (ctx3 s) (cg3 s) (scancel s) g (bclosed3 s) (pipe3 s) (sblocked s).

Definition with_blocked (s : h3) (b : bool) : h3 :=
  mkH3 (c3 s) (d3 s) (e3 s) (ctx3 s) (cg3 s) (scancel s) (bg s) (bclosed3 s) (pipe3 s) b.

Definition deadline_like (c : cause) : bool := match c with CCanceled => false | _ => true end.

Definition step3 (fx : bool) (c : cfg3) (s : h3) (l : label3) : option h3 :=
  match l with
  | ZConnReady =>
      match d3 s, ctx3 s with
      | D3Running, None => Some (with_entry s D3Ready E3Ready)
      | _, _ => None
      end
  | ZHdrSent =>
      match c3 s, scancel s with
      | C3Send, false => Some (with_bg (with_c s C3Wait) (if c3_body c then BgRunning else BgNone))
      | _, _ => None
      end
  | ZBodySent =>
      match bg s, scancel s with
      | BgRunning, false => Some (with_bclosed (with_bg s BgDone) true)
      | _, _ => None
      end
  | ZResp b =>
      match c3 s, scancel s with
      | C3Wait, false =>
          if b then Some (with_pipe (with_c s (C3Ret (CResp true))) BOpen)
          else Some (with_cg (with_c s (C3Ret (CResp false))) false)   (* empty body: read to EOF at once *)
      | _, _ => None
      end
  | ZData => match pipe3 s, scancel s with BOpen, false => Some s | _, _ => None end
  | ZEnd =>
      match pipe3 s, scancel s with
      | BOpen, false => Some (with_cg (with_pipe s BEOF) false)      (* requestDone: reqDone closed *)
      | _, _ => None
      end
  | ZCancel cs =>
      Some (match ctx3 s with
            | None => mkH3 (c3 s) (d3 s) (e3 s) (Some cs) (cg3 s) (scancel s) (bg s) (bclosed3 s) (pipe3 s) (sblocked s)
            | _ => s end)
  (* ---- RoundTripOpt / roundTrip ---- *)
  | ZStreamLimit => if sblocked s then None else Some (with_blocked s true)
  | ZStreamGranted => if sblocked s then Some (with_blocked s false) else None
  | LProceed =>
      match c3 s, d3 s with
      | C3Conn, D3Ready => Some (with_c s C3Stream)                  (* openRequestStream: OpenStreamSync(ctx) *)
      | _, _ => None
      end
  | LStreamOpen =>
      match c3 s, sblocked s with
      | C3Stream, false => Some (with_cg (with_c s C3Send) true)     (* stream opened, cancel goroutine started *)
      | _, _ => None
      end
  | LStreamCtx =>
      (* OpenStreamSync waits with the REQUEST's context *)
      match c3 s, ctx3 s with
      | C3Stream, Some cs => Some (with_bclosed (with_c s (C3Ret (CErr (ECause cs)))) (fx && c3_body c))
      | _, _ => None
      end
  | LWaitCtx =>
      match c3 s, ctx3 s with
      | C3Conn, Some cs => Some (with_bclosed (with_c s (C3Ret (CErr (ECause cs)))) (fx && c3_body c))
      | _, _ => None
      end
  | LDialCtx =>
      match d3 s, ctx3 s with
      | D3Running, Some _ => Some (with_entry s D3Err E3Failed)
      | _, _ => None
      end
  | LDialErrSeen =>
      match c3 s, d3 s, ctx3 s with
      | C3Conn, D3Err, Some cs =>
          Some (with_bclosed (with_entry (with_c s (C3Ret (CErr (ECause cs)))) D3Err E3None) (fx && c3_body c))
      | _, _, _ => None
      end
  (* ---- the cancel goroutine ---- *)
  | LCancelG =>
      match cg3 s, ctx3 s with
      | true, Some _ => Some (mkH3 (c3 s) (d3 s) (e3 s) (ctx3 s) false true (bg s) (bclosed3 s) (pipe3 s) (sblocked s))
      | _, _ => None
      end
  (* ---- what the cancelled stream makes fail ---- *)
  | LHdrFail =>
      match c3 s, scancel s, ctx3 s with
      | C3Send, true, Some cs => Some (with_bclosed (with_c s (C3Ret (CErr (ECause cs)))) (fx && c3_body c))
      | _, _, _ => None
      end
  | LReadFail =>
      match c3 s, scancel s, ctx3 s with
      | C3Wait, true, Some cs =>
          (* the error is replaced by ctx.Err(); a non-Canceled error drops the cache entry; the pinned
             code sends a timed-out request on a re-used connection again, with its dead context *)
          let e' := if deadline_like cs then (if negb fx && c3_reuse c then E3Failed else E3None) else e3 s in
          Some (with_entry (with_c s (C3Ret (CErr (ECause cs)))) (d3 s) e')
      | _, _, _ => None
      end
  | LBgFail =>
      match bg s, scancel s with
      | BgRunning, true => Some (with_bclosed (with_bg s BgDone) true)
      | _, _ => None
      end
  | LBodyFail =>
      match pipe3 s, scancel s, ctx3 s with
      | BOpen, true, Some cs => Some (with_pipe s (BErr (if fx then ECause cs else EOther)))
      | _, _, _ => None
      end
  end.

Definition internals3 : list label3 :=
  [LProceed; LStreamOpen; LStreamCtx; LWaitCtx; LDialCtx; LDialErrSeen; LCancelG; LHdrFail; LReadFail; LBgFail; LBodyFail].

(* the next request on the same host: getClient hands out a finished, failed dial's error in the
   pinned code; the current code drops such an entry and dials again *)
Definition follow_ok (fx : bool) (s : h3) : bool :=
  fx || match e3 s with E3Failed => false | _ => true end.

Fixpoint run3 (fx : bool) (c : cfg3) (s : h3) (ls : list label3) : option h3 :=
  match ls with
  | [] => Some s
  | l :: r => match step3 fx c s l with Some s' => run3 fx c s' r | None => None end
  end.

Definition succs3 (fx : bool) (c : cfg3) (s : h3) : list h3 :=
  flat_map (fun l => match step3 fx c s l with Some s' => [s'] | None => [] end) internals3.

Fixpoint quiesce3 (fuel : nat) (fx : bool) (c : cfg3) (s : h3) : option (list h3) :=
  match fuel with
  | 0 => None
  | S f =>
      match succs3 fx c s with
      | [] => Some [s]
      | nx => fold_right (fun s' acc => match quiesce3 f fx c s', acc with
                                        | Some a, Some b => Some (a ++ b)
                                        | _, _ => None
                                        end) (Some []) nx
      end
  end.

Fixpoint partial3 (fuel : nat) (fx : bool) (c : cfg3) (s : h3) : list h3 :=
  match fuel with
  | 0 => [s]
  | S f => s :: flat_map (partial3 f fx c) (succs3 fx c s)
  end.
