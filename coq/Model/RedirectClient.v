(* Model/RedirectClient.v - C11: where the redirect decision procedure LIVES.
   (1) Clients: req.C() installs DefaultRedirectPolicy; Client.SetRedirectPolicy(ps...) builds a
       closure over ITS ARGUMENT and stores it in the client's own http.Client.CheckRedirect
       (no-op for an empty argument list; a later call replaces, never accumulates);
       Client.Clone() copies the http.Client struct by value (client.go: `client := *c.httpClient`),
       so the clone starts with the closure the source holds AT THAT MOMENT and the two are
       independent afterwards.  A world is the list of the clients created so far (creation order
       = client id), each with the policy list its CheckRedirect closure captured.
   (2) Several redirect chains in flight through one client: net/http calls CheckRedirect once per
       hop, on the goroutine of the request concerned; the policy closures of redirect.go hold no
       mutable state (tied by gosync: Gen/RedirectPolicies.v), so a hop decision is a function
       of that chain's own (target, via).  [run_sched] plays an arbitrary schedule of hop
       decisions over several chains.
   Executable definitions only. *)
From ReqV Require Export Model.Authority Model.Redirect.

(* ---------- (1) clients ---------- *)

Definition cid := nat.

Inductive cop :=
| ONew                                              (* req.C() *)
| OSet (c : cid) (ps : list policy)                 (* c.SetRedirectPolicy(ps...) *)
| OClone (c : cid)                                  (* c.Clone() - the new client gets the next id *)
| ODo (c : cid) (init : bytes) (hs : hdrs) (targets : list bytes)
| OOther (c : cid).   (* any OTHER configuration method of c (SetTimeout, SetCookieJar, SetUserAgent,
                         SetCommonHeader, DisableKeepAlives ...): the http.Client is updated in place,
                         CheckRedirect is not touched *) (* a request through c with the
                 caller's headers hs; the servers answer with the scripted Location authorities *)

Definition world := list (list policy).

Fixpoint set_nth {A} (n : nat) (x : A) (l : list A) : list A :=
  match l, n with
  | [], _ => []
  | _ :: r, O => x :: r
  | y :: r, S k => y :: set_nth k x r
  end.

Definition outcome := (list sent * chain_end)%type.

Definition cstep (w : world) (o : cop) : world * option outcome :=
  match o with
  | ONew => (w ++ [[PDefault]], None)
  | OSet c ps =>
      match ps with
      | [] => (w, None)                                (* `if len(policies) == 0 { return c }` *)
      | _ => (set_nth c ps w, None)
      end
  | OClone c =>
      match nth_error w c with
      | Some cfg => (w ++ [cfg], None)
      | None => (w, None)
      end
  | ODo c init hs targets =>
      match nth_error w c with
      | Some cfg => (w, Some (run_chain cfg init hs targets))
      | None => (w, None)
      end
  | OOther _ => (w, None)
  end.

(* the final world and the outcomes of the requests, in order *)
Fixpoint crun (w : world) (ops : list cop) : world * list outcome :=
  match ops with
  | [] => (w, [])
  | o :: r =>
      let '(w', oc) := cstep w o in
      let '(wf, l) := crun w' r in
      (wf, match oc with Some x => x :: l | None => l end)
  end.

(* the outcomes of the requests made through client [c] only *)
Fixpoint crun_of (c : cid) (w : world) (ops : list cop) : list outcome :=
  match ops with
  | [] => []
  | o :: r =>
      let '(w', oc) := cstep w o in
      match o, oc with
      | ODo d _ _ _, Some x => if Nat.eqb d c then x :: crun_of c w' r else crun_of c w' r
      | _, _ => crun_of c w' r
      end
  end.

(* what the OTHER clients are told, and what is requested through them, is irrelevant: turn every
   SetRedirectPolicy and every request on a client other than [c] into the empty (no-op) call *)
Definition erase1 (c : cid) (o : cop) : cop :=
  match o with
  | OSet d ps => if Nat.eqb d c then o else OSet d []
  | ODo d _ _ _ => if Nat.eqb d c then o else OSet d []
  | _ => o
  end.

Definition erase_foreign (c : cid) (ops : list cop) : list cop := map (erase1 c) ops.

(* A wrong design kept for contrast (seeded change b-m1): SetRedirectPolicy writes a field of the
   client and CheckRedirect is the method value reading that field at redirect time; Clone copies the
   field, but the clone's CheckRedirect stays bound to the SOURCE's field until the clone calls
   SetRedirectPolicy itself *)
Definition world_mv := (list nat * list (list policy))%type.   (* client -> whose field is read, fields *)

Definition cstep_mv (w : world_mv) (o : cop) : world_mv * option outcome :=
  let '(bind, fields) := w in
  match o with
  | ONew => ((bind ++ [length fields], fields ++ [[PDefault]]), None)
  | OSet c ps =>
      match ps with
      | [] => (w, None)
      | _ => if Nat.ltb c (length bind)
             then ((set_nth c c bind, set_nth c ps fields), None)
             else (w, None)
      end
  | OClone c =>
      match nth_error bind c, nth_error fields c with
      | Some b, Some f => ((bind ++ [b], fields ++ [f]), None)
      | _, _ => (w, None)
      end
  | ODo c init hs targets =>
      match nth_error bind c with
      | Some b => (w, Some (run_chain (nth b fields []) init hs targets))
      | None => (w, None)
      end
  | OOther _ => (w, None)
  end.

(* A wrong design kept for contrast (seeded change e-m1): another configuration method (SetTimeout)
   REBUILDS the http.Client from the fields it knows - CheckRedirect is not among them: the client is
   back to net/http's default policy (10 requests, any host) *)
Definition cstep_rebuild (w : world) (o : cop) : world * option outcome :=
  match o with
  | OOther c => (match nth_error w c with Some _ => set_nth c [PDefault] w | None => w end, None)
  | _ => cstep w o
  end.

Fixpoint crun_rebuild (w : world) (ops : list cop) : list outcome :=
  match ops with
  | [] => []
  | o :: r =>
      let '(w', oc) := cstep_rebuild w o in
      match oc with Some x => x :: crun_rebuild w' r | None => crun_rebuild w' r end
  end.

Fixpoint crun_mv (w : world_mv) (ops : list cop) : list outcome :=
  match ops with
  | [] => []
  | o :: r =>
      let '(w', oc) := cstep_mv w o in
      match oc with Some x => x :: crun_mv w' r | None => crun_mv w' r end
  end.

(* ---------- (2) several chains in flight through one client ---------- *)

Inductive cstatus := Running | Ended (e : chain_end).

Record chain_st := {
  k_init : bytes;
  k_hdrs : hdrs;               (* the caller's headers on the first request *)
  k_via : list bytes;          (* URL.Host of every request of this chain so far, oldest first *)
  k_strip : bool;              (* net/http's sticky stripSensitiveHeaders of this chain *)
  k_todo : list bytes;         (* Location authorities still to come *)
  k_sent : list sent;          (* requests put on the wire so far, oldest first *)
  k_status : cstatus
}.

Definition chain_start (init : bytes) (hs : hdrs) (targets : list bytes) : chain_st :=
  {| k_init := init; k_hdrs := hs; k_via := [init]; k_strip := false; k_todo := targets;
     k_sent := [{| s_host := init; s_hdrs := hs |}]; k_status := Running |}.

(* one response of this chain is delivered to the client: it is final, or CheckRedirect runs
   and the next request is sent or refused *)
Definition hop (ps : list policy) (k : chain_st) : chain_st :=
  match k_status k with
  | Ended _ => k
  | Running =>
      match k_todo k with
      | [] => {| k_init := k_init k; k_hdrs := k_hdrs k; k_via := k_via k; k_strip := k_strip k; k_todo := [];
                 k_sent := k_sent k; k_status := Ended Completed |}
      | t :: rest =>
          let strip' := k_strip k ||
                        (negb (bytes_eqb (k_init k) t) && negb (should_copy (k_init k) t)) in
          if all_permit ps t (k_via k) then
            {| k_init := k_init k; k_hdrs := k_hdrs k; k_via := k_via k ++ [t]; k_strip := strip'; k_todo := rest;
               k_sent := k_sent k ++
                         [{| s_host := t; s_hdrs := carry ps strip' (k_hdrs k) |}];
               k_status := Running |}
          else
            {| k_init := k_init k; k_hdrs := k_hdrs k; k_via := k_via k; k_strip := k_strip k; k_todo := t :: rest;
               k_sent := k_sent k; k_status := Ended Refused |}
      end
  end.

Fixpoint hop_n (n : nat) (ps : list policy) (k : chain_st) : chain_st :=
  match n with O => k | S m => hop_n m ps (hop ps k) end.

Fixpoint map_nth {A} (f : A -> A) (n : nat) (l : list A) : list A :=
  match l, n with
  | [], _ => []
  | x :: r, O => f x :: r
  | x :: r, S m => x :: map_nth f m r
  end.

(* [sched]: whose response is delivered next (an index out of range, or a chain that has ended,
   is a no-op) *)
Fixpoint run_sched (ps : list policy) (sched : list nat) (ks : list chain_st) : list chain_st :=
  match sched with
  | [] => ks
  | i :: r => run_sched ps r (map_nth (hop ps) i ks)
  end.

Definition chain_result (k : chain_st) : list sent * option chain_end :=
  (k_sent k, match k_status k with Running => None | Ended e => Some e end).

(* ---------- (3) operations in which the client itself issues several requests for ONE named URL ----------
   a retry attempt after a retryable answer (Request.do's retry loop sends r.RawRequest again); the
   probing HEAD and every ranged segment GET of ParallelDownload.Do (pd.client.Head(pd.url),
   pd.client.Get(pd.url)).  Each is a request to the NAMED authority: a fresh chain from [init] under
   the same policies, with the same caller headers - never a first-hop request to a host learned from
   an earlier redirect.  [scripts]: the Location authorities the servers answer to the successive
   requests; the operation ends with the first chain that is refused (the caller gets its error). *)
Fixpoint reissue (ps : list policy) (init : bytes) (hs : hdrs) (scripts : list (list bytes))
  : list outcome :=
  match scripts with
  | [] => []
  | t :: r =>
      let o := run_chain ps init hs t in
      o :: match snd o with Completed => reissue ps init hs r | Refused => [] end
  end.

(* A wrong design kept for contrast (seeded change c-m1): once the first request has been answered
   the later ones are sent to where ITS chain ended, as first-hop requests: no CheckRedirect, the
   caller's headers in full *)
Definition reissue_from_final (ps : list policy) (init : bytes) (hs : hdrs) (scripts : list (list bytes))
  : list outcome :=
  match scripts with
  | [] => []
  | t :: r =>
      let o := run_chain ps init hs t in
      o :: match snd o with
           | Completed => map (fun _ => run_chain ps (last t init) hs []) r
           | Refused => []
           end
  end.

(* The digest-auth re-send (digest.go handleDigestAuthFunc): when the answer the call ends with is a
   401 carrying a Digest challenge, ONE more request is made - a copy of the FIRST request
   (r.RawRequest: the named URL, the caller's headers) with the Authorization header SET to the digest
   answer, handed to Transport.RoundTrip directly: no redirect is followed from it.  A refused chain
   (error) or a 30x handed back (NoRedirectPolicy) is no 401: no re-send. *)
Fixpoint set_hdr (n : bytes) (k : nat) (hs : hdrs) : hdrs :=
  match hs with
  | [] => [(n, k)]
  | h :: r => if bytes_eqb (fst h) n then (n, k) :: r else h :: set_hdr n k r
  end.

Definition h_authorization : bytes := bs "Authorization".

Definition digest_call (ps : list policy) (init : bytes) (hs : hdrs) (targets : list bytes) : outcome :=
  let o := run_chain ps init hs targets in
  match snd o with
  | Completed => (fst o ++ [{| s_host := init; s_hdrs := set_hdr h_authorization 1 hs |}], Completed)
  | Refused => o
  end.

(* A wrong design kept for contrast (seeded change d-m1): the re-send takes its URL from the request
   that answered the 401 - the LAST hop - and still carries the first request's headers *)
Definition digest_call_last_hop (ps : list policy) (init : bytes) (hs : hdrs) (targets : list bytes) : outcome :=
  let o := run_chain ps init hs targets in
  match snd o with
  | Completed => (fst o ++ [{| s_host := last (map s_host (fst o)) init;
                               s_hdrs := set_hdr h_authorization 1 hs |}], Completed)
  | Refused => o
  end.
