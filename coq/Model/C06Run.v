(* Model/C06Run.v - case type and checker evaluated on harness-generated cases (C06) *)
From Coq Require Import ZArith Bool List.
From ReqV Require Export Lib.Bytes Model.H2Flow Model.H2Monitor Model.H2Conn Model.H2TraceSpec.
Import ListNotations.
Open Scope Z_scope.

Fixpoint zlist_eqb (a b : list Z) : bool :=
  match a, b with
  | [], [] => true
  | x :: a', y :: b' => (x =? y) && zlist_eqb a' b'
  | _, _ => false
  end.

(* what the harness read from the live ClientConn (hook) once the scenario was quiescent:
   cConnInit = connection receive window the client granted with its preface; then cc.flow.n,
   cc.inflow.avail, cc.inflow.unsent, cc.maxFrameSize, cc.maxConcurrentStreams,
   cc.initialWindowSize, cc.nextStreamID *)
Inductive quiesce_obs :=
| QObs (c_conn_init flow in_avail in_unsent max_frame max_streams init_win next_id : Z).

Inductive c06_case :=
| FlowCase (ops : list fop) (final : list Z)
| ConstCase (name : bytes) (val : Z)
| TraceCase (hprio : bool) (evs : list ev) (verdict : option (nat * Z)) (q : option quiesce_obs).

Definition verdict_eqb (a b : option (nat * Z)) : bool :=
  match a, b with
  | None, None => true
  | Some (i, c), Some (j, d) => Nat.eqb i j && (c =? d)
  | _, _ => false
  end.

(* equality of the conserved quantities: what the strict peer computed from the wire equals
   what the real client believes, and all consumed credit is accounted for *)
Definition quiesce_ok (m : mon) (q : quiesce_obs) : bool :=
  let '(QObs cinit flow avail unsent mf ms iw nid) := q in
  (m_conn_win m =? flow) &&
  (m_max_frame m =? mf) &&
  (match m_max_streams m with Some v => v | None => c_defaultMaxConcurrentStreams end =? ms) &&
  (m_init_win m =? iw) &&
  (m_last_sid m + 2 <=? nid) && Z.odd nid &&
  (m_c_conn_win m =? avail) &&
  (avail + unsent =? cinit) &&
  (0 <=? unsent) && (unsent <? inflowMinRefresh) &&
  match m_pending m with [] => true | _ => false end &&
  (* the client holds no stream: the peer counts none as open *)
  (open_count (m_streams m) =? 0).

Definition const_table : list (bytes * Z) :=
  [ (bs "inflowMinRefresh", inflowMinRefresh);
    (bs "transportDefaultConnFlow", c_transportDefaultConnFlow);
    (bs "transportDefaultStreamFlow", c_transportDefaultStreamFlow);
    (bs "initialMaxConcurrentStreams", c_initialMaxConcurrentStreams);
    (bs "defaultMaxConcurrentStreams", c_defaultMaxConcurrentStreams);
    (bs "initialWindowSize", c_initialWindowSize) ].

Fixpoint lookup_const (n : bytes) (t : list (bytes * Z)) : option Z :=
  match t with
  | [] => None
  | (k, v) :: r => if bytes_eqb k n then Some v else lookup_const n r
  end.

(* ---- the client machine on the real trace ----
   The client's SETTINGS handling (conn_step on ESettings = processSettings) is replayed at every
   SETTINGS ACK the real client wrote, with the oldest unacknowledged SETTINGS frame of the peer;
   every header block the real client wrote (HEADERS + CONTINUATIONs, new stream or trailers) must
   be exactly the fragmentation hdr_frames computes from the machine's MAX_FRAME_SIZE at that
   point (both are fixed under cc.wmu, so the comparison does not depend on scheduling). *)
Definition frame_eqb (a b : frame) : bool :=
  match a, b with
  | FHeaders s l eh es, FHeaders s' l' eh' es' => (s =? s') && (l =? l') && Bool.eqb eh eh' && Bool.eqb es es'
  | FContinuation s l eh, FContinuation s' l' eh' => (s =? s') && (l =? l') && Bool.eqb eh eh'
  | _, _ => false
  end.

Fixpoint frames_eqb (a b : list frame) : bool :=
  match a, b with
  | [], [] => true
  | x :: a', y :: b' => frame_eqb x y && frames_eqb a' b'
  | _, _ => false
  end.

Definition block_len (blk : list frame) : Z :=
  fold_right (fun f acc => match frame_len f with Some l => l + acc | None => acc end) 0 blk.

Definition block_ok (c : conn) (blk : list frame) : bool :=
  match blk with
  | FHeaders sid _ _ es :: _ =>
      frames_eqb (hdr_frames sid (block_len blk - cc_prio_len c) (cc_max_frame c) (cc_prio_len c) es) blk
  | _ => false
  end.

Fixpoint replay (c : conn) (pend : list (list (Z * Z))) (blk : list frame) (evs : list ev) : bool * conn :=
  match evs with
  | [] => (true, c)   (* a trace cut off inside a block (connection torn down, log cap) is not judged *)
  | P (FSettings kvs) :: r => replay c (pend ++ [kvs]) blk r
  | P _ :: r => replay c pend blk r
  | C FSettingsAck :: r =>
      match pend with
      | kvs :: p' => replay (fst (conn_step c (ESettings kvs))) p' blk r
      | [] => (false, c)
      end
  | C (FHeaders sid len eh es) :: r =>
      if eh then let '(b, c') := replay c pend [] r in (block_ok c [FHeaders sid len eh es] && b, c')
      else replay c pend [FHeaders sid len eh es] r
  | C (FContinuation sid len eh) :: r =>
      let blk' := blk ++ [FContinuation sid len eh] in
      if eh then let '(b, c') := replay c pend [] r in (block_ok c blk' && b, c')
      else replay c pend blk' r
  | C _ :: r => replay c pend blk r
  end.

Definition replay_ok (hprio : bool) (evs : list ev) (q : option quiesce_obs) : bool :=
  let '(b, c) := replay (conn0 (if hprio then 5 else 0) 0 0 0) [] [] evs in
  b && match q with
       | Some (QObs _ _ _ _ mf ms iw _) => (cc_max_frame c =? mf) && (cc_max_streams c =? ms) && (cc_init_win c =? iw)
       | None => true
       end.

Definition c06_check (c : c06_case) : bool :=
  match c with
  | FlowCase ops final =>
      let '(ok, v) := fvm_run fvm0 ops in ok && zlist_eqb (fvm_state v) final
  | ConstCase n val =>
      match lookup_const n const_table with Some v => v =? val | None => false end
  | TraceCase hprio evs verdict q =>
      let '(v, m) := monitor_run mon0 evs 0 in
      verdict_eqb v verdict &&
      match v with
      | None =>
          (* an admissible trace also satisfies the stand-alone predicates and is what the
             client machine produces *)
          match hb_run 0 evs with Some _ => true | None => false end && css_ok [] evs &&
          replay_ok hprio evs q &&
          match q with Some qo => quiesce_ok m qo | None => true end
      | Some _ => true
      end
  end.
