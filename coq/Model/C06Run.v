(* Model/C06Run.v - case type and checker evaluated on harness-generated cases (C06) *)
From Coq Require Import ZArith Bool List.
From ReqV Require Export Lib.Bytes Model.H2Flow.
Import ListNotations.
Open Scope Z_scope.

Fixpoint zlist_eqb (a b : list Z) : bool :=
  match a, b with
  | [], [] => true
  | x :: a', y :: b' => (x =? y) && zlist_eqb a' b'
  | _, _ => false
  end.

Inductive c06_case :=
| FlowCase (ops : list fop) (final : list Z)
| ConstCase (name : bytes) (val : Z).

Definition const_table : list (bytes * Z) :=
  [ (bs "inflowMinRefresh", inflowMinRefresh);
    (bs "transportDefaultConnFlow", c_transportDefaultConnFlow);
    (bs "transportDefaultStreamFlow", c_transportDefaultStreamFlow);
    (bs "initialMaxConcurrentStreams", c_initialMaxConcurrentStreams);
    (bs "defaultMaxConcurrentStreams", c_defaultMaxConcurrentStreams);
    (bs "initialWindowSize", c_initialWindowSize) ].

Fixpoint lookup_const (n : bytes) (t : list (bytes * Z)) : option Z :=
  match t with
  | [] => None
  | (k, v) :: r => if bytes_eqb k n then Some v else lookup_const n r
  end.

Definition c06_check (c : c06_case) : bool :=
  match c with
  | FlowCase ops final =>
      let '(ok, v) := fvm_run fvm0 ops in ok && zlist_eqb (fvm_state v) final
  | ConstCase n val =>
      match lookup_const n const_table with Some v => v =? val | None => false end
  end.
