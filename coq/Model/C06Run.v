(* Model/C06Run.v - case type and checker evaluated on harness-generated cases (C06) *)
From Coq Require Import ZArith Bool List.
From ReqV Require Export Lib.Bytes Model.H2Flow Model.H2Monitor.
Import ListNotations.
Open Scope Z_scope.

Fixpoint zlist_eqb (a b : list Z) : bool :=
  match a, b with
  | [], [] => true
  | x :: a', y :: b' => (x =? y) && zlist_eqb a' b'
  | _, _ => false
  end.

(* what the harness read from the live ClientConn (hook) once the scenario was quiescent:
   cConnInit = connection receive window the client granted with its preface; then cc.flow.n,
   cc.inflow.avail, cc.inflow.unsent, cc.maxFrameSize, cc.maxConcurrentStreams,
   cc.initialWindowSize, cc.nextStreamID *)
Inductive quiesce_obs :=
| QObs (c_conn_init flow in_avail in_unsent max_frame max_streams init_win next_id : Z).

Inductive c06_case :=
| FlowCase (ops : list fop) (final : list Z)
| ConstCase (name : bytes) (val : Z)
| TraceCase (evs : list ev) (verdict : option (nat * Z)) (q : option quiesce_obs).

Definition verdict_eqb (a b : option (nat * Z)) : bool :=
  match a, b with
  | None, None => true
  | Some (i, c), Some (j, d) => Nat.eqb i j && (c =? d)
  | _, _ => false
  end.

(* equality of the conserved quantities: what the strict peer computed from the wire equals
   what the real client believes, and all consumed credit is accounted for *)
Definition quiesce_ok (m : mon) (q : quiesce_obs) : bool :=
  let '(QObs cinit flow avail unsent mf ms iw nid) := q in
  (m_conn_win m =? flow) &&
  (m_max_frame m =? mf) &&
  (match m_max_streams m with Some v => v | None => c_defaultMaxConcurrentStreams end =? ms) &&
  (m_init_win m =? iw) &&
  (m_last_sid m + 2 <=? nid) && Z.odd nid &&
  (m_c_conn_win m =? avail) &&
  (avail + unsent =? cinit) &&
  (0 <=? unsent) && (unsent <? inflowMinRefresh) &&
  match m_pending m with [] => true | _ => false end.

Definition const_table : list (bytes * Z) :=
  [ (bs "inflowMinRefresh", inflowMinRefresh);
    (bs "transportDefaultConnFlow", c_transportDefaultConnFlow);
    (bs "transportDefaultStreamFlow", c_transportDefaultStreamFlow);
    (bs "initialMaxConcurrentStreams", c_initialMaxConcurrentStreams);
    (bs "defaultMaxConcurrentStreams", c_defaultMaxConcurrentStreams);
    (bs "initialWindowSize", c_initialWindowSize) ].

Fixpoint lookup_const (n : bytes) (t : list (bytes * Z)) : option Z :=
  match t with
  | [] => None
  | (k, v) :: r => if bytes_eqb k n then Some v else lookup_const n r
  end.

Definition c06_check (c : c06_case) : bool :=
  match c with
  | FlowCase ops final =>
      let '(ok, v) := fvm_run fvm0 ops in ok && zlist_eqb (fvm_state v) final
  | ConstCase n val =>
      match lookup_const n const_table with Some v => v =? val | None => false end
  | TraceCase evs verdict q =>
      let '(v, m) := monitor_run mon0 evs 0 in
      verdict_eqb v verdict &&
      match v, q with
      | None, Some qo => quiesce_ok m qo
      | _, _ => true
      end
  end.
