(* Model/HeaderSeq.v - C16: state carried from one exchange to the next.
     - the HTTP/2 connection: encodeHeaders counts the header list in a first pass
       (hpack.HeaderField.Size = len(name) + len(value) + 32) and refuses the request when it
       exceeds the peer's SETTINGS_MAX_HEADER_LIST_SIZE BEFORE anything is HPACK-encoded; the
       encoder's dynamic table (abstract state T, with the peer's decoder as its mirror) is only
       advanced by header blocks that are sent;
     - the HTTP/1.1 writer without an order list: headerSortedKeyValues draws a pooled
       headerSorter whose slice is truncated (hs.kvs[:0]) before the request's keys are appended;
     - a family of clients made by Clone(): every member owns a COPY of the transport-wrapper list
       (header order / pseudo-header order / other middleware registrations). *)
From ReqV Require Export Model.HeaderCollect Model.HeaderMerge.
From Coq Require Import NArith.

(* [rep b n]: n copies of b - how the harness writes long padding values *)
Definition rep (b : byte) (n : N) : bytes := repeat b (N.to_nat n).

(* ---------- HTTP/2: the counting pass ---------- *)
Definition field_size (l : line) : N := (N.of_nat (length (fst l)) + N.of_nat (length (snd l)) + 32)%N.
Definition hl_size (ls : list line) : N := fold_right (fun l a => (field_size l + a)%N) 0%N ls.

(* peerMaxHeaderListSize: None = the peer advertised nothing ("infinite") *)
Definition h2_refused (max : option N) (q : creq) : bool :=
  match max with Some m => (m <? hl_size (h2_lines q))%N | None => false end.

Section H2Conn.
  Context {T B : Type}.
  Variable enc : T -> list line -> B * T.                  (* HPACK encoder: block and new table *)
  Variable dec : T -> B -> option (list line) * T.         (* the peer's decoder *)

  (* one request on a connection whose encoder table is t: refused (table untouched) or encoded *)
  Definition h2_client_step (max : option N) (t : T) (q : creq) : option B * T :=
    if h2_refused max q then (None, t)
    else let bt := enc t (h2_lines q) in (Some (fst bt), snd bt).

  (* the code with the two passes merged: fields are encoded while they are counted, the block is
     dropped when the limit is passed - but the table has moved *)
  Definition h2_client_step_merged (max : option N) (t : T) (q : creq) : option B * T :=
    let bt := enc t (h2_lines q) in
    if h2_refused max q then (None, snd bt) else (Some (fst bt), snd bt).

  (* a whole connection: what the peer decodes, block by block *)
  Fixpoint h2_session (step : option N -> T -> creq -> option B * T) (max : option N)
           (te td : T) (qs : list creq) : list (option (list line)) :=
    match qs with
    | [] => []
    | q :: r => match step max te q with
                | (None, te') => h2_session step max te' td r
                | (Some b, te') => let od := dec td b in fst od :: h2_session step max te' (snd od) r
                end
    end.
End H2Conn.

(* ---------- HTTP/1.1: the pooled header sorter ---------- *)
Definition not_h1_excluded (x : kv) : bool := negb (mem_bytes (fst x) h1_exclude).

(* headerSortedKeyValues: kvs = hs.kvs[:0]; append the non-excluded entries; sort by key.
   [stale] is what the sorter drawn from the pool still holds. *)
Definition pooled_sorted (stale h : list kv) : list kv :=
  sort_by_key (firstn 0 stale ++ filter not_h1_excluded h).
(* the variant that takes the pooled slice as it is *)
Definition pooled_sorted_stale (stale h : list kv) : list kv :=
  sort_by_key (stale ++ filter not_h1_excluded h).

(* the rest of headerWriteSubset: invalid names skipped, values sanitised *)
Definition write_subset (kvs : list kv) : list kv :=
  map (fun x => (fst x, map sanitize (snd x))) (filter (fun x => valid_field_name (fst x)) kvs).

(* writeRequest without an order list, given the sorter's stale content *)
Definition h1_lines_pooled (sorted : list kv -> list kv -> list kv) (stale : list kv) (q : creq) : list line :=
  let h := c_hdr q in
  flatten ([(bs "Host", [c_host q])] ++ h1_ua h ++ cl_kv (bs "Content-Length") (c_method q) (c_clen q) ++
           write_subset (sorted stale h) ++ gzip_kv (bs "Accept-Encoding") q).

(* a sequence of requests through the pool: each leaves its own entries in the sorter it hands
   back (on the normal and on the write-error path alike); [cut] = number of lines that reached
   the wire before the connection failed *)
Fixpoint h1_pool_session (sorted : list kv -> list kv -> list kv) (stale : list kv)
         (reqs : list (creq * option nat)) : list (list line) :=
  match reqs with
  | [] => []
  | (q, cut) :: r =>
      let ls := h1_lines_pooled sorted stale q in
      (match cut with Some k => firstn k ls | None => ls end)
        :: h1_pool_session sorted (sorted stale (c_hdr q)) r
  end.

(* ---------- families of cloned clients ---------- *)
Inductive fam_op :=
| FClone (who : nat)
| FOrder (who : nat) (keys : list bytes)      (* SetCommonHeaderOrder *)
| FPOrder (who : nat) (keys : list bytes)     (* SetCommonPseudoHeaderOder *)
| FMw (who : nat) (tag : bytes).              (* any other transport middleware *)

Inductive reg := ROrder (keys : list bytes) | RPOrder (keys : list bytes) | RMw (tag : bytes).

Definition fam_state := list (list reg).      (* member i: its registrations in registration order *)

Fixpoint upd {A} (i : nat) (f : A -> A) (l : list A) : list A :=
  match l, i with
  | [], _ => []
  | x :: t, O => f x :: t
  | x :: t, S j => x :: upd j f t
  end.

Definition fam_step (s : fam_state) (o : fam_op) : fam_state :=
  match o with
  | FClone w => s ++ [nth w s []]             (* Transport.Clone: cloneSlice(t.httpRoundTripWrappers) *)
  | FOrder w k => upd w (fun l => l ++ [ROrder k]) s
  | FPOrder w k => upd w (fun l => l ++ [RPOrder k]) s
  | FMw w t => upd w (fun l => l ++ [RMw t]) s
  end.

Definition fam_run (ops : list fam_op) : fam_state := fold_left fam_step ops [[]].

Definition regs_order (l : list reg) : list (list bytes) :=
  flat_map (fun r => match r with ROrder k => [k] | _ => [] end) l.
Definition regs_porder (l : list reg) : list (list bytes) :=
  flat_map (fun r => match r with RPOrder k => [k] | _ => [] end) l.

(* the list a member's requests carry at the transport (no request-level list) *)
Definition in_force (key : bytes) (regs : list (list bytes)) : list bytes :=
  hvals (run_wrappers key regs []) key.
