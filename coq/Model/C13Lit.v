(* Model/C13Lit.v - packed byte-string literals for C13 case files (no model content).
   7 bytes per primitive 63-bit integer, big-endian, the last word padded with zeros; n = number
   of bytes.  A Coq string literal costs ~10 term nodes per hex digit (a case file with 2 MB of
   hex takes minutes to parse); a primitive integer is one node. *)
From ReqV Require Import Lib.Bytes.
From Coq Require Import Uint63.
From Coq.Strings Require Import Byte.

Definition bit (w k : int) : bool := negb (Uint63.eqb (Uint63.land (Uint63.lsr w k) 1) 0).
(* the byte whose least significant bit is bit k of w *)
Definition byte_at (w k : int) : byte :=
  Byte.of_bits (bit w k, (bit w (k + 1), (bit w (k + 2), (bit w (k + 3),
               (bit w (k + 4), (bit w (k + 5), (bit w (k + 6), bit w (k + 7))))))))%uint63.
Definition b7 (w : int) : bytes := map (byte_at w) [48; 40; 32; 24; 16; 8; 0]%uint63.
Definition pk (n : nat) (ws : list int) : bytes := firstn n (flat_map b7 ws).
