(* Model/H2Ping.v - outstanding HTTP/2 pings and their acknowledgements (C07).

   Go code modelled: internal/http2/transport.go
     ClientConn.Ping            c := make(chan struct{}); cc.pings[p] = c; write PING; wait on c
     clientConnReadLoop.processPing (ACK)   if c, ok := cc.pings[f.Data]; ok { close(c); delete(cc.pings, f.Data) }
   cc.pings under cc.mu.  Closing a closed channel is the Go runtime's panic: [None].
   [delete_on_ack] = true is the code; false the variant where only the Ping goroutine (a later
   event) forgets the entry.  No proofs here. *)
From ReqV Require Export Lib.Bytes.

Inductive pev :=
| PSent (p : nat)          (* Ping registered its channel under payload p *)
| PAck (p : nat)           (* a PING ACK with payload p arrived *)
| PReturns (p : nat).      (* the Ping call woke up and left (its deferred cleanup runs) *)

(* payload -> is the channel already closed? *)
Definition pmap := list (nat * bool).

Fixpoint pget (p : nat) (m : pmap) : option bool :=
  match m with [] => None | (k, v) :: r => if Nat.eqb k p then Some v else pget p r end.
Fixpoint pdel (p : nat) (m : pmap) : pmap :=
  match m with [] => [] | (k, v) :: r => if Nat.eqb k p then pdel p r else (k, v) :: pdel p r end.
Definition pset (p : nat) (v : bool) (m : pmap) : pmap := (p, v) :: pdel p m.

Definition pstep (delete_on_ack : bool) (m : pmap) (ev : pev) : option pmap :=
  match ev with
  | PSent p => Some (pset p false m)
  | PAck p =>
      match pget p m with
      | None => Some m                                   (* nobody waits for it: ignored *)
      | Some true => None                                (* close of closed channel *)
      | Some false => Some (if delete_on_ack then pdel p m else pset p true m)
      end
  | PReturns p => Some (pdel p m)
  end.

Fixpoint prun (d : bool) (m : pmap) (evs : list pev) : option pmap :=
  match evs with
  | [] => Some m
  | ev :: r => match pstep d m ev with None => None | Some m' => prun d m' r end
  end.
