(* Model/H3RespConn.v - the response side of one HTTP/3 connection (requestStream.ReadResponse in
   internal/http3/http_stream.go): the connection's ONE qpack.Decoder is shared by the responses of
   all its requests.  A response is, for the model, one of three classes (decided in the harness by
   the reference QPACK decoder and the RFC 9114 oracle).  Carried state: whether the connection was
   closed, and whether the decoder was left in the middle of a field section (DecodeFull returns on
   the first error without resetting its context).  No proofs here. *)
From ReqV Require Export Lib.Bytes.

Inductive rclass := RGood | RMalformed (* valid QPACK, malformed per §4.2-4.3 *) | RUndecodable.
Record rstate := { r_closed : bool; r_dirty : bool }.
Definition rinit : rstate := {| r_closed := false; r_dirty := false |}.

(* one ReadResponse: (accepted, state after).  close_on_fail = true: the code as it is
   (CloseWithError on a QPACK failure); false: only the request's stream is reset (refutation). *)
Definition resp_step (close_on_fail : bool) (st : rstate) (c : rclass) : bool * rstate :=
  if r_dirty st then (false, st)                (* a decoder in mid-section decodes nothing right *)
  else match c with
       | RGood => (true, st)
       | RMalformed => (false, st)              (* the stream is reset, connection and decoder untouched *)
       | RUndecodable => (false, {| r_closed := close_on_fail; r_dirty := true |})
       end.

(* responses are read as long as the connection is open; per response: (accepted, connection closed after) *)
Fixpoint resp_seq (close_on_fail : bool) (st : rstate) (cs : list rclass) : list (bool * bool) :=
  match cs with
  | [] => []
  | c :: r =>
      if r_closed st then []
      else let '(a, st') := resp_step close_on_fail st c in (a, r_closed st') :: resp_seq close_on_fail st' r
  end.
