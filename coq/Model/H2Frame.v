(* Model/H2Frame.v - executable model of /repo/internal/http2/frame.go: the 9-byte frame header,
   the per-type payload parsers (with the error class each malformed shape yields), ReadFrame
   (maxReadSize, io.ReadFull outcomes, checkFrameOrder's lastHeaderStream machine) and the Write*
   methods.  Go's fixed-width integers are N; the ranges (uint32, uint8, 24-bit length) are
   hypotheses of the theorems and are met by construction in the harness.  Constants (frame types,
   flags, error codes, setting ids, maxFrameSize) are regenerated from the Go source by gosync
   (Gen/H2Consts.v).  No proofs here. *)
From ReqV Require Export Lib.Bytes Lib.BigEndian Gen.H2Consts.
Open Scope N_scope.

(* ---------- frame header ---------- *)
Record fhdr := { fh_len : N; fh_type : N; fh_flags : N; fh_sid : N }.

Definition mask31 (v : N) : N := N.land v 2147483647.   (* v & (1<<31 - 1) *)
Definition bit31 (v : N) : bool := negb (N.land v 2147483648 =? 0).  (* v & (1<<31) != 0 *)
Definition has_flag (f v : N) : bool := N.land f v =? v.    (* Flags.Has *)

(* startWrite + endWrite: 3 bytes of length, type, flags, 4 bytes of stream id (all 32 bits) *)
Definition h2_header_bytes (len ty flags sid : N) : bytes :=
  be_enc 3 len ++ [u8 ty; u8 flags] ++ be_enc 4 sid.

(* readFrameHeader on exactly 9 bytes *)
Definition h2_read_header (b : bytes) : fhdr :=
  {| fh_len := be_dec (firstn 3 b);
     fh_type := nthN b 3;
     fh_flags := nthN b 4;
     fh_sid := mask31 (be_dec (firstn 4 (skipn 5 b))) |}.

(* ---------- frames and errors ---------- *)
Definition mkh (l t f s : N) : fhdr := {| fh_len := l; fh_type := t; fh_flags := f; fh_sid := s |}.
Record prio := { p_dep : N; p_excl : bool; p_weight : N }.
Definition mkprio (d : N) (e : bool) (w : N) : prio := {| p_dep := d; p_excl := e; p_weight := w |}.
Definition prio_zero : prio := {| p_dep := 0; p_excl := false; p_weight := 0 |}.
Definition prio_is_zero (p : prio) : bool := (p_dep p =? 0) && negb (p_excl p) && (p_weight p =? 0).

Inductive frame :=
| FData (h : fhdr) (data : bytes)
| FHeaders (h : fhdr) (pr : prio) (frag : bytes)
| FPriority (h : fhdr) (pr : prio)
| FRst (h : fhdr) (code : N)
| FSettings (h : fhdr) (settings : list (N * N))
| FPushPromise (h : fhdr) (promise : N) (frag : bytes)
| FPing (h : fhdr) (data : bytes)
| FGoAway (h : fhdr) (last code : N) (debug : bytes)
| FWindowUpdate (h : fhdr) (incr : N)
| FContinuation (h : fhdr) (frag : bytes)
| FUnknown (h : fhdr) (payload : bytes).

Definition frame_hdr (f : frame) : fhdr :=
  match f with
  | FData h _ | FHeaders h _ _ | FPriority h _ | FRst h _ | FSettings h _ | FPushPromise h _ _
  | FPing h _ | FGoAway h _ _ _ | FWindowUpdate h _ | FContinuation h _ | FUnknown h _ => h
  end.

Inductive h2err :=
| EConn (code : N)          (* ConnectionError(code) (also what connError{code,reason} becomes) *)
| EStream (sid code : N)    (* StreamError{sid, code} *)
| EUnexpectedEOF            (* io.ErrUnexpectedEOF (readByte/readUint32 on a short payload, short read) *)
| EEOF                      (* io.EOF: nothing at all could be read *)
| EFrameTooLarge.           (* errFrameTooLarge *)

Inductive res (A : Type) := Ok (a : A) | Err (e : h2err).
Arguments Ok {A} _.
Arguments Err {A} _.

(* readByte / readUint32 *)
Definition read_byte (p : bytes) : option (bytes * N) :=
  match p with [] => None | b :: r => Some (r, bN b) end.
Definition read_u32 (p : bytes) : option (bytes * N) :=
  if lenN p <? 4 then None else Some (skipn 4 p, be_dec (firstn 4 p)).

Definition drop_tail (p : bytes) (n : N) : bytes := firstn (length p - N.to_nat n) p.  (* p[:len(p)-n] *)

(* ---------- payload parsers ---------- *)
Definition parse_data (h : fhdr) (p : bytes) : res frame :=
  if fh_sid h =? 0 then Err (EConn ErrCodeProtocol)
  else
    match (if has_flag (fh_flags h) FlagDataPadded then read_byte p else Some (p, 0)) with
    | None => Err EUnexpectedEOF
    | Some (p1, pad) =>
        if lenN p1 <? pad then Err (EConn ErrCodeProtocol)
        else Ok (FData h (drop_tail p1 pad))
    end.

Definition parse_headers (h : fhdr) (p : bytes) : res frame :=
  if fh_sid h =? 0 then Err (EConn ErrCodeProtocol)
  else
    match (if has_flag (fh_flags h) FlagHeadersPadded then read_byte p else Some (p, 0)) with
    | None => Err EUnexpectedEOF
    | Some (p1, pad) =>
        let after_prio : res (bytes * prio) :=
          if has_flag (fh_flags h) FlagHeadersPriority then
            match read_u32 p1 with
            | None => Err EUnexpectedEOF
            | Some (p2, v) =>
                let dep := mask31 v in
                match read_byte p2 with
                | None => Err EUnexpectedEOF
                | Some (p3, w) => Ok (p3, {| p_dep := dep; p_excl := negb (v =? dep); p_weight := w |})
                end
            end
          else Ok (p1, prio_zero) in
        match after_prio with
        | Err e => Err e
        | Ok (p3, pr) =>
            if lenN p3 <? pad then Err (EStream (fh_sid h) ErrCodeProtocol)
            else Ok (FHeaders h pr (drop_tail p3 pad))
        end
    end.

Definition parse_priority (h : fhdr) (p : bytes) : res frame :=
  if fh_sid h =? 0 then Err (EConn ErrCodeProtocol)
  else if negb (lenN p =? 5) then Err (EConn ErrCodeFrameSize)
  else
    let v := be_dec (firstn 4 p) in
    let dep := mask31 v in
    Ok (FPriority h {| p_dep := dep; p_excl := negb (dep =? v); p_weight := nthN p 4 |}).

Definition parse_rst (h : fhdr) (p : bytes) : res frame :=
  if negb (lenN p =? 4) then Err (EConn ErrCodeFrameSize)
  else if fh_sid h =? 0 then Err (EConn ErrCodeProtocol)
  else Ok (FRst h (be_dec (firstn 4 p))).

(* SettingsFrame.Setting(i) for i < NumSettings *)
Fixpoint settings_of (n : nat) (p : bytes) : list (N * N) :=
  match n with
  | O => []
  | S n' => (be_dec (firstn 2 p), be_dec (firstn 4 (skipn 2 p))) :: settings_of n' (skipn 6 p)
  end.
(* SettingsFrame.Value(id): first match *)
Fixpoint setting_value (id : N) (l : list (N * N)) : option N :=
  match l with
  | [] => None
  | (i, v) :: r => if i =? id then Some v else setting_value id r
  end.

Definition parse_settings (h : fhdr) (p : bytes) : res frame :=
  if has_flag (fh_flags h) FlagSettingsAck && (0 <? fh_len h) then Err (EConn ErrCodeFrameSize)
  else if negb (fh_sid h =? 0) then Err (EConn ErrCodeProtocol)
  else if negb (lenN p mod 6 =? 0) then Err (EConn ErrCodeFrameSize)
  else
    let l := settings_of (length p / 6) p in
    match setting_value SettingInitialWindowSize l with
    | Some v => if 2147483647 <? v then Err (EConn ErrCodeFlowControl) else Ok (FSettings h l)
    | None => Ok (FSettings h l)
    end.

Definition parse_push_promise (h : fhdr) (p : bytes) : res frame :=
  if fh_sid h =? 0 then Err (EConn ErrCodeProtocol)
  else
    match (if has_flag (fh_flags h) FlagPushPromisePadded then read_byte p else Some (p, 0)) with
    | None => Err EUnexpectedEOF
    | Some (p1, pad) =>
        match read_u32 p1 with
        | None => Err EUnexpectedEOF
        | Some (p2, v) =>
            if lenN p2 <? pad then Err (EConn ErrCodeProtocol)
            else Ok (FPushPromise h (mask31 v) (drop_tail p2 pad))
        end
    end.

Definition parse_ping (h : fhdr) (p : bytes) : res frame :=
  if negb (lenN p =? 8) then Err (EConn ErrCodeFrameSize)
  else if negb (fh_sid h =? 0) then Err (EConn ErrCodeProtocol)
  else Ok (FPing h p).

Definition parse_goaway (h : fhdr) (p : bytes) : res frame :=
  if negb (fh_sid h =? 0) then Err (EConn ErrCodeProtocol)
  else if lenN p <? 8 then Err (EConn ErrCodeFrameSize)
  else Ok (FGoAway h (mask31 (be_dec (firstn 4 p))) (be_dec (firstn 4 (skipn 4 p))) (skipn 8 p)).

Definition parse_window_update (h : fhdr) (p : bytes) : res frame :=
  if negb (lenN p =? 4) then Err (EConn ErrCodeFrameSize)
  else
    let inc := mask31 (be_dec (firstn 4 p)) in
    if inc =? 0 then
      if fh_sid h =? 0 then Err (EConn ErrCodeProtocol) else Err (EStream (fh_sid h) ErrCodeProtocol)
    else Ok (FWindowUpdate h inc).

Definition parse_continuation (h : fhdr) (p : bytes) : res frame :=
  if fh_sid h =? 0 then Err (EConn ErrCodeProtocol) else Ok (FContinuation h p).

(* typeFrameParser(fh.Type)(..., fh, payload) *)
Definition parse_frame (h : fhdr) (p : bytes) : res frame :=
  let t := fh_type h in
  if t =? FrameData then parse_data h p
  else if t =? FrameHeaders then parse_headers h p
  else if t =? FramePriority then parse_priority h p
  else if t =? FrameRSTStream then parse_rst h p
  else if t =? FrameSettings then parse_settings h p
  else if t =? FramePushPromise then parse_push_promise h p
  else if t =? FramePing then parse_ping h p
  else if t =? FrameGoAway then parse_goaway h p
  else if t =? FrameWindowUpdate then parse_window_update h p
  else if t =? FrameContinuation then parse_continuation h p
  else Ok (FUnknown h p).

(* ---------- checkFrameOrder: the lastHeaderStream machine (AllowIllegalReads = false) ---------- *)
(* state = lastHeaderStream; None = connError(ErrCodeProtocol, ...) (state unchanged) *)
Definition check_order (last : N) (h : fhdr) : option N :=
  let bad :=
    if negb (last =? 0) then
      negb (fh_type h =? FrameContinuation) || negb (fh_sid h =? last)
    else fh_type h =? FrameContinuation in
  if bad then None
  else if (fh_type h =? FrameHeaders) || (fh_type h =? FrameContinuation) then
    if has_flag (fh_flags h) FlagHeadersEndHeaders then Some 0 else Some (fh_sid h)
  else Some last.

(* ---------- ReadFrame on a byte stream ---------- *)
Record rstate := { rs_last : N; rs_max : N }.   (* lastHeaderStream, maxReadSize *)

(* result, remaining input, new state.  An EOF-class error leaves nothing to read. *)
Definition read_frame (st : rstate) (input : bytes) : res frame * bytes * rstate :=
  match input with
  | [] => (Err EEOF, [], st)
  | _ =>
    if lenN input <? frameHeaderLen then (Err EUnexpectedEOF, [], st)
    else
      let h := h2_read_header (firstn 9 input) in
      let r1 := skipn 9 input in
      if rs_max st <? fh_len h then (Err EFrameTooLarge, r1, st)
      else if lenN r1 <? fh_len h then
        (Err (match r1 with [] => EEOF | _ => EUnexpectedEOF end), [], st)
      else
        let payload := firstn (N.to_nat (fh_len h)) r1 in
        let r2 := skipn (N.to_nat (fh_len h)) r1 in
        match parse_frame h payload with
        | Err e => (Err e, r2, st)
        | Ok f =>
            match check_order (rs_last st) h with
            | None => (Err (EConn ErrCodeProtocol), r2, st)
            | Some l => (Ok f, r2, {| rs_last := l; rs_max := rs_max st |})
            end
        end
  end.

Definition is_eof_class (e : h2err) : bool :=
  match e with EEOF | EUnexpectedEOF => true | _ => false end.

(* read up to n frames; stop at an EOF-class error *)
Fixpoint read_frames (n : nat) (st : rstate) (input : bytes) : list (res frame) :=
  match n with
  | O => []
  | S n' =>
      let '(r, rest, st') := read_frame st input in
      r :: match r with
           | Err e => if is_eof_class e then [] else read_frames n' st' rest
           | Ok _ => read_frames n' st' rest
           end
  end.

(* SetMaxReadFrameSize *)
Definition set_max_read (v : N) : N := if maxFrameSize <? v then maxFrameSize else v.

(* ---------- writers ---------- *)
Inductive werr := WStreamID | WDepStreamID | WPadLength | WPadBytes | WWindowIncr | WFrameTooLarge.
Inductive wres := WOk (b : bytes) | WErr (e : werr).

Definition valid_sid (s : N) : bool := negb (s =? 0) && negb (bit31 s).
Definition valid_sid_or_zero (s : N) : bool := negb (bit31 s).

(* startWrite ... endWrite: header with the final length, or errFrameTooLarge *)
Definition end_write (ty flags sid : N) (payload : bytes) : wres :=
  if 16777216 <=? lenN payload then WErr WFrameTooLarge
  else WOk (h2_header_bytes (lenN payload) ty flags sid ++ payload).

Definition bflag (b : bool) (f : N) : N := if b then f else 0.

(* WriteDataPadded; pad = None is a nil slice (WriteData), Some [] a non-nil empty one *)
Definition write_data (aiw : bool) (sid : N) (end_stream : bool) (data : bytes) (pad : option bytes) : wres :=
  if negb (valid_sid sid) && negb aiw then WErr WStreamID
  else
    let padb := match pad with Some p => p | None => [] end in
    if (0 <? lenN padb) && (255 <? lenN padb) then WErr WPadLength
    else if (0 <? lenN padb) && negb aiw && negb (forallb (fun b => bN b =? 0) padb) then WErr WPadBytes
    else
      let flags := N.lor (bflag end_stream FlagDataEndStream)
                         (bflag (match pad with Some _ => true | None => false end) FlagDataPadded) in
      end_write FrameData flags sid
        ((match pad with Some p => [u8 (lenN p)] | None => [] end) ++ data ++ padb).

Definition prio_bytes (pr : prio) : bytes :=
  be_enc 4 (if p_excl pr then N.lor (p_dep pr) 2147483648 else p_dep pr) ++ [u8 (p_weight pr)].

Definition write_headers (aiw : bool) (sid : N) (frag : bytes) (end_stream end_headers : bool)
           (padlen : N) (pr : prio) : wres :=
  if negb (valid_sid sid) && negb aiw then WErr WStreamID
  else
    let flags := N.lor (N.lor (N.lor (bflag (negb (padlen =? 0)) FlagHeadersPadded)
                                     (bflag end_stream FlagHeadersEndStream))
                              (bflag end_headers FlagHeadersEndHeaders))
                       (bflag (negb (prio_is_zero pr)) FlagHeadersPriority) in
    if negb (prio_is_zero pr) && negb (valid_sid_or_zero (p_dep pr)) && negb aiw then WErr WDepStreamID
    else
      end_write FrameHeaders flags sid
        ((if padlen =? 0 then [] else [u8 padlen]) ++
         (if prio_is_zero pr then [] else prio_bytes pr) ++
         frag ++ repeat x00 (N.to_nat padlen)).

Definition write_priority (aiw : bool) (sid : N) (pr : prio) : wres :=
  if negb (valid_sid sid) && negb aiw then WErr WStreamID
  else if negb (valid_sid_or_zero (p_dep pr)) then WErr WDepStreamID
  else end_write FramePriority 0 sid (prio_bytes pr).

Definition write_rst (aiw : bool) (sid code : N) : wres :=
  if negb (valid_sid sid) && negb aiw then WErr WStreamID
  else end_write FrameRSTStream 0 sid (be_enc 4 code).

Definition write_continuation (aiw : bool) (sid : N) (end_headers : bool) (frag : bytes) : wres :=
  if negb (valid_sid sid) && negb aiw then WErr WStreamID
  else end_write FrameContinuation (bflag end_headers FlagContinuationEndHeaders) sid frag.

Definition setting_bytes (s : N * N) : bytes := be_enc 2 (fst s) ++ be_enc 4 (snd s).
Definition write_settings (l : list (N * N)) : wres :=
  end_write FrameSettings 0 0 (flat_map setting_bytes l).
Definition write_settings_ack : wres := end_write FrameSettings FlagSettingsAck 0 [].

Definition write_ping (ack : bool) (data : bytes) : wres :=   (* data : [8]byte *)
  end_write FramePing (bflag ack FlagPingAck) 0 data.

Definition write_goaway (max_sid code : N) (debug : bytes) : wres :=
  end_write FrameGoAway 0 0 (be_enc 4 (mask31 max_sid) ++ be_enc 4 code ++ debug).

Definition write_window_update (aiw : bool) (sid incr : N) : wres :=
  if ((incr <? 1) || (2147483647 <? incr)) && negb aiw then WErr WWindowIncr
  else end_write FrameWindowUpdate 0 sid (be_enc 4 incr).

Definition write_push_promise (aiw : bool) (sid promise : N) (frag : bytes) (end_headers : bool)
           (padlen : N) : wres :=
  if negb (valid_sid sid) && negb aiw then WErr WStreamID
  else if negb (valid_sid promise) && negb aiw then WErr WStreamID
  else
    end_write FramePushPromise
      (N.lor (bflag (negb (padlen =? 0)) FlagPushPromisePadded) (bflag end_headers FlagPushPromiseEndHeaders))
      sid
      ((if padlen =? 0 then [] else [u8 padlen]) ++ be_enc 4 promise ++ frag ++ repeat x00 (N.to_nat padlen)).

Definition write_raw (ty flags sid : N) (payload : bytes) : wres := end_write ty flags sid payload.

(* ---------- one Write* call with its Go arguments (used by the harness cases and the theorems) ---------- *)
Inductive wcall :=
| WData (aiw : bool) (sid : N) (es : bool) (data : bytes) (pad : option bytes)
| WHeaders (aiw : bool) (sid : N) (frag : bytes) (es eh : bool) (padlen : N) (pr : prio)
| WPriority (aiw : bool) (sid : N) (pr : prio)
| WRst (aiw : bool) (sid code : N)
| WSettings (l : list (N * N))
| WSettingsAck
| WPing (ack : bool) (data : bytes)
| WGoAway (last code : N) (debug : bytes)
| WWindowUpdate (aiw : bool) (sid incr : N)
| WContinuation (aiw : bool) (sid : N) (eh : bool) (frag : bytes)
| WPushPromise (aiw : bool) (sid promise : N) (frag : bytes) (eh : bool) (padlen : N)
| WRaw (ty flags sid : N) (payload : bytes).

Definition run_wcall (c : wcall) : wres :=
  match c with
  | WData a s es d p => write_data a s es d p
  | WHeaders a s f es eh pl pr => write_headers a s f es eh pl pr
  | WPriority a s pr => write_priority a s pr
  | WRst a s c => write_rst a s c
  | WSettings l => write_settings l
  | WSettingsAck => write_settings_ack
  | WPing a d => write_ping a d
  | WGoAway l c d => write_goaway l c d
  | WWindowUpdate a s i => write_window_update a s i
  | WContinuation a s eh f => write_continuation a s eh f
  | WPushPromise a s p f eh pl => write_push_promise a s p f eh pl
  | WRaw t f s p => write_raw t f s p
  end.


(* What ReadFrame must return for the bytes of a successful Write* call: written independently of
   the parsers (from the RFC 7540 §6 field layout), used as the specification of the round trip.
   The header carries the payload length the writer produced; the reserved bit of every 31-bit
   field is dropped. *)
Definition r31 (v : N) : N := v mod 2147483648.
Definition written_len (c : wcall) : N :=
  match run_wcall c with WOk b => lenN b - 9 | WErr _ => 0 end.
Definition expected_frame (c : wcall) : frame :=
  let L := written_len c in
  match c with
  | WData _ s es d p =>
      FData (mkh L FrameData (N.lor (bflag es FlagDataEndStream)
                                    (bflag (match p with Some _ => true | None => false end) FlagDataPadded)) (r31 s)) d
  | WHeaders _ s f es eh pl pr =>
      FHeaders (mkh L FrameHeaders
                    (N.lor (N.lor (N.lor (bflag (negb (pl =? 0)) FlagHeadersPadded) (bflag es FlagHeadersEndStream))
                                  (bflag eh FlagHeadersEndHeaders))
                           (bflag (negb (prio_is_zero pr)) FlagHeadersPriority)) (r31 s))
               (if prio_is_zero pr then prio_zero else pr) f
  | WPriority _ s pr => FPriority (mkh L FramePriority 0 (r31 s)) pr
  | WRst _ s c => FRst (mkh L FrameRSTStream 0 (r31 s)) c
  | WSettings l => FSettings (mkh L FrameSettings 0 0) l
  | WSettingsAck => FSettings (mkh L FrameSettings FlagSettingsAck 0) []
  | WPing a d => FPing (mkh L FramePing (bflag a FlagPingAck) 0) d
  | WGoAway l c d => FGoAway (mkh L FrameGoAway 0 0) (r31 l) c d
  | WWindowUpdate _ s i => FWindowUpdate (mkh L FrameWindowUpdate 0 (r31 s)) i
  | WContinuation _ s eh f => FContinuation (mkh L FrameContinuation (bflag eh FlagContinuationEndHeaders) (r31 s)) f
  | WPushPromise _ s p f eh pl =>
      FPushPromise (mkh L FramePushPromise
                        (N.lor (bflag (negb (pl =? 0)) FlagPushPromisePadded) (bflag eh FlagPushPromiseEndHeaders)) (r31 s))
                   (r31 p) f
  | WRaw t fl s p => FUnknown (mkh L t fl (r31 s)) p
  end.
