(* Model/Bystander.v - what a request whose context ended leaves behind for OTHER requests (C08:
   "the client remains fully usable").  Three small machines, NO proofs here.

   1. HTTP/1.1 idle-wait queue (transport.go queueForIdleConn / tryPutIdleConn / wantConn.cancel):
      waiters queue in order; a waiter whose context ends stays in the queue as a dead entry;
      a connection that becomes idle is offered to the entries from the front until a live one
      takes it, otherwise it is parked in the idle list.
   2. HTTP/2 connection-level receive window (internal/http2 flow.go inflow.take/add,
      clientConnReadLoop.processData for a stream that was reset and forgotten): the bytes are
      taken from the connection window and handed back at once.
   4. The HPACK encoder of an HTTP/2 connection (internal/http2 clientStream.encodeAndWriteHeaders,
      under the connection's write lock): a request whose context has ended when the lock is obtained
      is not encoded; once the encoding has started the block is written, whatever happens to the
      context meanwhile.
   3. A dial shared by two requests (HTTP/3 RoundTripOpt, HTTP/2 getClientConn/shouldRetryDial):
      the dial runs with the context of the request that started it; a waiter whose own context
      is alive dials for itself when the shared dial ended with the owner's context error. *)
From Coq Require Import List Bool Arith ZArith Lia.
From ReqV Require Import Model.Lifecycle.
Import ListNotations.

(* ---------- 1. wait queue ---------- *)

Record qst := mkQ {
  q_queue : list (nat * bool);   (* waiter id, still waiting (wantConn.waiting()) *)
  q_idle : nat;                  (* connections parked in the idle list *)
  q_served : list nat            (* waiters that were handed a connection, in order *)
}.

Inductive qlabel :=
| QEnq (i : nat)      (* request i enters getConn: no idle connection, limit reached *)
| QCancel (i : nat)   (* its context ends: wantConn.cancel marks it done, the entry stays *)
| QFree.              (* a connection becomes idle (the exchange that used it completed) *)

Definition qinit : qst := mkQ [] 0 [].

(* tryPutIdleConn's loop: pop until a live waiter takes the connection.
   front_only = the seeded variant that tries the front entry only *)
Fixpoint deliver (q : list (nat * bool)) : option nat * list (nat * bool) :=
  match q with
  | [] => (None, [])
  | (i, true) :: r => (Some i, r)
  | (_, false) :: r => deliver r
  end.

Definition deliver_front (q : list (nat * bool)) : option nat * list (nat * bool) :=
  match q with
  | [] => (None, [])
  | (i, true) :: r => (Some i, r)
  | (_, false) :: r => (None, r)
  end.

Fixpoint mark_dead (i : nat) (q : list (nat * bool)) : list (nat * bool) :=
  match q with
  | [] => []
  | (j, l) :: r => if Nat.eqb i j then (j, false) :: r else (j, l) :: mark_dead i r
  end.

Definition qstep (front_only : bool) (s : qst) (l : qlabel) : qst :=
  match l with
  | QEnq i =>
      match q_idle s with
      | S n => mkQ (q_queue s) n (q_served s ++ [i])          (* an idle connection is taken at once *)
      | 0 => mkQ (q_queue s ++ [(i, true)]) 0 (q_served s)
      end
  | QCancel i => mkQ (mark_dead i (q_queue s)) (q_idle s) (q_served s)
  | QFree =>
      match (if front_only then deliver_front else deliver) (q_queue s) with
      | (Some i, r) => mkQ r (q_idle s) (q_served s ++ [i])
      | (None, r) => mkQ r (S (q_idle s)) (q_served s)
      end
  end.

Definition qrun (front_only : bool) (ls : list qlabel) : qst := fold_left (qstep front_only) ls qinit.

Definition has_live (q : list (nat * bool)) : bool := existsb snd q.

(* ---------- 2. connection receive window ---------- *)

Open Scope Z_scope.
Record inflow := mkIn { in_avail : Z; in_unsent : Z }.
Definition min_refresh : Z := 4096.    (* inflowMinRefresh *)

(* inflow.take *)
Definition in_take (f : inflow) (n : Z) : option inflow :=
  if n >? in_avail f then None else Some (mkIn (in_avail f - n) (in_unsent f)).

(* inflow.add: returns the increment to announce now *)
Definition in_add (f : inflow) (n : Z) : Z * inflow :=
  let unsent := in_unsent f + n in
  if (unsent <? min_refresh) && (unsent <? in_avail f) then (0, mkIn (in_avail f) unsent)
  else (unsent, mkIn (in_avail f + unsent) 0).

(* processData for a forgotten stream, current code: take, add, WINDOW_UPDATE(0) if > 0;
   [returns = false]: the seeded variant that ignores the frame (the peer has spent the bytes all the same:
   the client's idea of the window is untouched, the peer's shrinks) *)
Definition stray_frame (returns : bool) (st : inflow * Z * Z) (n : Z) : option (inflow * Z * Z) :=
  let '(f, credited, peer) := st in       (* peer: what the peer may still send *)
  if returns then
    match in_take f n with
    | None => None                        (* FLOW_CONTROL_ERROR *)
    | Some f1 => let '(inc, f2) := in_add f1 n in Some (f2, credited + inc, peer - n + inc)
    end
  else Some (f, credited, peer - n).

Fixpoint stray_frames (returns : bool) (st : inflow * Z * Z) (ns : list Z) : option (inflow * Z * Z) :=
  match ns with
  | [] => Some st
  | n :: r => match stray_frame returns st n with Some st' => stray_frames returns st' r | None => None end
  end.

Definition win_init (w : Z) : inflow * Z * Z := (mkIn w 0, 0, w).
Close Scope Z_scope.

(* ---------- 3. shared dial ---------- *)

Inductive sdial := SRun | SFail (c : cause) | SOk.
Inductive swait := BWait | BRedial | BRet (e : option err).

Record shst := mkSh { s_actx : option cause; s_dial : sdial; s_b : swait }.

Inductive slabel :=
| SCancelA (c : cause)   (* the context of the request that started the dial ends *)
| SDialOk                (* the shared dial completes *)
| SDialFails             (* the shared dial ends with its context's error *)
| SBSees                 (* the waiter finds the dial finished *)
| SBDialOk.              (* the waiter's own dial completes *)

(* which dial errors make a waiter with a live context dial for itself; [dl_too] = false is the
   seeded variant that re-dials after context.Canceled only *)
Definition redial_for (dl_too : bool) (c : cause) : bool :=
  match c with CCanceled => true | _ => dl_too end.

Definition shstep (dl_too : bool) (s : shst) (l : slabel) : option shst :=
  match l with
  | SCancelA c => Some (match s_actx s with None => mkSh (Some c) (s_dial s) (s_b s) | _ => s end)
  | SDialOk => match s_dial s, s_actx s with SRun, None => Some (mkSh None SOk (s_b s)) | _, _ => None end
  | SDialFails => match s_dial s, s_actx s with SRun, Some c => Some (mkSh (Some c) (SFail c) (s_b s)) | _, _ => None end
  | SBSees =>
      match s_b s, s_dial s with
      | BWait, SOk => Some (mkSh (s_actx s) SOk (BRet None))
      | BWait, SFail c =>
          Some (mkSh (s_actx s) (SFail c) (if redial_for dl_too c then BRedial else BRet (Some (ECause c))))
      | _, _ => None
      end
  | SBDialOk => match s_b s with BRedial => Some (mkSh (s_actx s) (s_dial s) (BRet None)) | _ => None end
  end.

Definition shinit : shst := mkSh None SRun BWait.

Fixpoint shrun (dl_too : bool) (s : shst) (ls : list slabel) : option shst :=
  match ls with
  | [] => Some s
  | l :: r => match shstep dl_too s l with Some s' => shrun dl_too s' r | None => None end
  end.

(* ---------- 4. HPACK encoder / decoder tables ---------- *)

Record hst := mkHp {
  h_enc : list nat;    (* header blocks the connection's encoder has processed (request ids) *)
  h_sent : list nat    (* header blocks written to the peer = processed by its decoder *)
}.

(* request i reaches encodeAndWriteHeaders; its context had ended before (cb) / ends while the
   header fields are being encoded (cd).  [late] = the seeded variant that tests the context after
   the encoding *)
Inductive hlabel := HSend (i : nat) (cb cd : bool).

Definition hstep (late : bool) (s : hst) (l : hlabel) : hst :=
  match l with
  | HSend i cb cd =>
      if late then
        if cb || cd then mkHp (h_enc s ++ [i]) (h_sent s) else mkHp (h_enc s ++ [i]) (h_sent s ++ [i])
      else
        if cb then s else mkHp (h_enc s ++ [i]) (h_sent s ++ [i])
  end.

Definition hrun (late : bool) (ls : list hlabel) : hst := fold_left (hstep late) ls (mkHp [] []).
