(* Model/H2Flow.v - the flow-control kernel of internal/http2/flow.go as records over the
   gosync-generated functions (Gen/H2Flow.v is regenerated from the Go source on every run),
   plus the little interpreter the harness drives on the REAL inflow/outflow types
   (export_verif_c06.go: VerifFlowVM).  No proofs here. *)
From Coq Require Import ZArith Bool List.
From ReqV Require Export Lib.GoInt Gen.H2Flow.
Import ListNotations.
Open Scope Z_scope.

Record inflow := mkIn { in_avail : Z; in_unsent : Z }.

Definition in_init (f : inflow) (n : Z) : inflow :=
  let '(_, (a, u)) := inflow_init (in_avail f) (in_unsent f) n in mkIn a u.
Definition in_add (f : inflow) (n : Z) : outcome Z * inflow :=
  let '(r, (a, u)) := inflow_add (in_avail f) (in_unsent f) n in (r, mkIn a u).
Definition in_take (f : inflow) (n : Z) : outcome bool * inflow :=
  let '(r, (a, u)) := inflow_take (in_avail f) (in_unsent f) n in (r, mkIn a u).
Definition in_take2 (f1 f2 : inflow) (n : Z) : outcome bool * (inflow * inflow) :=
  let '(r, (a1, u1, a2, u2)) := takeInflows (in_avail f1) (in_unsent f1) (in_avail f2) (in_unsent f2) n in
  (r, (mkIn a1 u1, mkIn a2 u2)).

(* outflows: a stream outflow is (n) with conn pointing to the connection outflow (cn);
   the connection outflow has conn = nil *)
Definition out_add_conn (cn d : Z) : bool * Z :=
  let '(r, (n', _, _)) := outflow_add cn false 0 d in
  (match r with Ret b => b | Panic => false end, n').
Definition out_add_stream (n cn d : Z) : bool * Z :=
  let '(r, (n', _, _)) := outflow_add n true cn d in
  (match r with Ret b => b | Panic => false end, n').
Definition out_avail_conn (cn : Z) : Z := ret_val (outflow_available cn false 0).
Definition out_avail_stream (n cn : Z) : Z := ret_val (outflow_available n true cn).
(* take on a stream outflow: None = panic *)
Definition out_take_stream (n cn t : Z) : option (Z * Z) :=
  let '(r, (n', _, cn')) := outflow_take n true cn t in
  match r with Ret _ => Some (n', cn') | Panic => None end.
Definition out_take_conn (cn t : Z) : option Z :=
  let '(r, (n', _, _)) := outflow_take cn false 0 t in
  match r with Ret _ => Some n' | Panic => None end.

(* ---- interpreter mirrored by VerifFlowVM.Do ---- *)
Record fvm := mkVM { vin0 : inflow; vin1 : inflow; vout0 : Z; vout1 : Z; vout2 : Z }.
Definition fvm0 : fvm := mkVM (mkIn 0 0) (mkIn 0 0) 0 0 0.

Definition b2z (b : bool) : Z := if b then 1 else 0.

(* result: (value, panicked) *)
Definition fvm_step (v : fvm) (kind idx arg : Z) : (Z * bool) * fvm :=
  let getin := if idx =? 0 then vin0 v else vin1 v in
  let setin f := if idx =? 0 then mkVM f (vin1 v) (vout0 v) (vout1 v) (vout2 v)
                 else mkVM (vin0 v) f (vout0 v) (vout1 v) (vout2 v) in
  if kind =? 0 then ((0, false), setin (in_init getin (wrap32 arg)))
  else if kind =? 1 then
    match in_add getin arg with
    | (Ret r, f) => ((r, false), setin f)
    | (Panic, f) => ((0, true), setin f)
    end
  else if kind =? 2 then
    match in_take getin (wrapu32 arg) with
    | (Ret r, f) => ((b2z r, false), setin f)
    | (Panic, f) => ((0, true), setin f)
    end
  else if kind =? 3 then
    match in_take2 (vin0 v) (vin1 v) (wrapu32 arg) with
    | (Ret r, (f1, f2)) => ((b2z r, false), mkVM f1 f2 (vout0 v) (vout1 v) (vout2 v))
    | (Panic, _) => ((0, true), v)
    end
  else if kind =? 4 then
    if idx =? 0 then let '(b, n') := out_add_conn (vout0 v) (wrap32 arg) in
                     ((b2z b, false), mkVM (vin0 v) (vin1 v) n' (vout1 v) (vout2 v))
    else if idx =? 1 then let '(b, n') := out_add_stream (vout1 v) (vout0 v) (wrap32 arg) in
                     ((b2z b, false), mkVM (vin0 v) (vin1 v) (vout0 v) n' (vout2 v))
    else let '(b, n') := out_add_stream (vout2 v) (vout0 v) (wrap32 arg) in
                     ((b2z b, false), mkVM (vin0 v) (vin1 v) (vout0 v) (vout1 v) n')
  else if kind =? 5 then
    if idx =? 0 then ((out_avail_conn (vout0 v), false), v)
    else if idx =? 1 then ((out_avail_stream (vout1 v) (vout0 v), false), v)
    else ((out_avail_stream (vout2 v) (vout0 v), false), v)
  else if kind =? 6 then
    if idx =? 0 then
      match out_take_conn (vout0 v) (wrap32 arg) with
      | Some n' => ((0, false), mkVM (vin0 v) (vin1 v) n' (vout1 v) (vout2 v))
      | None => ((0, true), v)
      end
    else if idx =? 1 then
      match out_take_stream (vout1 v) (vout0 v) (wrap32 arg) with
      | Some (n', c') => ((0, false), mkVM (vin0 v) (vin1 v) c' n' (vout2 v))
      | None => ((0, true), v)
      end
    else
      match out_take_stream (vout2 v) (vout0 v) (wrap32 arg) with
      | Some (n', c') => ((0, false), mkVM (vin0 v) (vin1 v) c' (vout1 v) n')
      | None => ((0, true), v)
      end
  else ((0, false), v).

Definition fvm_state (v : fvm) : list Z :=
  [in_avail (vin0 v); in_unsent (vin0 v); in_avail (vin1 v); in_unsent (vin1 v); vout0 v; vout1 v; vout2 v].

(* an observed op: kind, idx, arg, result, panicked *)
Definition fop := (Z * Z * Z * Z * bool)%type.

Fixpoint fvm_run (v : fvm) (ops : list fop) : bool * fvm :=
  match ops with
  | [] => (true, v)
  | (kind, idx, arg, res, pan) :: r =>
      let '((res', pan'), v') := fvm_step v kind idx arg in
      if Bool.eqb pan pan' && (pan || (res =? res')) then fvm_run v' r else (false, v')
  end.
