(* Model/CharsetConfig.v - the auto-decode CONFIGURATION of transports/clients over time (C15):
   transport.go DisableAutoDecode / EnableAutoDecode / SetAutoDecodeContentTypeFunc /
   SetAutoDecodeAllContentType / SetAutoDecodeContentType and what Transport.Clone (hence Client.Clone)
   does with the two fields disableAutoDecode and autoDecodeContentType: it copies them.  The matcher
   built by SetAutoDecodeContentType owns a private copy of the fragments (decode.go
   autoDecodeContentTypeFunc, after the fix), so a configuration is a VALUE: no setter call on one
   transport, and nothing the caller later does with the slice it passed, reaches another transport.
   The statement texts of the setters and the key/values of Clone are pinned by gosync
   (Gen/DecodeSetters.v).  No proofs here. *)
From ReqV Require Export Lib.Bytes Model.Charset.

Record dset := { d_disable : bool; d_sel : selector }.
Definition dset_default : dset := {| d_disable := false; d_sel := SelDefault |}.

Inductive cfg_op :=
| OpSetList (i : nat) (l : list bytes)   (* transport i: SetAutoDecodeContentType(l...) *)
| OpSetFn (i : nat) (ans : bool)         (* SetAutoDecodeContentTypeFunc(constant function) *)
| OpSetAll (i : nat)                     (* SetAutoDecodeAllContentType *)
| OpDisable (i : nat)
| OpEnable (i : nat)
| OpClone (i : nat)                      (* a new transport (next free index) := transport i .Clone() *)
| OpScribble (i : nat).                  (* the caller overwrites the slice it last passed to transport i *)

Fixpoint upd_nth {A} (i : nat) (f : A -> A) (l : list A) : list A :=
  match l, i with
  | [], _ => []
  | x :: r, O => f x :: r
  | x :: r, S i' => x :: upd_nth i' f r
  end.

Definition set_sel (s : selector) (d : dset) : dset := {| d_disable := d_disable d; d_sel := s |}.
Definition set_dis (b : bool) (d : dset) : dset := {| d_disable := b; d_sel := d_sel d |}.

Definition apply_op (st : list dset) (op : cfg_op) : list dset :=
  match op with
  | OpSetList i l => upd_nth i (set_sel (SelList l)) st
  | OpSetFn i a => upd_nth i (set_sel (SelFn a)) st
  | OpSetAll i => upd_nth i (set_sel SelAll) st
  | OpDisable i => upd_nth i (set_dis true) st
  | OpEnable i => upd_nth i (set_dis false) st
  | OpClone i => match nth_error st i with Some d => st ++ [d] | None => st end
  | OpScribble _ => st
  end.

Definition run_ops (st : list dset) (ops : list cfg_op) : list dset := fold_left apply_op ops st.

(* the transport an operation re-configures (None: it re-configures none) *)
Definition op_target (op : cfg_op) : option nat :=
  match op with
  | OpSetList i _ | OpSetFn i _ | OpSetAll i | OpDisable i | OpEnable i => Some i
  | OpClone _ | OpScribble _ => None
  end.

Definition targets (j : nat) (op : cfg_op) : bool :=
  match op_target op with Some i => Nat.eqb i j | None => false end.

(* which reader transport j installs for a response *)
Definition decide_of {enc} (parse_ct : bytes -> ct_parse) (lookup_charset : bytes -> option enc)
           (st : list dset) (j : nat) (resp_ce ct : bytes) : option (install enc) :=
  match nth_error st j with
  | Some d => Some (decide parse_ct lookup_charset (d_disable d) (d_sel d) resp_ce ct)
  | None => None
  end.
