(* Model/C08Run.v - case type and checker evaluated on harness-generated cases (C08).

   A case = one run of a scripted scenario against the real client: the labels of the steps
   the stepping peer had completed (one group per step; a racy injection sits inside the last
   group), the injection, the labels of the epilogue (a dial that was still in progress
   completes), and what was observed.  The checker explores, with the SAME [step1] the theorems
   are about, every resolution of the scheduling choices after each group (quiescence) and
   requires the observation to be among the outcomes the model allows.  For injections by a real
   timer (context.WithTimeout, Client.Timeout, ResponseHeaderTimeout) the timer may fire before
   the peer reached its stall point: the allowed set is the union over all earlier positions. *)
From Coq Require Import List Bool Arith.
From ReqV Require Export Lib.Bytes Model.Lifecycle Model.RetryLife Model.LifecycleH2 Model.LifecycleH3 Model.Bystander Model.BackoffLife.
Import ListNotations.

Inductive ocall := OResp | OErr (e : err).
Inductive obody := ONone | OEof | OClosed | OBErr (e : err).

Record obs1 := mkObs1 {
  o_call : ocall;
  o_body : obody;
  o_conn_closed : bool;     (* the peer saw the client close the exchange's connection *)
  o_idle : nat;             (* idle connections in the pool afterwards *)
  o_req_body : bool;        (* the request had a body ... *)
  o_req_body_closed : bool  (* ... and it was closed *)
}.

Record obs2 := mkObs2 {
  o2_call : ocall;
  o2_body : obody;
  o2_rst : option rstk;       (* RST_STREAM received by the peer for the request's stream *)
  o2_req_body : bool;
  o2_req_body_closed : bool
}.

Record obs3 := mkObs3 {
  o3_call : ocall;
  o3_body : obody;
  o3_peer_told : option bool;   (* request reached the handler: did the handler see the stream cancelled *)
  o3_req_body : bool;
  o3_req_body_closed : bool;
  o3_follow_ok : bool           (* the next request on the same client succeeded *)
}.

Inductive c08_case :=
| H1Case (c : cfg1) (auto union : bool) (pre racy inj post : list label) (o : obs1)
| H2Case (has_body union : bool) (pre racy inj : list label2) (o : obs2)
| H3Case (c : cfg3) (union : bool) (pre racy inj : list label3) (o : obs3)
(* bystanders *)
| QueueCase (evs : list qlabel) (served : list nat) (idle : nat)
| WindowCase (w : Z) (frames : list Z) (credited : Z)
| ShareCase (c : cause) (b_ok : bool)
| HpackCase (ls : list hlabel) (decoded : list nat) (decode_ok : bool)
| BackoffCase (ls : list blabel) (o_err : ocall) (o_seen : nat)
(* retry layer: labels up to and including the injection; observed: the call's error and the
   number of attempts that reached the peer *)
| RetryCase (zero : bool) (max : option nat) (ls : list rlabel) (o_err : ocall) (o_seen : nat).

Definition cause_eqb (a b : cause) : bool :=
  match a, b with
  | CCanceled, CCanceled | CDeadline, CDeadline | CTimeout, CTimeout => true
  | _, _ => false
  end.

(* EPeer and EOther are not distinguished by the harness *)
Definition err_eqb (a b : err) : bool :=
  match a, b with
  | ECause x, ECause y => cause_eqb x y
  | EHdrTimeout, EHdrTimeout => true
  | (EPeer | EOther), (EPeer | EOther) => true
  | _, _ => false
  end.

Definition ocall_eqb (a b : ocall) : bool :=
  match a, b with
  | OResp, OResp => true
  | OErr x, OErr y => err_eqb x y
  | _, _ => false
  end.

Definition obody_eqb (a b : obody) : bool :=
  match a, b with
  | ONone, ONone | OEof, OEof | OClosed, OClosed => true
  | OBErr x, OBErr y => err_eqb x y
  | _, _ => false
  end.

(* what the caller of the API sees.  auto: the body is read inside the call *)
Definition proj_call (auto : bool) (s : h1) : option ocall :=
  match ret s with
  | None => None
  | Some (CErr e) => Some (OErr e)
  | Some (CResp _) =>
      if auto then match bres s with BErr e => Some (OErr e) | _ => Some OResp end
      else Some OResp
  end.

Definition proj_body (auto : bool) (s : h1) : option obody :=
  match bres s with
  | BNone => Some ONone
  | BEOF => Some OEof
  | BClosed => Some OClosed
  | BErr e => if auto then Some ONone else Some (OBErr e)
  | _ => None                      (* a read is still pending: not a final state *)
  end.

Definition idle_of (s : h1) : nat := (if in_pool s then 1 else 0) + (if spare s then 1 else 0).

Definition matches (auto : bool) (o : obs1) (s : h1) : bool :=
  match proj_call auto s, proj_body auto s with
  | Some c, Some b =>
      ocall_eqb c (o_call o) && obody_eqb b (o_body o) &&
      Bool.eqb (closed s && negb (peer_closed s)) (o_conn_closed o) &&
      Nat.eqb (idle_of s) (o_idle o) &&
      (negb (o_req_body o) || Bool.eqb (body_closed s) (o_req_body_closed o)) &&
      loops_gone s
  | _, _ => false
  end.

Definition fuel1 := 40.

Fixpoint collect {A} (l : list (option (list A))) : option (list A) :=
  match l with
  | [] => Some []
  | None :: _ => None
  | Some a :: r => match collect r with Some b => Some (a ++ b) | None => None end
  end.

(* a script: environment labels that must be possible, labels that are skipped where they are
   not possible (the step of a racy injection may find the connection already closed), and Q:
   every goroutine runs until it blocks (all scheduling choices explored) *)
Inductive item := Must (l : label) | May (l : label) | Q | P.

(* P: every state reachable by zero or more scheduling steps (not only the quiescent ones): inside a
   racy step the next environment event may land between any two of them *)
Fixpoint partial1 (fuel : nat) (c : cfg1) (s : h1) : list h1 :=
  match fuel with
  | 0 => [s]
  | S f => s :: flat_map (partial1 f c) (succs c s)
  end.

Definition apply_must (c : cfg1) (ss : list h1) (l : label) : list h1 :=
  flat_map (fun s => match step1 c s l with Some s' => [s'] | None => [] end) ss.
Definition apply_may (c : cfg1) (ss : list h1) (l : label) : list h1 :=
  map (fun s => match step1 c s l with Some s' => s' | None => s end) ss.

Fixpoint exec (c : cfg1) (ss : list h1) (is : list item) : option (list h1) :=
  match is with
  | [] => Some ss
  | Must l :: r => match apply_must c ss l with [] => None | ss' => exec c ss' r end
  | May l :: r => exec c (apply_may c ss l) r
  | Q :: r => match collect (map (quiesce fuel1 c) ss) with Some ss' => exec c ss' r | None => None end
  | P :: r => exec c (flat_map (partial1 12 c) ss) r
  end.

Definition seqQ (ls : list label) : list item := flat_map (fun l => [Must l; Q]) ls.
Definition mayQ (ls : list label) : list item := flat_map (fun l => [May l; Q]) ls.

Definition finals (c : cfg1) (script : list item) : option (list h1) := exec c [init1 c] script.

Fixpoint prefixes {A} (l : list A) : list (list A) :=
  match l with
  | [] => [[]]
  | x :: r => [] :: map (cons x) (prefixes r)
  end.

Definition some_or_nil {A} (o : option (list A)) : list A := match o with Some l => l | None => [] end.

(* the scripts a case stands for *)
Definition scripts (union : bool) (pre racy inj post : list label) : list (list item) :=
  match racy with
  | [] =>
      (* an injection right after the call was started races the start of the call itself:
         that script has no leading Q *)
      (if union then map (fun p => Q :: seqQ p ++ seqQ inj ++ seqQ post) (prefixes pre)
       else [Q :: seqQ pre ++ seqQ inj ++ seqQ post]) ++
      (match pre, union with [], _ | _, true => [seqQ inj ++ seqQ post] | _, _ => [] end)
  | _ =>
      (* the injection falls anywhere inside the racy step, before or after any of its labels,
         with no scheduling step in between *)
      let body := flat_map (fun p =>
        let done := firstn p racy in
        let rest := skipn p racy in
        (seqQ pre ++ seqQ done ++ map Must inj ++ [P] ++ flat_map (fun l => [May l; P]) rest ++ [Q] ++ seqQ post) ::
        (seqQ pre ++ seqQ done ++ seqQ inj ++ mayQ rest ++ seqQ post) ::
        (seqQ pre ++ seqQ done ++ map Must inj ++ mayQ rest ++ seqQ post) ::
        match rest with
        | l :: rest' => [seqQ pre ++ seqQ done ++ [Must l] ++ map Must inj ++ [Q] ++ mayQ rest' ++ seqQ post]
        | [] => []
        end) (seq 0 (S (length racy))) in
      map (cons Q) body ++ match pre with [] => body | _ => [] end
  end.

Definition allowed (c : cfg1) (union : bool) (pre racy inj post : list label) : option (list h1) :=
  match flat_map (fun sc => some_or_nil (finals c sc)) (scripts union pre racy inj post) with
  | [] => None
  | l => Some l
  end.

(* ---- HTTP/2: the same script interpreter over step2 ---- *)
Inductive item2 := Must2 (l : label2) | May2 (l : label2) | Q2 | P2.

Fixpoint partial2 (fuel : nat) (hb : bool) (s : h2) : list h2 :=
  match fuel with
  | 0 => [s]
  | S f => s :: flat_map (partial2 f hb)
                 (flat_map (fun l => match step2 hb s l with Some s' => [s'] | None => [] end) internals2)
  end.

Fixpoint exec2 (hb : bool) (ss : list h2) (is : list item2) : option (list h2) :=
  match is with
  | [] => Some ss
  | Must2 l :: r =>
      match flat_map (fun s => match step2 hb s l with Some s' => [s'] | None => [] end) ss with
      | [] => None
      | ss' => exec2 hb ss' r
      end
  | May2 l :: r => exec2 hb (map (fun s => match step2 hb s l with Some s' => s' | None => s end) ss) r
  | Q2 :: r => match collect (map (quiesce2 fuel1 hb) ss) with Some ss' => exec2 hb ss' r | None => None end
  | P2 :: r => exec2 hb (flat_map (partial2 12 hb) ss) r
  end.

Definition seqQ2 (ls : list label2) : list item2 := flat_map (fun l => [Must2 l; Q2]) ls.
Definition mayQ2 (ls : list label2) : list item2 := flat_map (fun l => [May2 l; Q2]) ls.

Definition scripts2 (union : bool) (pre racy inj : list label2) : list (list item2) :=
  match racy with
  | [] =>
      (if union then map (fun p => Q2 :: seqQ2 p ++ seqQ2 inj) (prefixes pre)
       else [Q2 :: seqQ2 pre ++ seqQ2 inj]) ++
      (match pre, union with [], _ | _, true => [seqQ2 inj] | _, _ => [] end)
  | _ =>
      let body := flat_map (fun p =>
        let done := firstn p racy in
        let rest := skipn p racy in
        (seqQ2 pre ++ seqQ2 done ++ map Must2 inj ++ [P2] ++ flat_map (fun l => [May2 l; P2]) rest ++ [Q2]) ::
        (seqQ2 pre ++ seqQ2 done ++ seqQ2 inj ++ mayQ2 rest) ::
        (seqQ2 pre ++ seqQ2 done ++ map Must2 inj ++ mayQ2 rest) ::
        match rest with
        | l :: rest' => [seqQ2 pre ++ seqQ2 done ++ [Must2 l] ++ map Must2 inj ++ [Q2] ++ mayQ2 rest']
        | [] => []
        end) (seq 0 (S (length racy))) in
      map (cons Q2) body ++ match pre with [] => body | _ => [] end
  end.

Definition rstk_eqb (a b : option rstk) : bool :=
  match a, b with
  | None, None | Some RstCancel, Some RstCancel | Some RstNoError, Some RstNoError => true
  | _, _ => false
  end.

Definition matches2 (o : obs2) (s : h2) : bool :=
  match c2 s with
  | CRet r =>
      ocall_eqb (match r with CResp _ => OResp | CErr e => OErr e end) (o2_call o) &&
      match pipe2 s with
      | BNone => obody_eqb ONone (o2_body o)
      | BEOF => obody_eqb OEof (o2_body o)
      | BErr e => obody_eqb (OBErr e) (o2_body o)
      | _ => false
      end &&
      rstk_eqb (rst2 s) (o2_rst o) &&
      (negb (o2_req_body o) || Bool.eqb (bclosed2 s) (o2_req_body_closed o)) &&
      match d2 s with DExit => true | _ => false end
  | _ => false
  end.

(* ---- HTTP/3: the same script interpreter over step3 (current code: fx = true) ---- *)
Inductive item3 := Must3 (l : label3) | May3 (l : label3) | Q3 | P3.

Fixpoint exec3 (c : cfg3) (ss : list h3) (is : list item3) : option (list h3) :=
  match is with
  | [] => Some ss
  | Must3 l :: r =>
      match flat_map (fun s => match step3 true c s l with Some s' => [s'] | None => [] end) ss with
      | [] => None
      | ss' => exec3 c ss' r
      end
  | May3 l :: r => exec3 c (map (fun s => match step3 true c s l with Some s' => s' | None => s end) ss) r
  | Q3 :: r => match collect (map (quiesce3 fuel1 true c) ss) with Some ss' => exec3 c ss' r | None => None end
  | P3 :: r => exec3 c (flat_map (partial3 12 true c) ss) r
  end.

Definition seqQ3 (ls : list label3) : list item3 := flat_map (fun l => [Must3 l; Q3]) ls.
Definition mayQ3 (ls : list label3) : list item3 := flat_map (fun l => [May3 l; Q3]) ls.

Definition scripts3 (union : bool) (pre racy inj : list label3) : list (list item3) :=
  match racy with
  | [] =>
      (if union then map (fun p => Q3 :: seqQ3 p ++ seqQ3 inj) (prefixes pre)
       else [Q3 :: seqQ3 pre ++ seqQ3 inj]) ++
      (match pre, union with [], _ | _, true => [seqQ3 inj] | _, _ => [] end)
  | _ =>
      let body := flat_map (fun p =>
        let done := firstn p racy in
        let rest := skipn p racy in
        (seqQ3 pre ++ seqQ3 done ++ map Must3 inj ++ [P3] ++ flat_map (fun l => [May3 l; P3]) rest ++ [Q3]) ::
        (seqQ3 pre ++ seqQ3 done ++ seqQ3 inj ++ mayQ3 rest) ::
        (seqQ3 pre ++ seqQ3 done ++ map Must3 inj ++ mayQ3 rest) ::
        match rest with
        | l :: rest' => [seqQ3 pre ++ seqQ3 done ++ [Must3 l] ++ map Must3 inj ++ [Q3] ++ mayQ3 rest']
        | [] => []
        end) (seq 0 (S (length racy))) in
      map (cons Q3) body ++ match pre with [] => body | _ => [] end
  end.

Definition matches3 (o : obs3) (s : h3) : bool :=
  match c3 s with
  | C3Ret r =>
      ocall_eqb (match r with CResp _ => OResp | CErr e => OErr e end) (o3_call o) &&
      match pipe3 s with
      | BNone => obody_eqb ONone (o3_body o)
      | BEOF => obody_eqb OEof (o3_body o)
      | BErr e => obody_eqb (OBErr e) (o3_body o)
      | _ => false
      end &&
      match o3_peer_told o with Some b => Bool.eqb (scancel s) b | None => true end &&
      (negb (o3_req_body o) || Bool.eqb (bclosed3 s) (o3_req_body_closed o)) &&
      Bool.eqb (follow_ok true s) (o3_follow_ok o) &&
      negb (cg3 s) && match bg s with BgRunning => false | _ => true end
  | _ => false
  end.

Definition c08_check (k : c08_case) : bool :=
  match k with
  | H1Case c auto union pre racy inj post o =>
      match allowed c union pre racy inj post with
      | Some fs => existsb (matches auto o) fs
      | None => false
      end
  | H2Case hb union pre racy inj o =>
      match flat_map (fun sc => some_or_nil (exec2 hb [init2] sc)) (scripts2 union pre racy inj) with
      | [] => false
      | fs => existsb (matches2 o) fs
      end
  | H3Case c union pre racy inj o =>
      match flat_map (fun sc => some_or_nil (exec3 c [init3 c] sc)) (scripts3 union pre racy inj) with
      | [] => false
      | fs => existsb (matches3 o) fs
      end
  | QueueCase evs served idle =>
      let s := qrun false evs in
      list_eqb Nat.eqb (q_served s) served && Nat.eqb (q_idle s) idle && negb (has_live (q_queue s))
  | WindowCase w frames credited =>
      match stray_frames true (win_init w) frames with
      | Some (_, cr, _) => Z.eqb cr credited
      | None => false
      end
  | HpackCase ls decoded ok =>
      let s := hrun false ls in
      list_eqb Nat.eqb (h_sent s) decoded && ok
  | ShareCase c b_ok =>
      match shrun true shinit [SCancelA c; SDialFails; SBSees; SBDialOk] with
      | Some s => match s_b s with BRet None => b_ok | _ => negb b_ok end
      | None => false
      end
  | BackoffCase ls oe seen =>
      match brun true binit ls with
      | Some s =>
          existsb (fun f => match b_phase f with
                            | PbRet (Some e) => ocall_eqb (OErr e) oe && Nat.eqb (b_net f) seen
                            | PbRet None => ocall_eqb OResp oe && Nat.eqb (b_net f) seen
                            | _ => false
                            end) (bfinish 6 true s)
      | None => false
      end
  | RetryCase zero max ls oe seen =>
      match rrunz zero true max rinit ls with
      | Some s =>
          existsb (fun f => match r_phase f with
                            | PRet (Some e) => ocall_eqb (OErr e) oe && Nat.eqb (r_net f) seen
                            | PRet None => ocall_eqb OResp oe && Nat.eqb (r_net f) seen
                            | _ => false
                            end) (rfinishz 6 zero true max s)
      | None => false
      end
  end.
