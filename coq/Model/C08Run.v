(* Model/C08Run.v - case type and checker evaluated on harness-generated cases (C08).

   A case = one run of a scripted scenario against the real client: the labels of the steps
   the stepping peer had completed (one group per step; a racy injection sits inside the last
   group), the injection, the labels of the epilogue (a dial that was still in progress
   completes), and what was observed.  The checker explores, with the SAME [step1] the theorems
   are about, every resolution of the scheduling choices after each group (quiescence) and
   requires the observation to be among the outcomes the model allows.  For injections by a real
   timer (context.WithTimeout, Client.Timeout, ResponseHeaderTimeout) the timer may fire before
   the peer reached its stall point: the allowed set is the union over all earlier positions. *)
From Coq Require Import List Bool Arith.
From ReqV Require Export Lib.Bytes Model.Lifecycle.
Import ListNotations.

Inductive ocall := OResp | OErr (e : err).
Inductive obody := ONone | OEof | OClosed | OBErr (e : err).

Record obs1 := mkObs1 {
  o_call : ocall;
  o_body : obody;
  o_conn_closed : bool;     (* the peer saw the client close the exchange's connection *)
  o_idle : nat;             (* idle connections in the pool afterwards *)
  o_req_body : bool;        (* the request had a body ... *)
  o_req_body_closed : bool  (* ... and it was closed *)
}.

Inductive c08_case :=
| H1Case (c : cfg1) (auto union : bool) (pre racy inj post : list label) (o : obs1).

Definition cause_eqb (a b : cause) : bool :=
  match a, b with
  | CCanceled, CCanceled | CDeadline, CDeadline | CTimeout, CTimeout => true
  | _, _ => false
  end.

(* EPeer and EOther are not distinguished by the harness *)
Definition err_eqb (a b : err) : bool :=
  match a, b with
  | ECause x, ECause y => cause_eqb x y
  | EHdrTimeout, EHdrTimeout => true
  | (EPeer | EOther), (EPeer | EOther) => true
  | _, _ => false
  end.

Definition ocall_eqb (a b : ocall) : bool :=
  match a, b with
  | OResp, OResp => true
  | OErr x, OErr y => err_eqb x y
  | _, _ => false
  end.

Definition obody_eqb (a b : obody) : bool :=
  match a, b with
  | ONone, ONone | OEof, OEof | OClosed, OClosed => true
  | OBErr x, OBErr y => err_eqb x y
  | _, _ => false
  end.

(* what the caller of the API sees.  auto: the body is read inside the call *)
Definition proj_call (auto : bool) (s : h1) : option ocall :=
  match ret s with
  | None => None
  | Some (CErr e) => Some (OErr e)
  | Some (CResp _) =>
      if auto then match bres s with BErr e => Some (OErr e) | _ => Some OResp end
      else Some OResp
  end.

Definition proj_body (auto : bool) (s : h1) : option obody :=
  match bres s with
  | BNone => Some ONone
  | BEOF => Some OEof
  | BClosed => Some OClosed
  | BErr e => if auto then Some ONone else Some (OBErr e)
  | _ => None                      (* a read is still pending: not a final state *)
  end.

Definition idle_of (s : h1) : nat := (if in_pool s then 1 else 0) + (if spare s then 1 else 0).

Definition matches (auto : bool) (o : obs1) (s : h1) : bool :=
  match proj_call auto s, proj_body auto s with
  | Some c, Some b =>
      ocall_eqb c (o_call o) && obody_eqb b (o_body o) &&
      Bool.eqb (closed s && negb (peer_closed s)) (o_conn_closed o) &&
      Nat.eqb (idle_of s) (o_idle o) &&
      (negb (o_req_body o) || Bool.eqb (body_closed s) (o_req_body_closed o)) &&
      loops_gone s
  | _, _ => false
  end.

Definition fuel1 := 40.

Fixpoint collect {A} (l : list (option (list A))) : option (list A) :=
  match l with
  | [] => Some []
  | None :: _ => None
  | Some a :: r => match collect r with Some b => Some (a ++ b) | None => None end
  end.

(* a script: environment labels that must be possible, labels that are skipped where they are
   not possible (the step of a racy injection may find the connection already closed), and Q:
   every goroutine runs until it blocks (all scheduling choices explored) *)
Inductive item := Must (l : label) | May (l : label) | Q.

Definition apply_must (c : cfg1) (ss : list h1) (l : label) : list h1 :=
  flat_map (fun s => match step1 c s l with Some s' => [s'] | None => [] end) ss.
Definition apply_may (c : cfg1) (ss : list h1) (l : label) : list h1 :=
  map (fun s => match step1 c s l with Some s' => s' | None => s end) ss.

Fixpoint exec (c : cfg1) (ss : list h1) (is : list item) : option (list h1) :=
  match is with
  | [] => Some ss
  | Must l :: r => match apply_must c ss l with [] => None | ss' => exec c ss' r end
  | May l :: r => exec c (apply_may c ss l) r
  | Q :: r => match collect (map (quiesce fuel1 c) ss) with Some ss' => exec c ss' r | None => None end
  end.

Definition seqQ (ls : list label) : list item := flat_map (fun l => [Must l; Q]) ls.
Definition mayQ (ls : list label) : list item := flat_map (fun l => [May l; Q]) ls.

Definition finals (c : cfg1) (script : list item) : option (list h1) := exec c [init1 c] script.

Fixpoint prefixes {A} (l : list A) : list (list A) :=
  match l with
  | [] => [[]]
  | x :: r => [] :: map (cons x) (prefixes r)
  end.

Definition some_or_nil {A} (o : option (list A)) : list A := match o with Some l => l | None => [] end.

(* the scripts a case stands for *)
Definition scripts (union : bool) (pre racy inj post : list label) : list (list item) :=
  match racy with
  | [] =>
      (* an injection right after the call was started races the start of the call itself:
         that script has no leading Q *)
      (if union then map (fun p => Q :: seqQ p ++ seqQ inj ++ seqQ post) (prefixes pre)
       else [Q :: seqQ pre ++ seqQ inj ++ seqQ post]) ++
      (match pre, union with [], _ | _, true => [seqQ inj ++ seqQ post] | _, _ => [] end)
  | _ =>
      (* the injection falls anywhere inside the racy step, before or after any of its labels,
         with no scheduling step in between *)
      let body := flat_map (fun p =>
        let done := firstn p racy in
        let rest := skipn p racy in
        (seqQ pre ++ seqQ done ++ seqQ inj ++ mayQ rest ++ seqQ post) ::
        (seqQ pre ++ seqQ done ++ map Must inj ++ mayQ rest ++ seqQ post) ::
        match rest with
        | l :: rest' => [seqQ pre ++ seqQ done ++ [Must l] ++ map Must inj ++ [Q] ++ mayQ rest' ++ seqQ post]
        | [] => []
        end) (seq 0 (S (length racy))) in
      map (cons Q) body ++ match pre with [] => body | _ => [] end
  end.

Definition allowed (c : cfg1) (union : bool) (pre racy inj post : list label) : option (list h1) :=
  match flat_map (fun sc => some_or_nil (finals c sc)) (scripts union pre racy inj post) with
  | [] => None
  | l => Some l
  end.

Definition c08_check (k : c08_case) : bool :=
  match k with
  | H1Case c auto union pre racy inj post o =>
      match allowed c union pre racy inj post with
      | Some fs => existsb (matches auto o) fs
      | None => false
      end
  end.
