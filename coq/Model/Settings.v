(* Model/Settings.v - C19: setting scope and clone independence.

   A store of clients and requests over a small heap with Go's REFERENCE semantics for the
   reference-typed fields of req.Client / req.Transport / req.Request:

     arrays  backing arrays of slices; a slice value is (array address, len), cap = size of the
             array cell (all slices involved start at offset 0); nil = None; Go's append rule
             (in place when len+n <= cap, otherwise a fresh array of the grown capacity)
     maps    Go maps string -> []string (Headers, QueryParams, FormData, PathParams); a map
             value is an address or nil; setters mutate the cell in place; every entry's value is a
             slice (array, len) into `arrs` like any other slice: Add appends in place when the
             capacity allows (url.Values.Add, SetCommonHeaderNonCanonical), Set stores a fresh
             one-element slice
     recs    *retryOption records (two scalars, two slices)
     jars    boxes: one mutable cell per pointer target that is updated in place - cookie jars behind
             http.Client.Jar (SetCookies), *DumpOptions (Client.dumpOptions and the options inside the
             running Dumper: the same box when the client's dump setters are wired to the Dumper),
             *tls.Config (encoded [insecure; ncerts; certs...; roots...])

   Strings, cookies, middleware / wrapper / hook identities are tokens (nat): the harness
   numbers the finite pools it draws from.

   Operations: the client- and request-level setters (by field kind), R(), Clone() - field by
   field as Client.Clone / Transport.Clone / Options.Clone / retryOption.Clone do it, with the
   per-field treatment (deep copy or shared reference) taken from a TABLE that gosync
   regenerates from the Go source (Gen/CloneTable.v) - and Exec, the effective description
   of the request a client emits.

   The second half is the naive VALUE model (every client a plain value, Clone = copy); the
   proofs show the heap model refines it whenever the table says "deep" for every field.
   No proofs in this file. *)
From Coq Require Import List Arith Bool.
Import ListNotations.

Definition val := nat.
Definition slice := option (nat * nat).

(* ---------- generic list helpers ---------- *)
Fixpoint upd_nth {A} (n : nat) (x : A) (l : list A) : list A :=
  match l, n with
  | [], _ => []
  | _ :: t, 0 => x :: t
  | h :: t, S n' => h :: upd_nth n' x t
  end.

Fixpoint mem (k : nat) (l : list nat) : bool :=
  match l with [] => false | x :: t => (x =? k) || mem k t end.

(* association lists with unique keys: replace in place or append *)
Fixpoint aset {A B} (eqb : A -> A -> bool) (k : A) (x : B) (l : list (A * B)) : list (A * B) :=
  match l with
  | [] => [(k, x)]
  | (j, y) :: t => if eqb j k then (j, x) :: t else (j, y) :: aset eqb k x t
  end.
Fixpoint aget {A B} (eqb : A -> A -> bool) (k : A) (l : list (A * B)) : option B :=
  match l with
  | [] => None
  | (j, y) :: t => if eqb j k then Some y else aget eqb k t
  end.
Definition nset {B} := @aset nat B Nat.eqb.
Definition nget {B} := @aget nat B Nat.eqb.
Definition nget_list (k : nat) (l : list (nat * list val)) : list val :=
  match nget k l with Some v => v | None => [] end.

(* ---------- heap ---------- *)
Record retry := { r_max : val; r_int : val; r_conds : slice; r_hooks : slice }.
Definition retry0 : retry := {| r_max := 0; r_int := 0; r_conds := None; r_hooks := None |}.

Definition mapcell := list (val * list val).     (* a map read through its references: key -> values *)
Definition hmapcell := list (val * slice).        (* a map in the heap: key -> slice *)

Record heap := {
  arrs : list (list val);
  maps : list hmapcell;
  recs : list retry;
  jars : list (list val) }.

Definition with_arrs (H : heap) A := {| arrs := A; maps := maps H; recs := recs H; jars := jars H |}.
Definition with_maps (H : heap) M := {| arrs := arrs H; maps := M; recs := recs H; jars := jars H |}.
Definition with_recs (H : heap) R := {| arrs := arrs H; maps := maps H; recs := R; jars := jars H |}.
Definition with_jars (H : heap) J := {| arrs := arrs H; maps := maps H; recs := recs H; jars := J |}.

(* ---------- slices ---------- *)
Definition sl_read (A : list (list val)) (s : slice) : list val :=
  match s with None => [] | Some (a, l) => firstn l (nth a A []) end.

Definition pad (n : nat) (l : list val) : list val := l ++ repeat 0 (n - length l).

(* x = append(x, vs...) ; grow oldcap newlen = capacity of the reallocated array *)
Definition sl_append (grow : nat -> nat -> nat) (A : list (list val)) (s : slice) (vs : list val)
  : list (list val) * slice :=
  match vs with
  | [] => (A, s)
  | _ :: _ =>
    match s with
    | None => (A ++ [pad (grow 0 (length vs)) vs], Some (length A, length vs))
    | Some (a, l) =>
        let cell := nth a A [] in
        if l + length vs <=? length cell
        then (upd_nth a (firstn l cell ++ vs ++ skipn (l + length vs) cell) A, Some (a, l + length vs))
        else (A ++ [pad (grow (length cell) (l + length vs)) (firstn l cell ++ vs)],
              Some (length A, l + length vs))
    end
  end.

(* req.go cloneSlice: nil when empty, else make(len) + copy (cap = len) *)
Definition sl_clone (A : list (list val)) (s : slice) : list (list val) * slice :=
  match sl_read A s with
  | [] => (A, None)
  | vs => (A ++ [vs], Some (length A, length vs))
  end.

(* a slice literal []T{...}: cap = len *)
Definition sl_lit (A : list (list val)) (vs : list val) : list (list val) * slice :=
  (A ++ [vs], Some (length A, length vs)).

(* var w []T; for _, v := range vs { w = append(w, v) }   (WrapRoundTripFunc) *)
Fixpoint sl_build (grow : nat -> nat -> nat) (A : list (list val)) (s : slice) (vs : list val)
  : list (list val) * slice :=
  match vs with
  | [] => (A, s)
  | v :: t => let '(A1, s1) := sl_append grow A s [v] in sl_build grow A1 s1 t
  end.

(* ---------- maps ---------- *)
Definition mp_view (A : list (list val)) (c : hmapcell) : mapcell :=
  map (fun kv => (fst kv, sl_read A (snd kv))) c.
Definition mp_cell (M : list hmapcell) (m : option nat) : hmapcell :=
  match m with None => [] | Some a => nth a M [] end.
Definition mp_read (A : list (list val)) (M : list hmapcell) (m : option nat) : mapcell := mp_view A (mp_cell M m).

(* the slice stored under key k (nil when absent) *)
Definition mp_slot (M : list hmapcell) (m : option nat) (k : val) : slice :=
  match nget k (mp_cell M m) with Some s => s | None => None end.
(* lazily make the map, then m[k] = s *)
Definition mp_put (M : list hmapcell) (m : option nat) (k : val) (s : slice) : list hmapcell * option nat :=
  match m with
  | None => (M ++ [[(k, s)]], Some (length M))
  | Some a => (upd_nth a (nset k s (nth a M [])) M, Some a)
  end.

(* cloneMap / cloneUrlValues / http.Header.Clone: nil stays nil, else a fresh map whose entries have
   fresh arrays holding exactly the values (the capacities Add leaves behind in the copy are not
   modelled: without sharing they cannot be observed) *)
Fixpoint clone_entries (A : list (list val)) (c : hmapcell) : list (list val) * hmapcell :=
  match c with
  | [] => (A, [])
  | (k, s) :: t =>
      let '(A1, s1) := sl_clone A s in
      let '(A2, t2) := clone_entries A1 t in
      (A2, (k, s1) :: t2)
  end.
Definition mp_clone (A : list (list val)) (M : list hmapcell) (m : option nat)
  : list (list val) * list hmapcell * option nat :=
  match m with
  | None => (A, M, None)
  | Some a => let '(A1, c1) := clone_entries A (nth a M []) in (A1, M ++ [c1], Some (length M))
  end.

(* ---------- objects: a client or a request ---------- *)
Inductive oid := OC (n : nat) | OR (n : nat).
Definition oid_eqb (a b : oid) : bool :=
  match a, b with
  | OC x, OC y => x =? y
  | OR x, OR y => x =? y
  | _, _ => false
  end.

(* slice fields, by index:   client                      request
     0  Transport.Cookies                                Request.Cookies
     1  Client.roundTripWrappers                         -
     2  Transport.httpRoundTripWrappers                  -
     3  Client.udBeforeRequest                           -
     4  Client.afterResponse (user part)                 Request.afterResponse
   map fields: 0 Headers  1 QueryParams  2 FormData  3 PathParams (both levels)
     5  http2 Settings (Transport.t2.Settings)           -
     6  http2 PriorityFrames                              -  *)
Definition NSL := 7.
Definition NMP := 4.
Definition F_COOKIES := 0.
Definition F_RTW := 1.
Definition F_TRW := 2.
Definition F_BEFORE := 3.
Definition F_AFTER := 4.
Definition F_H2SET := 5.
Definition F_H2PRIO := 6.

(* pointers into the boxes besides the cookie jar *)
Record oext := {
  e_dopt : option nat;                 (* Client.dumpOptions *)
  e_dumper : option nat;               (* Transport.Dump != nil: the *DumpOptions its Options wrap *)
  e_tls : option nat }.                (* Transport.TLSClientConfig *)
Definition oext0 : oext := {| e_dopt := None; e_dumper := None; e_tls := None |}.

Record obj := {
  o_sl : list slice;
  o_mp : list (option nat);
  o_rt : option nat;                   (* *retryOption *)
  o_chain : option (list val);         (* Client.wrappedRoundTrip: None = nil, Some l = closures wrapped in order l *)
  o_tchain : option (list val);        (* Transport.wrappedRoundTrip *)
  o_scal : list (val * val);           (* value-typed settings (BaseURL, Timeout, DebugLog, ...) *)
  o_jar : option nat;                  (* http.Client.Jar *)
  o_fact : bool;                       (* cookiejarFactory != nil *)
  o_par : nat;                         (* Request.client *)
  o_ext : oext }.

Definition obj0 : obj :=
  {| o_sl := repeat None NSL; o_mp := repeat None NMP; o_rt := None; o_chain := None; o_tchain := None;
     o_scal := []; o_jar := None; o_fact := false; o_par := 0; o_ext := oext0 |}.

Definition set_sl (o : obj) x := {| o_sl := x; o_mp := o_mp o; o_rt := o_rt o; o_chain := o_chain o;
  o_tchain := o_tchain o; o_scal := o_scal o; o_jar := o_jar o; o_fact := o_fact o; o_par := o_par o; o_ext := o_ext o |}.
Definition set_mp (o : obj) x := {| o_sl := o_sl o; o_mp := x; o_rt := o_rt o; o_chain := o_chain o;
  o_tchain := o_tchain o; o_scal := o_scal o; o_jar := o_jar o; o_fact := o_fact o; o_par := o_par o; o_ext := o_ext o |}.
Definition set_rt (o : obj) x := {| o_sl := o_sl o; o_mp := o_mp o; o_rt := x; o_chain := o_chain o;
  o_tchain := o_tchain o; o_scal := o_scal o; o_jar := o_jar o; o_fact := o_fact o; o_par := o_par o; o_ext := o_ext o |}.
Definition set_chain (o : obj) x := {| o_sl := o_sl o; o_mp := o_mp o; o_rt := o_rt o; o_chain := x;
  o_tchain := o_tchain o; o_scal := o_scal o; o_jar := o_jar o; o_fact := o_fact o; o_par := o_par o; o_ext := o_ext o |}.
Definition set_tchain (o : obj) x := {| o_sl := o_sl o; o_mp := o_mp o; o_rt := o_rt o; o_chain := o_chain o;
  o_tchain := x; o_scal := o_scal o; o_jar := o_jar o; o_fact := o_fact o; o_par := o_par o; o_ext := o_ext o |}.
Definition set_scal (o : obj) x := {| o_sl := o_sl o; o_mp := o_mp o; o_rt := o_rt o; o_chain := o_chain o;
  o_tchain := o_tchain o; o_scal := x; o_jar := o_jar o; o_fact := o_fact o; o_par := o_par o; o_ext := o_ext o |}.
Definition set_jar (o : obj) x f := {| o_sl := o_sl o; o_mp := o_mp o; o_rt := o_rt o; o_chain := o_chain o;
  o_tchain := o_tchain o; o_scal := o_scal o; o_jar := x; o_fact := f; o_par := o_par o; o_ext := o_ext o |}.

Definition set_ext (o : obj) x := {| o_sl := o_sl o; o_mp := o_mp o; o_rt := o_rt o; o_chain := o_chain o;
  o_tchain := o_tchain o; o_scal := o_scal o; o_jar := o_jar o; o_fact := o_fact o; o_par := o_par o; o_ext := x |}.

Record state := { hp : heap; objs : list (oid * obj) }.
Definition oget (id : oid) (l : list (oid * obj)) := aget oid_eqb id l.
Definition oset (id : oid) (o : obj) (l : list (oid * obj)) := aset oid_eqb id o l.

Definition init_state : state :=
  {| hp := {| arrs := []; maps := []; recs := []; jars := [] |}; objs := [] |}.

(* ---------- boxes ---------- *)
(* in-place edits of a box: field assignment, append a client certificate, add a root to the pool
   (x509.CertPool ignores a certificate it already holds) *)
Inductive bedit := ESet (i : nat) (v : val) | ECert (v : val) | ERoot (v : val).

Definition apply_edit (l : list val) (e : bedit) : list val :=
  match e with
  | ESet i v => upd_nth i v l
  | ECert v => let n := nth 1 l 0 in let l' := upd_nth 1 (S n) l in firstn (2 + n) l' ++ [v] ++ skipn (2 + n) l'
  | ERoot v => let n := nth 1 l 0 in if mem v (skipn (2 + n) l) then l else l ++ [v]
  end.
Definition apply_edits (es : list bedit) (l : list val) : list val := fold_left apply_edit es l.

(* &tls.Config{NextProtos: ...}: not insecure, no certificates, no RootCAs *)
Definition TLS0 : list val := [0; 0].
(* newDefaultDumpOptions: Output = os.Stdout (token 1), the four content flags on, not async *)
Definition DUMP0 : list val := [1; 1; 1; 1; 1; 0].

Definition bx_read (J : list (list val)) (p : option nat) : option (list val) :=
  match p with None => None | Some a => Some (nth a J []) end.
(* the pointer after `if p == nil { p = &default }` *)
Definition bx_get (J : list (list val)) (p : option nat) (dflt : list val) : list (list val) * nat :=
  match p with Some a => (J, a) | None => (J ++ [dflt], length J) end.
Definition bx_upd (J : list (list val)) (a : nat) (f : list val -> list val) : list (list val) :=
  upd_nth a (f (nth a J [])) J.

Definition set_dopt (e : oext) x := {| e_dopt := x; e_dumper := e_dumper e; e_tls := e_tls e |}.
Definition set_dumper (e : oext) x := {| e_dopt := e_dopt e; e_dumper := x; e_tls := e_tls e |}.
Definition set_tls (e : oext) x := {| e_dopt := e_dopt e; e_dumper := e_dumper e; e_tls := x |}.

(* ---------- setters (shared by both levels) ---------- *)
Inductive setter :=
| SAppend (f : nat) (vs : list val)      (* x = append(x, vs...): SetCommonCookies, OnBeforeRequest, OnAfterResponse, SetCookies *)
| SClearCookies                          (* ClearCookies: Cookies = nil, and a fresh jar if there is a factory *)
| SMapSet (f : nat) (k v : val)          (* m[k] = []string{v}: SetCommonHeader, SetCommonQueryParam, SetCommonFormData, SetCommonPathParam, request-level twins *)
| SMapAdd (f : nat) (k v : val)          (* m[k] = append(m[k], v): SetCommonHeaderNonCanonical, AddCommonQueryParam, ... *)
| SRetryCount (n : val) | SRetryInterval (x : val)
| SRetrySetHook (h : val) | SRetryAddHook (h : val)
| SRetrySetCond (c : val) | SRetryAddCond (c : val)
| SScal (k v : val)                      (* value-typed field *)
| SWrap (vs : list val)                  (* Client.WrapRoundTripFunc(vs...) *)
| STWrap (vs : list val)                 (* Transport.WrapRoundTripFunc(vs...) *)
| SJarFactory                            (* SetCookieJarFactory(f): fresh jar now and on every Clone *)
| SJarPlain                              (* SetCookieJar(fresh jar): no factory - shared by later clones *)
| SJarStore (ck : val)                   (* the jar records a cookie received by this client *)
| SSliceSet (f : nat) (vs : list val)    (* x = vs (the variadic slice itself): SetHTTP2SettingsFrame, SetHTTP2PriorityFrames *)
| STlsEdit (es : list bedit)             (* c.GetTLSClientConfig() then in-place edits: Enable/DisableInsecureSkipVerify, SetCerts, SetRootCertFromString *)
| STlsNew (l : list val)                 (* SetTLSClientConfig(a fresh config) *)
| SDumpAll                               (* EnableDumpAll: nothing when a Dumper runs, else EnableDump(c.getDumpOptions()) *)
| SDumpEnable (es : list bedit)          (* o := c.getDumpOptions(); edits; c.EnableDumpAll(): EnableDumpAllTo, ...Async, ...WithoutX *)
| SDumpDisable                           (* DisableDumpAll *)
| SDumpSetOpts (l : list val)            (* SetCommonDumpOptions(a fresh *DumpOptions with an explicit Output) *)
| SDumpTransport (l : list val)         (* c.GetTransport().EnableDump(a fresh *DumpOptions): a Dumper with options of its own *)
| SMapTouch (f : nat)                    (* the map is made without an entry: SetCommonPathParams(map[string]string{}), SetCommonQueryParams / SetCommonFormData with an empty map *)
| SJarNil.                               (* SetCookieJar(nil): no jar and no factory - cookies switched off, also for later clones *)

(* c.getRetryOption(): lazily allocate the default record *)
Definition get_retry (H : heap) (o : obj) : heap * obj * nat :=
  match o_rt o with
  | Some r => (H, o, r)
  | None => (with_recs H (recs H ++ [retry0]), set_rt o (Some (length (recs H))), length (recs H))
  end.

Definition rec_upd (H : heap) (r : nat) (f : retry -> retry) : heap :=
  with_recs H (upd_nth r (f (nth r (recs H) retry0)) (recs H)).

Definition wrap_chain (c : option (list val)) (vs : list val) : option (list val) :=
  Some (match c with None => [] | Some l => l end ++ vs).

Definition apply_setter (grow : nat -> nat -> nat) (H : heap) (o : obj) (s : setter) : heap * obj :=
  match s with
  | SAppend f vs =>
      let '(A, s') := sl_append grow (arrs H) (nth f (o_sl o) None) vs in
      (with_arrs H A, set_sl o (upd_nth f s' (o_sl o)))
  | SClearCookies =>
      let o1 := set_sl o (upd_nth F_COOKIES None (o_sl o)) in
      if o_fact o then (with_jars H (jars H ++ [[]]), set_jar o1 (Some (length (jars H))) true) else (H, o1)
  | SMapSet f k v =>
      let '(A, s') := sl_lit (arrs H) [v] in
      let '(M, m') := mp_put (maps H) (nth f (o_mp o) None) k s' in
      (with_maps (with_arrs H A) M, set_mp o (upd_nth f m' (o_mp o)))
  | SMapAdd f k v =>
      let '(A, s') := sl_append grow (arrs H) (mp_slot (maps H) (nth f (o_mp o) None) k) [v] in
      let '(M, m') := mp_put (maps H) (nth f (o_mp o) None) k s' in
      (with_maps (with_arrs H A) M, set_mp o (upd_nth f m' (o_mp o)))
  | SRetryCount n =>
      let '(H1, o1, r) := get_retry H o in
      (rec_upd H1 r (fun x => {| r_max := n; r_int := r_int x; r_conds := r_conds x; r_hooks := r_hooks x |}), o1)
  | SRetryInterval i =>
      let '(H1, o1, r) := get_retry H o in
      (rec_upd H1 r (fun x => {| r_max := r_max x; r_int := i; r_conds := r_conds x; r_hooks := r_hooks x |}), o1)
  | SRetrySetHook h =>
      let '(H1, o1, r) := get_retry H o in
      let '(A, s') := sl_lit (arrs H1) [h] in
      (rec_upd (with_arrs H1 A) r (fun x => {| r_max := r_max x; r_int := r_int x; r_conds := r_conds x; r_hooks := s' |}), o1)
  | SRetryAddHook h =>
      let '(H1, o1, r) := get_retry H o in
      let '(A, s') := sl_append grow (arrs H1) (r_hooks (nth r (recs H1) retry0)) [h] in
      (rec_upd (with_arrs H1 A) r (fun x => {| r_max := r_max x; r_int := r_int x; r_conds := r_conds x; r_hooks := s' |}), o1)
  | SRetrySetCond c =>
      let '(H1, o1, r) := get_retry H o in
      let '(A, s') := sl_lit (arrs H1) [c] in
      (rec_upd (with_arrs H1 A) r (fun x => {| r_max := r_max x; r_int := r_int x; r_conds := s'; r_hooks := r_hooks x |}), o1)
  | SRetryAddCond c =>
      let '(H1, o1, r) := get_retry H o in
      let '(A, s') := sl_append grow (arrs H1) (r_conds (nth r (recs H1) retry0)) [c] in
      (rec_upd (with_arrs H1 A) r (fun x => {| r_max := r_max x; r_int := r_int x; r_conds := s'; r_hooks := r_hooks x |}), o1)
  | SScal k v => (H, set_scal o (nset k v (o_scal o)))
  | SWrap vs =>
      (* client.go WrapRoundTrip: first call adopts the freshly built slice, later calls append *)
      match vs with
      | [] => (H, o)
      | _ :: _ =>
        let '(A1, w) := sl_build grow (arrs H) None vs in
        match o_chain o with
        | None => (with_arrs H A1, set_chain (set_sl o (upd_nth F_RTW w (o_sl o))) (wrap_chain None vs))
        | Some _ =>
            let '(A2, s') := sl_append grow A1 (nth F_RTW (o_sl o) None) vs in
            (with_arrs H A2, set_chain (set_sl o (upd_nth F_RTW s' (o_sl o))) (wrap_chain (o_chain o) vs))
        end
      end
  | STWrap vs =>
      match vs with
      | [] => (H, o)
      | _ :: _ =>
        let '(A1, w) := sl_build grow (arrs H) None vs in
        match o_tchain o with
        | None => (with_arrs H A1, set_tchain (set_sl o (upd_nth F_TRW w (o_sl o))) (wrap_chain None vs))
        | Some _ =>
            let '(A2, s') := sl_append grow A1 (nth F_TRW (o_sl o) None) vs in
            (with_arrs H A2, set_tchain (set_sl o (upd_nth F_TRW s' (o_sl o))) (wrap_chain (o_tchain o) vs))
        end
      end
  | SJarFactory => (with_jars H (jars H ++ [[]]), set_jar o (Some (length (jars H))) true)
  | SJarPlain => (with_jars H (jars H ++ [[]]), set_jar o (Some (length (jars H))) false)
  | SJarStore ck =>
      match o_jar o with
      | None => (H, o)
      | Some j => (with_jars H (upd_nth j (nth j (jars H) [] ++ [ck]) (jars H)), o)
      end
  | SSliceSet f vs =>
      let '(A, s') := sl_lit (arrs H) vs in
      (with_arrs H A, set_sl o (upd_nth f s' (o_sl o)))
  | STlsEdit es =>
      let '(J, a) := bx_get (jars H) (e_tls (o_ext o)) TLS0 in
      (with_jars H (bx_upd J a (apply_edits es)), set_ext o (set_tls (o_ext o) (Some a)))
  | STlsNew l =>
      (with_jars H (jars H ++ [l]), set_ext o (set_tls (o_ext o) (Some (length (jars H)))))
  | SDumpAll =>
      match e_dumper (o_ext o) with
      | Some _ => (H, o)
      | None =>
          let '(J, a) := bx_get (jars H) (e_dopt (o_ext o)) DUMP0 in
          (with_jars H J, set_ext o (set_dumper (set_dopt (o_ext o) (Some a)) (Some a)))
      end
  | SDumpEnable es =>
      let '(J, a) := bx_get (jars H) (e_dopt (o_ext o)) DUMP0 in
      (* EnableDumpAll: a running Dumper is left alone, otherwise newDumper wraps the very same *DumpOptions *)
      let d := match e_dumper (o_ext o) with Some b => Some b | None => Some a end in
      (with_jars H (bx_upd J a (apply_edits es)), set_ext o (set_dumper (set_dopt (o_ext o) (Some a)) d))
  | SDumpDisable => (H, set_ext o (set_dumper (o_ext o) None))
  | SDumpSetOpts l =>
      let a := length (jars H) in
      let d := match e_dumper (o_ext o) with Some _ => Some a | None => None end in
      (with_jars H (jars H ++ [l]), set_ext o (set_dumper (set_dopt (o_ext o) (Some a)) d))
  | SDumpTransport l =>
      (with_jars H (jars H ++ [l]), set_ext o (set_dumper (o_ext o) (Some (length (jars H)))))
  | SMapTouch f =>
      match nth f (o_mp o) None with
      | Some _ => (H, o)
      | None => (with_maps H (maps H ++ [[]]), set_mp o (upd_nth f (Some (length (maps H))) (o_mp o)))
      end
  | SJarNil => (H, set_jar o None false)
  end.

(* ---------- Clone ---------- *)
(* per-field treatment in Client.Clone/Transport.Clone: true = deep copy, false = the clone keeps
   the original's reference.  Regenerated from the Go source into Gen/CloneTable.v *)
Record ctbl := {
  t_sl : list bool; t_mp : list bool; t_rt : bool;
  t_scal : list nat;       (* value-typed settings carried over to the clone *)
  t_jar : bool;            (* Clone calls initCookieJar: a jar made by a factory is made anew *)
  t_dopt : bool;           (* Client.dumpOptions cloned *)
  t_dumper : bool;         (* Options.Clone clones the running Dumper (with its options) *)
  t_link : bool;           (* Clone points the cloned Dumper at the clone's dumpOptions when the original's were wired *)
  t_tls : bool }.          (* Options.Clone: TLSClientConfig.Clone() + own Certificates array + own RootCAs pool *)
Definition NSCAL := 22.
Definition SCAL_KEYS : list nat := seq 0 NSCAL.
Definition deep_tbl : ctbl :=
  {| t_sl := repeat true NSL; t_mp := repeat true NMP; t_rt := true; t_scal := SCAL_KEYS;
     t_jar := true; t_dopt := true; t_dumper := true; t_link := true; t_tls := true |}.
(* the code as pinned: roundTripWrappers (cc := *c) and httpRoundTripWrappers (copied header) shared,
   the cloned Dumper not wired to the clone's dumpOptions *)
Definition pinned_tbl : ctbl :=
  {| t_sl := [true; false; false; true; true; true; true]; t_mp := repeat true NMP; t_rt := true; t_scal := SCAL_KEYS;
     t_jar := true; t_dopt := true; t_dumper := true; t_link := false; t_tls := true |}.

Fixpoint clone_sls (modes : list bool) (A : list (list val)) (l : list slice) : list (list val) * list slice :=
  match l with
  | [] => (A, [])
  | s :: t =>
      let '(A1, s1) := if hd true modes then sl_clone A s else (A, s) in
      let '(A2, t2) := clone_sls (tl modes) A1 t in
      (A2, s1 :: t2)
  end.

Fixpoint clone_mps (modes : list bool) (A : list (list val)) (M : list hmapcell) (l : list (option nat))
  : list (list val) * list hmapcell * list (option nat) :=
  match l with
  | [] => (A, M, [])
  | m :: t =>
      let '(A1, M1, m1) := if hd true modes then mp_clone A M m else (A, M, m) in
      let '(A2, M2, t2) := clone_mps (tl modes) A1 M1 t in
      (A2, M2, m1 :: t2)
  end.

(* retryOption.Clone: nil stays nil; fresh record; both slices via append(nil, src...) *)
Definition rt_clone (grow : nat -> nat -> nat) (H : heap) (r : option nat) : heap * option nat :=
  match r with
  | None => (H, None)
  | Some a =>
      let x := nth a (recs H) retry0 in
      let '(A1, c1) := sl_append grow (arrs H) None (sl_read (arrs H) (r_conds x)) in
      let '(A2, h1) := sl_append grow A1 None (sl_read A1 (r_hooks x)) in
      (with_recs (with_arrs H A2)
         (recs H ++ [{| r_max := r_max x; r_int := r_int x; r_conds := c1; r_hooks := h1 |}]),
       Some (length (recs H)))
  end.

Definition bx_clone (J : list (list val)) (p : option nat) : list (list val) * option nat :=
  match p with None => (J, None) | Some a => (J ++ [nth a J []], Some (length J)) end.
Definition opn_eqb (a b : option nat) : bool :=
  match a, b with Some x, Some y => x =? y | None, None => true | _, _ => false end.

(* the boxes of a clone: cookie jar, TLS config, dumpOptions, the Dumper's options *)
Definition clone_boxes (tbl : ctbl) (J : list (list val)) (o : obj) : list (list val) * option nat * oext :=
  (* initCookieJar: a factory makes a fresh jar, otherwise the http.Client copy keeps the pointer *)
  let '(J3, jar) := if o_fact o && t_jar tbl then (J ++ [[]], Some (length J)) else (J, o_jar o) in
  (* Options.Clone: TLSClientConfig *)
  let '(J4, tls) := if t_tls tbl then bx_clone J3 (e_tls (o_ext o)) else (J3, e_tls (o_ext o)) in
  (* Client.dumpOptions, then the Dumper's options: the clone's own dumpOptions when the original's were
     the ones its Dumper reads, a copy of the Dumper's otherwise *)
  let '(J5, dopt) := if t_dopt tbl then bx_clone J4 (e_dopt (o_ext o)) else (J4, e_dopt (o_ext o)) in
  let '(J6, dumper) :=
    match e_dumper (o_ext o) with
    | None => (J5, None)
    | Some b =>
        if t_link tbl && opn_eqb (e_dopt (o_ext o)) (Some b) then (J5, dopt)
        else if t_dumper tbl then bx_clone J5 (Some b) else (J5, Some b)
    end in
  (J6, jar, {| e_dopt := dopt; e_dumper := dumper; e_tls := tls |}).

Definition clone_obj (grow : nat -> nat -> nat) (tbl : ctbl) (H : heap) (o : obj) : heap * obj :=
  (* the wrapper chains are rebuilt from the (possibly shared) slices as found at Clone time *)
  let rtw := sl_read (arrs H) (nth F_RTW (o_sl o) None) in
  let trw := sl_read (arrs H) (nth F_TRW (o_sl o) None) in
  let chain := match rtw with [] => o_chain o | _ => Some rtw end in
  let tchain := match trw with [] => None | _ => Some trw end in
  let '(A1, sls) := clone_sls (t_sl tbl) (arrs H) (o_sl o) in
  let '(A1', M1, mps) := clone_mps (t_mp tbl) A1 (maps H) (o_mp o) in
  let H1 := with_maps (with_arrs H A1') M1 in
  let '(H2, rt) := if t_rt tbl then rt_clone grow H1 (o_rt o) else (H1, o_rt o) in
  let '(J6, jar, x) := clone_boxes tbl (jars H2) o in
  (with_jars H2 J6,
   {| o_sl := sls; o_mp := mps; o_rt := rt; o_chain := chain; o_tchain := tchain;
      o_scal := filter (fun kv => mem (fst kv) (t_scal tbl)) (o_scal o);
      o_jar := jar; o_fact := o_fact o; o_par := o_par o; o_ext := x |}).

(* Client.R(): a request holding a clone of the client's retry option *)
Definition new_req (grow : nat -> nat -> nat) (H : heap) (c : nat) (co : obj) : heap * obj :=
  let '(H1, rt) := rt_clone grow H (o_rt co) in
  (H1, {| o_sl := repeat None NSL; o_mp := repeat None NMP; o_rt := rt; o_chain := None; o_tchain := None;
          o_scal := []; o_jar := None; o_fact := false; o_par := c; o_ext := oext0 |}).

(* req.C(): afterResponse = []ResponseMiddleware{parseResponseBody, handleDownload} (tokens 100, 101),
   cookiejarFactory = memoryCookieJarFactory + initCookieJar *)
Definition INTERNAL_AFTER : list val := [100; 101].
Definition new_client (H : heap) : heap * obj :=
  let '(A, s) := sl_lit (arrs H) INTERNAL_AFTER in
  (* T(): TLSClientConfig = &tls.Config{NextProtos: ...} *)
  (with_jars (with_arrs H A) (jars H ++ [[]; TLS0]),
   {| o_sl := upd_nth F_AFTER s (repeat None NSL); o_mp := repeat None NMP; o_rt := None; o_chain := None;
      o_tchain := None; o_scal := []; o_jar := Some (length (jars H)); o_fact := true; o_par := 0;
      o_ext := {| e_dopt := None; e_dumper := None; e_tls := Some (S (length (jars H))) |} |}).

(* ---------- programs ---------- *)
Inductive op :=
| ONewClient (c : nat)                 (* c = req.C() with the harness's base configuration *)
| OSet (o : oid) (s : setter)
| OClone (src dst : nat)               (* dst = src.Clone() *)
| ONewReq (c r : nat)                  (* r = c.R() *)
| OExec (r : nat).                     (* r.Do(): observation only (requests are executed once) *)

Definition step (grow : nat -> nat -> nat) (tbl : ctbl) (st : state) (o : op) : state :=
  match o with
  | ONewClient c => let '(H, ob) := new_client (hp st) in {| hp := H; objs := oset (OC c) ob (objs st) |}
  | OSet id s =>
      match oget id (objs st) with
      | None => st
      | Some ob => let '(H, ob') := apply_setter grow (hp st) ob s in {| hp := H; objs := oset id ob' (objs st) |}
      end
  | OClone src dst =>
      match oget (OC src) (objs st) with
      | None => st
      | Some ob => let '(H, ob') := clone_obj grow tbl (hp st) ob in {| hp := H; objs := oset (OC dst) ob' (objs st) |}
      end
  | ONewReq c r =>
      match oget (OC c) (objs st) with
      | None => st
      | Some ob => let '(H, ob') := new_req grow (hp st) c ob in {| hp := H; objs := oset (OR r) ob' (objs st) |}
      end
  | OExec _ => st
  end.

Definition run (grow : nat -> nat -> nat) (tbl : ctbl) (p : list op) (st : state) : state :=
  fold_left (step grow tbl) p st.

(* ================= the value view ================= *)
Record vretry := { vr_max : val; vr_int : val; vr_conds : list val; vr_hooks : list val }.
Definition vretry0 : vretry := {| vr_max := 0; vr_int := 0; vr_conds := []; vr_hooks := [] |}.

(* the running Dumper: none, reading the client's own dumpOptions, or options of its own *)
Inductive vdump := DOff | DLinked | DOwn (l : list val).
Record vext := { x_dopt : option (list val); x_dumper : vdump; x_tls : option (list val) }.
Definition vext0 : vext := {| x_dopt := None; x_dumper := DOff; x_tls := None |}.

Record vobj := {
  v_sl : list (list val);
  v_mp : list mapcell;
  v_rt : vretry;
  v_chain : option (list val);
  v_tchain : option (list val);
  v_scal : list (val * val);
  v_jar : option (list val);
  v_fact : bool;
  v_par : nat;
  v_ext : vext }.

Definition rt_read (H : heap) (r : option nat) : vretry :=
  match r with
  | None => vretry0
  | Some a => let x := nth a (recs H) retry0 in
      {| vr_max := r_max x; vr_int := r_int x;
         vr_conds := sl_read (arrs H) (r_conds x); vr_hooks := sl_read (arrs H) (r_hooks x) |}
  end.

Definition jar_read (H : heap) (j : option nat) : option (list val) :=
  match j with None => None | Some a => Some (nth a (jars H) []) end.

Definition abs_ext (J : list (list val)) (e : oext) : vext :=
  {| x_dopt := bx_read J (e_dopt e);
     x_dumper := match e_dumper e with
                 | None => DOff
                 | Some b => if opn_eqb (e_dopt e) (Some b) then DLinked else DOwn (nth b J [])
                 end;
     x_tls := bx_read J (e_tls e) |}.

(* what an object looks like when read through its references *)
Definition abs_obj (H : heap) (o : obj) : vobj :=
  {| v_sl := map (sl_read (arrs H)) (o_sl o);
     v_mp := map (mp_read (arrs H) (maps H)) (o_mp o);
     v_rt := rt_read H (o_rt o);
     v_chain := o_chain o; v_tchain := o_tchain o; v_scal := o_scal o;
     v_jar := jar_read H (o_jar o); v_fact := o_fact o; v_par := o_par o;
     v_ext := abs_ext (jars H) (o_ext o) |}.

Definition view (st : state) (id : oid) : option vobj :=
  match oget id (objs st) with None => None | Some o => Some (abs_obj (hp st) o) end.

(* ---------- Exec: the effective description of the request a client emits ---------- *)
Fixpoint ins_key {B} (k : nat) (x : B) (l : list (nat * B)) : list (nat * B) :=
  match l with
  | [] => [(k, x)]
  | (j, y) :: t => if k <=? j then (k, x) :: l else (j, y) :: ins_key k x t
  end.
Fixpoint sort_keys {B} (l : list (nat * B)) : list (nat * B) :=
  match l with [] => [] | (k, x) :: t => ins_key k x (sort_keys t) end.

Definition flat_kv (l : list (nat * list val)) : list val :=
  concat (map (fun kv => fst kv :: length (snd kv) :: snd kv) (sort_keys l)).

Definition nonempty_keys (m : mapcell) : list nat :=
  map fst (filter (fun kv => match snd kv with [] => false | _ => true end) m).

(* request-level values win per key (parseRequestHeader, parseRequestURL query.Del, path params) *)
Definition merge_override (r c : mapcell) : mapcell :=
  filter (fun kv => match snd kv with [] => false | _ => true end) r
  ++ filter (fun kv => negb (mem (fst kv) (nonempty_keys r))) c.
(* form data: the client's values are ADDED to the request's (parseRequestBody -> SetFormDataFromValues) *)
Definition merge_add (r c : mapcell) : mapcell :=
  map (fun kv => (fst kv, snd kv ++ nget_list (fst kv) c)) r
  ++ filter (fun kv => negb (mem (fst kv) (map fst r))) c.

Definition chain_list (c : option (list val)) : list val := match c with None => [] | Some l => rev l end.

Definition scal_view (l : list (val * val)) : list val :=
  map (fun k => match nget k l with Some v => v | None => 0 end) SCAL_KEYS.

Definition describe (c r : vobj) : list (list val) :=
  [ flat_kv (merge_override (nth 0 (v_mp r) []) (nth 0 (v_mp c) []));      (* headers *)
    flat_kv (merge_override (nth 1 (v_mp r) []) (nth 1 (v_mp c) []));      (* query *)
    flat_kv (merge_add (nth 2 (v_mp r) []) (nth 2 (v_mp c) []));           (* form *)
    flat_kv (merge_override (nth 3 (v_mp r) []) (nth 3 (v_mp c) []));      (* path params *)
    nth F_COOKIES (v_sl r) [] ++ nth F_COOKIES (v_sl c) [];                (* explicit cookies: request's, then client's *)
    match v_jar c with None => [0] | Some l => 1 :: l end;                 (* cookie jar of the client *)
    nth F_BEFORE (v_sl c) [];                                              (* udBeforeRequest, in order *)
    chain_list (v_chain c);                                                (* client wrappers, outermost first *)
    chain_list (v_tchain c);                                               (* transport wrappers, outermost first *)
    nth F_AFTER (v_sl c) [] ++ nth F_AFTER (v_sl r) [];                    (* afterResponse: client's, then request's *)
    [vr_max (v_rt r); vr_int (v_rt r)] ;
    vr_conds (v_rt r); vr_hooks (v_rt r);
    scal_view (v_scal c);
    nth F_H2SET (v_sl c) [];                                               (* http2 SETTINGS frame *)
    nth F_H2PRIO (v_sl c) [];                                              (* http2 PRIORITY frames *)
    match x_dumper (v_ext c) with                                          (* what the client-level dump does *)
    | DOff => [0]
    | DLinked => 1 :: match x_dopt (v_ext c) with Some l => l | None => [] end
    | DOwn l => 1 :: l
    end;
    match x_dopt (v_ext c) with None => [0] | Some l => 1 :: l end;        (* what the dump setters write *)
    match x_dumper (v_ext c) with DLinked => [1] | _ => [0] end;
    match x_tls (v_ext c) with None => [0] | Some l => 1 :: l end ].      (* TLS client config *)

Definition vobj0 : vobj :=
  {| v_sl := repeat [] NSL; v_mp := repeat [] NMP; v_rt := vretry0; v_chain := None; v_tchain := None;
     v_scal := []; v_jar := None; v_fact := false; v_par := 0; v_ext := vext0 |}.

Definition vclient0 : vobj :=
  {| v_sl := upd_nth F_AFTER INTERNAL_AFTER (repeat [] NSL); v_mp := repeat [] NMP; v_rt := vretry0; v_chain := None;
     v_tchain := None; v_scal := []; v_jar := Some []; v_fact := true; v_par := 0;
     v_ext := {| x_dopt := None; x_dumper := DOff; x_tls := Some TLS0 |} |}.

(* a fresh request of client c: empty but for the client's retry option, copied at R() *)
Definition vnew_req (c : nat) (vc : vobj) : vobj :=
  {| v_sl := repeat [] NSL; v_mp := repeat [] NMP; v_rt := v_rt vc; v_chain := None; v_tchain := None;
     v_scal := []; v_jar := None; v_fact := false; v_par := c; v_ext := vext0 |}.

(* Exec of request r (reads the request and ITS client through their references) *)
Definition exec (st : state) (r : nat) : option (list (list val)) :=
  match view st (OR r) with
  | None => None
  | Some vr => match view st (OC (v_par vr)) with None => None | Some vc => Some (describe vc vr) end
  end.

(* the probe: a fresh request created and executed on client c *)
Definition probe (st : state) (c : nat) : option (list (list val)) :=
  match view st (OC c) with None => None | Some vc => Some (describe vc (vnew_req c vc)) end.

(* ================= the naive value model: every object a plain value, Clone = copy ================= *)
Definition vset_sl (o : vobj) x := {| v_sl := x; v_mp := v_mp o; v_rt := v_rt o; v_chain := v_chain o;
  v_tchain := v_tchain o; v_scal := v_scal o; v_jar := v_jar o; v_fact := v_fact o; v_par := v_par o; v_ext := v_ext o |}.
Definition vset_mp (o : vobj) x := {| v_sl := v_sl o; v_mp := x; v_rt := v_rt o; v_chain := v_chain o;
  v_tchain := v_tchain o; v_scal := v_scal o; v_jar := v_jar o; v_fact := v_fact o; v_par := v_par o; v_ext := v_ext o |}.
Definition vset_rt (o : vobj) x := {| v_sl := v_sl o; v_mp := v_mp o; v_rt := x; v_chain := v_chain o;
  v_tchain := v_tchain o; v_scal := v_scal o; v_jar := v_jar o; v_fact := v_fact o; v_par := v_par o; v_ext := v_ext o |}.
Definition vset_chain (o : vobj) x := {| v_sl := v_sl o; v_mp := v_mp o; v_rt := v_rt o; v_chain := x;
  v_tchain := v_tchain o; v_scal := v_scal o; v_jar := v_jar o; v_fact := v_fact o; v_par := v_par o; v_ext := v_ext o |}.
Definition vset_tchain (o : vobj) x := {| v_sl := v_sl o; v_mp := v_mp o; v_rt := v_rt o; v_chain := v_chain o;
  v_tchain := x; v_scal := v_scal o; v_jar := v_jar o; v_fact := v_fact o; v_par := v_par o; v_ext := v_ext o |}.
Definition vset_scal (o : vobj) x := {| v_sl := v_sl o; v_mp := v_mp o; v_rt := v_rt o; v_chain := v_chain o;
  v_tchain := v_tchain o; v_scal := x; v_jar := v_jar o; v_fact := v_fact o; v_par := v_par o; v_ext := v_ext o |}.
Definition vset_jar (o : vobj) x f := {| v_sl := v_sl o; v_mp := v_mp o; v_rt := v_rt o; v_chain := v_chain o;
  v_tchain := v_tchain o; v_scal := v_scal o; v_jar := x; v_fact := f; v_par := v_par o; v_ext := v_ext o |}.

Definition vset_ext (o : vobj) x := {| v_sl := v_sl o; v_mp := v_mp o; v_rt := v_rt o; v_chain := v_chain o;
  v_tchain := v_tchain o; v_scal := v_scal o; v_jar := v_jar o; v_fact := v_fact o; v_par := v_par o; v_ext := x |}.
Definition xset_dopt (e : vext) x := {| x_dopt := x; x_dumper := x_dumper e; x_tls := x_tls e |}.
Definition xset_dumper (e : vext) x := {| x_dopt := x_dopt e; x_dumper := x; x_tls := x_tls e |}.
Definition xset_tls (e : vext) x := {| x_dopt := x_dopt e; x_dumper := x_dumper e; x_tls := x |}.
Definition odflt (p : option (list val)) (d : list val) : list val := match p with Some l => l | None => d end.

Definition vapply (o : vobj) (s : setter) : vobj :=
  match s with
  | SAppend f vs => vset_sl o (upd_nth f (nth f (v_sl o) [] ++ vs) (v_sl o))
  | SClearCookies =>
      let o1 := vset_sl o (upd_nth F_COOKIES [] (v_sl o)) in
      if v_fact o then vset_jar o1 (Some []) true else o1
  | SMapSet f k v => vset_mp o (upd_nth f (nset k [v] (nth f (v_mp o) [])) (v_mp o))
  | SMapAdd f k v => vset_mp o (upd_nth f (nset k (nget_list k (nth f (v_mp o) []) ++ [v]) (nth f (v_mp o) [])) (v_mp o))
  | SRetryCount n => vset_rt o {| vr_max := n; vr_int := vr_int (v_rt o); vr_conds := vr_conds (v_rt o); vr_hooks := vr_hooks (v_rt o) |}
  | SRetryInterval i => vset_rt o {| vr_max := vr_max (v_rt o); vr_int := i; vr_conds := vr_conds (v_rt o); vr_hooks := vr_hooks (v_rt o) |}
  | SRetrySetHook h => vset_rt o {| vr_max := vr_max (v_rt o); vr_int := vr_int (v_rt o); vr_conds := vr_conds (v_rt o); vr_hooks := [h] |}
  | SRetryAddHook h => vset_rt o {| vr_max := vr_max (v_rt o); vr_int := vr_int (v_rt o); vr_conds := vr_conds (v_rt o); vr_hooks := vr_hooks (v_rt o) ++ [h] |}
  | SRetrySetCond c => vset_rt o {| vr_max := vr_max (v_rt o); vr_int := vr_int (v_rt o); vr_conds := [c]; vr_hooks := vr_hooks (v_rt o) |}
  | SRetryAddCond c => vset_rt o {| vr_max := vr_max (v_rt o); vr_int := vr_int (v_rt o); vr_conds := vr_conds (v_rt o) ++ [c]; vr_hooks := vr_hooks (v_rt o) |}
  | SScal k v => vset_scal o (nset k v (v_scal o))
  | SWrap vs =>
      match vs with
      | [] => o
      | _ :: _ =>
        match v_chain o with
        | None => vset_chain (vset_sl o (upd_nth F_RTW vs (v_sl o))) (wrap_chain None vs)
        | Some _ => vset_chain (vset_sl o (upd_nth F_RTW (nth F_RTW (v_sl o) [] ++ vs) (v_sl o))) (wrap_chain (v_chain o) vs)
        end
      end
  | STWrap vs =>
      match vs with
      | [] => o
      | _ :: _ =>
        match v_tchain o with
        | None => vset_tchain (vset_sl o (upd_nth F_TRW vs (v_sl o))) (wrap_chain None vs)
        | Some _ => vset_tchain (vset_sl o (upd_nth F_TRW (nth F_TRW (v_sl o) [] ++ vs) (v_sl o))) (wrap_chain (v_tchain o) vs)
        end
      end
  | SJarFactory => vset_jar o (Some []) true
  | SJarPlain => vset_jar o (Some []) false
  | SJarStore ck => match v_jar o with None => o | Some l => vset_jar o (Some (l ++ [ck])) (v_fact o) end
  | SSliceSet f vs => vset_sl o (upd_nth f vs (v_sl o))
  | STlsEdit es => vset_ext o (xset_tls (v_ext o) (Some (apply_edits es (odflt (x_tls (v_ext o)) TLS0))))
  | STlsNew l => vset_ext o (xset_tls (v_ext o) (Some l))
  | SDumpAll =>
      match x_dumper (v_ext o) with
      | DOff => vset_ext o (xset_dumper (xset_dopt (v_ext o) (Some (odflt (x_dopt (v_ext o)) DUMP0))) DLinked)
      | _ => o
      end
  | SDumpEnable es =>
      vset_ext o (xset_dumper (xset_dopt (v_ext o) (Some (apply_edits es (odflt (x_dopt (v_ext o)) DUMP0))))
                              (match x_dumper (v_ext o) with DOff => DLinked | d => d end))
  | SDumpDisable => vset_ext o (xset_dumper (v_ext o) DOff)
  | SDumpSetOpts l =>
      vset_ext o (xset_dumper (xset_dopt (v_ext o) (Some l)) (match x_dumper (v_ext o) with DOff => DOff | _ => DLinked end))
  | SDumpTransport l => vset_ext o (xset_dumper (v_ext o) (DOwn l))
  | SMapTouch f => vset_mp o (upd_nth f (nth f (v_mp o) []) (v_mp o))      (* no entry: reads as before *)
  | SJarNil => vset_jar o None false
  end.

(* deep copy; the wrapper chains are rebuilt from the wrapper lists; a factory jar starts empty *)
Definition vclone (o : vobj) : vobj :=
  {| v_sl := v_sl o; v_mp := v_mp o; v_rt := v_rt o;
     v_chain := match nth F_RTW (v_sl o) [] with [] => v_chain o | l => Some l end;
     v_tchain := match nth F_TRW (v_sl o) [] with [] => None | l => Some l end;
     v_scal := filter (fun kv => mem (fst kv) SCAL_KEYS) (v_scal o);
     v_jar := if v_fact o then Some [] else v_jar o;
     v_fact := v_fact o; v_par := v_par o; v_ext := v_ext o |}.

Definition vstate := list (oid * vobj).
Definition vget (id : oid) (l : vstate) := aget oid_eqb id l.
Definition vset (id : oid) (o : vobj) (l : vstate) := aset oid_eqb id o l.

Definition vstep (vs : vstate) (o : op) : vstate :=
  match o with
  | ONewClient c => vset (OC c) vclient0 vs
  | OSet id s => match vget id vs with None => vs | Some ob => vset id (vapply ob s) vs end
  | OClone src dst => match vget (OC src) vs with None => vs | Some ob => vset (OC dst) (vclone ob) vs end
  | ONewReq c r => match vget (OC c) vs with None => vs | Some ob => vset (OR r) (vnew_req c ob) vs end
  | OExec _ => vs
  end.
Definition vrun (p : list op) (vs : vstate) : vstate := fold_left vstep p vs.

Definition vprobe (vs : vstate) (c : nat) : option (list (list val)) :=
  match vget (OC c) vs with None => None | Some vc => Some (describe vc (vnew_req c vc)) end.
Definition vexec (vs : vstate) (r : nat) : option (list (list val)) :=
  match vget (OR r) vs with
  | None => None
  | Some vr => match vget (OC (v_par vr)) vs with None => None | Some vc => Some (describe vc vr) end
  end.

Definition abs_state (st : state) : vstate := map (fun io => (fst io, abs_obj (hp st) (snd io))) (objs st).

(* ---------- Go's append growth (runtime.growslice + malloc size classes), pointer-sized elements ---------- *)
Definition size_classes : list nat :=
  [8; 16; 24; 32; 48; 64; 80; 96; 112; 128; 144; 160; 176; 192; 208; 224; 240; 256; 288; 320; 352; 384;
   416; 448; 480; 512; 576; 640; 704; 768; 896; 1024; 1152; 1280; 1408; 1536; 1792; 2048].
Fixpoint roundup (cls : list nat) (n : nat) : nat :=
  match cls with [] => n | c :: t => if n <=? c then c else roundup t n end.
Definition go_grow (esize : nat) (oldcap newlen : nat) : nat :=
  let newcap := if 2 * oldcap <? newlen then newlen else 2 * oldcap in   (* oldcap < 256 in everything generated *)
  Nat.max newlen (roundup size_classes (newcap * esize) / esize).
Definition go_grow8 := go_grow 8.
