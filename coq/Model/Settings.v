(* Model/Settings.v - C19: setting scope and clone independence.

   A store of clients and requests over a small heap with Go's REFERENCE semantics for the
   reference-typed fields of req.Client / req.Transport / req.Request:

     arrays  backing arrays of slices; a slice value is (array address, len), cap = size of the
             array cell (all slices involved start at offset 0); nil = None; Go's append rule
             (in place when len+n <= cap, otherwise a fresh array of the grown capacity)
     maps    Go maps string -> []string (Headers, QueryParams, FormData, PathParams); a map
             value is an address or nil; setters mutate the cell in place
     recs    *retryOption records (two scalars, two slices)
     jars    cookie jars behind http.Client.Jar (in-place SetCookies)

   Strings, cookies, middleware / wrapper / hook identities are tokens (nat): the harness
   numbers the finite pools it draws from.

   Operations: the client- and request-level setters (by field kind), R(), Clone() - field by
   field as Client.Clone / Transport.Clone / Options.Clone / retryOption.Clone do it, with the
   per-field treatment (deep copy or shared reference) taken from a TABLE that gosync
   regenerates from the Go source (Gen/CloneTable.v) - and Exec, the effective description
   of the request a client emits.

   The second half is the naive VALUE model (every client a plain value, Clone = copy); the
   proofs show the heap model refines it whenever the table says "deep" for every field.
   No proofs in this file. *)
From Coq Require Import List Arith Bool.
Import ListNotations.

Definition val := nat.
Definition slice := option (nat * nat).

(* ---------- generic list helpers ---------- *)
Fixpoint upd_nth {A} (n : nat) (x : A) (l : list A) : list A :=
  match l, n with
  | [], _ => []
  | _ :: t, 0 => x :: t
  | h :: t, S n' => h :: upd_nth n' x t
  end.

Fixpoint mem (k : nat) (l : list nat) : bool :=
  match l with [] => false | x :: t => (x =? k) || mem k t end.

(* association lists with unique keys: replace in place or append *)
Fixpoint aset {A B} (eqb : A -> A -> bool) (k : A) (x : B) (l : list (A * B)) : list (A * B) :=
  match l with
  | [] => [(k, x)]
  | (j, y) :: t => if eqb j k then (j, x) :: t else (j, y) :: aset eqb k x t
  end.
Fixpoint aget {A B} (eqb : A -> A -> bool) (k : A) (l : list (A * B)) : option B :=
  match l with
  | [] => None
  | (j, y) :: t => if eqb j k then Some y else aget eqb k t
  end.
Definition nset {B} := @aset nat B Nat.eqb.
Definition nget {B} := @aget nat B Nat.eqb.
Definition nget_list (k : nat) (l : list (nat * list val)) : list val :=
  match nget k l with Some v => v | None => [] end.

(* ---------- heap ---------- *)
Record retry := { r_max : val; r_int : val; r_conds : slice; r_hooks : slice }.
Definition retry0 : retry := {| r_max := 0; r_int := 0; r_conds := None; r_hooks := None |}.

Definition mapcell := list (val * list val).

Record heap := {
  arrs : list (list val);
  maps : list mapcell;
  recs : list retry;
  jars : list (list val) }.

Definition with_arrs (H : heap) A := {| arrs := A; maps := maps H; recs := recs H; jars := jars H |}.
Definition with_maps (H : heap) M := {| arrs := arrs H; maps := M; recs := recs H; jars := jars H |}.
Definition with_recs (H : heap) R := {| arrs := arrs H; maps := maps H; recs := R; jars := jars H |}.
Definition with_jars (H : heap) J := {| arrs := arrs H; maps := maps H; recs := recs H; jars := J |}.

(* ---------- slices ---------- *)
Definition sl_read (A : list (list val)) (s : slice) : list val :=
  match s with None => [] | Some (a, l) => firstn l (nth a A []) end.

Definition pad (n : nat) (l : list val) : list val := l ++ repeat 0 (n - length l).

(* x = append(x, vs...) ; grow oldcap newlen = capacity of the reallocated array *)
Definition sl_append (grow : nat -> nat -> nat) (A : list (list val)) (s : slice) (vs : list val)
  : list (list val) * slice :=
  match vs with
  | [] => (A, s)
  | _ :: _ =>
    match s with
    | None => (A ++ [pad (grow 0 (length vs)) vs], Some (length A, length vs))
    | Some (a, l) =>
        let cell := nth a A [] in
        if l + length vs <=? length cell
        then (upd_nth a (firstn l cell ++ vs ++ skipn (l + length vs) cell) A, Some (a, l + length vs))
        else (A ++ [pad (grow (length cell) (l + length vs)) (firstn l cell ++ vs)],
              Some (length A, l + length vs))
    end
  end.

(* req.go cloneSlice: nil when empty, else make(len) + copy (cap = len) *)
Definition sl_clone (A : list (list val)) (s : slice) : list (list val) * slice :=
  match sl_read A s with
  | [] => (A, None)
  | vs => (A ++ [vs], Some (length A, length vs))
  end.

(* a slice literal []T{...}: cap = len *)
Definition sl_lit (A : list (list val)) (vs : list val) : list (list val) * slice :=
  (A ++ [vs], Some (length A, length vs)).

(* var w []T; for _, v := range vs { w = append(w, v) }   (WrapRoundTripFunc) *)
Fixpoint sl_build (grow : nat -> nat -> nat) (A : list (list val)) (s : slice) (vs : list val)
  : list (list val) * slice :=
  match vs with
  | [] => (A, s)
  | v :: t => let '(A1, s1) := sl_append grow A s [v] in sl_build grow A1 s1 t
  end.

(* ---------- maps ---------- *)
Definition mp_read (M : list mapcell) (m : option nat) : mapcell :=
  match m with None => [] | Some a => nth a M [] end.

(* lazily make the map, then update key k with f (old values) *)
Definition mp_update (M : list mapcell) (m : option nat) (k : val) (f : list val -> list val)
  : list mapcell * option nat :=
  match m with
  | None => (M ++ [[(k, f [])]], Some (length M))
  | Some a => let c := nth a M [] in (upd_nth a (nset k (f (nget_list k c)) c) M, Some a)
  end.

(* cloneMap / cloneUrlValues / http.Header.Clone: nil stays nil, else a fresh map *)
Definition mp_clone (M : list mapcell) (m : option nat) : list mapcell * option nat :=
  match m with
  | None => (M, None)
  | Some a => (M ++ [nth a M []], Some (length M))
  end.

(* ---------- objects: a client or a request ---------- *)
Inductive oid := OC (n : nat) | OR (n : nat).
Definition oid_eqb (a b : oid) : bool :=
  match a, b with
  | OC x, OC y => x =? y
  | OR x, OR y => x =? y
  | _, _ => false
  end.

(* slice fields, by index:   client                      request
     0  Transport.Cookies                                Request.Cookies
     1  Client.roundTripWrappers                         -
     2  Transport.httpRoundTripWrappers                  -
     3  Client.udBeforeRequest                           -
     4  Client.afterResponse (user part)                 Request.afterResponse
   map fields: 0 Headers  1 QueryParams  2 FormData  3 PathParams (both levels) *)
Definition NSL := 5.
Definition NMP := 4.
Definition F_COOKIES := 0.
Definition F_RTW := 1.
Definition F_TRW := 2.
Definition F_BEFORE := 3.
Definition F_AFTER := 4.

Record obj := {
  o_sl : list slice;
  o_mp : list (option nat);
  o_rt : option nat;                   (* *retryOption *)
  o_chain : option (list val);         (* Client.wrappedRoundTrip: None = nil, Some l = closures wrapped in order l *)
  o_tchain : option (list val);        (* Transport.wrappedRoundTrip *)
  o_scal : list (val * val);           (* value-typed settings (BaseURL, Timeout, DebugLog, ...) *)
  o_jar : option nat;                  (* http.Client.Jar *)
  o_fact : bool;                       (* cookiejarFactory != nil *)
  o_par : nat }.                       (* Request.client *)

Definition obj0 : obj :=
  {| o_sl := repeat None NSL; o_mp := repeat None NMP; o_rt := None; o_chain := None; o_tchain := None;
     o_scal := []; o_jar := None; o_fact := false; o_par := 0 |}.

Definition set_sl (o : obj) x := {| o_sl := x; o_mp := o_mp o; o_rt := o_rt o; o_chain := o_chain o;
  o_tchain := o_tchain o; o_scal := o_scal o; o_jar := o_jar o; o_fact := o_fact o; o_par := o_par o |}.
Definition set_mp (o : obj) x := {| o_sl := o_sl o; o_mp := x; o_rt := o_rt o; o_chain := o_chain o;
  o_tchain := o_tchain o; o_scal := o_scal o; o_jar := o_jar o; o_fact := o_fact o; o_par := o_par o |}.
Definition set_rt (o : obj) x := {| o_sl := o_sl o; o_mp := o_mp o; o_rt := x; o_chain := o_chain o;
  o_tchain := o_tchain o; o_scal := o_scal o; o_jar := o_jar o; o_fact := o_fact o; o_par := o_par o |}.
Definition set_chain (o : obj) x := {| o_sl := o_sl o; o_mp := o_mp o; o_rt := o_rt o; o_chain := x;
  o_tchain := o_tchain o; o_scal := o_scal o; o_jar := o_jar o; o_fact := o_fact o; o_par := o_par o |}.
Definition set_tchain (o : obj) x := {| o_sl := o_sl o; o_mp := o_mp o; o_rt := o_rt o; o_chain := o_chain o;
  o_tchain := x; o_scal := o_scal o; o_jar := o_jar o; o_fact := o_fact o; o_par := o_par o |}.
Definition set_scal (o : obj) x := {| o_sl := o_sl o; o_mp := o_mp o; o_rt := o_rt o; o_chain := o_chain o;
  o_tchain := o_tchain o; o_scal := x; o_jar := o_jar o; o_fact := o_fact o; o_par := o_par o |}.
Definition set_jar (o : obj) x f := {| o_sl := o_sl o; o_mp := o_mp o; o_rt := o_rt o; o_chain := o_chain o;
  o_tchain := o_tchain o; o_scal := o_scal o; o_jar := x; o_fact := f; o_par := o_par o |}.

Record state := { hp : heap; objs : list (oid * obj) }.
Definition oget (id : oid) (l : list (oid * obj)) := aget oid_eqb id l.
Definition oset (id : oid) (o : obj) (l : list (oid * obj)) := aset oid_eqb id o l.

Definition init_state : state :=
  {| hp := {| arrs := []; maps := []; recs := []; jars := [] |}; objs := [] |}.

(* ---------- setters (shared by both levels) ---------- *)
Inductive setter :=
| SAppend (f : nat) (vs : list val)      (* x = append(x, vs...): SetCommonCookies, OnBeforeRequest, OnAfterResponse, SetCookies *)
| SClearCookies                          (* ClearCookies: Cookies = nil, and a fresh jar if there is a factory *)
| SMapSet (f : nat) (k v : val)          (* m[k] = []string{v}: SetCommonHeader, SetCommonQueryParam, SetCommonFormData, SetCommonPathParam, request-level twins *)
| SMapAdd (f : nat) (k v : val)          (* m[k] = append(m[k], v): SetCommonHeaderNonCanonical, AddCommonQueryParam, ... *)
| SRetryCount (n : val) | SRetryInterval (x : val)
| SRetrySetHook (h : val) | SRetryAddHook (h : val)
| SRetrySetCond (c : val) | SRetryAddCond (c : val)
| SScal (k v : val)                      (* value-typed field *)
| SWrap (vs : list val)                  (* Client.WrapRoundTripFunc(vs...) *)
| STWrap (vs : list val)                 (* Transport.WrapRoundTripFunc(vs...) *)
| SJarFactory                            (* SetCookieJarFactory(f): fresh jar now and on every Clone *)
| SJarPlain                              (* SetCookieJar(fresh jar): no factory - shared by later clones *)
| SJarStore (ck : val).                  (* the jar records a cookie received by this client *)

(* c.getRetryOption(): lazily allocate the default record *)
Definition get_retry (H : heap) (o : obj) : heap * obj * nat :=
  match o_rt o with
  | Some r => (H, o, r)
  | None => (with_recs H (recs H ++ [retry0]), set_rt o (Some (length (recs H))), length (recs H))
  end.

Definition rec_upd (H : heap) (r : nat) (f : retry -> retry) : heap :=
  with_recs H (upd_nth r (f (nth r (recs H) retry0)) (recs H)).

Definition wrap_chain (c : option (list val)) (vs : list val) : option (list val) :=
  Some (match c with None => [] | Some l => l end ++ vs).

Definition apply_setter (grow : nat -> nat -> nat) (H : heap) (o : obj) (s : setter) : heap * obj :=
  match s with
  | SAppend f vs =>
      let '(A, s') := sl_append grow (arrs H) (nth f (o_sl o) None) vs in
      (with_arrs H A, set_sl o (upd_nth f s' (o_sl o)))
  | SClearCookies =>
      let o1 := set_sl o (upd_nth F_COOKIES None (o_sl o)) in
      if o_fact o then (with_jars H (jars H ++ [[]]), set_jar o1 (Some (length (jars H))) true) else (H, o1)
  | SMapSet f k v =>
      let '(M, m') := mp_update (maps H) (nth f (o_mp o) None) k (fun _ => [v]) in
      (with_maps H M, set_mp o (upd_nth f m' (o_mp o)))
  | SMapAdd f k v =>
      let '(M, m') := mp_update (maps H) (nth f (o_mp o) None) k (fun old => old ++ [v]) in
      (with_maps H M, set_mp o (upd_nth f m' (o_mp o)))
  | SRetryCount n =>
      let '(H1, o1, r) := get_retry H o in
      (rec_upd H1 r (fun x => {| r_max := n; r_int := r_int x; r_conds := r_conds x; r_hooks := r_hooks x |}), o1)
  | SRetryInterval i =>
      let '(H1, o1, r) := get_retry H o in
      (rec_upd H1 r (fun x => {| r_max := r_max x; r_int := i; r_conds := r_conds x; r_hooks := r_hooks x |}), o1)
  | SRetrySetHook h =>
      let '(H1, o1, r) := get_retry H o in
      let '(A, s') := sl_lit (arrs H1) [h] in
      (rec_upd (with_arrs H1 A) r (fun x => {| r_max := r_max x; r_int := r_int x; r_conds := r_conds x; r_hooks := s' |}), o1)
  | SRetryAddHook h =>
      let '(H1, o1, r) := get_retry H o in
      let '(A, s') := sl_append grow (arrs H1) (r_hooks (nth r (recs H1) retry0)) [h] in
      (rec_upd (with_arrs H1 A) r (fun x => {| r_max := r_max x; r_int := r_int x; r_conds := r_conds x; r_hooks := s' |}), o1)
  | SRetrySetCond c =>
      let '(H1, o1, r) := get_retry H o in
      let '(A, s') := sl_lit (arrs H1) [c] in
      (rec_upd (with_arrs H1 A) r (fun x => {| r_max := r_max x; r_int := r_int x; r_conds := s'; r_hooks := r_hooks x |}), o1)
  | SRetryAddCond c =>
      let '(H1, o1, r) := get_retry H o in
      let '(A, s') := sl_append grow (arrs H1) (r_conds (nth r (recs H1) retry0)) [c] in
      (rec_upd (with_arrs H1 A) r (fun x => {| r_max := r_max x; r_int := r_int x; r_conds := s'; r_hooks := r_hooks x |}), o1)
  | SScal k v => (H, set_scal o (nset k v (o_scal o)))
  | SWrap vs =>
      (* client.go WrapRoundTrip: first call adopts the freshly built slice, later calls append *)
      match vs with
      | [] => (H, o)
      | _ :: _ =>
        let '(A1, w) := sl_build grow (arrs H) None vs in
        match o_chain o with
        | None => (with_arrs H A1, set_chain (set_sl o (upd_nth F_RTW w (o_sl o))) (wrap_chain None vs))
        | Some _ =>
            let '(A2, s') := sl_append grow A1 (nth F_RTW (o_sl o) None) vs in
            (with_arrs H A2, set_chain (set_sl o (upd_nth F_RTW s' (o_sl o))) (wrap_chain (o_chain o) vs))
        end
      end
  | STWrap vs =>
      match vs with
      | [] => (H, o)
      | _ :: _ =>
        let '(A1, w) := sl_build grow (arrs H) None vs in
        match o_tchain o with
        | None => (with_arrs H A1, set_tchain (set_sl o (upd_nth F_TRW w (o_sl o))) (wrap_chain None vs))
        | Some _ =>
            let '(A2, s') := sl_append grow A1 (nth F_TRW (o_sl o) None) vs in
            (with_arrs H A2, set_tchain (set_sl o (upd_nth F_TRW s' (o_sl o))) (wrap_chain (o_tchain o) vs))
        end
      end
  | SJarFactory => (with_jars H (jars H ++ [[]]), set_jar o (Some (length (jars H))) true)
  | SJarPlain => (with_jars H (jars H ++ [[]]), set_jar o (Some (length (jars H))) false)
  | SJarStore ck =>
      match o_jar o with
      | None => (H, o)
      | Some j => (with_jars H (upd_nth j (nth j (jars H) [] ++ [ck]) (jars H)), o)
      end
  end.

(* ---------- Clone ---------- *)
(* per-field treatment in Client.Clone/Transport.Clone: true = deep copy, false = the clone keeps
   the original's reference.  Regenerated from the Go source into Gen/CloneTable.v *)
Record ctbl := { t_sl : list bool; t_mp : list bool; t_rt : bool }.
Definition deep_tbl : ctbl := {| t_sl := repeat true NSL; t_mp := repeat true NMP; t_rt := true |}.
(* the code as pinned: roundTripWrappers (cc := *c) and httpRoundTripWrappers (copied header) shared *)
Definition pinned_tbl : ctbl := {| t_sl := [true; false; false; true; true]; t_mp := repeat true NMP; t_rt := true |}.

Fixpoint clone_sls (modes : list bool) (A : list (list val)) (l : list slice) : list (list val) * list slice :=
  match l with
  | [] => (A, [])
  | s :: t =>
      let '(A1, s1) := if hd true modes then sl_clone A s else (A, s) in
      let '(A2, t2) := clone_sls (tl modes) A1 t in
      (A2, s1 :: t2)
  end.

Fixpoint clone_mps (modes : list bool) (M : list mapcell) (l : list (option nat)) : list mapcell * list (option nat) :=
  match l with
  | [] => (M, [])
  | m :: t =>
      let '(M1, m1) := if hd true modes then mp_clone M m else (M, m) in
      let '(M2, t2) := clone_mps (tl modes) M1 t in
      (M2, m1 :: t2)
  end.

(* retryOption.Clone: nil stays nil; fresh record; both slices via append(nil, src...) *)
Definition rt_clone (grow : nat -> nat -> nat) (H : heap) (r : option nat) : heap * option nat :=
  match r with
  | None => (H, None)
  | Some a =>
      let x := nth a (recs H) retry0 in
      let '(A1, c1) := sl_append grow (arrs H) None (sl_read (arrs H) (r_conds x)) in
      let '(A2, h1) := sl_append grow A1 None (sl_read A1 (r_hooks x)) in
      (with_recs (with_arrs H A2)
         (recs H ++ [{| r_max := r_max x; r_int := r_int x; r_conds := c1; r_hooks := h1 |}]),
       Some (length (recs H)))
  end.

Definition clone_obj (grow : nat -> nat -> nat) (tbl : ctbl) (H : heap) (o : obj) : heap * obj :=
  (* the wrapper chains are rebuilt from the (possibly shared) slices as found at Clone time *)
  let rtw := sl_read (arrs H) (nth F_RTW (o_sl o) None) in
  let trw := sl_read (arrs H) (nth F_TRW (o_sl o) None) in
  let chain := match rtw with [] => o_chain o | _ => Some rtw end in
  let tchain := match trw with [] => None | _ => Some trw end in
  let '(A1, sls) := clone_sls (t_sl tbl) (arrs H) (o_sl o) in
  let '(M1, mps) := clone_mps (t_mp tbl) (maps H) (o_mp o) in
  let H1 := with_maps (with_arrs H A1) M1 in
  let '(H2, rt) := if t_rt tbl then rt_clone grow H1 (o_rt o) else (H1, o_rt o) in
  (* initCookieJar: a factory makes a fresh jar, otherwise the http.Client copy keeps the pointer *)
  let '(H3, jar) := if o_fact o then (with_jars H2 (jars H2 ++ [[]]), Some (length (jars H2))) else (H2, o_jar o) in
  (H3, {| o_sl := sls; o_mp := mps; o_rt := rt; o_chain := chain; o_tchain := tchain;
          o_scal := o_scal o; o_jar := jar; o_fact := o_fact o; o_par := o_par o |}).

(* Client.R(): a request holding a clone of the client's retry option *)
Definition new_req (grow : nat -> nat -> nat) (H : heap) (c : nat) (co : obj) : heap * obj :=
  let '(H1, rt) := rt_clone grow H (o_rt co) in
  (H1, {| o_sl := repeat None NSL; o_mp := repeat None NMP; o_rt := rt; o_chain := None; o_tchain := None;
          o_scal := []; o_jar := None; o_fact := false; o_par := c |}).

(* req.C(): afterResponse = []ResponseMiddleware{parseResponseBody, handleDownload} (tokens 100, 101),
   cookiejarFactory = memoryCookieJarFactory + initCookieJar *)
Definition INTERNAL_AFTER : list val := [100; 101].
Definition new_client (H : heap) : heap * obj :=
  let '(A, s) := sl_lit (arrs H) INTERNAL_AFTER in
  (with_jars (with_arrs H A) (jars H ++ [[]]),
   {| o_sl := upd_nth F_AFTER s (repeat None NSL); o_mp := repeat None NMP; o_rt := None; o_chain := None;
      o_tchain := None; o_scal := []; o_jar := Some (length (jars H)); o_fact := true; o_par := 0 |}).

(* ---------- programs ---------- *)
Inductive op :=
| ONewClient (c : nat)                 (* c = req.C() with the harness's base configuration *)
| OSet (o : oid) (s : setter)
| OClone (src dst : nat)               (* dst = src.Clone() *)
| ONewReq (c r : nat)                  (* r = c.R() *)
| OExec (r : nat).                     (* r.Do(): observation only (requests are executed once) *)

Definition step (grow : nat -> nat -> nat) (tbl : ctbl) (st : state) (o : op) : state :=
  match o with
  | ONewClient c => let '(H, ob) := new_client (hp st) in {| hp := H; objs := oset (OC c) ob (objs st) |}
  | OSet id s =>
      match oget id (objs st) with
      | None => st
      | Some ob => let '(H, ob') := apply_setter grow (hp st) ob s in {| hp := H; objs := oset id ob' (objs st) |}
      end
  | OClone src dst =>
      match oget (OC src) (objs st) with
      | None => st
      | Some ob => let '(H, ob') := clone_obj grow tbl (hp st) ob in {| hp := H; objs := oset (OC dst) ob' (objs st) |}
      end
  | ONewReq c r =>
      match oget (OC c) (objs st) with
      | None => st
      | Some ob => let '(H, ob') := new_req grow (hp st) c ob in {| hp := H; objs := oset (OR r) ob' (objs st) |}
      end
  | OExec _ => st
  end.

Definition run (grow : nat -> nat -> nat) (tbl : ctbl) (p : list op) (st : state) : state :=
  fold_left (step grow tbl) p st.

(* ================= the value view ================= *)
Record vretry := { vr_max : val; vr_int : val; vr_conds : list val; vr_hooks : list val }.
Definition vretry0 : vretry := {| vr_max := 0; vr_int := 0; vr_conds := []; vr_hooks := [] |}.

Record vobj := {
  v_sl : list (list val);
  v_mp : list mapcell;
  v_rt : vretry;
  v_chain : option (list val);
  v_tchain : option (list val);
  v_scal : list (val * val);
  v_jar : option (list val);
  v_fact : bool;
  v_par : nat }.

Definition rt_read (H : heap) (r : option nat) : vretry :=
  match r with
  | None => vretry0
  | Some a => let x := nth a (recs H) retry0 in
      {| vr_max := r_max x; vr_int := r_int x;
         vr_conds := sl_read (arrs H) (r_conds x); vr_hooks := sl_read (arrs H) (r_hooks x) |}
  end.

Definition jar_read (H : heap) (j : option nat) : option (list val) :=
  match j with None => None | Some a => Some (nth a (jars H) []) end.

(* what an object looks like when read through its references *)
Definition abs_obj (H : heap) (o : obj) : vobj :=
  {| v_sl := map (sl_read (arrs H)) (o_sl o);
     v_mp := map (mp_read (maps H)) (o_mp o);
     v_rt := rt_read H (o_rt o);
     v_chain := o_chain o; v_tchain := o_tchain o; v_scal := o_scal o;
     v_jar := jar_read H (o_jar o); v_fact := o_fact o; v_par := o_par o |}.

Definition view (st : state) (id : oid) : option vobj :=
  match oget id (objs st) with None => None | Some o => Some (abs_obj (hp st) o) end.

(* ---------- Exec: the effective description of the request a client emits ---------- *)
Fixpoint ins_key {B} (k : nat) (x : B) (l : list (nat * B)) : list (nat * B) :=
  match l with
  | [] => [(k, x)]
  | (j, y) :: t => if k <=? j then (k, x) :: l else (j, y) :: ins_key k x t
  end.
Fixpoint sort_keys {B} (l : list (nat * B)) : list (nat * B) :=
  match l with [] => [] | (k, x) :: t => ins_key k x (sort_keys t) end.

Definition flat_kv (l : list (nat * list val)) : list val :=
  concat (map (fun kv => fst kv :: length (snd kv) :: snd kv) (sort_keys l)).

Definition nonempty_keys (m : mapcell) : list nat :=
  map fst (filter (fun kv => match snd kv with [] => false | _ => true end) m).

(* request-level values win per key (parseRequestHeader, parseRequestURL query.Del, path params) *)
Definition merge_override (r c : mapcell) : mapcell :=
  filter (fun kv => match snd kv with [] => false | _ => true end) r
  ++ filter (fun kv => negb (mem (fst kv) (nonempty_keys r))) c.
(* form data: the client's values are ADDED to the request's (parseRequestBody -> SetFormDataFromValues) *)
Definition merge_add (r c : mapcell) : mapcell :=
  map (fun kv => (fst kv, snd kv ++ nget_list (fst kv) c)) r
  ++ filter (fun kv => negb (mem (fst kv) (map fst r))) c.

Definition SCAL_KEYS : list nat := [0; 1; 2; 3; 4; 5].

Definition chain_list (c : option (list val)) : list val := match c with None => [] | Some l => rev l end.

Definition describe (c r : vobj) : list (list val) :=
  [ flat_kv (merge_override (nth 0 (v_mp r) []) (nth 0 (v_mp c) []));      (* headers *)
    flat_kv (merge_override (nth 1 (v_mp r) []) (nth 1 (v_mp c) []));      (* query *)
    flat_kv (merge_add (nth 2 (v_mp r) []) (nth 2 (v_mp c) []));           (* form *)
    flat_kv (merge_override (nth 3 (v_mp r) []) (nth 3 (v_mp c) []));      (* path params *)
    nth F_COOKIES (v_sl r) [] ++ nth F_COOKIES (v_sl c) [];                (* explicit cookies: request's, then client's *)
    match v_jar c with None => [0] | Some l => 1 :: l end;                 (* cookie jar of the client *)
    nth F_BEFORE (v_sl c) [];                                              (* udBeforeRequest, in order *)
    chain_list (v_chain c);                                                (* client wrappers, outermost first *)
    chain_list (v_tchain c);                                               (* transport wrappers, outermost first *)
    nth F_AFTER (v_sl c) [] ++ nth F_AFTER (v_sl r) [];                    (* afterResponse: client's, then request's *)
    [vr_max (v_rt r); vr_int (v_rt r)] ;
    vr_conds (v_rt r); vr_hooks (v_rt r);
    map (fun k => match nget k (v_scal c) with Some v => v | None => 0 end) SCAL_KEYS ].

Definition vobj0 : vobj :=
  {| v_sl := repeat [] NSL; v_mp := repeat [] NMP; v_rt := vretry0; v_chain := None; v_tchain := None;
     v_scal := []; v_jar := None; v_fact := false; v_par := 0 |}.

Definition vclient0 : vobj :=
  {| v_sl := upd_nth F_AFTER INTERNAL_AFTER (repeat [] NSL); v_mp := repeat [] NMP; v_rt := vretry0; v_chain := None;
     v_tchain := None; v_scal := []; v_jar := Some []; v_fact := true; v_par := 0 |}.

(* a fresh request of client c: empty but for the client's retry option, copied at R() *)
Definition vnew_req (c : nat) (vc : vobj) : vobj :=
  {| v_sl := repeat [] NSL; v_mp := repeat [] NMP; v_rt := v_rt vc; v_chain := None; v_tchain := None;
     v_scal := []; v_jar := None; v_fact := false; v_par := c |}.

(* Exec of request r (reads the request and ITS client through their references) *)
Definition exec (st : state) (r : nat) : option (list (list val)) :=
  match view st (OR r) with
  | None => None
  | Some vr => match view st (OC (v_par vr)) with None => None | Some vc => Some (describe vc vr) end
  end.

(* the probe: a fresh request created and executed on client c *)
Definition probe (st : state) (c : nat) : option (list (list val)) :=
  match view st (OC c) with None => None | Some vc => Some (describe vc (vnew_req c vc)) end.

(* ================= the naive value model: every object a plain value, Clone = copy ================= *)
Definition vset_sl (o : vobj) x := {| v_sl := x; v_mp := v_mp o; v_rt := v_rt o; v_chain := v_chain o;
  v_tchain := v_tchain o; v_scal := v_scal o; v_jar := v_jar o; v_fact := v_fact o; v_par := v_par o |}.
Definition vset_mp (o : vobj) x := {| v_sl := v_sl o; v_mp := x; v_rt := v_rt o; v_chain := v_chain o;
  v_tchain := v_tchain o; v_scal := v_scal o; v_jar := v_jar o; v_fact := v_fact o; v_par := v_par o |}.
Definition vset_rt (o : vobj) x := {| v_sl := v_sl o; v_mp := v_mp o; v_rt := x; v_chain := v_chain o;
  v_tchain := v_tchain o; v_scal := v_scal o; v_jar := v_jar o; v_fact := v_fact o; v_par := v_par o |}.
Definition vset_chain (o : vobj) x := {| v_sl := v_sl o; v_mp := v_mp o; v_rt := v_rt o; v_chain := x;
  v_tchain := v_tchain o; v_scal := v_scal o; v_jar := v_jar o; v_fact := v_fact o; v_par := v_par o |}.
Definition vset_tchain (o : vobj) x := {| v_sl := v_sl o; v_mp := v_mp o; v_rt := v_rt o; v_chain := v_chain o;
  v_tchain := x; v_scal := v_scal o; v_jar := v_jar o; v_fact := v_fact o; v_par := v_par o |}.
Definition vset_scal (o : vobj) x := {| v_sl := v_sl o; v_mp := v_mp o; v_rt := v_rt o; v_chain := v_chain o;
  v_tchain := v_tchain o; v_scal := x; v_jar := v_jar o; v_fact := v_fact o; v_par := v_par o |}.
Definition vset_jar (o : vobj) x f := {| v_sl := v_sl o; v_mp := v_mp o; v_rt := v_rt o; v_chain := v_chain o;
  v_tchain := v_tchain o; v_scal := v_scal o; v_jar := x; v_fact := f; v_par := v_par o |}.

Definition vapply (o : vobj) (s : setter) : vobj :=
  match s with
  | SAppend f vs => vset_sl o (upd_nth f (nth f (v_sl o) [] ++ vs) (v_sl o))
  | SClearCookies =>
      let o1 := vset_sl o (upd_nth F_COOKIES [] (v_sl o)) in
      if v_fact o then vset_jar o1 (Some []) true else o1
  | SMapSet f k v => vset_mp o (upd_nth f (nset k [v] (nth f (v_mp o) [])) (v_mp o))
  | SMapAdd f k v => vset_mp o (upd_nth f (nset k (nget_list k (nth f (v_mp o) []) ++ [v]) (nth f (v_mp o) [])) (v_mp o))
  | SRetryCount n => vset_rt o {| vr_max := n; vr_int := vr_int (v_rt o); vr_conds := vr_conds (v_rt o); vr_hooks := vr_hooks (v_rt o) |}
  | SRetryInterval i => vset_rt o {| vr_max := vr_max (v_rt o); vr_int := i; vr_conds := vr_conds (v_rt o); vr_hooks := vr_hooks (v_rt o) |}
  | SRetrySetHook h => vset_rt o {| vr_max := vr_max (v_rt o); vr_int := vr_int (v_rt o); vr_conds := vr_conds (v_rt o); vr_hooks := [h] |}
  | SRetryAddHook h => vset_rt o {| vr_max := vr_max (v_rt o); vr_int := vr_int (v_rt o); vr_conds := vr_conds (v_rt o); vr_hooks := vr_hooks (v_rt o) ++ [h] |}
  | SRetrySetCond c => vset_rt o {| vr_max := vr_max (v_rt o); vr_int := vr_int (v_rt o); vr_conds := [c]; vr_hooks := vr_hooks (v_rt o) |}
  | SRetryAddCond c => vset_rt o {| vr_max := vr_max (v_rt o); vr_int := vr_int (v_rt o); vr_conds := vr_conds (v_rt o) ++ [c]; vr_hooks := vr_hooks (v_rt o) |}
  | SScal k v => vset_scal o (nset k v (v_scal o))
  | SWrap vs =>
      match vs with
      | [] => o
      | _ :: _ =>
        match v_chain o with
        | None => vset_chain (vset_sl o (upd_nth F_RTW vs (v_sl o))) (wrap_chain None vs)
        | Some _ => vset_chain (vset_sl o (upd_nth F_RTW (nth F_RTW (v_sl o) [] ++ vs) (v_sl o))) (wrap_chain (v_chain o) vs)
        end
      end
  | STWrap vs =>
      match vs with
      | [] => o
      | _ :: _ =>
        match v_tchain o with
        | None => vset_tchain (vset_sl o (upd_nth F_TRW vs (v_sl o))) (wrap_chain None vs)
        | Some _ => vset_tchain (vset_sl o (upd_nth F_TRW (nth F_TRW (v_sl o) [] ++ vs) (v_sl o))) (wrap_chain (v_tchain o) vs)
        end
      end
  | SJarFactory => vset_jar o (Some []) true
  | SJarPlain => vset_jar o (Some []) false
  | SJarStore ck => match v_jar o with None => o | Some l => vset_jar o (Some (l ++ [ck])) (v_fact o) end
  end.

(* deep copy; the wrapper chains are rebuilt from the wrapper lists; a factory jar starts empty *)
Definition vclone (o : vobj) : vobj :=
  {| v_sl := v_sl o; v_mp := v_mp o; v_rt := v_rt o;
     v_chain := match nth F_RTW (v_sl o) [] with [] => v_chain o | l => Some l end;
     v_tchain := match nth F_TRW (v_sl o) [] with [] => None | l => Some l end;
     v_scal := v_scal o;
     v_jar := if v_fact o then Some [] else v_jar o;
     v_fact := v_fact o; v_par := v_par o |}.

Definition vstate := list (oid * vobj).
Definition vget (id : oid) (l : vstate) := aget oid_eqb id l.
Definition vset (id : oid) (o : vobj) (l : vstate) := aset oid_eqb id o l.

Definition vstep (vs : vstate) (o : op) : vstate :=
  match o with
  | ONewClient c => vset (OC c) vclient0 vs
  | OSet id s => match vget id vs with None => vs | Some ob => vset id (vapply ob s) vs end
  | OClone src dst => match vget (OC src) vs with None => vs | Some ob => vset (OC dst) (vclone ob) vs end
  | ONewReq c r => match vget (OC c) vs with None => vs | Some ob => vset (OR r) (vnew_req c ob) vs end
  | OExec _ => vs
  end.
Definition vrun (p : list op) (vs : vstate) : vstate := fold_left vstep p vs.

Definition vprobe (vs : vstate) (c : nat) : option (list (list val)) :=
  match vget (OC c) vs with None => None | Some vc => Some (describe vc (vnew_req c vc)) end.
Definition vexec (vs : vstate) (r : nat) : option (list (list val)) :=
  match vget (OR r) vs with
  | None => None
  | Some vr => match vget (OC (v_par vr)) vs with None => None | Some vc => Some (describe vc vr) end
  end.

Definition abs_state (st : state) : vstate := map (fun io => (fst io, abs_obj (hp st) (snd io))) (objs st).

(* ---------- Go's append growth (runtime.growslice + malloc size classes), pointer-sized elements ---------- *)
Definition size_classes : list nat :=
  [8; 16; 24; 32; 48; 64; 80; 96; 112; 128; 144; 160; 176; 192; 208; 224; 240; 256; 288; 320; 352; 384;
   416; 448; 480; 512; 576; 640; 704; 768; 896; 1024; 1152; 1280; 1408; 1536; 1792; 2048].
Fixpoint roundup (cls : list nat) (n : nat) : nat :=
  match cls with [] => n | c :: t => if n <=? c then c else roundup t n end.
Definition go_grow (esize : nat) (oldcap newlen : nat) : nat :=
  let newcap := if 2 * oldcap <? newlen then newlen else 2 * oldcap in   (* oldcap < 256 in everything generated *)
  Nat.max newlen (roundup size_classes (newcap * esize) / esize).
Definition go_grow8 := go_grow 8.
