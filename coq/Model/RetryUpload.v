(* Model/RetryUpload.v - C10: the multipart body under retry.

   Modelled Go code: middleware.go handleMultiPart (buffered variant), writeMultiPart,
   writeMultipartFormFile - run again on EVERY attempt by parseRequestBody - together with the
   file sources of request.go: SetFileBytes (fresh reader per call), SetFile (handle opened when
   set, a freshly opened file on every later call - 009781e), SetFileReader (the caller's reader; when asked again it
   is rewound if it is an io.Seeker, otherwise - or when Seek fails, e.g. on a closed os.File -
   GetFileContent returns an error; repaired tree, the pinned variant is [file_read_pinned]),
   SetFileUpload with the caller's own GetFileContent.
   writeMultipartFormFile: content := GetFileContent(); defer content.Close(); reads 512 bytes
   into a zeroed buffer, detects the content type on the WHOLE buffer, writes the part; any error
   fails the request (writeMultiPart returns it, the request middleware returns it, Request.do
   returns: no further attempt).
   Abstracted: the boundary (parts are compared, not bytes), http.DetectContentType (a
   function argument), Go map order of the form fields (sorted by key).  No proofs here. *)
From ReqV Require Export Lib.Bytes Model.Retry.

Inductive fkind :=
| FBytes          (* SetFileBytes *)
| FPath           (* SetFile(path) *)
| FSeekNoClose    (* SetFileReader with an io.ReadSeeker + io.Closer whose Close is a no-op *)
| FSeekReader     (* SetFileReader with a strings.Reader / bytes.Reader: io.Seeker, no Close *)
| FPlainReader    (* SetFileReader with a bytes.Buffer / any reader that cannot be rewound *)
| FOsFile         (* SetFileReader with an os.File: closed after the first attempt *)
| FCustomSeek     (* SetFileUpload, the caller's GetFileContent returns the SAME io.ReadSeeker
                     (Close a no-op) on every call *)
| FCustomPlain.   (* SetFileUpload, the caller's GetFileContent returns the SAME plain reader *)

Record mfile := mkFile {
  mf_param : bytes; mf_name : bytes; mf_kind : fkind; mf_content : bytes;
  mf_used : bool            (* an earlier pass has read (and closed) this source *)
}.

Definition mark_used (f : mfile) : mfile :=
  mkFile (mf_param f) (mf_name f) (mf_kind f) (mf_content f) true.

(* the bytes one pass obtains from the source on attempt number [att] (= r.RetryAttempt);
   None = GetFileContent / Seek / Read failed: the request fails.  A caller-supplied
   GetFileContent that shares one reader is rewound by writeMultipartFormFile only
   (RetryAttempt > 0 and the content is an io.ReadSeeker). *)
Definition file_read (att : Z) (f : mfile) : option bytes :=
  match mf_kind f with
  | FBytes => Some (mf_content f)
  | FPath => Some (mf_content f)       (* first call: the handle opened by SetFile; later calls: os.Open *)
  | FSeekNoClose => Some (mf_content f)
  | FSeekReader => Some (mf_content f)
  | FPlainReader => if mf_used f then None else Some (mf_content f)
  | FOsFile => if mf_used f then None else Some (mf_content f)
  | FCustomSeek => if mf_used f && (att <=? 0)%Z then Some [] else Some (mf_content f)
  | FCustomPlain => if mf_used f then Some [] else Some (mf_content f)
  end.

(* SetFileReader marks such an upload (ff08702): Request.Do refuses a retryable request with it *)
Definition upload_once_only (f : mfile) : bool :=
  match mf_kind f with FPlainReader | FOsFile => true | _ => false end.

(* SetFileReader as pinned: the reader is handed out again as it is (wrapped in io.NopCloser,
   which hides Seek, unless it is an io.ReadCloser): a drained reader yields nothing *)
Definition file_read_pinned (att : Z) (f : mfile) : option bytes :=
  match mf_kind f with
  | FSeekReader | FPlainReader => if mf_used f then Some [] else Some (mf_content f)
  | FSeekNoClose => if mf_used f && (att <=? 0)%Z then Some [] else Some (mf_content f)
  | _ => file_read att f
  end.

Inductive part :=
| PField (k v : bytes)
| PFile (param name ctype content : bytes).

(* cbuf := make([]byte, 512); content.Read(cbuf); DetectContentType(cbuf) *)
Definition pad512 (b : bytes) : bytes := firstn 512 (b ++ repeat x00 512).

Section Upload.
Variable rd : Z -> mfile -> option bytes.     (* file_read or file_read_pinned *)
Variable detect : bytes -> bytes.

Definition mk_part (f : mfile) (b : bytes) : part :=
  PFile (mf_param f) (mf_name f) (detect (pad512 b)) b.

(* the file parts one pass writes, and whether every source delivered (the first failing
   source ends the writing) *)
Fixpoint file_parts (att : Z) (fs : list mfile) : list part * bool :=
  match fs with
  | [] => ([], true)
  | f :: r =>
      match rd att f with
      | None => ([], false)
      | Some b => (mk_part f b :: fst (file_parts att r), snd (file_parts att r))
      end
  end.

(* the form fields of a multipart body: the ordered pairs (SetOrderedFormData) in the caller's
   order first, then the plain form data (keys sorted here, Go map order in the code) *)
Definition fields := (list (bytes * bytes) * amap)%type.
Definition field_parts (form : fields) : list part :=
  map (fun kv => PField (fst kv) (snd kv)) (fst form) ++
  flat_map (fun k => map (PField k) (hget k (snd form))) (sort_keys (map fst (snd form))).

(* one pass of handleMultiPart: (the parts written, complete?), the sources afterwards *)
Definition mp_pass (att : Z) (form : fields) (fs : list mfile) : (list part * bool) * list mfile :=
  ((field_parts form ++ fst (file_parts att fs), snd (file_parts att fs)), map mark_used fs).

(* up to [n] attempts numbered att, att+1, ...: the bodies put on the wire (with: complete?), and
   whether the sequence was ended by an upload error.  Buffered variant: the body is built
   before the attempt, an error means no attempt.  Forced chunked encoding: the body is written
   into a pipe while the attempt runs, an error truncates that attempt's body. *)
Fixpoint mp_attempts (chunked : bool) (n : nat) (att : Z) (form : fields) (fs : list mfile)
  : list (list part * bool) * bool :=
  match n with
  | O => ([], false)
  | S n' =>
      let a := fst (mp_pass att form fs) in
      if snd a || chunked then
        let r := mp_attempts chunked n' (att + 1) form (snd (mp_pass att form fs)) in
        (a :: fst r, snd r)
      else ([], true)
  end.

(* Request.Do: refused up front (third component) when retries are enabled and an upload can be
   sent only once *)
Definition mp_run (retryable chunked : bool) (n : nat) (form : fields) (fs : list mfile)
  : list (list part * bool) * bool * bool :=
  if retryable && existsb upload_once_only fs then ([], false, true)
  else (mp_attempts chunked n 0 form fs, false).

(* every field, every file complete *)
Definition full_parts (form : fields) (fs : list mfile) : list part :=
  field_parts form ++ map (fun f => mk_part f (mf_content f)) fs.
End Upload.

(* ---- a SetFileReader source handed over at a position past 0 ------------------------------
   SetFileReader records where the reader stands (Seek(0, io.SeekCurrent)): the content supplied
   starts there - the caller may have read a header or a magic number first.  The first
   GetFileContent returns the reader as it stands; every later one seeks it back to that
   position.  writeMultipartFormFile, on RetryAttempt > 0, seeks a content that is an
   io.ReadSeeker to offset 0 - since 9ce4104 only for a caller's own GetFileContent, not for
   SetFileReader sources ([self_rewinding]).  [seek_visible]: the content handed to the
   multipart writer still shows Seek (the reader is an io.Closer and is returned as it is;
   io.NopCloser hides Seek). *)
Record rsource := mkSrc { rs_data : bytes; rs_start : nat }.

Definition rs_content (s : rsource) : bytes := skipn (rs_start s) (rs_data s).

Definition reader_pass (self_rewinding seek_visible : bool) (s : rsource) (att : Z) : bytes :=
  if (att <=? 0)%Z then rs_content s
  else if negb self_rewinding && seek_visible then rs_data s
  else rs_content s.

Definition mfile_at (param name : bytes) (k : fkind) (s : rsource) (used : bool) : mfile :=
  mkFile param name k (rs_content s) used.
