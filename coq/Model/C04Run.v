(* Model/C04Run.v - case type and checker evaluated on harness-generated cases (C04).
   Every observation was made on the REAL code (the fork's reader in /repo; the harness has
   already checked that Go's reference reader made the same observation, or reported the
   difference as a failing input). *)
From ReqV Require Export Lib.Bytes Model.H1Resp Model.H1Conn.

(* run-length pieces in harness-generated streams: [rep n b] = n copies of byte b *)
Definition rep (n b : nat) : bytes := repeat (byte_of_N_total (N.of_nat b)) n.

Inductive obs_resp :=
| ORej (e : herr)
| OAcc (proto : bytes) (code : Z) (status : bytes) (hdr : hmap) (cl : Z) (chunked close : bool)
       (fr : framing) (body : bytes) (bend : berr) (trailer : hmap) (consumed : N).

Inductive c04_case :=
| HexCase (input : bytes) (obs : hexres)
| ChunkCase (bufsize : N) (stream : bytes) (obs_data : bytes) (obs_end : berr) (obs_consumed : N)
| RespCase (meth : bytes) (bufsize : N) (stream : bytes) (obs : obs_resp)
(* the same bytes served by a raw TCP peer to the real client (Transport.RoundTrip): what the
   caller saw; [reused]: where the peer saw the client's NEXT request arrive (Some true = on
   the same connection), measured only when the stream is exactly one complete message *)
| TcpCase (meth : bytes) (stream : bytes) (obs : obs_resp) (reused : option bool)
(* two exchanges, the second started the moment the first's connection was offered for reuse:
   [stream] answers the first request (method [meth]), [seg2] is what the peer writes in answer
   to the second (a GET) on whichever connection it arrives; [same] = it arrived on the first
   connection *)
| ConnCase (meth : bytes) (stream seg2 : bytes) (obs1 : obs_resp) (same : bool) (obs2 : obs_resp)
(* a POST with a body sent with Expect: 100-continue, [stream] served by the raw peer either at
   once behind the request head or ([late]) only after the peer has received the body (the
   client's ExpectContinueTimeout has fired by then); [body_sent]: did the peer receive the
   request body (measured only when the connection is kept) *)
| ExpectCase (late : bool) (stream : bytes) (obs : obs_resp) (body_sent : option bool)
(* request 1 answered by [first]; once the client is done and the connection idle the peer sends
   [stray] on it; then a GET answered by [seg2] on whichever connection it arrives *)
| IdleCase (meth first stray seg2 : bytes) (obs1 obs2 : obs_resp)
(* further Reads of the response body after its terminal result [first]: their results *)
| AgainCase (meth stream : bytes) (first : berr) (again : list berr)
(* a scripted connection (no socket): [stream] delivered, the connection reporting EOF
   ([saw_eof]: in the same Read as the last bytes, or split just before them); was the connection
   offered to the idle pool *)
| EofCase (meth stream : bytes) (saw_eof : bool) (obs : obs_resp) (put_idle : bool)
(* several requests (methods, segments) answered in turn on one scripted connection: what each
   caller saw *)
| SeqCase (reqs : list (bytes * bytes)) (obss : list obs_resp).

Definition herr_eqb (a b : herr) : bool :=
  match a, b with
  | HUnexpectedEOF, HUnexpectedEOF | HMalformedResponse, HMalformedResponse
  | HMalformedStatus, HMalformedStatus | HMalformedVersion, HMalformedVersion
  | HMalformedHeader, HMalformedHeader | HBadTransferEncoding, HBadTransferEncoding
  | HBadContentLength, HBadContentLength | HBadTrailerKey, HBadTrailerKey => true
  | _, _ => false            (* HOther / HOutOfFuel never match *)
  end.

Definition berr_eqb (a b : berr) : bool :=
  match a, b with
  | BOk, BOk | BUnexpectedEOF, BUnexpectedEOF | BMalformedChunk, BMalformedChunk
  | BLineTooLong, BLineTooLong | BInvalidHex, BInvalidHex | BHexTooLarge, BHexTooLarge
  | BEmptyHex, BEmptyHex | BTooMuchNonData, BTooMuchNonData | BTrailerEOF, BTrailerEOF
  | BTrailerTooLong, BTrailerTooLong | BTrailerMalformed, BTrailerMalformed => true
  | _, _ => false
  end.

Definition hexres_eqb (a b : hexres) : bool :=
  match a, b with
  | HexOk x, HexOk y => (x =? y)%N
  | HexEmpty, HexEmpty | HexInvalid, HexInvalid | HexTooLarge, HexTooLarge => true
  | _, _ => false
  end.

Definition framing_eqb (a b : framing) : bool :=
  match a, b with
  | FrNone, FrNone | FrChunked, FrChunked | FrUntilClose, FrUntilClose => true
  | FrLength x, FrLength y => (x =? y)%Z
  | _, _ => false
  end.

(* Go maps are unordered: compare as multimaps key by key *)
Definition hmap_eqb (a b : hmap) : bool :=
  (length a =? length b) &&
  forallb (fun kv => match hget (fst kv) b with
                     | Some vs => list_eqb bytes_eqb (snd kv) vs
                     | None => false
                     end) a.

(* what a caller sees of one exchange through RoundTrip + ReadAll(Body) *)
Definition view_matches (r : resp) (b : body_result) (o : obs_resp) : bool :=
  match o with
  | OAcc proto code status hdr cl chunked close _ body bend trailer _ =>
      bytes_eqb (r_proto r) proto && (r_code r =? code)%Z && bytes_eqb (r_status r) status &&
      hmap_eqb (r_header r) hdr && (r_content_length r =? cl)%Z &&
      Bool.eqb (r_chunked r) chunked && Bool.eqb (r_close r) close &&
      bytes_eqb (b_data b) body &&
      Bool.eqb (berr_eqb (b_end b) BOk) (berr_eqb bend BOk) &&
      (match b_end b with BOk => hmap_eqb (b_trailer b) trailer | _ => true end)
  | ORej _ => false
  end.

Definition c04_check (c : c04_case) : bool :=
  match c with
  | HexCase i o => hexres_eqb (parse_hex_uint i) o
  | ChunkCase bsz s d e n =>
      match dechunk_all (N.to_nat bsz) s with
      | (d', CEof rest) => bytes_eqb d' d && berr_eqb BOk e &&
                           (N.of_nat (length s - length rest) =? n)%N
      | (d', CErr e') => bytes_eqb d' d && berr_eqb e' e
      end
  | RespCase m bsz s o =>
      match parse_response m (N.to_nat bsz) s, o with
      | Rejected e, ORej e' => herr_eqb e e'
      | Accepted r b, OAcc proto code status hdr cl chunked close fr body bend trailer ncons =>
          bytes_eqb (r_proto r) proto && (r_code r =? code)%Z && bytes_eqb (r_status r) status &&
          hmap_eqb (r_header r) hdr && (r_content_length r =? cl)%Z &&
          Bool.eqb (r_chunked r) chunked && Bool.eqb (r_close r) close &&
          framing_eqb (r_framing r) fr &&
          bytes_eqb (b_data b) body && berr_eqb (b_end b) bend &&
          hmap_eqb (b_trailer b) trailer &&
          (* where the message ends is compared whenever it ended cleanly *)
          (match b_end b with
           | BOk => (N.of_nat (consumed s b) =? ncons)%N
           | _ => true
           end)
      | _, _ => false
      end
  | TcpCase m s o reused =>
      match client_read m s, o with
      | None, ORej _ => true
      | Some cv, OAcc proto code status hdr cl chunked close _ body bend trailer _ =>
          let r := cv_resp cv in let b := cv_body cv in
          bytes_eqb (r_proto r) proto && (r_code r =? code)%Z && bytes_eqb (r_status r) status &&
          hmap_eqb (r_header r) hdr && (r_content_length r =? cl)%Z &&
          Bool.eqb (r_chunked r) chunked && Bool.eqb (r_close r) close &&
          bytes_eqb (b_data b) body &&
          Bool.eqb (berr_eqb (b_end b) BOk) (berr_eqb bend BOk) &&
          (match b_end b with BOk => hmap_eqb (b_trailer b) trailer | _ => true end) &&
          (match reused with
           | Some u => Bool.eqb (cv_reusable cv) u
           | None => true
           end)
      | _, _ => false
      end
  | ExpectCase late s o body_sent =>
      match read_final_expect true 7 (bs "POST") 0 true s with
      | (FhOk r rest, sigs) =>
          view_matches r (read_body conn_bufsize r rest) o &&
          match body_sent with
          | Some u => Bool.eqb u (late || existsb is_send sigs)
          | None => true
          end
      | (_, _) => match o with ORej _ => true | _ => false end
      end
  | IdleCase m first stray seg2 o1 o2 =>
      match client_run true None [EvReq m first; EvIdleBytes stray; EvReq (bs "GET") seg2] with
      | [Some (r1, b1); Some (r2, b2)] => view_matches r1 b1 o1 && view_matches r2 b2 o2
      | _ => false
      end
  | AgainCase m s first again =>
      match client_read m s with
      | Some cv =>
          Bool.eqb (berr_eqb (b_end (cv_body cv)) BOk) (berr_eqb first BOk) &&
          list_eqb berr_eqb again
            (client_reads_again true (r_framing (cv_resp cv)) first (length again))
      | None => false
      end
  | EofCase m s saw_eof o put_idle =>
      match client_read m s, o with
      | None, ORej _ => negb put_idle
      | Some cv, OAcc _ _ _ _ _ _ _ _ _ _ _ _ =>
          view_matches (cv_resp cv) (cv_body cv) o && Bool.eqb put_idle (conn_reusable saw_eof cv)
      | _, _ => false
      end
  | SeqCase reqs obss =>
      (* by C04_answer_depends_on_own_segment_only every answer is the one a fresh connection
         gives from the request's own segment, whichever connection carried it *)
      list_eqb (fun (rq : bytes * bytes) o =>
                  match exchange (fst rq) [] (snd rq), o with
                  | Some (r, b), OAcc _ _ _ _ _ _ _ _ _ _ _ _ => view_matches r b o
                  | None, ORej _ => true
                  | _, _ => false
                  end) reqs obss
  | ConnCase m s seg2 o1 same o2 =>
      match conn_exchanges reuse_real [] [(m, s); (bs "GET", seg2)] with
      | Some (r1, b1) :: tl =>
          view_matches r1 b1 o1 &&
          match tl with
          | [Some (r2, b2)] => same && view_matches r2 b2 o2           (* served by the same connection *)
          | [] => negb same &&                                          (* not reused: a fresh connection *)
                  match exchange (bs "GET") [] seg2 with
                  | Some (r2, b2) => view_matches r2 b2 o2
                  | None => false
                  end
          | _ => false
          end
      | _ => false
      end
  end.
