(* Model/Session.v - several requests of one client, set up and sent one after the other (C17).
   Executable, no proofs.

   Go code modelled: Request.SetFormDataFromValues / SetFormData / SetOrderedFormData / SetBody,
   Client.SetCommonFormDataFromValues (request.go, client.go); what one execution leaves behind in
   the Request and takes back at the next one: parseRequestBody's client-form merge with
   clientMerged.form / formAt, Request.unmergeClientSettings (request.go), the retry loop running
   parseRequestBody again without merging again (middleware.go, request.go do()).

   The model has VALUE semantics: every request owns its form data, the client owns its own, a
   url.Values handed to a setter is copied at the call.  The one thing that is shared by reference,
   because the API says so, is the payload behind SetBody(pointer): a cell read at every set-up of
   the body. *)
From ReqV Require Export Lib.Bytes Model.Form Model.ReqBody.

(* url.Values.Set *)
Fixpoint set_value (k v : bytes) (m : form) : form :=
  match m with
  | [] => [(k, [v])]
  | e :: t => if bytes_eqb (fst e) k then (k, [v]) :: t else e :: set_value k v t
  end.

(* ---- what a send leaves in Request.FormData and how the next send takes it back ---- *)

(* clientMerged.form / formAt: for every client key, where its values were appended *)
Definition merge_records (rf cf : form) : list (bytes * nat * list bytes) :=
  map (fun e => (fst e, length (lookup (fst e) rf), snd e)) cf.

Definition remove_slice (at_ n : nat) (l : list bytes) : list bytes :=
  firstn at_ l ++ skipn (at_ + n) l.

Definition slice_eqb (at_ : nat) (vs cur : list bytes) : bool :=
  (at_ + length vs <=? length cur) && list_eqb bytes_eqb (firstn (length vs) (skipn at_ cur)) vs.

Fixpoint update_key (k : bytes) (f : list bytes -> list bytes) (m : form) : form :=
  match m with
  | [] => []
  | e :: t =>
      if bytes_eqb (fst e) k
      then match f (snd e) with [] => t | v => (fst e, v) :: t end
      else e :: update_key k f t
  end.

(* unmergeClientSettings, form part: a merged slice that is still in place is cut out *)
Definition unmerge_one (m : form) (rc : bytes * nat * list bytes) : form :=
  let '(k, at_, vs) := rc in
  if slice_eqb at_ vs (lookup k m) then update_key k (remove_slice at_ (length vs)) m else m.
Definition unmerge (recs : list (bytes * nat * list bytes)) (m : form) : form :=
  fold_left unmerge_one recs m.

Record sreq := {
  sr_form : form;                                  (* Request.FormData *)
  sr_ordered : list bytes;                         (* Request.OrderedFormData *)
  sr_merged : list (bytes * nat * list bytes);     (* Request.clientMerged.form / formAt *)
  sr_body : bool;                                  (* SetBody(&payload) was called *)
  sr_snap : N                                      (* the payload version marshalled at the last set-up
                                                      of the body (Request.Body holds those bytes) *)
}.
Definition sreq0 : sreq := {| sr_form := []; sr_ordered := []; sr_merged := []; sr_body := false; sr_snap := 0 |}.

(* ss_client: the form data of every client of the session (client 0, then the clones in the order
   they were made); ss_owner: the client each request was created from *)
Record sstate := { ss_client : list form; ss_reqs : list sreq; ss_cell : N; ss_owner : list nat }.

Inductive sop :=
| SClientAdd (c : nat) (f : form)       (* client c: SetCommonFormDataFromValues *)
| SClone (c : nat)                      (* client c: Clone() - the clone is the next client of the session *)
| SReqAdd (i : nat) (f : form)          (* R_i.SetFormDataFromValues(values as they are at the call) *)
| SReqSet (i : nat) (k v : bytes)       (* R_i.SetFormData{k: v} *)
| SReqOrdered (i : nat) (kvs : list bytes)
| SReqBody (i : nat)                    (* R_i.SetBody(&payload) *)
| SCellSet (ver : N)                    (* the payload is changed through its pointer *)
| SSend (i : nat)                       (* R_i is executed *)
| SSendQuiet (i : nat)                  (* R_i is executed as multipart: same book-keeping, the body is
                                           judged by the oracle only (map order, random boundary) *)
| SBegin (i : nat)                      (* the before-request stage of R_i: the body is set up ... *)
| SFinish (i : nat)                     (* ... and, later, written (a round-trip wrapper, another goroutine may run in between) *)
| SSendRetry (i : nat) (ver : N).       (* ... first attempt answered 503, the retry hook changes the
                                           payload to ver, second attempt *)

Inductive sout :=
| OutBody (i : nat) (b : bytes)         (* url-encoded body *)
| OutMarshal (i : nat) (ver : N)        (* the marshalling of the payload at version ver *)
| OutNone (i : nat)
| OutErr (i : nat).

Fixpoint upd {A} (i : nat) (f : A -> A) (l : list A) : list A :=
  match l, i with
  | [], _ => []
  | x :: t, O => f x :: t
  | x :: t, S j => x :: upd j f t
  end.

Definition drop_record (k : bytes) (recs : list (bytes * nat * list bytes)) : list (bytes * nat * list bytes) :=
  filter (fun rc => negb (bytes_eqb (fst (fst rc)) k)) recs.

Definition on_form (f : form -> form) (r : sreq) : sreq :=
  {| sr_form := f (sr_form r); sr_ordered := sr_ordered r; sr_merged := sr_merged r; sr_body := sr_body r; sr_snap := sr_snap r |}.

(* set-up of the body at the start of an execution: take back, merge, encode *)
Definition prepare (client : form) (cell : N) (r : sreq) : sreq :=
  let own := unmerge (sr_merged r) (sr_form r) in
  match client with
  | [] => {| sr_form := own; sr_ordered := sr_ordered r; sr_merged := []; sr_body := sr_body r; sr_snap := cell |}
  | _ => {| sr_form := merge_form own client; sr_ordered := sr_ordered r;
            sr_merged := merge_records own client; sr_body := sr_body r; sr_snap := cell |}
  end.

(* a retry attempt sets the body up again: the payload is marshalled anew *)
Definition resnap (cell : N) (r : sreq) : sreq :=
  {| sr_form := sr_form r; sr_ordered := sr_ordered r; sr_merged := sr_merged r; sr_body := sr_body r; sr_snap := cell |}.

(* what parseRequestBody makes of the prepared request (no merge again: clientFormDataMerged) *)
Definition emit (i : nat) (r : sreq) : sout :=
  match form_plan_of (sr_form r) [] (sr_ordered r) with
  | FBody b => OutBody i b
  | FBadOrdered => OutErr i
  | FNone => if sr_body r then OutMarshal i (sr_snap r) else OutNone i
  end.

(* the client-level form data that apply to request i: those of the client it was created from *)
Definition client_of (s : sstate) (i : nat) : form := nth (nth i (ss_owner s) 0) (ss_client s) [].

Definition sstep (s : sstate) (o : sop) : sstate * list sout :=
  match o with
  | SClientAdd c f => ({| ss_client := upd c (fun m => merge_form m f) (ss_client s); ss_reqs := ss_reqs s; ss_cell := ss_cell s; ss_owner := ss_owner s |}, [])
  | SClone c => ({| ss_client := ss_client s ++ [nth c (ss_client s) []]; ss_reqs := ss_reqs s;
                    ss_cell := ss_cell s; ss_owner := ss_owner s |}, [])
  | SReqAdd i f =>
      ({| ss_client := ss_client s; ss_reqs := upd i (on_form (fun m => merge_form m f)) (ss_reqs s); ss_cell := ss_cell s; ss_owner := ss_owner s |}, [])
  | SReqSet i k v =>
      (* url.Values.Set stores a NEW one-element slice: unmergeClientSettings (3f45fee) recognises "not
         longer than right after the merge and another backing array" as replaced by the caller and leaves
         the key alone - the merge record of k is void *)
      ({| ss_client := ss_client s;
          ss_reqs := upd i (fun r => {| sr_form := set_value k v (sr_form r); sr_ordered := sr_ordered r;
                                        sr_merged := drop_record k (sr_merged r); sr_body := sr_body r;
                                        sr_snap := sr_snap r |}) (ss_reqs s);
          ss_cell := ss_cell s; ss_owner := ss_owner s |}, [])
  | SReqOrdered i kvs =>
      ({| ss_client := ss_client s;
          ss_reqs := upd i (fun r => {| sr_form := sr_form r; sr_ordered := sr_ordered r ++ kvs;
                                        sr_merged := sr_merged r; sr_body := sr_body r; sr_snap := sr_snap r |}) (ss_reqs s);
          ss_cell := ss_cell s; ss_owner := ss_owner s |}, [])
  | SReqBody i =>
      ({| ss_client := ss_client s;
          ss_reqs := upd i (fun r => {| sr_form := sr_form r; sr_ordered := sr_ordered r;
                                        sr_merged := sr_merged r; sr_body := true; sr_snap := sr_snap r |}) (ss_reqs s);
          ss_cell := ss_cell s; ss_owner := ss_owner s |}, [])
  | SCellSet v => ({| ss_client := ss_client s; ss_reqs := ss_reqs s; ss_cell := v; ss_owner := ss_owner s |}, [])
  | SSend i =>
      let r := prepare (client_of s i) (ss_cell s) (nth i (ss_reqs s) sreq0) in
      ({| ss_client := ss_client s; ss_reqs := upd i (fun _ => r) (ss_reqs s); ss_cell := ss_cell s; ss_owner := ss_owner s |},
       [emit i r])
  | SSendQuiet i =>
      let r := prepare (client_of s i) (ss_cell s) (nth i (ss_reqs s) sreq0) in
      ({| ss_client := ss_client s; ss_reqs := upd i (fun _ => r) (ss_reqs s); ss_cell := ss_cell s; ss_owner := ss_owner s |}, [])
  | SSendRetry i v =>
      let r := prepare (client_of s i) (ss_cell s) (nth i (ss_reqs s) sreq0) in
      ({| ss_client := ss_client s; ss_reqs := upd i (fun _ => resnap v r) (ss_reqs s); ss_cell := v; ss_owner := ss_owner s |},
       [emit i r; emit i (resnap v r)])
  | SBegin i =>
      let r := prepare (client_of s i) (ss_cell s) (nth i (ss_reqs s) sreq0) in
      ({| ss_client := ss_client s; ss_reqs := upd i (fun _ => r) (ss_reqs s); ss_cell := ss_cell s; ss_owner := ss_owner s |}, [])
  | SFinish i => (s, [emit i (nth i (ss_reqs s) sreq0)])
  end.

Fixpoint srun (s : sstate) (ops : list sop) : list sout :=
  match ops with
  | [] => []
  | o :: t => let '(s', out) := sstep s o in out ++ srun s' t
  end.

Definition sinit (owners : list nat) : sstate :=
  {| ss_client := [[]]; ss_reqs := repeat sreq0 (length owners); ss_cell := 0; ss_owner := owners |}.
