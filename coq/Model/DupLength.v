(* Model/DupLength.v - C03: several Content-Length lines in one HTTP/1.1 response head.

   transfer.go fixLength: with more than one Content-Length line every line - the LAST one
   included - must carry the first line's value (compared after trimming; the textual side is
   C04's model, here the lines are their numeric values): then the duplicates are dropped and
   the body is framed by that value; otherwise the response is refused ("message cannot
   contain multiple Content-Length headers") - the call fails, nothing is delivered.
   No proofs here. *)
From ReqV Require Export Lib.Bytes Model.BodyFraming.

Definition cl_lines_agree (vals : list N) : bool :=
  match vals with
  | [] => true
  | v :: rest => forallb (N.eqb v) rest
  end.

(* vals: the values of the Content-Length lines, in order (at least one) *)
Definition h1_read_cl_lines (hlen : N) (vals : list N) (wire : bytes) : h1_outcome :=
  match vals with
  | [] => h1_read hlen FrClose wire
  | v :: _ => if cl_lines_agree vals then h1_read hlen (FrCL v) wire else CallError
  end.

(* the seeded variant: the loop compares lines 0 .. n-2, never the last one *)
Definition cl_lines_agree_skip_last (vals : list N) : bool :=
  match vals with
  | [] => true
  | v :: _ => forallb (N.eqb v) (removelast vals)
  end.
