(* Model/DumpCtx.v - C19: request-level dump and inherited contexts.
   Request.EnableDump (every request-level dump setter and the EnableDumpEachRequest middleware end in it)
   stores a Dumper reading the request's own DumpOptions in the request's context; the transport uses the
   NEAREST dumper of the context.  A request may derive its context from another request's
   (SetContext(parent.Context())).  d_always_pushes: EnableDump has no early return before it stores the
   dumper (regenerated from the source).  Dumpers are named by the sink their request's options write to. *)
From Coq Require Import List Arith Bool.
Import ListNotations.

Record dtbl := { d_always_pushes : bool }.
Definition good_dump : dtbl := {| d_always_pushes := true |}.

(* a context, as far as dumps go: the dumpers it carries, nearest first *)
Definition dctx := list nat.
Definition denable (t : dtbl) (ctx : dctx) (own : nat) : dctx :=
  if d_always_pushes t then own :: ctx else match ctx with [] => [own] | _ :: _ => ctx end.
Definition deffective (ctx : dctx) : nat := hd 0 ctx.      (* 0 = no request-level dump *)

(* a program: request i takes the context of an earlier request (or a fresh one), optionally enables its own
   dump to sink `own` (0 = does not), is executed; obs = the sink that received the exchange (0 = none) *)
Inductive dstep := DReq (parent : option nat) (own obs : nat).

Fixpoint dump_run (t : dtbl) (ctxs : list dctx) (l : list dstep) : bool :=
  match l with
  | [] => true
  | DReq par own obs :: r =>
      let inherited := match par with Some j => nth j ctxs [] | None => [] end in
      let ctx := if own =? 0 then inherited else denable t inherited own in
      (deffective ctx =? obs) && dump_run t (ctxs ++ [ctx]) r
  end.
