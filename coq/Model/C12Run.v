(* Model/C12Run.v - case type and checker evaluated on harness-recorded cases (C12).
   A case = environment (scheme, host, server description), the operations applied to a fresh
   req.C() in order, and what was observed for each operation on the REAL client: per request the
   protocol used / failure class and the TLS hellos the listeners received (listener kind, SNI,
   ALPN offer); per background event the hellos the QUIC listener received.  The checker runs the
   model's [run] (the function the theorems are about) on the same operations and compares. *)
From Coq Require Import List Bool NArith.
From ReqV Require Export Lib.Bytes Gen.ProtoTables Model.Proto.
Import ListNotations.

Definition version_eqb (a b : version) : bool :=
  match a, b with V1, V1 | V2, V2 | V3, V3 => true | _, _ => false end.
Definition err_eqb (a b : errclass) : bool :=
  match a, b with
  | ECert, ECert | EAlpn, EAlpn | EScheme, EScheme | EDial, EDial | EProto, EProto => true
  | _, _ => false
  end.
Definition outcome_eqb (a b : outcome) : bool :=
  match a, b with
  | Use x, Use y => version_eqb x y
  | Cleartext, Cleartext => true
  | Fail x, Fail y => err_eqb x y
  | _, _ => false
  end.
(* listeners cannot tell the HTTP/1 dialler from the HTTP/2 dialler: TCP vs QUIC only *)
Definition quic (s : stack) : bool := match s with S3 => true | _ => false end.
Definition at_proxy (s : stack) : bool := match s with SP => true | _ => false end.
Definition dial_eqb (a b : dial) : bool :=
  Bool.eqb (quic (d_stack a)) (quic (d_stack b)) && Bool.eqb (at_proxy (d_stack a)) (at_proxy (d_stack b)) && bytes_eqb (d_sni a) (d_sni b) &&
  list_eqb bytes_eqb (d_alpn a) (d_alpn b).
Definition altobs_eqb (a b : altobs) : bool :=
  match a, b with
  | AOff, AOff | AObsNone, AObsNone | AObsPending, AObsPending | AObsReady, AObsReady | AObsJar, AObsJar => true
  | _, _ => false
  end.
Definition obs_eqb (a b : obs) : bool :=
  match a, b with
  | ObsReq o ds, ObsReq o' ds' => outcome_eqb o o' && list_eqb dial_eqb ds ds'
  | ObsBg ds a, ObsBg ds' a' => list_eqb dial_eqb ds ds' && altobs_eqb a a'
  | ObsCfg, ObsCfg => true
  | ObsFork o ds bg a, ObsFork o' ds' bg' a' =>
      outcome_eqb o o' && list_eqb dial_eqb ds ds' && list_eqb dial_eqb bg bg' && altobs_eqb a a'
  | _, _ => false
  end.

(* k_env: the origin under its first authority (localhost:p); k_env2: the second authority of the cell - the same
   origin under its other name (127.0.0.1:p), or ANOTHER origin on the same host name (localhost:p'); every
   operation is tagged with the authority it is directed at (false = first; ignored for operations that are not
   directed at an authority) *)
Record c12_case := mkCase { k_env : env; k_env2 : env; k_ops : list (bool * op); k_obs : list obs }.

Definition env2 (k : c12_case) : env := k_env2 k.

Definition c12_check (k : c12_case) : bool :=
  list_eqb obs_eqb (fst (run2 (k_env k) (env2 k) (new_client, new_client) (k_ops k))) (k_obs k).

(* shorthand for the emitter: a hello seen by a listener *)
Definition hello (q : bool) (sni : bytes) (alpn : list bytes) : dial :=
  mkDial (if q then S3 else S1) sni alpn true.
(* a hello seen by the proxy's TLS listener *)
Definition phello (sni : bytes) (alpn : list bytes) : dial := mkDial SP sni alpn true.
