(* Model/H2ConnThreads.v - two streams of one HTTP/2 connection that come to write a header block
   (request HEADERS: clientStream.encodeAndWriteHeaders; request trailers: the end of
   clientStream.writeRequestBody) at the same time.  Shared, as in ClientConn: the HPACK encoder
   (cc.henc, dynamic table), the header buffer cc.hbuf, the write lock cc.wmu.  Each block is
   Lock; Encode (into hbuf, through the encoder); Write (hbuf to the wire); Unlock - small steps under
   an arbitrary scheduler.  The peer (one HPACK decoder reading the wire in order) is part of the
   state.  locked = false: the block is encoded BEFORE the lock is taken (for the refutation).
   HPACK is abstract (Section variables, as in Model/H2EncConn.v).  No proofs here. *)
From ReqV Require Export Lib.Bytes Lib.BigEndian Model.H2Frame Model.H3Frame Model.H2Meta Model.H2EncConn.
Open Scope N_scope.

Inductive cpc := CLock | CEncode | CWrite | CUnlock | CDone.

Section Threads.
Variables S D B : Type.
Variable enc : S -> list hfield -> B * S.
Variable dec : D -> B -> option (list hfield * D).
Variable fs : bool -> list hfield.          (* the fields of thread t's block *)
Variable locked : bool.

Record cstate := {
  c_enc : S; c_hbuf : option B; c_lock : option bool; c_pa : cpc; c_pb : cpc;
  c_peer : D; c_outs : list (option (list hfield)) }.     (* what the peer decoded, block by block *)

Definition c_pc (st : cstate) (t : bool) : cpc := if t then c_pa st else c_pb st.
Definition c_with (st : cstate) (t : bool) (e : S) (h : option B) (l : option bool) (p : cpc)
           (d : D) (o : list (option (list hfield))) : cstate :=
  if t then {| c_enc := e; c_hbuf := h; c_lock := l; c_pa := p; c_pb := c_pb st; c_peer := d; c_outs := o |}
  else {| c_enc := e; c_hbuf := h; c_lock := l; c_pa := c_pa st; c_pb := p; c_peer := d; c_outs := o |}.

Definition cstep (st : cstate) (t : bool) : cstate :=
  match c_pc st t with
  | CLock =>
      match c_lock st with
      | None => c_with st t (c_enc st) (c_hbuf st) (Some t) (if locked then CEncode else CWrite) (c_peer st) (c_outs st)
      | Some _ => st
      end
  | CEncode =>          (* cc.hbuf.Reset(); henc.WriteField ... *)
      let '(b, s') := enc (c_enc st) (fs t) in
      c_with st t s' (Some b) (c_lock st) (if locked then CWrite else CLock) (c_peer st) (c_outs st)
  | CWrite =>           (* cc.writeHeaders(..., cc.hbuf.Bytes()): the peer reads it *)
      match c_hbuf st with
      | None => c_with st t (c_enc st) None (c_lock st) CUnlock (c_peer st) (c_outs st ++ [None])
      | Some b =>
          match dec (c_peer st) b with
          | Some (got, d') => c_with st t (c_enc st) (c_hbuf st) (c_lock st) CUnlock d' (c_outs st ++ [Some got])
          | None => c_with st t (c_enc st) (c_hbuf st) (c_lock st) CUnlock (c_peer st) (c_outs st ++ [None])
          end
      end
  | CUnlock => c_with st t (c_enc st) (c_hbuf st) None CDone (c_peer st) (c_outs st)
  | CDone => st
  end.

Definition cinit (s0 : S) (d0 : D) : cstate :=
  let p0 := if locked then CLock else CEncode in
  {| c_enc := s0; c_hbuf := None; c_lock := None; c_pa := p0; c_pb := p0; c_peer := d0; c_outs := [] |}.
Definition crun (s0 : S) (d0 : D) (sched : list bool) : cstate := fold_left cstep sched (cinit s0 d0).
End Threads.
Arguments c_enc {S D B} _.
Arguments c_hbuf {S D B} _.
Arguments c_lock {S D B} _.
Arguments c_pa {S D B} _.
Arguments c_pb {S D B} _.
Arguments c_peer {S D B} _.
Arguments c_outs {S D B} _.
