(* Model/C13Run.v - case type and checker evaluated on harness-generated cases (C13).
   The checker runs the SAME functions the theorems are about (read_line, h1_send / h1_recv,
   h2_send / h3_send / h23_recv, get_dumpers, content) on what the harness recorded at the origin
   (wire capture) and compares the predicted content of every writer with what the real
   writers received. *)
From ReqV Require Export Lib.Bytes Model.Dump Model.DumpReader Model.DumpStack Model.C13Lit.

(* compact rendering of bulk data in case files: k copies of a pattern *)
Definition brep (k : nat) (p : bytes) : bytes := concat (repeat p k).


(* a body reader that replays the recorded Read results *)
Definition script_reader : rfn (list (bytes * rstat)) :=
  fun s _ => match s with
             | [] => ([], [], REnd)
             | (b, e) :: r => (r, b, e)
             end.

Definition app_w : wfn bytes := fun s p => (s ++ p, length p, false).

(* a connection that accepts k bytes in total and then fails (partial write + error) *)
Definition cut_w (k : nat) : wfn bytes := fun s p =>
  let room := k - length s in
  if Nat.leb (length p) room then (s ++ p, length p, false)
  else (s ++ firstn room p, room, true).

(* one exchange as observed at the origin + what the caller was given *)
Inductive exch :=
| X1 (header_block : bytes)            (* request line + header lines + blank line, as captured *)
     (body : option (list bytes))      (* Some chunks: body pieces in wire order (chunk payloads) *)
     (chunked : bool)
     (wire : bytes)                    (* everything the origin received for this request *)
     (bufsize : nat)                   (* Transport.ReadBufferSize *)
     (stream : bytes)                  (* everything the origin sent *)
     (pre : nat)                       (* interim header blocks the client reads BEFORE it writes the
                                          request body (Expect: 100-continue) *)
     (blocks : nat)                    (* header blocks read: 1 + number of 1xx responses *)
     (reads : list (bytes * rstat))    (* what the caller got from resp.Body *)
| X2 (fields : list field) (body : option (list bytes))
     (fin_last : bool)                 (* the last DATA frame with payload carried END_STREAM *)
     (aborted : bool)                  (* the client never ended the stream (upload abandoned) *)
     (interim : list (list field))     (* 1xx header blocks before the final one *)
     (resp_fields : list field) (reads : list (bytes * rstat))
| X3 (fields : list field) (body : option (list bytes))
     (interim : list (list field))
     (resp_fields : list field) (reads : list (bytes * rstat))
(* uploads that break off: the connection / stream accepted only [accepted] bytes of the body
   (h1: Content-Length body, the peer closed the connection, no response; h3: the peer answered
   and stopped reading) *)
(* h2: a request without body whose response header block is never completed / is rejected; the
   fields that were decoded before the fault *)
| X2p (fields : list field) (decoded : list field)
| X1a (header_block body : bytes) (accepted : nat)
| X3a (fields : list field) (body : bytes) (accepted : nat)
      (resp_fields : list field) (reads : list (bytes * rstat)).

(* read k header blocks one after the other (interim 1xx responses, then the final one) *)
Fixpoint recv_blocks (ds : list dumper) (n : nat) (k : nat) (stream : bytes) : bytes * log :=
  match k with
  | O => (stream, [])
  | S k' =>
      let '(rr, l) := h1_recv ds n stream script_reader [] [] in
      let '(rest, l') := recv_blocks ds n k' (rr_rest rr) in
      (rest, l ++ l')
  end.

Definition no_enc (_ : list field) : bytes := [].
Definition id_frame (p : bytes) : bytes := p.

(* (does the model reproduce the captured wire?, predicted log) *)
Definition exch_log (ds : list dumper) (x : exch) : bool * log :=
  match x with
  | X1 hb body chunked wire n stream pre blocks reads =>
      let '(sr, l1) := h1_send ds app_w [] (mkH1Req [hb] body chunked false) in
      (* program order with Expect: 100-continue: header writes, the interim blocks (the write loop
         waits for the read loop), then the body phase; the header phase is h1_send without body *)
      let lh := snd (h1_send ds app_w [] (mkH1Req [hb] None chunked false)) in
      let '(rest0, lpre) := recv_blocks ds n pre stream in
      let '(rest, l2) := recv_blocks ds n (Nat.pred blocks - pre) rest0 in
      (* the final block is followed by the body reads *)
      let '(rr, l3) := h1_recv ds n rest script_reader reads (map (fun _ => 0) reads) in
      (bytes_eqb (sr_state sr) wire && negb (sr_failed sr),
       lh ++ lpre ++ skipn (length lh) l1 ++ l2 ++ l3)
  | X2 fs body fin aborted interim rfs reads =>
      let '(sr, l1) := h2_send ds no_enc id_frame id_frame [] app_w [] (mkH23Req fs body fin aborted) in
      (* no response header block at all (stream reset): nothing is read *)
      let l2 := match rfs with
                | [] => []
                | _ => snd (h23_recv ds rfs script_reader reads (map (fun _ => 0) reads))
                end in
      (* every response HEADERS block - informational ones too - is dumped as field lines + CRLF *)
      (Bool.eqb (sr_failed sr) (aborted && negb fin),
       l1 ++ flat_map (h23_resp_header_log ds) interim ++ l2)
  | X2p fs decoded =>
      let '(sr, l1) := h2_send ds no_enc id_frame id_frame [] app_w [] (mkH23Req fs None false false) in
      (negb (sr_failed sr), l1 ++ h2_partial_block_log ds decoded)
  | X1a hb body n =>
      let '(sr, l1) := h1_send ds (cut_w (length hb + n)) [] (mkH1Req [hb] (Some [body]) false false) in
      (Bool.eqb (sr_failed sr) (Nat.ltb n (length body)), l1)
  | X3a fs body n rfs reads =>
      let '(sr, l1) := h3_send ds no_enc (cut_w n) [] (mkH23Req fs (Some [body]) false false) in
      let '(_, l2) := h23_recv ds rfs script_reader reads (map (fun _ => 0) reads) in
      (Bool.eqb (sr_failed sr) (Nat.ltb n (length body)), l1 ++ l2)
  | X3 fs body interim rfs reads =>
      let '(sr, l1) := h3_send ds no_enc app_w [] (mkH23Req fs body false false) in
      let '(_, l2) := h23_recv ds rfs script_reader reads (map (fun _ => 0) reads) in
      (negb (sr_failed sr), l1 ++ flat_map (h23_resp_header_log ds) interim ++ l2)
  end.

Fixpoint exchs_log (ds : list dumper) (xs : list exch) : bool * log :=
  match xs with
  | [] => (true, [])
  | x :: r => let '(ok, l) := exch_log ds x in
              let '(ok', l') := exchs_log ds r in (ok && ok', l ++ l')
  end.

Definition opt_writers (o : options) : list writer :=
  flat_map (fun x => match x with Some w => [w] | None => [] end)
           [o_out o; o_req o; o_resp o; o_reqh o; o_reqb o; o_resph o; o_respb o].

Definition universe (ds : list dumper) (obs : list (nat * writer * bytes)) : list writer :=
  w_stdout :: w_stderr :: flat_map (fun d => opt_writers (snd d)) ds ++ map (fun e => snd (fst e)) obs.

Fixpoint lookup_obs (i : nat) (w : writer) (obs : list (nat * writer * bytes)) : bytes :=
  match obs with
  | [] => []
  | (j, v, p) :: r => if Nat.eqb i j && N.eqb w v then p else lookup_obs i w r
  end.

(* a connection that counts the Flush calls of its bufio.Writer *)
Definition count_w : wfn (bytes * nat) := fun s p => ((fst s ++ p, snd s), length p, false).
Definition count_flush : flushfn (bytes * nat) := fun s => ((fst s, S (snd s)), false).

Inductive c13_case :=
(* the hook VerifC13ReadLines: readLine variant, buffer size, stream, max calls; per call
   (line, isPrefix, err) and everything handed to the dumper *)
| LineCase (dumping : bool) (n : nat) (input : bytes) (max : nat)
           (obs : list (bytes * bool * rerr)) (obs_dumped : bytes)
(* client-level / request-level options as given to SetCommonDumpOptions / SetDumpOptions
   (request buffer = writer 2), the exchanges, content of every (dumper, writer) *)
| ExchCase (client request : option options) (xs : list exch)
           (obs : list (nat * writer * bytes))
(* a streamed (chunked) HTTP/1.1 upload whose producer yields the next part only after the origin
   has received the previous one: [progress] = no part had to wait for more than the generous
   bound, i.e. every chunk was flushed on its own *)
(* the request-level dump setters in the order the caller made them (request buffer = writer 2)
   and the options the real dumper turned out to work with (None: nothing was dumped at request
   level because no dumper existed) *)
(* a retried request: the exchanges before and after the (last) reset of the request's own dump
   buffer (writer 2 of dumper 1): the buffer holds only what was dumped after the reset, every
   other writer holds everything *)
| ExchCaseR (client request : option options) (before after : list exch)
            (obs : list (nat * writer * bytes))
(* the client-level configuration calls in order, whether the exchange ran on a Clone, and the
   options the real client-level dumper turned out to work with *)
(* a Stop / DumpTo schedule run against the real Dumper with a gated writer: the operations in the
   order the model sees them (a DumpTo that waits for Stop comes after the drain) and the chunks
   the writer received, in order *)
| StopCase (async : bool) (ops : list top) (written : list bytes)
| ClientOpsCase (ops : list cop) (cloned : bool) (effective : option options)
| ReqOpsCase (ops : list rop) (effective : option options)
| FlushCase (client request : option options) (header_block : bytes) (chunks : list bytes)
            (progress : bool).

Definition w_reqbuf : writer := 2%N.

Definition rl_obs_eqb (r : rl) (o : bytes * bool * rerr) : bool :=
  let '(l, p, e) := o in
  bytes_eqb (rl_line r) l && Bool.eqb (rl_prefix r) p && rerr_eqb (rl_err r) e.

Definition ow_eqb (a b : option writer) : bool :=
  match a, b with Some x, Some y => N.eqb x y | None, None => true | _, _ => false end.
Definition options_eqb (a b : options) : bool :=
  ow_eqb (o_out a) (o_out b) && ow_eqb (o_req a) (o_req b) && ow_eqb (o_resp a) (o_resp b) &&
  ow_eqb (o_reqh a) (o_reqh b) && ow_eqb (o_reqb a) (o_reqb b) && ow_eqb (o_resph a) (o_resph b) &&
  ow_eqb (o_respb a) (o_respb b) && Bool.eqb (on_reqh a) (on_reqh b) && Bool.eqb (on_reqb a) (on_reqb b) &&
  Bool.eqb (on_resph a) (on_resph b) && Bool.eqb (on_respb a) (on_respb b) && Bool.eqb (o_async a) (o_async b).

Definition c13_check (c : c13_case) : bool :=
  match c with
  | LineCase dumping n input max obs dumped =>
      let rs := read_lines (read_line dumping) n max input in
      list_eqb rl_obs_eqb rs obs && bytes_eqb (concat (map rl_dumped rs)) dumped
  | ExchCaseR client request before after obs =>
      let ds := get_dumpers (option_map (client_set_options None) client)
                            (option_map (request_set_options w_reqbuf) request) in
      let '(ok1, l1) := exchs_log ds before in
      let '(ok2, l2) := exchs_log ds after in
      ok1 && ok2 &&
      forallb (fun d => forallb (fun w =>
                 let predicted :=
                   if Nat.eqb (fst d) 1 && N.eqb w w_reqbuf
                   then run_bops [BWrite (content 1 w l1); BReset; BWrite (content 1 w l2)]
                   else content (fst d) w (l1 ++ l2) in
                 bytes_eqb predicted (lookup_obs (fst d) w obs))
                                (universe ds obs)) ds
  | StopCase async ops written =>
      let '(st, ex) := run_tops true async ops in
      list_eqb bytes_eqb (map snd (t_out st)) written &&
      Nat.eqb (length (tasks_of (t_q st))) 0 && Nat.eqb (length ex) (length written)
  | ClientOpsCase ops cloned effective =>
      let st := run_cops ops in
      match in_force (if cloned then cclone st else st), effective with
      | Some a, Some b => options_eqb a b
      | None, None => true
      | _, _ => false
      end
  | ReqOpsCase ops effective =>
      match run_rops w_reqbuf ops, effective with
      | Some a, Some b => options_eqb a (request_set_options w_reqbuf b)
      | None, None => true
      | _, _ => false
      end
  | FlushCase client request hb chunks progress =>
      let ds := get_dumpers (option_map (client_set_options None) client)
                            (option_map (request_set_options w_reqbuf) request) in
      let sr := fst (h1_send_f count_flush ds count_w ([], 0) (mkH1Req [hb] (Some chunks) true false)) in
      Bool.eqb progress (Nat.eqb (snd (sr_state sr)) (length (filter nonempty chunks)))
  | ExchCase client request xs obs =>
      let ds := get_dumpers (option_map (client_set_options None) client)
                            (option_map (request_set_options w_reqbuf) request) in
      let '(ok, l) := exchs_log ds xs in
      ok &&
      forallb (fun d => forallb (fun w => bytes_eqb (content (fst d) w l) (lookup_obs (fst d) w obs))
                                (universe ds obs)) ds &&
      forallb (fun e => existsb (fun d => Nat.eqb (fst d) (fst (fst e))) ds ||
                        match snd e with [] => true | _ => false end) obs
  end.
