(* Model/C15Run.v - case type and checker evaluated on harness-generated cases (C15).
   One case = one response body pushed through the REAL Transport.autoDecodeResponseBody and read to
   io.EOF with scripted caller buffers (transport-level: scripted io.Reader body; end to end: the network
   reads recorded underneath the decoder).  The external libraries are an ORACLE TABLE: the real answers
   of mime.ParseMediaType, htmlcharset.Lookup/ianaindex, charsets.prescan / htmlcharset.Lookup inside charsets.FindEncoding (whose byte-order-mark layer is
   modelled, Model/CharsetFind.v) and of the x/text
   decoders for exactly the calls the model makes (arguments are compared, a call outside the table
   poisons the run).  Encodings are identified by their canonical name. *)
From ReqV Require Export Lib.Bytes Model.Charset Model.CharsetFind Model.CharsetConfig.

Inductive rkind := KRaw | KHeader | KSniff.
Definition rkind_eqb (a b : rkind) : bool :=
  match a, b with KRaw, KRaw | KHeader, KHeader | KSniff, KSniff => true | _, _ => false end.

Definition call_obs := (N * rerr * (bool * bool * option N))%type.

(* what was delivered: identical to the body / to an oracle-table entry (compared by the harness), or literal *)
Inductive out_obs := OutBody | OutStream (name : bytes) | OutBytes (b : bytes).

Inductive c15_case :=
| C15Case
    (* configuration and response headers *)
    (disable : bool) (sel : selector) (resp_ae resp_ce ct : bytes)   (* response headers Accept-Encoding, Content-Encoding, Content-Type *)
    (status : N) (location : bytes)                   (* response status, Location header *)
    (* oracle table *)
    (t_parse : ct_parse)                              (* mime.ParseMediaType(ct): charset parameter *)
    (t_lookup : bytes * option bytes)                 (* lowered label -> canonical name (Lookup, then ianaindex) *)
    (t_first : option N)                              (* length of the first non-empty read (a prefix of the body) *)
    (t_boms : list (bytes * option bytes))            (* htmlcharset.Lookup on the labels of the marks prefixing it -> name *)
    (t_prescan : option bytes)                        (* charsets.prescan(first read) -> name (None = nil encoding) *)
    (t_stream : list (bytes * bytes))                 (* name -> transform.Reader over the body's chunks, drained *)
    (t_partial : list (bytes * bytes))                (* name -> the same when the source fails after the chunks (no flush) *)
    (takes : list (N * bool))                         (* hand-out schedule of the reference transform.Reader *)
    (* the body as the network delivers it (fail: a read error follows the chunks), the caller's buffer sizes (cycled), number of calls made *)
    (chunks : list bytes) (eof_last fail : bool) (pattern : list N) (ncalls : N)
    (* observed on the real code *)
    (o_kind : rkind)                                  (* which reader autoDecodeResponseBody installed *)
    (o_calls : list call_obs)                         (* per Read: n, error, (detected, decodeReader != nil, len(peek)) *)
    (o_out : out_obs)                                 (* everything delivered *)
(* a configuration program over transports related by Clone, and for every transport x content type the
   reader the real autoDecodeResponseBody installed afterwards *)
| C15CfgCase
    (ops : list cfg_op)
    (probes : list (nat * bytes * ct_parse * (bytes * option bytes) * rkind)).

Definition poison : bytes := bs "\POISON: call outside the oracle table\".

Definition tbl_parse (ct : bytes) (a : ct_parse) : bytes -> ct_parse :=
  fun x => if bytes_eqb x ct then a else PCharset poison.

Definition tbl_lookup (t : bytes * option bytes) : bytes -> option bytes :=
  fun x => if bytes_eqb x (fst t) then snd t else Some poison.

(* htmlcharset.Lookup as FindEncoding calls it (labels of the BOM table): encoding = its canonical name *)
Definition tbl_lookup_name (t : list (bytes * option bytes)) : bytes -> option (bytes * bytes) :=
  fun lbl => match find (fun x => bytes_eqb (fst x) lbl) t with
             | Some (_, Some n) => Some (n, n)
             | Some (_, None) => None
             | None => Some (poison, poison)
             end.

(* charsets.prescan, asked exactly for the first non-empty read *)
Definition tbl_prescan (body : bytes) (first : option N) (a : option bytes) : bytes -> option (bytes * bytes) :=
  fun x => match first with
           | Some k => if bytes_eqb x (firstn (N.to_nat k) body)
                       then match a with Some n => Some (n, n) | None => None end
                       else Some (poison, poison)
           | None => Some (poison, poison)
           end.

Definition tbl_stream (body : bytes) (t : list (bytes * bytes)) : bytes -> list bytes -> bytes :=
  fun e cs =>
    if bytes_eqb (concat cs) body then
      match find (fun x => bytes_eqb (fst x) e) t with
      | Some (_, d) => d
      | None => poison
      end
    else poison.

(* the one-shot decoder is not called by the repaired machine *)
Definition tbl_all : bytes -> bytes -> bytes := fun _ _ => poison.

Fixpoint cycle_sizes (n : nat) (pat cur : list nat) : list nat :=
  match n with
  | O => []
  | S n' =>
      match cur with
      | [] => match pat with
              | [] => 4096 :: cycle_sizes n' pat []
              | x :: r => x :: cycle_sizes n' pat r
              end
      | x :: r => x :: cycle_sizes n' pat r
      end
  end.

Definition obs_state (b : breader) : bool * bool * option nat :=
  match b with
  | BRaw _ => (false, false, None)
  | BHeader _ => (false, true, None)
  | BSniff a => (a_detected a, match a_dec a with Some _ => true | None => false end,
                 option_map (@length byte) (a_peek a))
  end.

Definition opt_nat_eqb (a : option nat) (b : option N) : bool :=
  match a, b with
  | None, None => true
  | Some x, Some y => N.eqb (N.of_nat x) y
  | _, _ => false
  end.

Definition call_eqb (m : bytes * rerr * breader) (o : call_obs) : bool :=
  let '(mo, me, mb) := m in
  let '(n, e, (d, h, p)) := o in
  let '(md, mh, mp) := obs_state mb in
  N.eqb (N.of_nat (length mo)) n && rerr_eqb me e && Bool.eqb md d && Bool.eqb mh h && opt_nat_eqb mp p.

Definition kind_of (i : install bytes) : rkind :=
  match i with IRaw => KRaw | IHeader _ => KHeader | ISniff => KSniff end.

Definition c15_check (c : c15_case) : bool :=
  match c with
  | C15Case disable sel resp_ae resp_ce ct status location t_parse t_lookup t_first t_boms t_prescan t_stream t_partial takes
            chunks eof_last fail pattern ncalls o_kind o_calls o_out =>
      let body := concat chunks in
      let ds := tbl_stream body t_stream in
      let dp := tbl_stream body t_partial in
      let fe := find_encoding_m (tbl_lookup_name t_boms) (tbl_prescan body t_first t_prescan) in
      let tk := map (fun x => (N.to_nat (fst x), snd x)) takes in
      let pat := map N.to_nat pattern in
      let i := decide_resp (tbl_parse ct t_parse) (tbl_lookup t_lookup) status location disable sel resp_ce ct in
      let b := open_body ds dp i chunks eof_last fail tk in
      let sizes := cycle_sizes (N.to_nat ncalls + 2) pat pat in
      let tr := run ds dp fe sizes b in
      let out := concat (map (fun x => fst (fst x)) tr) in
      let want := match o_out with
                  | OutBody => body
                  | OutStream n => if fail then dp n chunks else ds n chunks
                  | OutBytes w => w
                  end in
      rkind_eqb (kind_of i) o_kind &&
      list_eqb call_eqb tr o_calls &&
      bytes_eqb out want &&
      (* the delivered body as [read_all] (the function the theorems are about) computes it *)
      let '(out2, fin) := read_all ds dp fe sizes b in
      bytes_eqb out2 want && rerr_eqb fin (if fail then EFail else EEOF)
  | C15CfgCase ops probes =>
      let st := run_ops [dset_default] ops in
      forallb (fun p =>
                 let '(j, ct, tp, tl, k) := p in
                 match decide_of (tbl_parse ct tp) (tbl_lookup tl) st j [] ct with
                 | Some i => rkind_eqb (kind_of i) k
                 | None => false
                 end) probes
  end.
