(* Model/ReExec.v - C19: one Request object executed again.
   Request.do (request.go) starts with unmergeClientSettings: what the previous execution merged
   from the client - header copies (parseRequestHeader), client cookies (parseRequestCookie),
   client form values (parseRequestBody) - is taken back as far as it is still in place untouched,
   RetryAttempt restarts at 0, clientFormDataMerged is cleared; then every attempt runs the three
   middlewares again. Header slices carry an identity (address of the first element), cookies are
   pointers, form values are plain strings (position + value, plus the identity and length of the key's slice right
   after the merge: a slice that is not longer and has another backing array was replaced by the caller).
   No proofs in this file. *)
From Coq Require Import List Arith Bool.
Import ListNotations.

Definition rval := nat.

Fixpoint rget {B} (k : nat) (l : list (nat * B)) : option B :=
  match l with [] => None | (j, y) :: t => if j =? k then Some y else rget k t end.
Fixpoint rset {B} (k : nat) (x : B) (l : list (nat * B)) : list (nat * B) :=
  match l with [] => [(k, x)] | (j, y) :: t => if j =? k then (j, x) :: t else (j, y) :: rset k x t end.
Fixpoint rdel {B} (k : nat) (l : list (nat * B)) : list (nat * B) :=
  match l with [] => [] | (j, y) :: t => if j =? k then t else (j, y) :: rdel k t end.
Fixpoint leqb (a b : list nat) : bool :=
  match a, b with [], [] => true | x :: a', y :: b' => (x =? y) && leqb a' b' | _, _ => false end.

(* a []string with the identity of its backing array *)
Record hslice := { hs_id : nat; hs_vals : list rval }.

Record merged := {
  m_headers : list (nat * hslice);      (* key -> the copy stored in Headers *)
  m_cookies : list nat;                 (* the client cookies appended ... *)
  m_cookies_at : nat;                   (* ... at this index *)
  m_form : list (nat * list rval);      (* the client form values added ... *)
  m_form_at : list (nat * nat);         (* ... per key at this index *)
  m_form_after : list (nat * hslice) }. (* FormData[key] right after the merge: backing array and length *)
Definition merged0 : merged :=
  {| m_headers := []; m_cookies := []; m_cookies_at := 0; m_form := []; m_form_at := []; m_form_after := [] |}.
Definition merged_empty (m : merged) : bool :=
  match m_headers m, m_cookies m, m_form m with [], [], [] => true | _, _, _ => false end.

Record rq := {
  q_headers : list (nat * hslice);
  q_cookies : list nat;                 (* []*http.Cookie: pointer identities *)
  q_form : list (nat * hslice);          (* url.Values: key -> []string with the identity of its backing array *)
  q_attempt : nat;                      (* RetryAttempt *)
  q_form_merged : bool;                 (* clientFormDataMerged *)
  q_merged : merged;
  q_next : nat }.                       (* next fresh slice identity *)

Definition rq0 : rq :=
  {| q_headers := []; q_cookies := []; q_form := []; q_attempt := 0; q_form_merged := false;
     q_merged := merged0; q_next := 0 |}.

Record cl := { c_headers : list (nat * list rval); c_cookies : list nat; c_form : list (nat * list rval) }.

(* ---------- Request.unmergeClientSettings ---------- *)
(* how the prologue of do() is written (regenerated from the source by gosync):
   p_called: do() starts with r.unmergeClientSettings();
   p_fastpath: unmergeClientSettings returns early - BEFORE the resets - when nothing was recorded *)
Record prologue := { p_called : bool; p_fastpath : bool }.
Definition good_prologue : prologue := {| p_called := true; p_fastpath := false |}.

Definition unmerge_header (hs : list (nat * hslice)) (kv : nat * hslice) : list (nat * hslice) :=
  match rget (fst kv) hs with
  | Some cur =>
      match hs_vals (snd kv) with
      | [] => hs
      | _ :: _ =>
          if (length (hs_vals cur) =? length (hs_vals (snd kv))) && (hs_id cur =? hs_id (snd kv))
          then rdel (fst kv) hs else hs
      end
  | None => hs
  end.

Definition splice {A} (at_ n : nat) (l : list A) : list A := firstn at_ l ++ skipn (at_ + n) l.

Definition unmerge_cookies (m : merged) (cs : list nat) : list nat :=
  match m_cookies m with
  | [] => cs
  | _ :: _ =>
      let n := length (m_cookies m) in
      if (m_cookies_at m + n <=? length cs) && leqb (firstn n (skipn (m_cookies_at m) cs)) (m_cookies m)
      then splice (m_cookies_at m) n cs else cs
  end.

Definition fvals (k : nat) (f : list (nat * hslice)) : list rval :=
  match rget k f with Some s => hs_vals s | None => [] end.

Definition unmerge_form_key (m : merged) (f : list (nat * hslice)) (kv : nat * list rval)
  : list (nat * hslice) :=
  let cur := fvals (fst kv) f in
  let cid := match rget (fst kv) f with Some s => hs_id s | None => 0 end in
  let at_ := match rget (fst kv) (m_form_at m) with Some a => a | None => 0 end in
  let n := length (snd kv) in
  let replaced :=                         (* not longer and another backing array: Set since the merge *)
    match rget (fst kv) (m_form_after m), cur with
    | Some after, _ :: _ =>
        match hs_vals after with
        | [] => false
        | _ :: _ => (length cur <=? length (hs_vals after)) && negb (cid =? hs_id after)
        end
    | _, _ => false
    end in
  if (at_ + n <=? length cur) && negb replaced && leqb (firstn n (skipn at_ cur)) (snd kv)
  then match splice at_ n cur with
       | [] => rdel (fst kv) f
       | rest => rset (fst kv) {| hs_id := cid; hs_vals := rest |} f
       end
  else f.

Definition unmerge (p : prologue) (r : rq) : rq :=
  if negb (p_called p) then r
  else if p_fastpath p && merged_empty (q_merged r) then r
  else
    let m := q_merged r in
    {| q_headers := fold_left unmerge_header (m_headers m) (q_headers r);
       q_cookies := unmerge_cookies m (q_cookies r);
       q_form := fold_left (unmerge_form_key m) (m_form m) (q_form r);
       q_attempt := 0; q_form_merged := false; q_merged := merged0; q_next := q_next r |}.

(* ---------- one attempt: parseRequestHeader, parseRequestCookie, parseRequestBody ---------- *)
Definition hlen (k : nat) (hs : list (nat * hslice)) : nat :=
  match rget k hs with Some s => length (hs_vals s) | None => 0 end.

(* state threaded through the header loop: headers, recorded copies, next identity *)
Definition merge_header (st : list (nat * hslice) * list (nat * hslice) * nat) (kv : nat * list rval) :=
  let '(hs, rec, nx) := st in
  if hlen (fst kv) hs =? 0
  then let cp := {| hs_id := nx; hs_vals := snd kv |} in (rset (fst kv) cp hs, rset (fst kv) cp rec, S nx)
  else st.

(* url.Values.Add for every value: append to the key's slice (a new slice with a new backing array for a new key) *)
Definition add_values (st : list (nat * hslice) * nat) (kv : nat * list rval) : list (nat * hslice) * nat :=
  let '(f, nx) := st in
  match rget (fst kv) f with
  | Some s => (rset (fst kv) {| hs_id := hs_id s; hs_vals := hs_vals s ++ snd kv |} f, nx)
  | None => (rset (fst kv) {| hs_id := nx; hs_vals := snd kv |} f, S nx)
  end.

Definition attempt (c : cl) (r : rq) : rq :=
  let m := q_merged r in
  (* parseRequestHeader: once per execution (RetryAttempt > 0 returns early) *)
  let '(hs, rec, nx) := if q_attempt r =? 0 then fold_left merge_header (c_headers c) (q_headers r, m_headers m, q_next r)
                        else (q_headers r, m_headers m, q_next r) in
  let ck := match c_cookies c with [] => false | _ => q_attempt r =? 0 end in
  let fm := match c_form c with [] => false | _ => negb (q_form_merged r) end in
  let '(f', nx') := if fm then fold_left add_values (c_form c) (q_form r, nx) else (q_form r, nx) in
  {| q_headers := hs;
     q_cookies := if ck then q_cookies r ++ c_cookies c else q_cookies r;
     q_form := f';
     q_attempt := q_attempt r;
     q_form_merged := if fm then true else q_form_merged r;
     q_merged := {| m_headers := rec;
                    m_cookies := if ck then c_cookies c else m_cookies m;
                    m_cookies_at := if ck then length (q_cookies r) else m_cookies_at m;
                    m_form := if fm then c_form c else m_form m;
                    m_form_at := if fm then map (fun kv => (fst kv, length (fvals (fst kv) (q_form r)))) (c_form c)
                                 else m_form_at m;
                    m_form_after := if fm then map (fun kv => (fst kv, match rget (fst kv) f' with Some s => s | None => {| hs_id := 0; hs_vals := [] |} end)) (c_form c)
                                    else m_form_after m |};
     q_next := nx' |}.

Definition bump (r : rq) : rq :=
  {| q_headers := q_headers r; q_cookies := q_cookies r; q_form := q_form r; q_attempt := S (q_attempt r);
     q_form_merged := q_form_merged r; q_merged := q_merged r; q_next := q_next r |}.

(* what one attempt puts on the wire *)
Definition sent (r : rq) : list (nat * list rval) * list nat * list (nat * list rval) :=
  (map (fun kv => (fst kv, hs_vals (snd kv))) (q_headers r), q_cookies r,
   map (fun kv => (fst kv, hs_vals (snd kv))) (q_form r)).

(* the retry loop: `budget` = MaxRetries (>= 0), the origin fails the first `fails` attempts.
   Returns the request after the execution and what every attempt sent. *)
Fixpoint attempts (c : cl) (budget fails : nat) (r : rq) (fuel : nat) : rq * list (list (nat * list rval) * list nat * list (nat * list rval)) :=
  let r1 := attempt c r in
  match fuel, fails with
  | S fuel', S fails' =>
      if budget <=? q_attempt r1 then (r1, [sent r1])            (* absolutely cannot retry *)
      else let '(r2, l) := attempts c budget fails' (bump r1) fuel' in (r2, sent r1 :: l)
  | _, _ => (r1, [sent r1])
  end.

Definition rexec (p : prologue) (c : cl) (budget fails : nat) (r : rq) :=
  attempts c budget fails (unmerge p r) (S fails).

(* ---------- request-level setters between executions ---------- *)
Inductive uop :=
| USetHeader (k : nat) (v : rval)        (* SetHeader: Headers[k] = []string{v} *)
| UAddCookie (ck : nat)                  (* SetCookies(ck) *)
| USetForm (k : nat) (v : rval)          (* SetFormData: FormData.Set(k, v) *)
| UAddForm (k : nat) (v : rval).         (* SetFormDataFromValues: FormData.Add(k, v) *)

Definition uapply (r : rq) (u : uop) : rq :=
  match u with
  | USetHeader k v =>
      {| q_headers := rset k {| hs_id := q_next r; hs_vals := [v] |} (q_headers r); q_cookies := q_cookies r;
         q_form := q_form r; q_attempt := q_attempt r; q_form_merged := q_form_merged r; q_merged := q_merged r;
         q_next := S (q_next r) |}
  | UAddCookie ck =>
      {| q_headers := q_headers r; q_cookies := q_cookies r ++ [ck]; q_form := q_form r; q_attempt := q_attempt r;
         q_form_merged := q_form_merged r; q_merged := q_merged r; q_next := q_next r |}
  | USetForm k v =>
      {| q_headers := q_headers r; q_cookies := q_cookies r; q_form := rset k {| hs_id := q_next r; hs_vals := [v] |} (q_form r);
         q_attempt := q_attempt r; q_form_merged := q_form_merged r; q_merged := q_merged r; q_next := S (q_next r) |}
  | UAddForm k v =>
      let '(f', nx') := add_values (q_form r, q_next r) (k, [v]) in
      {| q_headers := q_headers r; q_cookies := q_cookies r; q_form := f'; q_attempt := q_attempt r;
         q_form_merged := q_form_merged r; q_merged := q_merged r; q_next := nx' |}
  end.

(* ---------- histories of one Request object ---------- *)
Inductive hstep :=
| HSet (u : uop)
| HExec (c : cl) (budget fails : nat).

Definition hrun1 (p : prologue) (r : rq) (s : hstep) : rq :=
  match s with HSet u => uapply r u | HExec c b f => fst (rexec p c b f r) end.
Definition hrun (p : prologue) (h : list hstep) (r : rq) : rq := fold_left (hrun1 p) h r.

(* the request-level settings alone: the same setters on a request that is never executed *)
Fixpoint user_ops (h : list hstep) : list uop :=
  match h with [] => [] | HSet u :: t => u :: user_ops t | HExec _ _ _ :: t => user_ops t end.
Definition fresh_with (h : list hstep) : rq := fold_left uapply (user_ops h) rq0.
