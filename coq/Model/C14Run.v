(* Model/C14Run.v - case type and checker evaluated on harness-generated cases (C14).
   One case = one exchange of the real client with a local origin.  Bodies are "blobs": the
   real bytes when short, otherwise a tag (length + digest) - the model treats them opaquely.
   The codec is the table of what the reference decoders (stdlib gzip/flate, brotli, zstd)
   made of the served bytes, supplied by the harness for exactly the calls the model makes. *)
From ReqV Require Export Lib.Bytes Model.Decode.

Inductive c14_case :=
| C14Case
    (* input *)
    (st : stack) (disable auto : bool) (ae range : bytes) (head : bool)
    (ended : bool)                       (* h2: END_STREAM on the HEADERS frame *)
    (ce clh : list bytes) (cl : Z)       (* Content-Encoding / Content-Length lines, wire ContentLength *)
    (wire : bytes)                       (* blob of the served (framing-level) body *)
    (table : list (enc * (bytes * bool)))(* reference decoder on the served body: output blob, failed? *)
    (pat : list nat)                     (* caller buffer sizes, cycled *)
    (* observed on the real code *)
    (o_seen_ae : bytes)                  (* Accept-Encoding the origin received *)
    (o_ce o_clh : list bytes) (o_cl : Z) (o_unc : bool)
    (o_body : bytes) (o_err : bool)      (* blob of delivered bytes; read error other than EOF *)
    (o_sticky : bool).                   (* two more reads after the terminal error return 0 bytes + an error *)

Definition table_codec (wire : bytes) (t : list (enc * (bytes * bool))) : codec :=
  fun e w =>
    if bytes_eqb w wire then
      match find (fun x => enc_eqb (fst x) e) t with
      | Some (_, (d, failed)) => {| s_data := d; s_end := if failed then ErrDecode else EOF |}
      | None => {| s_data := []; s_end := ErrDecode |}
      end
    else {| s_data := []; s_end := ErrDecode |}.

(* cycle the pattern to n positive sizes (an empty pattern or a 0 entry reads 4096) *)
Fixpoint cycle_sizes (n : nat) (pat cur : list nat) : list nat :=
  match n with
  | O => []
  | S n' =>
      match cur with
      | [] => match pat with
              | [] => 4096 :: cycle_sizes n' pat []
              | x :: r => (if Nat.eqb x 0 then 4096 else x) :: cycle_sizes n' pat r
              end
      | x :: r => (if Nat.eqb x 0 then 4096 else x) :: cycle_sizes n' pat r
      end
  end.

Definition table_bound (wire : bytes) (t : list (enc * (bytes * bool))) : nat :=
  fold_left (fun m x => Nat.max m (length (fst (snd x)))) t (length wire).

Definition is_error (e : option rerr) : bool :=
  match e with Some EOF => false | _ => true end.

Definition c14_check (c : c14_case) : bool :=
  match c with
  | C14Case st disable auto ae range head ended ce clh cl wire table pat
            o_seen_ae o_ce o_clh o_cl o_unc o_body o_err o_sticky =>
      let cfg := {| q_disable := disable; q_ae := ae; q_range := range; q_head := head |} in
      let r0 := {| r_ce := ce; r_clh := clh; r_other := []; r_cl := cl; r_unc := false;
                   r_body := Raw wire |} in
      let r1 := respond st cfg auto ended r0 in
      let dec := table_codec wire table in
      let sizes := cycle_sizes (S (S (table_bound wire table))) pat pat in
      let '(b, e, rd1) := drain dec sizes (open_body (r_body r1)) in
      let '(b2, e2, rd2) := rd_read dec 1 rd1 in
      let '(b3, e3, _) := rd_read dec 1 rd2 in
      let sticky := is_empty b2 && is_empty b3 &&
                    match e, e2, e3 with
                    | Some x, Some y, Some z => rerr_eqb x y && rerr_eqb y z
                    | _, _, _ => false
                    end in
      bytes_eqb (sent_accept_encoding st cfg) o_seen_ae &&
      list_eqb bytes_eqb (r_ce r1) o_ce &&
      list_eqb bytes_eqb (r_clh r1) o_clh &&
      (r_cl r1 =? o_cl)%Z &&
      Bool.eqb (r_unc r1) o_unc &&
      Bool.eqb (is_error e) o_err &&
      (o_err || bytes_eqb b o_body) &&
      Bool.eqb sticky o_sticky
  end.
