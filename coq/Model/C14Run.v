(* Model/C14Run.v - case type and checker evaluated on harness-generated cases (C14).
   One case = one exchange of the real client with a local origin (C14Case), or one SEQUENCE of
   exchanges on one client with several bodies alive at once and interleaved operations (C14Seq).
   Bodies of single exchanges are "blobs": the real bytes when short, otherwise a tag (length +
   digest) - the model treats them opaquely; sequences carry real bytes (partial reads).
   The codec is the table of what the reference decoders (stdlib gzip/flate, brotli, zstd)
   made of the served bytes, supplied by the harness for exactly the calls the model makes. *)
From ReqV Require Export Lib.Bytes Lib.PackedBytes Model.Decode Model.DecodeSession Model.DecodeAttempts Model.DecodeLive.

(* How a sequence case writes a byte string: literally, or - the payloads of sequences are produced
   by a fixed generator that exists on both sides (harness/c14/seq.go genByte) - as a slice of a
   generated stream.  The harness only uses `Gen` for a string that IS that slice (checked there byte
   for byte), so expanding the description gives back exactly the bytes observed; parsing megabytes
   of literals is what the Coq side cannot afford. *)
Inductive seg := Lit (b : bytes) | Gen (seed len : N).

(* The generator (mirrored by harness/c14/seq.go genPayload): "words" of seven lower-case letters and a
   space.  With w = k / 8, c = k mod 8 the regular part of letter k is
     (seed * (w mod 61 + 1) + c * (seed mod 5 + 1) + (w / 61) * (seed mod 25 + 1)) mod 26;
   streams with seed mod 3 = 1 add a 4-bit xorshift16 value to every letter, seed mod 3 = 2 to every
   other letter (so the streams compress between 2:1 and 50:1).  Computed incrementally with small
   additions and shifts - no division per byte. *)
Definition red26 (x : N) : N :=
  (if x <? 26 then x else if x <? 52 then x - 26 else if x <? 78 then x - 52 else x - 78)%N.

Definition xs16 (x : N) : N :=
  let x1 := N.land (N.lxor x (N.shiftl x 7)) 65535 in
  let x2 := N.lxor x1 (N.shiftr x1 9) in
  N.land (N.lxor x2 (N.shiftl x2 8)) 65535.

Fixpoint gen_go (mode s26 d5 d25 c e j a q x : N) (n : nat) : bytes :=
  match n with
  | O => []
  | S n' =>
      let x' := xs16 x in
      if (c =? 7)%N then
        x20 :: (if (j =? 60)%N then gen_go mode s26 d5 d25 0 0 0 s26 (red26 (q + d25)) x' n'
                else gen_go mode s26 d5 d25 0 0 (j + 1) (red26 (a + s26)) q x' n')%N
      else
        let noise := (if (mode =? 1) || ((mode =? 2) && N.odd c) then N.land x' 15 else 0)%N in
        byte_of_N_total (97 + red26 (red26 (a + e + q) + noise))%N
          :: gen_go mode s26 d5 d25 (c + 1)%N (e + d5)%N j a q x' n'
  end.

Definition gen_stream (seed : N) (n : nat) : bytes :=
  gen_go (seed mod 3)%N (seed mod 26)%N (seed mod 5 + 1)%N (seed mod 25 + 1)%N 0 0 0 (seed mod 26)%N 0
         (seed mod 65535 + 1)%N n.

Definition seg_bytes (x : seg) : bytes :=
  match x with
  | Lit b => b
  | Gen seed len => gen_stream seed (N.to_nat len)
  end.

Inductive c14_case :=
| C14Case
    (* input *)
    (st : stack) (disable auto : bool) (ae range : bytes) (head : bool)
    (odisable oauto : bool) (nth_ex : nat) (* DisableCompression / AutoDecompression as they were when this
                                            client's connection was opened, exchanges made on it before
                                            this one (settings are toggled between exchanges) *)
    (ended : bool)                       (* h2: END_STREAM on the HEADERS frame *)
    (ce clh : list bytes) (cl : Z)       (* Content-Encoding / Content-Length lines, wire ContentLength *)
    (short : bool)                       (* the origin ended the body cleanly short of the declared length *)
    (wire : bytes)                       (* blob of the served (framing-level) body: the bytes that arrived *)
    (table : list (enc * (bytes * bool)))(* reference decoder on the served body: output blob, failed? *)
    (pat : list nat)                     (* caller buffer sizes, cycled *)
    (* observed on the real code *)
    (o_seen_ae : bytes)                  (* Accept-Encoding the origin received (last attempt) *)
    (o_aes : list bytes)                 (* Accept-Encoding of every attempt the origin received for this
                                            exchange (transport-level re-send, request object sent twice) *)
    (o_ce o_clh : list bytes) (o_cl : Z) (o_unc : bool)
    (o_body : bytes) (o_err : bool)      (* blob of delivered bytes; read error other than EOF *)
    (o_sticky : bool)                    (* two more reads after the terminal error return 0 bytes + an error *)
(* a SEQUENCE of exchanges on one client with several bodies alive at the same time: the responses
   (bodies as real bytes, not tags: the reads are partial), the interleaved operations the harness
   performed on them (ReadFull of scripted sizes / Close, addressed by response index), and per
   operation the number of bytes delivered and the status class (0 nil, 1 io.EOF, 2 other error) *)
| C14Seq (pool : list (list seg)) (resps : list c14_resp) (ops : list (nat * option N)) (o_ops : list (N * N))
    (* pool: the distinct byte strings of the case (bodies are referred to by index, each is written
       once, see `seg`); ops: (response index, Some n = ReadFull n | None = Close), sizes in N (a nat literal is
       unary) *)
with c14_resp :=
| C14Resp
    (st : stack) (disable auto : bool) (ae range : bytes) (head ended : bool)
    (ce clh : list bytes) (cl : Z) (wire : nat)               (* served body: pool index *)
    (table : list (enc * (nat * bool)))                       (* reference decoder: output (pool index), failed? *)
    (o_seen_ae : bytes) (o_ce o_clh : list bytes) (o_cl : Z) (o_unc : bool)
    (o_body : nat).                      (* every byte delivered to this response's caller, concatenated (pool index) *)

Definition table_codec (wire : bytes) (t : list (enc * (bytes * bool))) : codec :=
  fun e w =>
    if bytes_eqb w wire then
      match find (fun x => enc_eqb (fst x) e) t with
      | Some (_, (d, failed)) => {| s_data := d; s_end := if failed then ErrDecode else EOF |}
      | None => {| s_data := []; s_end := ErrDecode |}
      end
    else {| s_data := []; s_end := ErrDecode |}.

(* cycle the pattern to n positive sizes (an empty pattern or a 0 entry reads 4096) *)
Fixpoint cycle_sizes (n : nat) (pat cur : list nat) : list nat :=
  match n with
  | O => []
  | S n' =>
      match cur with
      | [] => match pat with
              | [] => 4096 :: cycle_sizes n' pat []
              | x :: r => (if Nat.eqb x 0 then 4096 else x) :: cycle_sizes n' pat r
              end
      | x :: r => (if Nat.eqb x 0 then 4096 else x) :: cycle_sizes n' pat r
      end
  end.

Definition table_bound (wire : bytes) (t : list (enc * (bytes * bool))) : nat :=
  fold_left (fun m x => Nat.max m (length (fst (snd x)))) t (length wire).

Definition is_error (e : option rerr) : bool :=
  match e with Some EOF => false | _ => true end.

(* ---------- sequences ---------- *)

Section Pool.
Variable pool : list bytes.      (* expanded *)
Definition pl (i : nat) : bytes := nth i pool [].

Definition resp_wire (x : c14_resp) : bytes :=
  match x with C14Resp _ _ _ _ _ _ _ _ _ _ wire _ _ _ _ _ _ _ => pl wire end.
Definition resp_table (x : c14_resp) : list (enc * (bytes * bool)) :=
  match x with C14Resp _ _ _ _ _ _ _ _ _ _ _ t _ _ _ _ _ _ =>
    map (fun y => (fst y, (pl (fst (snd y)), snd (snd y)))) t end.
Definition resp_obody (x : c14_resp) : bytes :=
  match x with C14Resp _ _ _ _ _ _ _ _ _ _ _ _ _ _ _ _ _ b => pl b end.

(* what RoundTrip returns for one response of a sequence: the same `respond` as in a single exchange *)
Definition resp_model (x : c14_resp) : reqcfg * stack * resp :=
  match x with
  | C14Resp st disable auto ae range head ended ce clh cl wire _ _ _ _ _ _ _ =>
      let cfg := {| q_disable := disable; q_ae := ae; q_range := range; q_head := head |} in
      let r0 := {| r_ce := ce; r_clh := clh; r_other := []; r_cl := cl; r_unc := false;
                   r_body := Raw (pl wire); r_short := false |} in
      (cfg, st, respond st cfg auto ended r0)
  end.

Definition resp_hdr_ok (x : c14_resp) : bool :=
  match x with
  | C14Resp _ _ _ _ _ _ _ _ _ _ _ _ o_seen_ae o_ce o_clh o_cl o_unc _ =>
      let '(cfg, st, r1) := resp_model x in
      bytes_eqb (sent_accept_encoding st cfg) o_seen_ae &&
      list_eqb bytes_eqb (r_ce r1) o_ce &&
      list_eqb bytes_eqb (r_clh r1) o_clh &&
      (r_cl r1 =? o_cl)%Z &&
      Bool.eqb (r_unc r1) o_unc
  end.

(* the reference decoders' answers for every served body of the sequence, keyed by the body *)
Fixpoint seq_codec (l : list c14_resp) : codec :=
  match l with
  | [] => fun _ _ => {| s_data := []; s_end := ErrDecode |}
  | x :: rest => fun e w =>
      if bytes_eqb w (resp_wire x) then table_codec (resp_wire x) (resp_table x) e w
      else seq_codec rest e w
  end.

Definition stat_class (s : ostat) : N :=
  match s with
  | StOk => 0
  | StEnd EOF => 1
  | StEnd _ => 2
  | StClosed => 2
  | StBadIndex => 9
  end%N.

Fixpoint bodies_ok (i : nat) (l : list c14_resp) (ops : list (nat * rop)) (res : list opres) : bool :=
  match l with
  | [] => true
  | x :: rest =>
      bytes_eqb (delivered_bytes (results_of i ops res)) (resp_obody x) && bodies_ok (S i) rest ops res
  end.

Definition rop_of (o : nat * option N) : nat * rop :=
  (fst o, match snd o with Some n => OReadFull (N.to_nat n) | None => OClose end).

Definition c14_seq_check (resps : list c14_resp) (ops0 : list (nat * option N)) (o_ops : list (N * N)) : bool :=
  let ops := map rop_of ops0 in
  let dec := seq_codec resps in
  let bodies := map (fun x => r_body (snd (resp_model x))) resps in
  let res := fst (sess_run dec ops (sess_open bodies)) in
  forallb resp_hdr_ok resps &&
  list_eqb (fun (r : opres) (o : N * N) =>
              N.eqb (N.of_nat (length (fst r))) (fst o) && N.eqb (stat_class (snd r)) (snd o)) res o_ops &&
  bodies_ok 0 resps ops res.
End Pool.

Definition c14_check (c : c14_case) : bool :=
  match c with
  | C14Seq pool resps ops o_ops =>
      c14_seq_check (map (fun l => concat (map seg_bytes l)) pool) resps ops o_ops
  | C14Case st disable auto ae range head odisable oauto nth_ex ended ce clh cl short wire table pat
            o_seen_ae o_aes o_ce o_clh o_cl o_unc o_body o_err o_sticky =>
      let cfg0 := {| q_disable := disable; q_ae := ae; q_range := range; q_head := head |} in
      (* the request object as the attempts before the observed one left it *)
      let prior := run_attempts (attempt st) (Nat.pred (length o_aes)) cfg0 in
      let cfg := snd prior in
      let sent := map snd (fst prior) ++ [snd (fst (attempt st cfg))] in
      let r0 := {| r_ce := ce; r_clh := clh; r_other := []; r_cl := cl; r_unc := false;
                   r_body := Raw wire; r_short := short |} in
      (* the exchange on the live connection, under the settings current now *)
      let lc := {| lc_opened := {| set_disable := odisable; set_auto := oauto |}; lc_exchanges := nth_ex |} in
      let cur := {| set_disable := q_disable cfg; set_auto := auto |} in
      let r1 := fst (live_exchange st lc cur {| rq_ae := q_ae cfg; rq_range := q_range cfg; rq_head := q_head cfg |}
                                   ended r0) in
      let dec := table_codec wire table in
      let sizes := cycle_sizes (S (S (table_bound wire table))) pat pat in
      let '(b, e, rd1) := drain dec sizes (open_resp r1) in
      let '(b2, e2, rd2) := rd_read dec 1 rd1 in
      let '(b3, e3, _) := rd_read dec 1 rd2 in
      let sticky := is_empty b2 && is_empty b3 &&
                    match e, e2, e3 with
                    | Some x, Some y, Some z => rerr_eqb x y && rerr_eqb y z
                    | _, _, _ => false
                    end in
      bytes_eqb (sent_accept_encoding st cfg) o_seen_ae &&
      (match o_aes with [] => true | _ => list_eqb bytes_eqb sent o_aes end) &&
      list_eqb bytes_eqb (r_ce r1) o_ce &&
      list_eqb bytes_eqb (r_clh r1) o_clh &&
      (r_cl r1 =? o_cl)%Z &&
      Bool.eqb (r_unc r1) o_unc &&
      Bool.eqb (is_error e) o_err &&
      (o_err || bytes_eqb b o_body) &&
      Bool.eqb sticky o_sticky
  end.
