(* Model/Carried.v - state that is carried from one exchange to the next on a connection, or
   from one goroutine to another (C09, round 3).  Three small executable models:

   1. Request framing on a kept-alive HTTP/1.1 connection and "Expect: 100-continue"
      (/repo/transport.go persistConn.readResponse / writeLoop / readLoop): the decision whether
      the announced request body is written, and the recycle decision that must agree with it.
      The origin frames by Content-Length: [srv_parse].
   2. The HPACK decoding context of an HTTP/2 connection (/repo/internal/http2/frame.go
      Framer.readMetaFrame): every header block fragment is either decoded (dynamic table
      updated, even when the list is over the limit and the response is refused) or the
      connection dies; a fragment that is skipped while the connection lives on would leave the
      table behind the sender's.
   3. The queue of the asynchronous dumper (/repo/internal/dump/dump.go Dumper.DumpTo / Start):
      a queued task owns a copy of the bytes, the caller's buffer may be overwritten before the
      dumper goroutine writes the task out. *)
From Coq Require Import List Arith Bool.
From ReqV Require Import Lib.Bytes Model.Pool.
Import ListNotations.

(* ---------------------------------------------------------------------------------------- *)
(* 1. Expect: 100-continue and request framing                                                *)

Inductive body_signal := SigSend | SigSkip.

(* readResponse: what the write loop is told once the first non-1xx status has arrived
   (continueCh), or when "100 Continue" arrived before *)
Definition expect_signal (got100 resp_close req_close : bool) : body_signal :=
  if got100 then SigSend
  else if resp_close || req_close then SigSkip     (* close(continueCh): the connection will close *)
  else SigSend.                                    (* continueCh <- struct{}{}: keep using the connection *)

(* persistConnWriter / transferWriter: bytes of the announced body that reach the wire *)
Definition body_written (sig : body_signal) (announced : nat) : nat :=
  match sig with SigSend => announced | SigSkip => 0 end.

(* readLoop: alive starts as !resp.Close && !req.Close (other conjuncts may only lower it) *)
Definition alive_of (resp_close req_close other : bool) : bool :=
  negb (resp_close || req_close) && other.

(* a connection's client->server byte stream: heads are opaque markers, bodies are bytes *)
Inductive witem := WHead (tag : nat) (announced : nat) | WByte (b : byte).

Definition wreq := (nat * nat * bytes)%type.    (* tag, announced Content-Length, body bytes written *)

Definition emit_req (r : wreq) : list witem :=
  let '(tag, n, b) := r in WHead tag n :: map WByte b.

Fixpoint take_items (n : nat) (l : list witem) : list witem * list witem :=
  match n, l with
  | 0, _ => ([], l)
  | S m, x :: r => let (a, b) := take_items m r in (x :: a, b)
  | S _, [] => ([], [])
  end.

(* the origin: a header section, then exactly Content-Length items as its body - whatever they are *)
Fixpoint srv_parse (fuel : nat) (l : list witem) : list (nat * list witem) :=
  match fuel with
  | 0 => []
  | S f =>
      match l with
      | WHead tag n :: rest => let (body, rest') := take_items n rest in (tag, body) :: srv_parse f rest'
      | _ => []
      end
  end.

(* what the checker evaluates on an exchange the raw origin observed *)
Definition expect_case_ok (sent100 resp_close : bool) (announced received : nat) (reused : bool) : bool :=
  let sig := expect_signal sent100 resp_close false in
  (* a further request on the connection: the exchange was recycled, so it must have been complete *)
  (negb reused || (alive_of resp_close false true && Nat.eqb received (body_written sig announced))) &&
  (received <=? announced).

(* ---------------------------------------------------------------------------------------- *)
(* 2. HPACK decoding context of one HTTP/2 connection                                         *)

Definition hfield := (nat * nat)%type.          (* identity of the field, its size (name+value+32) *)

Inductive hop :=
| HIns (f : hfield)      (* literal with incremental indexing: emitted and inserted *)
| HRef (i : nat)         (* indexed field: i-th entry of the dynamic table *)
| HLit (f : hfield).     (* literal without indexing *)

Definition hfrag := (nat * list hop)%type.      (* encoded length of the fragment, its representations *)
Definition hblock := list hfrag.                (* HEADERS + CONTINUATION* *)

Definition hdflt : hfield := (0, 0).

(* hpack.Decoder.Write on one fragment: emitted fields, new dynamic table (eviction not modelled) *)
Fixpoint dec_ops (tbl : list hfield) (ops : list hop) : list hfield * list hfield :=
  match ops with
  | [] => ([], tbl)
  | HIns f :: r => let (e, t) := dec_ops (f :: tbl) r in (f :: e, t)
  | HRef i :: r => let (e, t) := dec_ops tbl r in (nth i tbl hdflt :: e, t)
  | HLit f :: r => let (e, t) := dec_ops tbl r in (f :: e, t)
  end.

(* the emit callback of readMetaFrame: remainSize accounting, Truncated *)
Fixpoint account (remain : nat) (trunc : bool) (acc : list hfield) (em : list hfield) : nat * bool * list hfield :=
  match em with
  | [] => (remain, trunc, acc)
  | f :: r =>
      if trunc then (remain, trunc, acc)                         (* SetEmitEnabled(false) *)
      else if remain <? snd f then account 0 true acc r          (* size > remainSize *)
      else account (remain - snd f) false (acc ++ [f]) r
  end.

Inductive houtcome := HDelivered (fs : list hfield) | HStreamErr | HConnErr.

(* Framer.readMetaFrame over the fragments of one header block *)
Fixpoint meta_frags (tbl : list hfield) (remain : nat) (trunc : bool) (acc : list hfield)
         (frs : list hfrag) : houtcome * list hfield :=
  match frs with
  | [] => (if trunc then HStreamErr else HDelivered acc, tbl)
  | (len, ops) :: rest =>
      if 2 * remain <? len then (HConnErr, tbl)                  (* skipped undecoded: ConnectionError *)
      else
        let (em, tbl') := dec_ops tbl ops in
        let '(remain', trunc', acc') := account remain trunc acc em in
        meta_frags tbl' remain' trunc' acc' rest
  end.

(* the sender's side: its table after the block, and the fields it meant *)
Fixpoint enc_after (tbl : list hfield) (frs : list hfrag) : list hfield :=
  match frs with
  | [] => tbl
  | (_, ops) :: rest => enc_after (snd (dec_ops tbl ops)) rest
  end.

Fixpoint meant (tbl : list hfield) (frs : list hfrag) : list hfield :=
  match frs with
  | [] => []
  | (_, ops) :: rest => fst (dec_ops tbl ops) ++ meant (snd (dec_ops tbl ops)) rest
  end.

Record hconn := mkHC { enc_tbl : list hfield; dec_tbl : list hfield; hdead : bool }.

Definition hconn_init : hconn := mkHC [] [] false.

(* one response header block on the connection; [limit] = MaxHeaderListSize *)
Definition hconn_step (limit : nat) (s : hconn) (b : hblock) : hconn * houtcome :=
  let e' := enc_after (enc_tbl s) b in
  if hdead s then (mkHC e' (dec_tbl s) true, HConnErr)
  else
    let (o, d') := meta_frags (dec_tbl s) limit false [] b in
    match o with
    | HConnErr => (mkHC e' d' true, HConnErr)
    | _ => (mkHC e' d' false, o)
    end.

(* the seeded variant: the over-limit fragment is skipped, the stream fails, the connection lives *)
Definition hconn_step_skipping (limit : nat) (s : hconn) (b : hblock) : hconn * houtcome :=
  let e' := enc_after (enc_tbl s) b in
  let (o, d') := meta_frags (dec_tbl s) limit false [] b in
  match o with
  | HConnErr => (mkHC e' d' false, HStreamErr)
  | _ => (mkHC e' d' false, o)
  end.

Fixpoint hconn_run (step : hconn -> hblock -> hconn * houtcome) (s : hconn) (bs : list hblock) : list houtcome :=
  match bs with
  | [] => []
  | b :: r => let (s', o) := step s b in o :: hconn_run step s' r
  end.

(* harness cases: per response of a sequential scenario on a forced-HTTP/2 client the sizes of
   its header fields, a bound for the encoded length of the first fragment, whether the caller
   got the response (its own: the Go oracle checks the tags), and the index of the connection
   that carried it (numbered by first appearance; only meaningful for delivered ones) *)
Definition hdr_obs := (list nat * nat * bool * nat)%type.

Fixpoint hdr_replay (limit : nat) (s : hconn) (conn : nat) (obs : list hdr_obs) : bool :=
  match obs with
  | [] => true
  | (sizes, flen, delivered, c) :: rest =>
      let blk : hblock := [(flen, map (fun z => HLit (0, z)) sizes)] in
      let (s', o) := hconn_step limit s blk in
      match o with
      | HDelivered _ => delivered && Nat.eqb c conn && hdr_replay limit s' conn rest
      | HStreamErr => negb delivered && hdr_replay limit s' conn rest
      | HConnErr => negb delivered && hdr_replay limit hconn_init (S conn) rest   (* next request dials *)
      end
  end.

(* ---------------------------------------------------------------------------------------- *)
(* 3. The asynchronous dumper's queue                                                         *)

Inductive qevent :=
| QWrite (buf : nat) (data : bytes)   (* the owner of buffer [buf] fills it (a Read into it, the next upload chunk) *)
| QDump (buf : nat)                   (* DumpTo(p) with p = the current content of the buffer *)
| QDrain.                             (* the dumper goroutine writes out the oldest task *)

Record qstate := mkQ { q_bufs : nat -> bytes; q_tasks : list bytes; q_out : list bytes }.

Definition q_init : qstate := mkQ (fun _ => []) [] [].

(* the code: b := make([]byte, len(p)); copy(b, p); ch <- task{b} *)
Definition q_step (s : qstate) (e : qevent) : qstate :=
  match e with
  | QWrite b d => mkQ (upd (q_bufs s) b d) (q_tasks s) (q_out s)
  | QDump b => mkQ (q_bufs s) (q_tasks s ++ [q_bufs s b]) (q_out s)
  | QDrain => match q_tasks s with
              | [] => s
              | t :: r => mkQ (q_bufs s) r (q_out s ++ [t])
              end
  end.

Definition q_run (evs : list qevent) : qstate := fold_left q_step evs q_init.

(* everything still queued is written out at the end (Stop drains the channel) *)
Definition q_final (evs : list qevent) : list bytes := q_out (q_run evs) ++ q_tasks (q_run evs).

(* what was handed to DumpTo, in order: the contents of the buffers at the moments of the calls *)
Fixpoint q_handed (bufs : nat -> bytes) (evs : list qevent) : list bytes :=
  match evs with
  | [] => []
  | QWrite b d :: r => q_handed (upd bufs b d) r
  | QDump b :: r => bufs b :: q_handed bufs r
  | QDrain :: r => q_handed bufs r
  end.

(* the seeded variant: the task aliases the buffer, its content is read when it is written out *)
Record qastate := mkQA { qa_bufs : nat -> bytes; qa_tasks : list nat; qa_out : list bytes }.

Definition qa_step (s : qastate) (e : qevent) : qastate :=
  match e with
  | QWrite b d => mkQA (upd (qa_bufs s) b d) (qa_tasks s) (qa_out s)
  | QDump b => mkQA (qa_bufs s) (qa_tasks s ++ [b]) (qa_out s)
  | QDrain => match qa_tasks s with
              | [] => s
              | t :: r => mkQA (qa_bufs s) r (qa_out s ++ [qa_bufs s t])
              end
  end.

Definition qa_final (evs : list qevent) : list bytes :=
  let s := fold_left qa_step evs (mkQA (fun _ => []) [] []) in
  qa_out s ++ map (qa_bufs s) (qa_tasks s).

(* harness case: the chunks a caller streamed through ONE buffer (each overwrote the previous),
   with the dumper lagging behind, and what the dump output received *)
Definition async_dump_events (chunks : list bytes) : list qevent :=
  flat_map (fun c => [QWrite 0 c; QDump 0]) chunks.

Definition async_dump_ok (chunks : list bytes) (dumped : bytes) : bool :=
  bytes_eqb (concat (q_final (async_dump_events chunks))) dumped.

(* ---------------------------------------------------------------------------------------- *)
(* 4. (round 5) The pool key of a connection: connectMethod.key() of /repo/transport.go       *)

Inductive pscheme := PNone | PHttp | PHttps | PSocks5.

Record cmethod := mkCM {
  cm_proxy : pscheme;       (* scheme of proxyURL, PNone: no proxy *)
  cm_proxy_id : nat;        (* identity of the proxy URL *)
  cm_https : bool;          (* targetScheme == "https" *)
  cm_target : nat;          (* targetAddr *)
  cm_onlyh1 : bool }.

(* proxy string, target scheme, target address (0 = "" : not part of the key), onlyH1 *)
Definition cm_key (c : cmethod) : pscheme * nat * bool * nat * bool :=
  let pid := match cm_proxy c with PNone => 0 | _ => cm_proxy_id c end in
  let addr := match cm_proxy c with
              | PHttp | PHttps => if cm_https c then S (cm_target c) else 0   (* ... && targetScheme == "http" *)
              | _ => S (cm_target c)
              end in
  (cm_proxy c, pid, cm_https c, addr, cm_onlyh1 c).

(* the socket of such a connection is tied to ONE origin: direct, socks5, or a CONNECT tunnel
   (https target through an http/https proxy); only plain http through an http(s) proxy is not *)
Definition socket_bound_to_target (c : cmethod) : bool :=
  match cm_proxy c with
  | PHttp | PHttps => cm_https c
  | _ => true
  end.

(* the seeded variant: no target address for any target behind an http/https proxy *)
Definition cm_key_shared (c : cmethod) : pscheme * nat * bool * nat * bool :=
  let pid := match cm_proxy c with PNone => 0 | _ => cm_proxy_id c end in
  let addr := match cm_proxy c with PHttp | PHttps => 0 | _ => S (cm_target c) end in
  (cm_proxy c, pid, cm_https c, addr, cm_onlyh1 c).

(* harness case: two requests through one client; whether the second was served over the
   connection the first had used *)
Definition proxy_case_ok (a b : cmethod) (same_conn : bool) : bool :=
  negb same_conn ||
  (let '(p1, i1, h1, a1, o1) := cm_key a in let '(p2, i2, h2, a2, o2) := cm_key b in
   Nat.eqb i1 i2 && Bool.eqb h1 h2 && Nat.eqb a1 a2 && Bool.eqb o1 o2 &&
   match p1, p2 with PNone, PNone | PHttp, PHttp | PHttps, PHttps | PSocks5, PSocks5 => true | _, _ => false end).

(* ---------------------------------------------------------------------------------------- *)
(* 5. (round 5) A dial shared by several requests: shouldRetryDial of                          *)
(*    /repo/internal/http2/client_conn_pool.go                                                *)

Inductive dial_err := DErrNone | DErrCanceled | DErrDeadline | DErrOther.

(* same_ctx: call.ctx == req.Context() (the request that started the dial);
   owner_ctx_done: call.ctx.Err() != nil *)
Definition should_retry_dial (same_ctx : bool) (e : dial_err) (owner_ctx_done : bool) : bool :=
  match e with
  | DErrNone => false
  | DErrOther => false
  | DErrCanceled | DErrDeadline => if same_ctx then false else owner_ctx_done
  end.

(* the seeded variant: a deadline error of the dial's owner is not retried *)
Definition should_retry_dial_no_deadline (same_ctx : bool) (e : dial_err) (owner_ctx_done : bool) : bool :=
  match e with
  | DErrCanceled => if same_ctx then false else owner_ctx_done
  | _ => false
  end.

(* ---------------------------------------------------------------------------------------- *)
(* 6. (round 6) The HPACK ENCODING context of an HTTP/2 connection: ClientConn.encodeHeaders  *)
(*    of /repo/internal/http2/transport.go.  A request whose header list exceeds the peer's   *)
(*    SETTINGS_MAX_HEADER_LIST_SIZE is refused in a counting pass BEFORE anything goes        *)
(*    through the connection's shared encoder; every block that is encoded is also sent.      *)

Definition list_size (fs : list hfield) : nat := fold_right (fun f a => snd f + a) 0 fs.

Record hsend := mkHS { cl_tbl : list hfield; sv_tbl : list hfield }.

Definition hsend_init : hsend := mkHS [] [].

(* result: None = refused locally (errRequestHeaderListSize); Some (m, d) = the request is sent,
   m = the fields the client's encoder state stands for, d = what the peer decodes *)
Definition hsend_step (peer_max : nat) (s : hsend) (b : hblock) : hsend * option (list hfield * list hfield) :=
  if peer_max <? list_size (meant (cl_tbl s) b) then (s, None)
  else (mkHS (enc_after (cl_tbl s) b) (enc_after (sv_tbl s) b), Some (meant (cl_tbl s) b, meant (sv_tbl s) b)).

(* the seeded variant: size checked after the fields went through the encoder *)
Definition hsend_step_late (peer_max : nat) (s : hsend) (b : hblock) : hsend * option (list hfield * list hfield) :=
  if peer_max <? list_size (meant (cl_tbl s) b) then (mkHS (enc_after (cl_tbl s) b) (sv_tbl s), None)
  else (mkHS (enc_after (cl_tbl s) b) (enc_after (sv_tbl s) b), Some (meant (cl_tbl s) b, meant (sv_tbl s) b)).

Fixpoint hsend_run (step : hsend -> hblock -> hsend * option (list hfield * list hfield)) (s : hsend)
         (bs : list hblock) : list (option (list hfield * list hfield)) :=
  match bs with
  | [] => []
  | b :: r => let (s', o) := step s b in o :: hsend_run step s' r
  end.

(* harness cases: per request of a scenario the sizes of its header fields and whether it
   reached the origin (the Go oracle checks that the origin saw the caller's own fields) *)
Fixpoint reqhdr_replay (peer_max : nat) (s : hsend) (obs : list (list nat * bool)) : bool :=
  match obs with
  | [] => true
  | (sizes, sent) :: rest =>
      let blk : hblock := [(0, map (fun z => HLit (0, z)) sizes)] in
      let (s', o) := hsend_step peer_max s blk in
      Bool.eqb (match o with Some _ => true | None => false end) sent && reqhdr_replay peer_max s' rest
  end.

(* ---------------------------------------------------------------------------------------- *)
(* 7. (round 7) GOAWAY on a multiplexed connection: ClientConn.setGoAway of                   *)
(*    /repo/internal/http2/transport.go.  Every GOAWAY frame - the first and every later one  *)
(*    (graceful shutdown: 2^31-1 first, the real last-stream-id afterwards) - aborts the open *)
(*    streams above its last-stream-id with the retryable errClientConnGotGoAway; the others  *)
(*    are left to the peer, which has promised to process them.                               *)

(* stands for 2^31-1, the last-stream-id of the first frame of a graceful shutdown: above every
   stream id that occurs (ids are unary naturals here; 2^31-1 itself would not fit in memory) *)
Definition goaway_max : nat := 100000.

(* open streams (by id) that stay on the connection, and those sent again elsewhere *)
Definition goaway_step (st : list nat * list nat) (last : nat) : list nat * list nat :=
  let '(kept, resent) := st in
  (filter (fun id => id <=? last) kept, resent ++ filter (fun id => negb (id <=? last)) kept).

Definition goaway_run (open : list nat) (lasts : list nat) : list nat * list nat :=
  fold_left goaway_step lasts (open, []).

(* the seeded variant: only the first GOAWAY looks at the streams *)
Definition goaway_run_first_only (open : list nat) (lasts : list nat) : list nat * list nat :=
  match lasts with
  | [] => (open, [])
  | l :: _ => goaway_step (open, []) l
  end.

(* harness case: stream ids outstanding on the connection, the last-stream-ids of the GOAWAY
   frames the origin sent, how many callers were answered on that connection / elsewhere *)
Definition goaway_case_ok (open lasts : list nat) (on_first elsewhere : nat) : bool :=
  let '(kept, resent) := goaway_run open lasts in
  Nat.eqb (length kept) on_first && Nat.eqb (length resent) elsewhere.

(* ---------------------------------------------------------------------------------------- *)
(* 8. (round 8) persistConn.wroteRequest of /repo/transport.go: what the read loop learns     *)
(*    about the request side when the response has ended.  The write loop either has reported *)
(*    (nil or an error), or - after maxWriteWaitBeforeConnReuse - has not: it is still inside *)
(*    the request body, and the connection must not be reused.                                *)

Inductive write_report := WNotYet | WDone | WFailed.

Definition wrote_request (w : write_report) : bool :=
  match w with WDone => true | WFailed => false | WNotYet => false end.

(* the seeded variant: "a slow writer alone is no reason to throw the connection away" *)
Definition wrote_request_lenient (w : write_report) : bool :=
  match w with WDone => true | WFailed => false | WNotYet => true end.

(* harness case: the response was answered and consumed while the request body was still being
   produced; was the connection handed to a further request? *)
Definition pipe_case_ok (w : write_report) (reused : bool) : bool :=
  Bool.eqb reused (recycle_ok (mkRecycle true true true false (wrote_request w))).

(* ---------------------------------------------------------------------------------------- *)
(* 9. (round 8) The connection-level receive window of an HTTP/2 connection                  *)
(*    (/repo/internal/http2/transport.go processData, transportResponseBody.Read / Close):    *)
(*    DATA takes from it; bytes handed to the caller give it back, and so do the bytes still  *)
(*    buffered when a body is closed early.                                                   *)

Inductive fevent :=
| FData (s n : nat)     (* n bytes of DATA arrive for stream s and are buffered *)
| FRead (s n : nat)     (* the caller reads (at most) n buffered bytes of stream s *)
| FClose (s : nat).     (* the caller closes the body of stream s: what is buffered is dropped *)

Record fstate := mkFS { f_window : nat; f_buffered : nat -> nat }.

Definition f_step (s : fstate) (e : fevent) : fstate :=
  match e with
  | FData i n => mkFS (f_window s - n) (upd (f_buffered s) i (f_buffered s i + n))
  | FRead i n => let m := Nat.min n (f_buffered s i) in
                 mkFS (f_window s + m) (upd (f_buffered s) i (f_buffered s i - m))
  | FClose i => mkFS (f_window s + f_buffered s i) (upd (f_buffered s) i 0)
  end.

(* the seeded variant: Close gives nothing back *)
Definition f_step_noreturn (s : fstate) (e : fevent) : fstate :=
  match e with
  | FClose i => mkFS (f_window s) (upd (f_buffered s) i 0)
  | _ => f_step s e
  end.

Definition f_run (step : fstate -> fevent -> fstate) (w : nat) (evs : list fevent) : fstate :=
  fold_left step evs (mkFS w (fun _ => 0)).

(* the peer respects the window: DATA never exceeds what is left *)
Fixpoint f_respects (s : fstate) (evs : list fevent) : bool :=
  match evs with
  | [] => true
  | e :: r => (match e with FData _ n => n <=? f_window s | _ => true end) && f_respects (f_step s e) r
  end.

(* harness case: streams abandoned with [unread] bytes buffered each, on a connection whose
   window is w; afterwards a response of [next] bytes must still get through *)
Definition flow_case_ok (w : nat) (unread : list nat) (next : nat) (delivered : bool) : bool :=
  let evs := flat_map (fun i_n => [FData (fst i_n) (snd i_n); FClose (fst i_n)]) (combine (seq 0 (length unread)) unread) in
  let s := f_run f_step w evs in
  Bool.eqb delivered (next <=? f_window s).
