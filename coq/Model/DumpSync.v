(* Model/DumpSync.v - C13: reading the tables that gosync regenerates from the Go source
   (Gen/DumpTables.v) as routing / wrapper descriptions.  No proofs here. *)
From ReqV Require Export Lib.Bytes Model.Dump.

(* a DumpOptions writer field by its Go name *)
Definition field_by_name (o : options) (name : bytes) : option (option writer) :=
  if bytes_eqb name (bs "Output") then Some (o_out o) else
  if bytes_eqb name (bs "RequestOutput") then Some (o_req o) else
  if bytes_eqb name (bs "ResponseOutput") then Some (o_resp o) else
  if bytes_eqb name (bs "RequestHeaderOutput") then Some (o_reqh o) else
  if bytes_eqb name (bs "RequestBodyOutput") then Some (o_reqb o) else
  if bytes_eqb name (bs "ResponseHeaderOutput") then Some (o_resph o) else
  if bytes_eqb name (bs "ResponseBodyOutput") then Some (o_respb o) else None.

Definition route := (bytes * list bytes * bytes)%type.   (* method, fields tried in order, fall-back *)

Fixpoint find_route (rs : list route) (m : bytes) : option route :=
  match rs with
  | [] => None
  | r :: rest => if bytes_eqb (fst (fst r)) m then Some r else find_route rest m
  end.

(* evaluate the accessor [m] as the source describes it; None = the table has a shape the model
   does not know (unknown field, unknown fall-back, too deep) *)
Fixpoint eval_route (fuel : nat) (rs : list route) (o : options) (m : bytes) : option writer :=
  match fuel with
  | O => None
  | S f =>
      match find_route rs m with
      | None => None
      | Some (_, chain, final) =>
          (fix go (c : list bytes) : option writer :=
             match c with
             | [] =>
                 if bytes_eqb final (bs "os.Stdout") then Some w_stdout else
                 if bytes_eqb final (bs "o.Output()") then eval_route f rs o (bs "Output") else None
             | x :: c' =>
                 match field_by_name o x with
                 | None => None
                 | Some (Some w) => Some w
                 | Some None => go c'
                 end
             end) chain
      end
  end.

Definition part_method (p : part) : bytes :=
  match p with
  | PReqH => bs "RequestHeaderOutput" | PReqB => bs "RequestBodyOutput"
  | PRespH => bs "ResponseHeaderOutput" | PRespB => bs "ResponseBodyOutput"
  end.

(* what the model assumes about the wrappers, the flags, the separators and DumpTo *)
Definition expected_flags : list (bytes * bytes) :=
  [ (bs "RequestHeader", bs "RequestHeader"); (bs "RequestBody", bs "RequestBody");
    (bs "ResponseHeader", bs "ResponseHeader"); (bs "ResponseBody", bs "ResponseBody");
    (bs "Async", bs "Async") ].

Definition expected_wrappers : list (bytes * bytes * bytes) :=
  [ (bs "dumpResponseBodyReadCloser.Read", bs "DumpResponseBody", bs "p[:n]");
    (bs "dumpResponseBodyReadCloser.Read", bs "DumpDefault", bs "[]byte(""\r\n"")");
    (bs "dumpRequestBodyWriteCloser.Write", bs "DumpRequestBody", bs "p[:n]");
    (bs "dumpRequestHeaderWriter.Write", bs "DumpRequestHeader", bs "p[:n]");
    (bs "dumpRequestBodyWriter.Write", bs "DumpRequestBody", bs "p[:n]") ].

Definition expected_separators : list (bytes * bytes) :=
  [ (bs "transfer.go", crlf);
    (bs "internal/http2/transport.go", crlf ++ crlf);
    (bs "internal/http2/transport.go", crlf ++ crlf);
    (bs "internal/http3/client.go", crlf ++ crlf) ].

Definition expected_dumpto : list bytes :=
  [ bs "len(p) == 0 || output == nil";
    bs "d.Async()";
    bs "atomic.LoadInt32(&d.running) == 1 && !d.stopped" ].

(* every *bufio.Writer assertion that decides a Flush (before waiting for 100-continue,
   FlushHeaders, FlushAfterChunkWriter) is made on the raw writer *)
Definition expected_bufio_asserts : list (bytes * bytes) :=
  [ (bs "writeRequest", bs "rw"); (bs "writeRequest", bs "rw"); (bs "writeBody", bs "rw") ].

(* a cloned Dumper has a queue of its own; SetDumpOptions copies the value into the existing struct
   (the one an earlier EnableDump built the Dumper around) and adopts the pointer only when there
   is none yet *)
Definition expected_shared_state : list (bytes * bytes) :=
  [ (bs "Dumper.Clone ch", bs "make(chan *dumpTask, 20)");
    (bs "Request.SetDumpOptions", bs "*r.dumpOptions = *opt");
    (bs "Request.SetDumpOptions", bs "r.dumpOptions = opt") ].
