(* Model/H3Writer.v - the request writer of an HTTP/3 connection (internal/http3/request_writer.go:
   requestWriter.writeHeaders): ONE header buffer (and one QPACK encoder writing into it) shared by
   all requests of the connection, one mutex.  Two concurrent writeHeaders calls as two threads of
   small steps under an arbitrary scheduler; `enc t` = the field section the QPACK encoder appends for
   thread t's request (the encoder is stateless here: no dynamic table is used), abstract.
   locked = true: the code as it is (mutex held from before encoding until after the buffer reset,
   deferred calls run Reset, Close, Unlock in this order).  locked = false: the lock narrowed to the
   encoding loop (for the refutation).  No proofs here. *)
From ReqV Require Export Lib.Bytes Lib.BigEndian Model.QuicVarint Model.H3Frame.
Open Scope N_scope.

Inductive wpc := PLock | PEncode | PWriteHdr | PWriteBuf | PReset | PUnlock | PDone.
Record wthread := { t_pc : wpc; t_out : bytes }.
Record wstate := { w_buf : bytes; w_lock : option bool; w_a : wthread; w_b : wthread }.

Definition w_get (st : wstate) (t : bool) : wthread := if t then w_a st else w_b st.
Definition w_set (st : wstate) (t : bool) (buf : bytes) (lock : option bool) (th : wthread) : wstate :=
  if t then {| w_buf := buf; w_lock := lock; w_a := th; w_b := w_b st |}
  else {| w_buf := buf; w_lock := lock; w_a := w_a st; w_b := th |}.

(* headersFrame{Length}.Append *)
Definition whdr (n : N) : bytes := match h3_headers_frame_header n with Some b => b | None => [] end.
Definition wframe (section : bytes) : bytes := whdr (lenN section) ++ section.

Section Writer.
Variable enc : bool -> bytes.
Variable locked : bool.

(* one step of thread t (no-op when it is done or waits for the mutex) *)
Definition wstep (st : wstate) (t : bool) : wstate :=
  let th := w_get st t in
  let mk p o := {| t_pc := p; t_out := o |} in
  match t_pc th with
  | PLock =>
      match w_lock st with
      | None => w_set st t (w_buf st) (Some t) (mk PEncode (t_out th))
      | Some _ => st
      end
  | PEncode =>          (* encoder.WriteField ... : appends to the shared buffer *)
      if locked then w_set st t (w_buf st ++ enc t) (w_lock st) (mk PWriteHdr (t_out th))
      else w_set st t (w_buf st ++ enc t) None (mk PWriteHdr (t_out th))      (* narrowed: unlock here *)
  | PWriteHdr =>        (* headersFrame{Length: headerBuf.Len()}.Append; wr.Write *)
      w_set st t (w_buf st) (w_lock st) (mk PWriteBuf (t_out th ++ whdr (lenN (w_buf st))))
  | PWriteBuf =>        (* wr.Write(headerBuf.Bytes()) *)
      w_set st t (w_buf st) (w_lock st) (mk PReset (t_out th ++ w_buf st))
  | PReset =>           (* deferred headerBuf.Reset() *)
      w_set st t [] (w_lock st) (mk PUnlock (t_out th))
  | PUnlock =>          (* deferred mutex.Unlock() *)
      w_set st t (w_buf st) (if locked then None else w_lock st) (mk PDone (t_out th))
  | PDone => st
  end.

Definition winit : wstate :=
  {| w_buf := []; w_lock := None; w_a := {| t_pc := PLock; t_out := [] |}; w_b := {| t_pc := PLock; t_out := [] |} |}.
Definition wrun (sched : list bool) : wstate := fold_left wstep sched winit.
End Writer.

(* the schedule the harness forces: thread A (true) runs until it is parked inside its k-th Write
   (k = 1: the frame header, k = 2: the field section; the bytes handed to that Write are fixed
   before it parks), thread B gets every chance, A is released *)
Definition park_schedule (k : N) : list bool :=
  (if k =? 1 then [true; true; true] else [true; true; true; true]) ++ repeat false 8 ++ repeat true 8 ++ repeat false 8.

(* ---------- a sequence of requests on one writer: which buffer is framed ---------- *)
(* newRequestWriter binds the QPACK encoder to the header buffer ONCE (qpack.NewEncoder(headerBuf));
   writeHeaders frames w.headerBuf.  bw_same = the two are still the same object; bw_enc / bw_frm =
   their contents; bw_cap = the high-water mark of the framed buffer (bytes.Buffer capacity).
   drop_above = None: the code as it is (the buffer is Reset and kept); Some n: "install a fresh
   buffer when the old one has grown past n" (for the refutation). *)
Record bwstate := { bw_same : bool; bw_enc : bytes; bw_frm : bytes; bw_cap : N }.
Definition bw_init : bwstate := {| bw_same := true; bw_enc := []; bw_frm := []; bw_cap := 0 |}.

Definition bw_request (drop_above : option N) (st : bwstate) (section : bytes) : bytes * bwstate :=
  (* encodeHeaders: the encoder appends to ITS buffer *)
  let encb := bw_enc st ++ section in
  let frm := if bw_same st then encb else bw_frm st in
  let cap := N.max (bw_cap st) (lenN frm) in
  (* the HEADERS frame: length of w.headerBuf, then its bytes *)
  let out := whdr (lenN frm) ++ frm in
  (* deferred release *)
  match drop_above with
  | Some n =>
      if n <? cap then (out, {| bw_same := false; bw_enc := encb; bw_frm := []; bw_cap := 0 |})
      else (out, {| bw_same := bw_same st; bw_enc := if bw_same st then [] else encb; bw_frm := []; bw_cap := cap |})
  | None => (out, {| bw_same := bw_same st; bw_enc := if bw_same st then [] else encb; bw_frm := []; bw_cap := cap |})
  end.

Fixpoint bw_run (drop_above : option N) (st : bwstate) (sections : list bytes) : list bytes :=
  match sections with
  | [] => []
  | s :: r => let '(out, st') := bw_request drop_above st s in out :: bw_run drop_above st' r
  end.
