(* Model/BodySetters.v - several body setters on one Request, then one or more executions (C17).
   Executable, no proofs.

   Go code modelled (request.go): SetBody (value to marshal / io.Reader), SetBodyBytes / SetBodyString,
   SetBodyJsonString / SetBodyJsonBytes / SetBodyJsonMarshal, SetBodyXmlString / SetBodyXmlBytes /
   SetBodyXmlMarshal - which fields each one writes and clears (Request.marshalBody, Body,
   unReplayableBody, the request-level Content-Type) - and what parseRequestBody / handleMarshalBody
   (middleware.go) make of the fields at an execution.  Values are version numbers; "the marshalling
   of value v as JSON / XML" is a symbolic body. *)
From ReqV Require Export Lib.Bytes.

Inductive bset :=
| BsValue (v : N)                          (* SetBody(struct / map / slice / pointer) *)
| BsBytes (b : bytes) (fmt : option bool)  (* SetBodyBytes/String (None); Json* (Some false); Xml* (Some true) *)
| BsMarshalled (v : N) (xml : bool)        (* SetBodyJsonMarshal(v) / SetBodyXmlMarshal(v): marshalled at the call *)
| BsReader (b : bytes).                    (* SetBody(io.Reader) *)

Inductive rawv := RBytes (b : bytes) | RValue (v : N) (xml : bool).

Record bfields := {
  bf_marshal : option N;      (* Request.marshalBody *)
  bf_raw : option rawv;       (* Request.Body (+ GetBody over it) *)
  bf_stream : option bytes;   (* Request.unReplayableBody (+ GetBody over it) *)
  bf_ct : option bool         (* request-level Content-Type: None = not set, Some xml? *)
}.
Definition bf0 : bfields := {| bf_marshal := None; bf_raw := None; bf_stream := None; bf_ct := None |}.

Definition apply_setter (s : bfields) (x : bset) : bfields :=
  match x with
  | BsValue v => {| bf_marshal := Some v; bf_raw := None; bf_stream := None; bf_ct := bf_ct s |}
  | BsBytes b f =>
      {| bf_marshal := None; bf_raw := Some (RBytes b); bf_stream := None;
         bf_ct := match f with Some x => Some x | None => bf_ct s end |}
  | BsMarshalled v x =>
      {| bf_marshal := None; bf_raw := Some (RValue v x); bf_stream := None; bf_ct := Some x |}
  | BsReader b => {| bf_marshal := None; bf_raw := None; bf_stream := Some b; bf_ct := bf_ct s |}
  end.

Inductive bout := BoValue (v : N) (xml : bool) | BoBytes (b : bytes) | BoNone.

(* one execution: (fields afterwards, what is sent) *)
Definition execute (s : bfields) : bfields * bout :=
  match bf_marshal s with
  | Some v =>
      (* handleMarshalBody: XML iff the Content-Type says xml; none set: JSON and the JSON type; the
         bytes go into Request.Body, the value stays *)
      let x := match bf_ct s with Some x => x | None => false end in
      ({| bf_marshal := Some v; bf_raw := Some (RValue v x); bf_stream := None; bf_ct := Some x |}, BoValue v x)
  | None =>
      match bf_stream s with
      | Some b => (s, BoBytes b)
      | None => match bf_raw s with
                | Some (RBytes b) => (s, BoBytes b)
                | Some (RValue v x) => (s, BoValue v x)
                | None => (s, BoNone)
                end
      end
  end.

Fixpoint executions (n : nat) (s : bfields) : list bout :=
  match n with
  | O => []
  | S k => let '(s', o) := execute s in o :: executions k s'
  end.

Definition run_setters (l : list bset) (n : nat) : list bout := executions n (fold_left apply_setter l bf0).

(* the body the last setter supplied, given the Content-Type history before it (only a value to
   marshal depends on it: its format follows the request's Content-Type) *)
Definition body_of_setter (ct_before : option bool) (x : bset) : bout :=
  match x with
  | BsValue v => BoValue v (match ct_before with Some x => x | None => false end)
  | BsBytes b _ => BoBytes b
  | BsMarshalled v x => BoValue v x
  | BsReader b => BoBytes b
  end.
