(* Model/MuxResp.v - C02: what the HTTP/2 and HTTP/3 client stacks hand to the caller.

   HTTP/2 (internal/http2/transport.go): clientConnReadLoop.handleResponse (status, header
   map via canonicalHeader, Trailer announcement moved to Response.Trailer, Content-Length,
   1xx skipped at most 5 times, noBody / missingBody / transportResponseBody - after fix
   9ecc2f9: a 204/304 owes no DATA for its Content-Length), processData (padding is stripped
   by the framer and never enters the pipe), processTrailers + copyTrailers,
   transportResponseBody.Read (Model/StreamBody.v h2_read).
   HTTP/3 (internal/http3): headers.go parseHeaders / updateResponseFromHeaders /
   processTrailers / parseTrailers, http_stream.go requestStream.ReadResponse (bodyLength rule),
   client.go doRequest (1xx except 101 skipped at most 5 times), body.go + stream.Read
   (Model/StreamBody.v h3_read, strict = the repaired code).
   HPACK / QPACK decoding and field validation (lower-case names, valid bytes) are the
   framers': the model starts from decoded, valid field lists.  Then Model/RespAPI.v.
   No proofs here. *)
From ReqV Require Export Lib.Bytes Model.H1Resp Model.StreamBody Model.RespAPI.

Definition mfield := (bytes * bytes)%type.

Record mux_delivery := {
  m_code : Z; m_header : hmap; m_cl : Z; m_trailer : hmap; m_api : api_obs
}.

(* m[k] = vv for every (k, vv) of [sent], on top of [declared] *)
Definition set_all (declared sent : hmap) : hmap :=
  fold_left (fun t kv => hset (fst kv) (snd kv) t) sent declared.

(* http.Header.Add over a field list *)
Definition add_all (fs : list mfield) : hmap :=
  fold_left (fun m f => hadd (canonical_header_key (fst f)) (snd f) m) fs [].

Definition code_no_content (code : Z) : bool := negb (body_allowed_for_status code).

(* ------------------------------- HTTP/2 ------------------------------- *)

Record h2head := { hh_status : bytes; hh_fields : list mfield; hh_end : bool }.

(* a DATA frame as sent: payload, padding length, END_STREAM *)
Record h2frame := { fd_data : bytes; fd_pad : N; fd_end : bool }.

Definition h2_header_step (acc : hmap * hmap) (f : mfield) : hmap * hmap :=
  let '(h, t) := acc in
  let key := canonical_header_key (fst f) in
  if bytes_eqb key K_TRAILER then
    (h, fold_left (fun t v => hset (canonical_header_key v) [] t) (header_elements (snd f)) t)
  else (hadd key (snd f) h, t).

Definition h2_header (fs : list mfield) : hmap * hmap := fold_left h2_header_step fs ([], []).

Definition h2_content_length (h : hmap) (ended is_head : bool) : Z :=
  match hget K_CL h with
  | Some [c] => match parse_uint63 c with Some n => n | None => (-1)%Z end
  | Some _ => (-1)%Z
  | None => if ended && negb is_head then 0%Z else (-1)%Z
  end.

(* the HEADERS frames of the stream before any DATA: informational ones are skipped *)
Fixpoint h2_final (heads : list h2head) (n1xx : nat) : option (Z * h2head) :=
  match heads with
  | [] => None
  | h :: r =>
      match atoi (hh_status h) with
      | None => None
      | Some code =>
          if (100 <=? code)%Z && (code <=? 199)%Z then
            if hh_end h then None
            else if 5 <? S n1xx then None
            else h2_final r (S n1xx)
          else match r with [] => Some (code, h) | _ => None end
      end
  end.

(* what httptrace.Got1xxResponse is called with: every HEADERS frame in front of the final one *)
Fixpoint h2_interim_heads (heads : list h2head) : list (Z * hmap) :=
  match heads with
  | h :: ((_ :: _) as r) =>
      match atoi (hh_status h) with
      | Some code => (code, fst (h2_header (hh_fields h))) :: h2_interim_heads r
      | None => []
      end
  | _ => []
  end.

(* processData: what enters the stream's pipe *)
Definition h2_events (frames : list h2frame) (trailers : bool) : list h2ev :=
  map (fun f => H2Data (fd_data f) (fd_end f)) frames ++ (if trailers then [H2Trailers] else []).

Definition h2err_clean (e : h2err) : bool := match e with H2Clean => true | _ => false end.

(* [after]: what the peer does on the stream / connection once the response is complete
   (RST_STREAM(NO_ERROR) to stop an upload, GOAWAY, closing the connection, ...) *)
Definition h2_exchange_after (is_head : bool) (heads : list h2head) (frames : list h2frame)
    (trailers : option (list mfield)) (after : list h2ev) (m : mode) (sizes : list nat) : option mux_delivery :=
  match h2_final heads 0 with
  | None => None
  | Some (code, hd) =>
      let '(hdr, declared) := h2_header (hh_fields hd) in
      let cl := h2_content_length hdr (hh_end hd) is_head in
      let body_len := if (0 <? cl)%Z && code_no_content code then 0%Z else cl in
      let clopt := if (body_len <? 0)%Z then None else Some (Z.to_N body_len) in
      let '(d, e) :=
        if is_head then ([], H2Clean)
        else h2_read clopt (hh_end hd)
               (h2_events frames (match trailers with Some _ => true | None => false end) ++ after) in
      let rd := {| rd_rem := d; rd_end := if h2err_clean e then BEof else BFail |} in
      let tr := match trailers with
                | Some tfs => if h2err_clean e && negb is_head && negb (hh_end hd)
                              then set_all declared (add_all tfs) else declared
                | None => declared
                end in
      Some {| m_code := code; m_header := hdr; m_cl := cl; m_trailer := tr;
              m_api := run_mode m code sizes rd |}
  end.

Definition h2_exchange (is_head : bool) (heads : list h2head) (frames : list h2frame)
    (trailers : option (list mfield)) (m : mode) (sizes : list nat) : option mux_delivery :=
  h2_exchange_after is_head heads frames trailers [] m sizes.

(* ------------------------------- HTTP/3 ------------------------------- *)

Definition K_CL_LOWER := bs "content-length".

(* parseHeaders on the regular fields: None = rejected *)
Fixpoint h3_fields (fs : list mfield) (h : hmap) (cl : option bytes) : option (hmap * option bytes) :=
  match fs with
  | [] => Some (h, cl)
  | f :: r =>
      if bytes_eqb (fst f) K_CL_LOWER then
        match cl with
        | None => h3_fields r h (Some (snd f))
        | Some c => if bytes_eqb c (snd f) then h3_fields r h cl else None
        end
      else h3_fields r (hadd (canonical_header_key (fst f)) (snd f) h) cl
  end.

(* updateResponseFromHeaders: (header, declared trailer, ContentLength) *)
Definition h3_header (fs : list mfield) : option (hmap * hmap * Z) :=
  match h3_fields fs [] None with
  | None => None
  | Some (h, cl) =>
      let with_cl :=
        match cl with
        | Some c => if is_nil c then Some (h, (-1)%Z)
                    else match parse_uint63 c with
                         | Some n => Some (hset K_CL [c] h, n)
                         | None => None
                         end
        | None => Some (h, (-1)%Z)
        end in
      match with_cl with
      | None => None
      | Some (h1, n) =>
          match hget K_TRAILER h1 with
          | None => Some (h1, [], n)
          | Some vals =>
              let keys := map (fun v => canonical_header_key (trim_string v))
                              (flat_map (split_byte COMMA) vals) in
              Some (hdel K_TRAILER h1, fold_left (fun t k => hset k [] t) keys [], n)
          end
      end
  end.

Record h3head := { h3_status : bytes; h3_flds : list mfield }.

Fixpoint h3_final (heads : list h3head) (n1xx : nat) : option (Z * h3head) :=
  match heads with
  | [] => None
  | h :: r =>
      match atoi (h3_status h) with
      | None => None
      | Some code =>
          if (100 <=? code)%Z && (code <=? 199)%Z && negb (code =? 101)%Z then
            if 5 <? S n1xx then None else h3_final r (S n1xx)
          else match r with [] => Some (code, h) | _ => None end
      end
  end.

Fixpoint h3_interim_heads (heads : list h3head) : list (Z * hmap) :=
  match heads with
  | h :: ((_ :: _) as r) =>
      match atoi (h3_status h), h3_header (h3_flds h) with
      | Some code, Some (hdr, _, _) => (code, hdr) :: h3_interim_heads r
      | _, _ => []
      end
  | _ => []
  end.

(* DATA frames completely received, then FIN *)
Definition h3_events (parts : list bytes) : list h3ev :=
  map (fun p => H3Data (N.of_nat (length p)) p) parts ++ [H3Fin].

Definition h3err_clean (e : h3err) : bool := match e with H3Clean => true | _ => false end.

Definition h3_exchange_evs (is_head : bool) (heads : list h3head) (evs : list h3ev)
    (trailers : option (list mfield)) (m : mode) (sizes : list nat) : option mux_delivery :=
  match h3_final heads 0 with
  | None => None
  | Some (code, hd) =>
      match h3_header (h3_flds hd) with
      | None => None
      | Some (hdr, declared, cl0) =>
          let body_len := if (0 <? cl0)%Z && (is_head || code_no_content code) then 0%Z else cl0 in
          let cl := if ((100 <=? code)%Z && (code <? 200)%Z || (code =? 204)%Z) && (cl0 =? -1)%Z
                    then 0%Z else cl0 in
          let rem := if (body_len <? 0)%Z then None else Some (Z.to_N body_len) in
          let '(d, e) := h3_read true rem evs in
          let rd := {| rd_rem := d; rd_end := if h3err_clean e then BEof else BFail |} in
          let tr := match trailers with
                    | Some tfs => if h3err_clean e then add_all tfs else declared
                    | None => declared
                    end in
          Some {| m_code := code; m_header := hdr; m_cl := cl; m_trailer := tr;
                  m_api := run_mode m code sizes rd |}
      end
  end.

Definition h3_exchange (is_head : bool) (heads : list h3head) (parts : list bytes)
    (trailers : option (list mfield)) (m : mode) (sizes : list nat) : option mux_delivery :=
  h3_exchange_evs is_head heads (h3_events parts) trailers m sizes.

(* a stream that ends (FIN) inside a DATA frame: complete frames, then a frame announcing
   [declared] bytes of which only [partial] arrived, then FIN - whether the FIN reached the client
   together with the partial data or later makes no difference to what must be reported *)
Definition h3_events_cut (parts : list bytes) (declared : N) (partial : bytes) : list h3ev :=
  map (fun p => H3Data (N.of_nat (length p)) p) parts ++ [H3Data declared partial; H3Fin].

(* ---------------- several streams on one HTTP/2 connection ---------------- *)
(* What the peer sends on the connection: frames of the individual response streams, in any
   interleaving, and connection-level frames in between.  clientConnReadLoop dispatches by
   stream id (streamByID); PING and a graceful GOAWAY (last-stream-id covering the stream)
   do not touch a stream; a GOAWAY whose last-stream-id is below the stream's id aborts it. *)
Inductive conn_ev :=
| CFrame (sid : N) (e : h2ev)
| CGoAway (last : N)
| CPing.

Definition stream_view (sid : N) (l : list conn_ev) : list h2ev :=
  flat_map (fun c => match c with
                     | CFrame s e => if (s =? sid)%N then [e] else []
                     | CGoAway last => if (sid <=? last)%N then [] else [H2GoAwayClose]
                     | CPing => []
                     end) l.

(* what the caller of stream [sid] reads *)
Definition h2_conn_read (cl : option N) (hdr_end : bool) (sid : N) (l : list conn_ev) : bytes * h2err :=
  h2_read cl hdr_end (stream_view sid l).
