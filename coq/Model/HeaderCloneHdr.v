(* Model/HeaderCloneHdr.v - C16: the common (client-level) headers in a family of clients made with
   Clone().  transport.go Transport.Clone: Headers: t.Headers.Clone() - http.Header.Clone gives every
   key of the copy its own value slice, so a value appended (SetCommonHeaderNonCanonical,
   Headers.Add) or set (SetCommonHeader) on either side afterwards does not reach the other. *)
From ReqV Require Export Model.HeaderMerge Model.HeaderSeq.

Inductive hfam_op :=
| HClone (who : nat)
| HAdd (who : nat) (k v : bytes)      (* SetCommonHeaderNonCanonical: h[k] = append(h[k], v) *)
| HSet (who : nat) (k v : bytes).     (* SetCommonHeader: Header.Set *)

Definition hfam_state := list (list kv).   (* member i: its common-header map *)

Definition hfam_step (s : hfam_state) (o : hfam_op) : hfam_state :=
  match o with
  | HClone w => s ++ [nth w s []]
  | HAdd w k v => upd w (fun h => hset h k (hvals h k ++ [v])) s
  | HSet w k v => upd w (fun h => hset h (mime_key k) [v]) s
  end.

Definition hfam_run (ops : list hfam_op) : hfam_state := fold_left hfam_step ops [[]].

(* ---- the same with slices as Go has them: a value list is (array, length); the arrays live in a
   heap and have a capacity; a SHALLOW clone copies the (array, length) pairs, so two maps may point
   into one array.  append writes into the array when there is room (visible through every alias),
   else moves to a new array of twice the capacity. ---- *)
Definition slice := (nat * nat)%type.                 (* array id, length *)
Definition smap := list (bytes * slice).
Record sheap := mk_sheap { arrays : list (list bytes) }.

Definition arr (hp : sheap) (id : nat) : list bytes := nth id (arrays hp) [].
Definition slice_vals (hp : sheap) (sl : slice) : list bytes := firstn (snd sl) (arr hp (fst sl)).

Fixpoint set_nth {A} (i : nat) (x : A) (l : list A) : list A :=
  match l, i with
  | [], _ => []
  | _ :: t, O => x :: t
  | y :: t, S j => y :: set_nth j x t
  end.

Fixpoint sfind (m : smap) (k : bytes) : option slice :=
  match m with [] => None | (k', sl) :: r => if bytes_eqb k' k then Some sl else sfind r k end.
Fixpoint sput (m : smap) (k : bytes) (sl : slice) : smap :=
  match m with
  | [] => [(k, sl)]
  | (k', s') :: r => if bytes_eqb k' k then (k, sl) :: r else (k', s') :: sput r k sl
  end.

(* h[k] = append(h[k], v) *)
Definition sappend (hp : sheap) (m : smap) (k v : bytes) : sheap * smap :=
  match sfind m k with
  | None => (mk_sheap (arrays hp ++ [[v]]), sput m k (length (arrays hp), 1))
  | Some (id, len) =>
      let a := arr hp id in
      if len <? length a
      then (mk_sheap (set_nth id (set_nth len v a) (arrays hp)), sput m k (id, S len))   (* room: in place *)
      else let a' := firstn len a ++ [v] ++ repeat [] (len - 1) in                       (* grow: new array, twice the room *)
           (mk_sheap (arrays hp ++ [a']), sput m k (length (arrays hp), S len))
  end.

Definition smap_vals (hp : sheap) (m : smap) (k : bytes) : list bytes :=
  match sfind m k with Some sl => slice_vals hp sl | None => [] end.
