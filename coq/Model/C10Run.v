(* Model/C10Run.v - case type and checker evaluated on harness-generated cases (C10).
   The checker runs Model/Retry.v's [run] / [backoff] (the functions the theorems are about)
   on the program the harness executed on the real client and compares with what it saw. *)
From ReqV Require Export Lib.Bytes Model.Retry Model.RetryUpload Model.RetrySlices Model.RetryJar.
From ReqV Require Import Gen.RetryClone.

(* the harness's retry conditions and hooks, as data *)
Inductive cond_spec :=
| KErr                      (* err != nil *)
| KStatusGe (z : Z)         (* resp.Response != nil && StatusCode >= z *)
| KStatusEq (z : Z)
| KErrOrGe (z : Z)
| KTrue | KFalse.

Definition cond_fn_of (k : cond_spec) (v : view) : bool :=
  let has_err := match v_err v with Some _ => true | None => false end in
  let st_ge z := match v_status v with Some s => (z <=? s)%Z | None => false end in
  match k with
  | KErr => has_err
  | KStatusGe z => st_ge z
  | KStatusEq z => match v_status v with Some s => (s =? z)%Z | None => false end
  | KErrOrGe z => has_err || st_ge z
  | KTrue => true
  | KFalse => false
  end.

Inductive hook_spec :=
| HNop
| HSetHeader (k v : bytes).   (* resp.Request.SetHeader(k, v) *)

Definition hook_mut_of (h : hook_spec) (s : rstate) : rstate :=
  match h with
  | HNop => s
  | HSetHeader k v => set_headers s (hset k [v] (r_headers s))
  end.

Inductive rop_spec :=
| PCount (n : Z)
| PInterval (i : Z)
| PSetCond (id : Z) (k : cond_spec) | PAddCond (id : Z) (k : cond_spec)
| PSetHook (id : Z) (h : hook_spec) | PAddHook (id : Z) (h : hook_spec).

Definition rop_of (p : rop_spec) : rop :=
  match p with
  | PCount n => SetCount n
  | PInterval i => SetInterval i
  | PSetCond id k => SetCond (mkCond id (cond_fn_of k))
  | PAddCond id k => AddCond (mkCond id (cond_fn_of k))
  | PSetHook id h => SetHook (mkHook id (hook_mut_of h))
  | PAddHook id h => AddHook (mkHook id (hook_mut_of h))
  end.

(* observation of one outgoing request, headers projected on the case's key list *)
Record wobs := mkW {
  wo_method : bytes; wo_path : bytes; wo_query : bytes; wo_headers : amap;
  wo_cookies : list (bytes * bytes); wo_body : option bytes; wo_close : bool
}.

(* a logged call: (id, attempt, status or -1, error code or 0) *)
Definition ocall := (Z * Z * Z * Z)%type.

Record obs := mkObs {
  ob_wires : list wobs;
  ob_conds : list ocall;
  ob_hooks : list ocall;
  ob_ivals : list ocall;        (* only interval functions with id > 0 log *)
  ob_status : Z; ob_err : Z;    (* final resp status (-1 = none), resp.Err code (0 = nil) *)
  ob_attempt : Z;
  ob_upfront : bool
}.

Inductive c10_case :=
| RunCase (c : client) (cops rops : list rop_spec) (s : rstate) (script : list ain)
          (detect : bytes) (hkeys : list bytes) (o : obs)
| BackoffCase (mn mx attempt : Z) (d : Z)    (* d = interval returned by the real function *)
| UploadCase (retryable chunked : bool) (od : list (bytes * bytes)) (cform rform : amap) (fs : list mfile)
             (dtab : list (bytes * bytes)) (o : list (list part * bool)) (failed upfront : bool)
| GroupCase (cond_ops : list sop) (cond_views : list (list Z))
            (hook_ops : list sop) (hook_views : list (list Z))
| CookieCase (caller : list cookie) (jar0 : jar) (resps : list (list cookie)) (o : list (list cookie)).
      (* the caller's cookies, the client's jar before the first attempt, the cookies each
         attempt's response sets, and the cookies every attempt carried *)
      (* a multipart program: retries enabled (a retry option with count <> 0)?, forced chunked
         encoding?, client-level and request-level form data, file sources, DetectContentType as
         a table; per attempt the parts seen on the wire and whether the body was read to its
         end; whether the call was ended by a refused retry (RetryAttempt counted a retry that
         was never sent); whether Do refused the request up front.
         GroupCase: several requests built from one client before any is sent: the Set/Add
         condition (hook) calls and Client.R() calls in build order as operations on option
         slots (0 = client, i+1 = i-th request), and the conditions (hooks) every slot holds
         afterwards, probed on the real objects *)

Definition lookup_detect (tab : list (bytes * bytes)) (k : bytes) : bytes :=
  match find (fun e => bytes_eqb (fst e) k) tab with Some e => snd e | None => [] end.

(* the same for the sniffing buffer of an upload: the table is keyed by the file content, the
   code looks at the zero-padded 512-byte buffer *)
Definition lookup_detect_pad (tab : list (bytes * bytes)) (k : bytes) : bytes :=
  match find (fun e => bytes_eqb (pad512 (fst e)) k) tab with Some e => snd e | None => [] end.

Definition part_eqb (a b : part) : bool :=
  match a, b with
  | PField k v, PField k' v' => bytes_eqb k k' && bytes_eqb v v'
  | PFile p n c x, PFile p' n' c' x' => bytes_eqb p p' && bytes_eqb n n' && bytes_eqb c c' && bytes_eqb x x'
  | _, _ => false
  end.

Definition pair_eqb (a b : bytes * bytes) : bool := bytes_eqb (fst a) (fst b) && bytes_eqb (snd a) (snd b).
Definition entry_eqb (a b : bytes * list bytes) : bool :=
  bytes_eqb (fst a) (fst b) && list_eqb bytes_eqb (snd a) (snd b).

Definition project_headers (keys : list bytes) (h : amap) : amap :=
  filter (fun e => nonempty (snd e)) (map (fun k => (k, hget k h)) keys).

Definition wire_eqb (keys : list bytes) (w : wire) (o : wobs) : bool :=
  bytes_eqb (w_method w) (wo_method o) && bytes_eqb (w_path w) (wo_path o) && bytes_eqb (w_query w) (wo_query o) &&
  list_eqb entry_eqb (project_headers keys (w_headers w)) (wo_headers o) &&
  list_eqb pair_eqb (w_cookies w) (wo_cookies o) &&
  opt_bytes_eqb (w_body w) (wo_body o) && Bool.eqb (w_close w) (wo_close o).

Definition zopt (o : option Z) (dflt : Z) : Z := match o with Some z => z | None => dflt end.
Definition call_eqb (k : call) (o : ocall) : bool :=
  let '(id, att, st, er) := o in
  (k_id k =? id)%Z && (k_attempt k =? att)%Z &&
  (zopt (v_status (k_view k)) (-1) =? st)%Z && (zopt (v_err (k_view k)) 0 =? er)%Z.

Definition c10_check (cs : c10_case) : bool :=
  match cs with
  | RunCase c cops rops s script d hkeys o =>
      let ro := effective_ropt (map rop_of cops) (map rop_of rops) in
      let r := run_exec (fun _ => d) c do_resets_attempt ro s script in
      list_eqb (wire_eqb hkeys) (res_wires r) (ob_wires o) &&
      list_eqb call_eqb (res_conds r) (ob_conds o) &&
      list_eqb call_eqb (res_hooks r) (ob_hooks o) &&
      list_eqb call_eqb (filter (fun k => (0 <? k_id k)%Z) (res_intervals r)) (ob_ivals o) &&
      (zopt (v_status (res_final r)) (-1) =? ob_status o)%Z &&
      (zopt (v_err (res_final r)) 0 =? ob_err o)%Z &&
      (res_attempt r =? ob_attempt o)%Z &&
      match res_end r with
      | EndUpFront => ob_upfront o
      | EndNormal => negb (ob_upfront o)
      | EndScript => false
      end
  | BackoffCase mn mx a d =>
      (* d is a value of [backoff] for some draw: take u = d - half *)
      (backoff mn mx a (d - backoff_half mn mx a) =? d)%Z
  | UploadCase retryable chunked od cform rform fs dtab o failed upfront =>
      let n := (length o + (if failed then 1 else 0))%nat in
      let r := mp_run file_read (lookup_detect_pad dtab) retryable chunked n (od, add_values cform rform) fs in
      list_eqb (fun a b => list_eqb part_eqb (fst a) (fst b) && Bool.eqb (snd a) (snd b)) (fst (fst r)) o &&
      Bool.eqb (snd (fst r)) failed && Bool.eqb (snd r) upfront
  | GroupCase cops cviews hops hviews =>
      list_eqb (list_eqb Z.eqb) (views (wrun go_grow clone_conditions cops world0)) cviews &&
      list_eqb (list_eqb Z.eqb) (views (wrun go_grow clone_hooks hops world0)) hviews
  | CookieCase caller jar0 resps o =>
      list_eqb (list_eqb pair_eqb) (attempt_cookies caller jar0 resps) o
  end.
