(* Lib/BigEndian.v - fixed-width big-endian integers over bytes (executable part; facts are in
   Proofs/BigEndianFacts.v).  Shared by the QUIC varint, HTTP/2 and HTTP/3 codec models. *)
From ReqV Require Export Lib.Bytes.
Open Scope N_scope.

(* Go's uint8(x) conversion *)
Definition u8 (n : N) : byte := byte_of_N_total (n mod 256).

(* k bytes, most significant first: byte j is uint8(n >> (8*(k-1-j))) *)
Fixpoint be_enc (k : nat) (n : N) : bytes :=
  match k with
  | O => []
  | S k' => u8 (N.shiftr n (8 * N.of_nat k')) :: be_enc k' n
  end.

Definition be_dec (s : bytes) : N := fold_left (fun a b => a * 256 + bN b) s 0.

Definition nthN (s : bytes) (i : nat) : N := bN (nth i s x00).
Definition lenN (s : bytes) : N := N.of_nat (length s).
