(* Lib/BytesFacts.v - lemmas about Lib/Bytes.v *)
From ReqV Require Import Lib.Bytes.
From Coq Require Import Lia.

Lemma beqb_refl b : beqb b b = true.
Proof. unfold beqb. apply Byte.byte_dec_lb. reflexivity. Qed.

Lemma beqb_eq a b : beqb a b = true <-> a = b.
Proof. unfold beqb. split; [apply Byte.byte_dec_bl | apply Byte.byte_dec_lb]. Qed.

Lemma beqb_neq a b : beqb a b = false <-> a <> b.
Proof.
  split; intros H.
  - intros E. subst. rewrite beqb_refl in H. discriminate.
  - destruct (beqb a b) eqn:E; [|reflexivity]. apply beqb_eq in E. contradiction.
Qed.

Lemma beqb_sym a b : beqb a b = beqb b a.
Proof.
  destruct (beqb a b) eqn:E.
  - apply beqb_eq in E. subst. symmetry. apply beqb_refl.
  - symmetry. apply beqb_neq. apply beqb_neq in E. congruence.
Qed.

Lemma bytes_eqb_refl s : bytes_eqb s s = true.
Proof. induction s as [|x s IH]; simpl; [reflexivity|]. now rewrite beqb_refl, IH. Qed.

Lemma bytes_eqb_eq a b : bytes_eqb a b = true <-> a = b.
Proof.
  split.
  - revert b. induction a as [|x a IH]; destruct b as [|y b]; simpl; try discriminate; auto.
    intros H. apply andb_true_iff in H as [H1 H2]. apply beqb_eq in H1. subst.
    f_equal. auto.
  - intros ->. apply bytes_eqb_refl.
Qed.

Lemma bytes_eqb_neq a b : bytes_eqb a b = false <-> a <> b.
Proof.
  split; intros H.
  - intros E. subst. rewrite bytes_eqb_refl in H. discriminate.
  - destruct (bytes_eqb a b) eqn:E; [|reflexivity]. apply bytes_eqb_eq in E. contradiction.
Qed.

Lemma mem_byte_app c a b : mem_byte c (a ++ b) = mem_byte c a || mem_byte c b.
Proof. unfold mem_byte. apply existsb_app. Qed.

Lemma mem_byte_cons c x s : mem_byte c (x :: s) = beqb c x || mem_byte c s.
Proof. reflexivity. Qed.

Lemma mem_byte_false_In c s : mem_byte c s = false <-> ~ In c s.
Proof.
  unfold mem_byte. split.
  - intros H Hin. assert (existsb (beqb c) s = true).
    { apply existsb_exists. exists c. split; [assumption|apply beqb_refl]. }
    congruence.
  - intros H. destruct (existsb (beqb c) s) eqn:E; [|reflexivity].
    apply existsb_exists in E as [x [Hx Hb]]. apply beqb_eq in Hb. subst. contradiction.
Qed.

Lemma index_byte_none c s : mem_byte c s = false -> index_byte c s = None.
Proof.
  induction s as [|x s IH]; simpl; [reflexivity|].
  rewrite beqb_sym. intros H. apply orb_false_iff in H as [H1 H2].
  rewrite H1. now rewrite IH.
Qed.

Lemma index_byte_app_hit c a b :
  mem_byte c a = false -> index_byte c (a ++ c :: b) = Some (length a).
Proof.
  induction a as [|x a IH]; simpl.
  - now rewrite beqb_refl.
  - rewrite beqb_sym. intros H. apply orb_false_iff in H as [H1 H2].
    rewrite H1, IH by assumption. reflexivity.
Qed.

Lemma last_index_byte_none c s : mem_byte c s = false -> last_index_byte c s = None.
Proof.
  induction s as [|x s IH]; simpl; [reflexivity|].
  rewrite beqb_sym. intros H. apply orb_false_iff in H as [H1 H2].
  now rewrite IH, H1.
Qed.

Lemma last_index_byte_app_hit c a b :
  mem_byte c b = false -> last_index_byte c (a ++ c :: b) = Some (length a).
Proof.
  intros Hb. induction a as [|x a IH]; simpl.
  - rewrite last_index_byte_none by assumption. now rewrite beqb_refl.
  - now rewrite IH.
Qed.

Lemma firstn_app_exact {A} (a b : list A) : firstn (length a) (a ++ b) = a.
Proof.
  rewrite firstn_app, Nat.sub_diag, firstn_all. simpl. apply app_nil_r.
Qed.

Lemma skipn_app_exact {A} (a b : list A) : skipn (length a) (a ++ b) = b.
Proof.
  rewrite skipn_app, Nat.sub_diag, skipn_all. reflexivity.
Qed.

Lemma to_lower_app a b : to_lower (a ++ b) = to_lower a ++ to_lower b.
Proof. apply map_app. Qed.

Lemma lower_byte_idem b : lower_byte (lower_byte b) = lower_byte b.
Proof. destruct b; vm_compute; reflexivity. Qed.

Lemma to_lower_idem s : to_lower (to_lower s) = to_lower s.
Proof. unfold to_lower. rewrite map_map. apply map_ext. apply lower_byte_idem. Qed.

Lemma lower_byte_preserves (c b : byte) :
  is_alpha c = false -> beqb c (lower_byte b) = beqb c b.
Proof. destruct c; try discriminate; intros _; destruct b; vm_compute; reflexivity. Qed.

Lemma mem_byte_to_lower c s : is_alpha c = false -> mem_byte c (to_lower s) = mem_byte c s.
Proof.
  intros Hc. induction s as [|x s IH]; [reflexivity|].
  change (to_lower (x :: s)) with (lower_byte x :: to_lower s).
  rewrite !mem_byte_cons, IH. now rewrite lower_byte_preserves.
Qed.

Lemma has_prefix_refl_app p s : has_prefix p (p ++ s) = true.
Proof. induction p as [|x p IH]; simpl; [reflexivity|]. now rewrite beqb_refl. Qed.

Lemma has_prefix_spec p s : has_prefix p s = true <-> exists r, s = p ++ r.
Proof.
  split.
  - revert s. induction p as [|x p IH]; intros s H; simpl in *.
    + now exists s.
    + destruct s as [|y s]; [discriminate|]. apply andb_true_iff in H as [H1 H2].
      apply beqb_eq in H1. subst. destruct (IH _ H2) as [r ->]. now exists r.
  - intros [r ->]. apply has_prefix_refl_app.
Qed.

Lemma has_suffix_spec p s : has_suffix p s = true <-> exists r, s = r ++ p.
Proof.
  unfold has_suffix. rewrite has_prefix_spec. split; intros [r H].
  - exists (rev r). apply (f_equal (@rev byte)) in H. rewrite rev_involutive in H.
    rewrite H, rev_app_distr, rev_involutive. reflexivity.
  - exists (rev r). rewrite H, rev_app_distr. reflexivity.
Qed.

Lemma failing_from_nil_iff {A} (chk : A -> bool) l n :
  failing_from n chk l = [] <-> forallb chk l = true.
Proof.
  revert n. induction l as [|c l IH]; intros n; simpl; [tauto|].
  destruct (chk c); simpl; [apply IH|]. split; discriminate.
Qed.
