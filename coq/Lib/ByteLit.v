(* Lib/ByteLit.v - compact byte-string literals for harness-generated cases.
   [lit "GET / HTTP/1.1%0d%0a"] : printable ASCII stands for itself, every other byte (and
   the percent sign and the double quote) is written %XX.  The literal is parsed by Coq's String Notation directly into a
   list of bytes (one constructor per character), which is an order of magnitude cheaper
   for coqc than [hx] on a [string].  No proofs here. *)
From Coq Require Import List NArith Bool.
From Coq.Strings Require Import Byte.
Import ListNotations.

Inductive blit := BL (l : list byte).
Definition blit_of (l : list byte) : blit := BL l.
Definition blit_to (b : blit) : list byte := match b with BL l => l end.
Declare Scope blit_scope.
Delimit Scope blit_scope with blit.
String Notation blit blit_of blit_to : blit_scope.

Definition hexval_byte (b : byte) : N :=
  let n := Byte.to_N b in
  if (48 <=? n)%N && (n <=? 57)%N then n - 48
  else if (97 <=? n)%N && (n <=? 102)%N then n - 87
  else if (65 <=? n)%N && (n <=? 70)%N then n - 55
  else 0.

Definition byte_of_N_or0 (n : N) : byte :=
  match Byte.of_N n with Some b => b | None => x00 end.

Fixpoint unesc (l : list byte) : list byte :=
  match l with
  | [] => []
  | x :: r =>
      match x, r with
      | x25, a :: b :: r' => byte_of_N_or0 (hexval_byte a * 16 + hexval_byte b) :: unesc r'
      | _, _ => x :: unesc r
      end
  end.

Definition lit (b : blit) : list byte := unesc (blit_to b).
Arguments lit _%blit.
