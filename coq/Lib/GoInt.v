(* Lib/GoInt.v - Go fixed-width integer arithmetic over Z, made explicit.
   Used by the gosync-generated kernels (Gen/H2Flow.v).  Definitions only; facts are in
   Proofs/GoIntFacts.v. *)
From Coq Require Import ZArith Bool.
Open Scope Z_scope.

Definition wrap32 (z : Z) : Z := ((z + 2147483648) mod 4294967296) - 2147483648.
Definition wrapu32 (z : Z) : Z := z mod 4294967296.
Definition wrap64 (z : Z) : Z := ((z + 9223372036854775808) mod 18446744073709551616) - 9223372036854775808.
Definition wrapu64 (z : Z) : Z := z mod 18446744073709551616.

Definition in32 (z : Z) : Prop := -2147483648 <= z <= 2147483647.
Definition inu32 (z : Z) : Prop := 0 <= z <= 4294967295.
Definition in64 (z : Z) : Prop := -9223372036854775808 <= z <= 9223372036854775807.
Definition in32b (z : Z) : bool := (-2147483648 <=? z) && (z <=? 2147483647).

Definition max_int32 : Z := 2147483647.
Definition min_int32 : Z := -2147483648.

(* result of a Go function call: normal return or panic *)
Inductive outcome (A : Type) : Type := Ret (a : A) | Panic.
Arguments Ret {A} a.
Arguments Panic {A}.

Definition ret_val {S : Type} (r : outcome Z * S) : Z :=
  match fst r with Ret a => a | Panic => 0 end.
