(* Lib/PackedBytes.v - compact byte-string literals for harness-generated cases.
   `hx "…"` costs ~20 kernel nodes per byte (string notation); `px len [w1; w2; …]` packs seven
   bytes per primitive 63-bit integer literal (big-endian, the last word holds the remaining
   len mod 7 bytes), which coqc reads ~30x faster.  Executable only; used by cases_NNN.v. *)
From Coq Require Import List NArith Uint63.
From Coq.Strings Require Import Byte.
Import ListNotations.

Definition pk_bit (w : int) (i : int) : bool := Uint63.eqb (Uint63.land (Uint63.lsr w i) 1) 1.
Definition byte_of_int (w : int) : byte :=
  Byte.of_bits (pk_bit w 0, (pk_bit w 1, (pk_bit w 2, (pk_bit w 3,
               (pk_bit w 4, (pk_bit w 5, (pk_bit w 6, pk_bit w 7))))))).
Fixpoint pk_unpack (k : nat) (w : int) (acc : list byte) : list byte :=
  match k with O => acc | S k' => pk_unpack k' (Uint63.lsr w 8) (byte_of_int w :: acc) end.
Fixpoint px (len : N) (ws : list int) : list byte :=
  match ws with
  | [] => []
  | w :: r => if (len <=? 7)%N then pk_unpack (N.to_nat len) w []
              else pk_unpack 7 w [] ++ px (len - 7) r
  end.
