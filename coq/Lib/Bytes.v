(* Lib/Bytes.v - executable byte-string utilities shared by all models.
   Go `string`/`[]byte` are `list byte`.  No proofs here (see BytesFacts.v). *)
From Coq Require Export List NArith ZArith Bool.
From Coq Require Ascii String.
From Coq.Strings Require Export Byte.
Notation string := String.string.
Export String.StringSyntax.
Delimit Scope string_scope with string.
Bind Scope string_scope with String.string.
Export ListNotations.
Open Scope list_scope.

Definition bytes := list byte.

Definition beqb (a b : byte) : bool := Byte.eqb a b.

Fixpoint bytes_eqb (a b : bytes) : bool :=
  match a, b with
  | [], [] => true
  | x :: a', y :: b' => beqb x y && bytes_eqb a' b'
  | _, _ => false
  end.

(* string literal -> bytes, for readable constants in models: (bs "Host") *)
Definition bs (s : string) : bytes := String.list_byte_of_string s.

(* hex literal -> bytes, used by harness-generated cases.v files *)
Definition hexval (a : Ascii.ascii) : N :=
  let n := Ascii.N_of_ascii a in
  if (48 <=? n)%N && (n <=? 57)%N then n - 48
  else if (97 <=? n)%N && (n <=? 102)%N then n - 87
  else if (65 <=? n)%N && (n <=? 70)%N then n - 55
  else 0.

Definition byte_of_N_total (n : N) : byte :=
  match Byte.of_N n with Some b => b | None => x00 end.

Fixpoint hx (s : string) : bytes :=
  match s with
  | String.String a (String.String b r) => byte_of_N_total (hexval a * 16 + hexval b)%N :: hx r
  | _ => []
  end.

Arguments bs _%string.
Arguments hx _%string.

Definition bN (b : byte) : N := Byte.to_N b.

Definition is_upper (b : byte) : bool := (65 <=? bN b)%N && (bN b <=? 90)%N.
Definition is_lower (b : byte) : bool := (97 <=? bN b)%N && (bN b <=? 122)%N.
Definition is_digit (b : byte) : bool := (48 <=? bN b)%N && (bN b <=? 57)%N.
Definition is_alpha (b : byte) : bool := is_upper b || is_lower b.

(* ASCII-only lower/upper, = Go strings.ToLower on ASCII input; bytes >= 0x80 are
   left alone (the harness restricts host names to ASCII, as net/url does). *)
Definition lower_byte (b : byte) : byte :=
  if is_upper b then byte_of_N_total (bN b + 32) else b.
Definition upper_byte (b : byte) : byte :=
  if is_lower b then byte_of_N_total (bN b - 32) else b.
Definition to_lower (s : bytes) : bytes := map lower_byte s.
Definition to_upper (s : bytes) : bytes := map upper_byte s.

Definition mem_byte (c : byte) (s : bytes) : bool := existsb (beqb c) s.

(* strings.IndexByte: position of first c, or None *)
Fixpoint index_byte (c : byte) (s : bytes) : option nat :=
  match s with
  | [] => None
  | x :: r => if beqb x c then Some 0
              else match index_byte c r with Some i => Some (S i) | None => None end
  end.

(* strings.LastIndexByte *)
Fixpoint last_index_byte (c : byte) (s : bytes) : option nat :=
  match s with
  | [] => None
  | x :: r => match last_index_byte c r with
              | Some i => Some (S i)
              | None => if beqb x c then Some 0 else None
              end
  end.

Fixpoint has_prefix (p s : bytes) : bool :=
  match p, s with
  | [], _ => true
  | x :: p', y :: s' => beqb x y && has_prefix p' s'
  | _ :: _, [] => false
  end.

Definition has_suffix (p s : bytes) : bool := has_prefix (rev p) (rev s).

(* strings.Split(s, single byte sep): always at least one field *)
Fixpoint split_byte (c : byte) (s : bytes) : list bytes :=
  match s with
  | [] => [[]]
  | x :: r =>
      match split_byte c r with
      | [] => [[]]  (* unreachable *)
      | f :: fs => if beqb x c then [] :: f :: fs else (x :: f) :: fs
      end
  end.

Fixpoint join_with (sep : bytes) (l : list bytes) : bytes :=
  match l with
  | [] => []
  | [x] => x
  | x :: r => x ++ sep ++ join_with sep r
  end.

(* strings.Contains / Index for a multi-byte needle *)
Fixpoint index_sub_from (n : nat) (p s : bytes) : option nat :=
  if has_prefix p s then Some n
  else match s with
       | [] => None
       | _ :: r => index_sub_from (S n) p r
       end.
Definition index_sub (p s : bytes) : option nat := index_sub_from 0 p s.
Definition contains_sub (p s : bytes) : bool :=
  match index_sub p s with Some _ => true | None => false end.

Fixpoint drop_while (f : byte -> bool) (s : bytes) : bytes :=
  match s with
  | [] => []
  | x :: r => if f x then drop_while f r else s
  end.
Definition trim_left (f : byte -> bool) (s : bytes) : bytes := drop_while f s.
Definition trim_right (f : byte -> bool) (s : bytes) : bytes := rev (drop_while f (rev s)).
Definition trim (f : byte -> bool) (s : bytes) : bytes := trim_right f (trim_left f s).

Definition is_sp_tab (b : byte) : bool := beqb b " "%byte || beqb b x09.

(* decimal rendering of a natural number (strconv.Itoa for n >= 0) *)
Definition digit_byte (n : N) : byte := byte_of_N_total (48 + n).
Fixpoint dec_fuel (fuel : nat) (n : N) (acc : bytes) : bytes :=
  match fuel with
  | O => acc
  | S f => let acc' := digit_byte (n mod 10) :: acc in
           if (n <? 10)%N then acc' else dec_fuel f (n / 10) acc'
  end.
Definition dec_of_N (n : N) : bytes := dec_fuel (S (N.to_nat (N.log2 n))) n [].

Definition opt_bytes_eqb (a b : option bytes) : bool :=
  match a, b with
  | None, None => true
  | Some x, Some y => bytes_eqb x y
  | _, _ => false
  end.

Fixpoint list_eqb {A B} (eq : A -> B -> bool) (a : list A) (b : list B) : bool :=
  match a, b with
  | [], [] => true
  | x :: a', y :: b' => eq x y && list_eqb eq a' b'
  | _, _ => false
  end.

(* indices (from 0) of cases on which a check fails; used by every cases.v *)
Fixpoint failing_from {A} (n : nat) (chk : A -> bool) (l : list A) : list nat :=
  match l with
  | [] => []
  | c :: r => if chk c then failing_from (S n) chk r else n :: failing_from (S n) chk r
  end.
Definition failing {A} (chk : A -> bool) (l : list A) : list nat := failing_from 0 chk l.
