(* Properties/C05.v - HTTP/2 and HTTP/3 codecs agree with their upstream reference codecs.
   Only statements, `exact`, and Print Assumptions.
   Models: Model/QuicVarint.v (quicvarint/varint.go), Model/H2Frame.v (internal/http2/frame.go). *)
From ReqV Require Import Lib.Bytes Lib.BigEndian Model.QuicVarint Proofs.QuicVarintProofs.
From ReqV Require Import Model.H2Frame Proofs.H2FrameProofs Proofs.H2OrderProofs.
Open Scope N_scope.

(* ---------- QUIC variable-length integers (RFC 9000 §16) ---------- *)

(* Len: exact ranges; >= 2^62 is the panic branch; Append writes exactly Len bytes *)
Theorem C05_varint_len : forall v,
  (v < 2 ^ 6 -> vi_len v = Some 1) /\ (2 ^ 6 <= v < 2 ^ 14 -> vi_len v = Some 2) /\
  (2 ^ 14 <= v < 2 ^ 30 -> vi_len v = Some 4) /\ (2 ^ 30 <= v < 2 ^ 62 -> vi_len v = Some 8) /\
  (2 ^ 62 <= v -> vi_len v = None) /\
  (forall l, vi_len v = Some l -> exists e, vi_append v = Some e /\ lenN e = l).
Proof. exact varint_len. Qed.
Print Assumptions C05_varint_len.

Theorem C05_varint_out_of_range : forall v, 2 ^ 62 <= v -> vi_len v = None /\ vi_append v = None.
Proof. exact varint_out_of_range. Qed.
Print Assumptions C05_varint_out_of_range.

(* decode (encode v ++ rest) = (v, rest), for both decoders (Parse on a slice, Read on a reader) *)
Theorem C05_varint_roundtrip : forall v rest, v < 2 ^ 62 ->
  exists e l, vi_append v = Some e /\ vi_len v = Some l /\ lenN e = l /\
              vi_parse (e ++ rest) = ViOk v l /\ vi_read (e ++ rest) = Some (v, rest).
Proof. exact varint_roundtrip. Qed.
Print Assumptions C05_varint_roundtrip.

(* no accepted encoding of v is shorter than the one Append writes *)
Theorem C05_varint_minimal : forall s v n l,
  vi_parse s = ViOk v n -> vi_len v = Some l -> l <= n.
Proof. exact varint_minimal. Qed.
Print Assumptions C05_varint_minimal.

(* every 1/2/4/8-byte form that can hold v - minimal or not, as written by AppendWithLen - decodes
   to v; the empty prefix is io.EOF and every other strict prefix io.ErrUnexpectedEOF *)
Theorem C05_varint_decode_total : forall v len, vi_lenok len -> v < 2 ^ (8 * len - 2) ->
  exists e, vi_append_with_len v len = Some e /\ lenN e = len /\
    (forall rest, vi_parse (e ++ rest) = ViOk v len /\ vi_read (e ++ rest) = Some (v, rest)) /\
    vi_parse (firstn 0 e) = ViEOF /\
    (forall k, (0 < k)%nat -> (k < N.to_nat len)%nat ->
       vi_parse (firstn k e) = ViUnexpectedEOF /\ vi_read (firstn k e) = None).
Proof. exact varint_decode_total. Qed.
Print Assumptions C05_varint_decode_total.

(* ... and the decoder accepts nothing else: an accepted input starts with the n-byte form of the
   value returned, n in {1,2,4,8}, value < 2^62 *)
Theorem C05_varint_accepts_only_forms : forall s v n, vi_parse s = ViOk v n ->
  vi_lenok n /\ v < 2 ^ (8 * n - 2) /\ v < 2 ^ 62 /\
  exists rest, s = vi_form n v ++ rest /\ vi_append_with_len v n = Some (vi_form n v).
Proof. exact varint_accepts_only_forms. Qed.
Print Assumptions C05_varint_accepts_only_forms.

(* the three panics of AppendWithLen, exactly *)
Theorem C05_varint_append_with_len_rejects : forall v len,
  vi_append_with_len v len = None <->
  (~ vi_lenok len \/ 2 ^ 62 <= v \/ exists l, vi_len v = Some l /\ len < l).
Proof. exact vi_append_with_len_rejects. Qed.
Print Assumptions C05_varint_append_with_len_rejects.

Theorem C05_varint_read_is_parse : forall s,
  vi_read s = match vi_parse s with ViOk v n => Some (v, skipn (N.to_nat n) s) | _ => None end.
Proof. exact vi_read_parse. Qed.
Print Assumptions C05_varint_read_is_parse.

Theorem C05_varint_prefix_free : forall s1 s2 x v1 v2,
  vi_parse s1 = ViOk v1 (lenN s1) -> vi_parse s2 = ViOk v2 (lenN s2) -> s2 = s1 ++ x ->
  x = [] /\ v1 = v2.
Proof. exact varint_prefix_free. Qed.
Print Assumptions C05_varint_prefix_free.

(* ---------- HTTP/2 framing (RFC 7540 §4.1, §6; internal/http2/frame.go) ---------- *)

(* the 9-byte header written by startWrite/endWrite is read back by readFrameHeader field for field;
   the reserved bit of the stream id is dropped *)
Theorem C05_h2_header_roundtrip : forall len ty fl sid,
  len < 2 ^ 24 -> ty < 256 -> fl < 256 -> sid < 2 ^ 32 ->
  length (h2_header_bytes len ty fl sid) = 9%nat /\
  h2_read_header (h2_header_bytes len ty fl sid) = mkh len ty fl (sid mod 2 ^ 31).
Proof. exact h2_header_roundtrip. Qed.
Print Assumptions C05_h2_header_roundtrip.

(* every Write* call (all twelve, every argument tuple within the Go types, AllowIllegalWrites off)
   that succeeds is parsed back by ReadFrame - in any reader state that admits its length, with any
   bytes following - to exactly the frame its arguments describe (expected_frame is written from the
   RFC 7540 field layout, not from the parsers), subject to the frame-order machine; the rest of the
   input is untouched *)
Theorem C05_h2_frame_roundtrip : forall c b st rest,
  wf_wcall c -> run_wcall c = WOk b -> lenN b - 9 <= rs_max st ->
  read_frame st (b ++ rest) = after_ok st (expected_frame c) rest.
Proof. exact h2_frame_roundtrip. Qed.
Print Assumptions C05_h2_frame_roundtrip.

(* checkFrameOrder over ALL sequences of frame headers: a sequence is accepted with no block left
   open iff it is a concatenation of non-header frames, HEADERS+END_HEADERS, and HEADERS
   (CONTINUATION on the same stream)* CONTINUATION+END_HEADERS with nothing interleaved *)
Theorem C05_h2_order_accepts_exactly_contiguous : forall l,
  header_sids_nonzero l -> (run_order 0 l = Some 0 <-> well_ordered l).
Proof. exact h2_order_accepts_exactly_contiguous. Qed.
Print Assumptions C05_h2_order_accepts_exactly_contiguous.

Theorem C05_h2_order_open_block : forall s l, s <> 0 -> run_order 0 l = Some s ->
  forall h, check_order s h <> None -> is_cont h /\ fh_sid h = s.
Proof. exact h2_order_open_block. Qed.
Print Assumptions C05_h2_order_open_block.

(* the side condition of the order theorem is what the payload parsers deliver *)
Theorem C05_h2_parsed_header_sid_nonzero : forall h p f, parse_frame h p = Ok f ->
  is_hdr h \/ is_cont h -> fh_sid h <> 0.
Proof. exact parsed_header_sid_nonzero. Qed.
Print Assumptions C05_h2_parsed_header_sid_nonzero.

(* non-vacuity *)
Example C05_nonvacuous :
  vi_append 16384 = Some (hx "80004000") /\ vi_parse (hx "80004000ff") = ViOk 16384 4 /\
  vi_append_with_len 37 8 = Some (hx "c000000000000025") /\ vi_lenok 8 /\
  vi_parse (hx "c000000000000025") = ViOk 37 8 /\ vi_parse (hx "c0000000000000") = ViUnexpectedEOF.
Proof. vm_compute. unfold vi_lenok. repeat split. tauto. Qed.
