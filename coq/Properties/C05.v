(* Properties/C05.v - HTTP/2 and HTTP/3 codecs agree with their upstream reference codecs.
   Only statements, `exact`, and Print Assumptions. *)
From ReqV Require Import Lib.Bytes Lib.BigEndian Model.QuicVarint Proofs.QuicVarintProofs.
Open Scope N_scope.

Theorem C05_varint_out_of_range : forall v, 2 ^ 62 <= v -> vi_len v = None /\ vi_append v = None.
Proof. exact varint_out_of_range. Qed.
Print Assumptions C05_varint_out_of_range.
