(* Properties/C05.v - HTTP/2 and HTTP/3 codecs agree with their upstream reference codecs.
   Only statements, `exact`, and Print Assumptions.
   Models: Model/QuicVarint.v (quicvarint/varint.go). *)
From ReqV Require Import Lib.Bytes Lib.BigEndian Model.QuicVarint Proofs.QuicVarintProofs.
Open Scope N_scope.

(* ---------- QUIC variable-length integers (RFC 9000 §16) ---------- *)

(* Len: exact ranges; >= 2^62 is the panic branch; Append writes exactly Len bytes *)
Theorem C05_varint_len : forall v,
  (v < 2 ^ 6 -> vi_len v = Some 1) /\ (2 ^ 6 <= v < 2 ^ 14 -> vi_len v = Some 2) /\
  (2 ^ 14 <= v < 2 ^ 30 -> vi_len v = Some 4) /\ (2 ^ 30 <= v < 2 ^ 62 -> vi_len v = Some 8) /\
  (2 ^ 62 <= v -> vi_len v = None) /\
  (forall l, vi_len v = Some l -> exists e, vi_append v = Some e /\ lenN e = l).
Proof. exact varint_len. Qed.
Print Assumptions C05_varint_len.

Theorem C05_varint_out_of_range : forall v, 2 ^ 62 <= v -> vi_len v = None /\ vi_append v = None.
Proof. exact varint_out_of_range. Qed.
Print Assumptions C05_varint_out_of_range.

(* decode (encode v ++ rest) = (v, rest), for both decoders (Parse on a slice, Read on a reader) *)
Theorem C05_varint_roundtrip : forall v rest, v < 2 ^ 62 ->
  exists e l, vi_append v = Some e /\ vi_len v = Some l /\ lenN e = l /\
              vi_parse (e ++ rest) = ViOk v l /\ vi_read (e ++ rest) = Some (v, rest).
Proof. exact varint_roundtrip. Qed.
Print Assumptions C05_varint_roundtrip.

(* no accepted encoding of v is shorter than the one Append writes *)
Theorem C05_varint_minimal : forall s v n l,
  vi_parse s = ViOk v n -> vi_len v = Some l -> l <= n.
Proof. exact varint_minimal. Qed.
Print Assumptions C05_varint_minimal.

(* every 1/2/4/8-byte form that can hold v - minimal or not, as written by AppendWithLen - decodes
   to v; the empty prefix is io.EOF and every other strict prefix io.ErrUnexpectedEOF *)
Theorem C05_varint_decode_total : forall v len, vi_lenok len -> v < 2 ^ (8 * len - 2) ->
  exists e, vi_append_with_len v len = Some e /\ lenN e = len /\
    (forall rest, vi_parse (e ++ rest) = ViOk v len /\ vi_read (e ++ rest) = Some (v, rest)) /\
    vi_parse (firstn 0 e) = ViEOF /\
    (forall k, (0 < k)%nat -> (k < N.to_nat len)%nat ->
       vi_parse (firstn k e) = ViUnexpectedEOF /\ vi_read (firstn k e) = None).
Proof. exact varint_decode_total. Qed.
Print Assumptions C05_varint_decode_total.

(* ... and the decoder accepts nothing else: an accepted input starts with the n-byte form of the
   value returned, n in {1,2,4,8}, value < 2^62 *)
Theorem C05_varint_accepts_only_forms : forall s v n, vi_parse s = ViOk v n ->
  vi_lenok n /\ v < 2 ^ (8 * n - 2) /\ v < 2 ^ 62 /\
  exists rest, s = vi_form n v ++ rest /\ vi_append_with_len v n = Some (vi_form n v).
Proof. exact varint_accepts_only_forms. Qed.
Print Assumptions C05_varint_accepts_only_forms.

(* the three panics of AppendWithLen, exactly *)
Theorem C05_varint_append_with_len_rejects : forall v len,
  vi_append_with_len v len = None <->
  (~ vi_lenok len \/ 2 ^ 62 <= v \/ exists l, vi_len v = Some l /\ len < l).
Proof. exact vi_append_with_len_rejects. Qed.
Print Assumptions C05_varint_append_with_len_rejects.

Theorem C05_varint_read_is_parse : forall s,
  vi_read s = match vi_parse s with ViOk v n => Some (v, skipn (N.to_nat n) s) | _ => None end.
Proof. exact vi_read_parse. Qed.
Print Assumptions C05_varint_read_is_parse.

Theorem C05_varint_prefix_free : forall s1 s2 x v1 v2,
  vi_parse s1 = ViOk v1 (lenN s1) -> vi_parse s2 = ViOk v2 (lenN s2) -> s2 = s1 ++ x ->
  x = [] /\ v1 = v2.
Proof. exact varint_prefix_free. Qed.
Print Assumptions C05_varint_prefix_free.

(* non-vacuity *)
Example C05_nonvacuous :
  vi_append 16384 = Some (hx "80004000") /\ vi_parse (hx "80004000ff") = ViOk 16384 4 /\
  vi_append_with_len 37 8 = Some (hx "c000000000000025") /\ vi_lenok 8 /\
  vi_parse (hx "c000000000000025") = ViOk 37 8 /\ vi_parse (hx "c0000000000000") = ViUnexpectedEOF.
Proof. vm_compute. unfold vi_lenok. repeat split. tauto. Qed.
