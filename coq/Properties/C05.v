(* Properties/C05.v - HTTP/2 and HTTP/3 codecs agree with their upstream reference codecs.
   Only statements, `exact`, and Print Assumptions.
   Models: Model/QuicVarint.v (quicvarint/varint.go), Model/H2Frame.v (internal/http2/frame.go),
   Model/H3Frame.v (internal/http3/frames.go, headers.go); RFC 9114 transcription: Model/H3Spec.v. *)
From ReqV Require Import Lib.Bytes Lib.BigEndian Model.QuicVarint Proofs.QuicVarintProofs.
From ReqV Require Import Model.H2Frame Proofs.H2FrameProofs Proofs.H2OrderProofs Proofs.H2ErrorProofs.
From ReqV Require Import Model.H2Meta Proofs.H2MetaProofs.
From ReqV Require Import Model.H3Frame Model.H3Spec Proofs.H3FrameProofs Proofs.H3FieldProofs.
From ReqV Require Import Model.H3Writer Proofs.H3WriterProofs Model.H2EncConn Proofs.H2EncConnProofs.
From ReqV Require Import Model.H2ConnThreads Proofs.H2ConnThreadsProofs Model.H3RespConn Proofs.H3RespConnProofs.
From Coq Require Import Permutation.
Open Scope N_scope.

(* ---------- QUIC variable-length integers (RFC 9000 §16) ---------- *)

(* Len: exact ranges; >= 2^62 is the panic branch; Append writes exactly Len bytes *)
Theorem C05_varint_len : forall v,
  (v < 2 ^ 6 -> vi_len v = Some 1) /\ (2 ^ 6 <= v < 2 ^ 14 -> vi_len v = Some 2) /\
  (2 ^ 14 <= v < 2 ^ 30 -> vi_len v = Some 4) /\ (2 ^ 30 <= v < 2 ^ 62 -> vi_len v = Some 8) /\
  (2 ^ 62 <= v -> vi_len v = None) /\
  (forall l, vi_len v = Some l -> exists e, vi_append v = Some e /\ lenN e = l).
Proof. exact varint_len. Qed.
Print Assumptions C05_varint_len.

Theorem C05_varint_out_of_range : forall v, 2 ^ 62 <= v -> vi_len v = None /\ vi_append v = None.
Proof. exact varint_out_of_range. Qed.
Print Assumptions C05_varint_out_of_range.

(* decode (encode v ++ rest) = (v, rest), for both decoders (Parse on a slice, Read on a reader) *)
Theorem C05_varint_roundtrip : forall v rest, v < 2 ^ 62 ->
  exists e l, vi_append v = Some e /\ vi_len v = Some l /\ lenN e = l /\
              vi_parse (e ++ rest) = ViOk v l /\ vi_read (e ++ rest) = Some (v, rest).
Proof. exact varint_roundtrip. Qed.
Print Assumptions C05_varint_roundtrip.

(* no accepted encoding of v is shorter than the one Append writes *)
Theorem C05_varint_minimal : forall s v n l,
  vi_parse s = ViOk v n -> vi_len v = Some l -> l <= n.
Proof. exact varint_minimal. Qed.
Print Assumptions C05_varint_minimal.

(* every 1/2/4/8-byte form that can hold v - minimal or not, as written by AppendWithLen - decodes
   to v; the empty prefix is io.EOF and every other strict prefix io.ErrUnexpectedEOF *)
Theorem C05_varint_decode_total : forall v len, vi_lenok len -> v < 2 ^ (8 * len - 2) ->
  exists e, vi_append_with_len v len = Some e /\ lenN e = len /\
    (forall rest, vi_parse (e ++ rest) = ViOk v len /\ vi_read (e ++ rest) = Some (v, rest)) /\
    vi_parse (firstn 0 e) = ViEOF /\
    (forall k, (0 < k)%nat -> (k < N.to_nat len)%nat ->
       vi_parse (firstn k e) = ViUnexpectedEOF /\ vi_read (firstn k e) = None).
Proof. exact varint_decode_total. Qed.
Print Assumptions C05_varint_decode_total.

(* ... and the decoder accepts nothing else: an accepted input starts with the n-byte form of the
   value returned, n in {1,2,4,8}, value < 2^62 *)
Theorem C05_varint_accepts_only_forms : forall s v n, vi_parse s = ViOk v n ->
  vi_lenok n /\ v < 2 ^ (8 * n - 2) /\ v < 2 ^ 62 /\
  exists rest, s = vi_form n v ++ rest /\ vi_append_with_len v n = Some (vi_form n v).
Proof. exact varint_accepts_only_forms. Qed.
Print Assumptions C05_varint_accepts_only_forms.

(* the three panics of AppendWithLen, exactly *)
Theorem C05_varint_append_with_len_rejects : forall v len,
  vi_append_with_len v len = None <->
  (~ vi_lenok len \/ 2 ^ 62 <= v \/ exists l, vi_len v = Some l /\ len < l).
Proof. exact vi_append_with_len_rejects. Qed.
Print Assumptions C05_varint_append_with_len_rejects.

Theorem C05_varint_read_is_parse : forall s,
  vi_read s = match vi_parse s with ViOk v n => Some (v, skipn (N.to_nat n) s) | _ => None end.
Proof. exact vi_read_parse. Qed.
Print Assumptions C05_varint_read_is_parse.

Theorem C05_varint_prefix_free : forall s1 s2 x v1 v2,
  vi_parse s1 = ViOk v1 (lenN s1) -> vi_parse s2 = ViOk v2 (lenN s2) -> s2 = s1 ++ x ->
  x = [] /\ v1 = v2.
Proof. exact varint_prefix_free. Qed.
Print Assumptions C05_varint_prefix_free.

(* ---------- HTTP/2 framing (RFC 7540 §4.1, §6; internal/http2/frame.go) ---------- *)

(* the 9-byte header written by startWrite/endWrite is read back by readFrameHeader field for field;
   the reserved bit of the stream id is dropped *)
Theorem C05_h2_header_roundtrip : forall len ty fl sid,
  len < 2 ^ 24 -> ty < 256 -> fl < 256 -> sid < 2 ^ 32 ->
  length (h2_header_bytes len ty fl sid) = 9%nat /\
  h2_read_header (h2_header_bytes len ty fl sid) = mkh len ty fl (sid mod 2 ^ 31).
Proof. exact h2_header_roundtrip. Qed.
Print Assumptions C05_h2_header_roundtrip.

(* every Write* call (all twelve, every argument tuple within the Go types, AllowIllegalWrites off)
   that succeeds is parsed back by ReadFrame - in any reader state that admits its length, with any
   bytes following - to exactly the frame its arguments describe (expected_frame is written from the
   RFC 7540 field layout, not from the parsers), subject to the frame-order machine; the rest of the
   input is untouched *)
Theorem C05_h2_frame_roundtrip : forall c b st rest,
  wf_wcall c -> run_wcall c = WOk b -> lenN b - 9 <= rs_max st ->
  read_frame st (b ++ rest) = after_ok st (expected_frame c) rest.
Proof. exact h2_frame_roundtrip. Qed.
Print Assumptions C05_h2_frame_roundtrip.

(* checkFrameOrder over ALL sequences of frame headers: a sequence is accepted with no block left
   open iff it is a concatenation of non-header frames, HEADERS+END_HEADERS, and HEADERS
   (CONTINUATION on the same stream)* CONTINUATION+END_HEADERS with nothing interleaved *)
Theorem C05_h2_order_accepts_exactly_contiguous : forall l,
  header_sids_nonzero l -> (run_order 0 l = Some 0 <-> well_ordered l).
Proof. exact h2_order_accepts_exactly_contiguous. Qed.
Print Assumptions C05_h2_order_accepts_exactly_contiguous.

Theorem C05_h2_order_open_block : forall s l, s <> 0 -> run_order 0 l = Some s ->
  forall h, check_order s h <> None -> is_cont h /\ fh_sid h = s.
Proof. exact h2_order_open_block. Qed.
Print Assumptions C05_h2_order_open_block.

(* the side condition of the order theorem is what the payload parsers deliver *)
Theorem C05_h2_parsed_header_sid_nonzero : forall h p f, parse_frame h p = Ok f ->
  is_hdr h \/ is_cont h -> fh_sid h <> 0.
Proof. exact parsed_header_sid_nonzero. Qed.
Print Assumptions C05_h2_parsed_header_sid_nonzero.

(* which error a malformed frame yields (RFC 7540 §6 as decided by x/net's parsers): five classes; a
   stream error names the frame's own non-zero stream with PROTOCOL_ERROR and comes from HEADERS
   (padding overrun) or WINDOW_UPDATE (zero increment) only; FLOW_CONTROL_ERROR only from SETTINGS *)
Theorem C05_h2_error_classes : forall h p e, parse_frame h p = Err e ->
  match e with
  | EConn c => c = ErrCodeProtocol \/ c = ErrCodeFrameSize \/ (c = ErrCodeFlowControl /\ fh_type h = FrameSettings)
  | EStream s c => s = fh_sid h /\ s <> 0 /\ c = ErrCodeProtocol /\
                   (fh_type h = FrameHeaders \/ fh_type h = FrameWindowUpdate)
  | EUnexpectedEOF => padded_type (fh_type h)
  | EEOF | EFrameTooLarge => False
  end.
Proof. exact h2_error_classes. Qed.
Print Assumptions C05_h2_error_classes.

(* the stream-0 rules and the fixed-length rules of §6 are enforced with a connection error ... *)
Theorem C05_h2_stream_rule_enforced : forall h p, stream_rule_violated h ->
  exists c, parse_frame h p = Err (EConn c) /\ (c = ErrCodeProtocol \/ c = ErrCodeFrameSize).
Proof. exact h2_stream_rule_enforced. Qed.
Print Assumptions C05_h2_stream_rule_enforced.

Theorem C05_h2_length_rule_enforced : forall h p, length_rule_violated h p ->
  exists c, parse_frame h p = Err (EConn c) /\ (c = ErrCodeProtocol \/ c = ErrCodeFrameSize).
Proof. exact h2_length_rule_enforced. Qed.
Print Assumptions C05_h2_length_rule_enforced.

(* ... and a frame respecting both fails only on padding (overrun / missing prefix), a zero window
   increment, or an INITIAL_WINDOW_SIZE above 2^31-1 *)
Theorem C05_h2_wellshaped_errors : forall h p e, ~ stream_rule_violated h -> ~ length_rule_violated h p ->
  parse_frame h p = Err e ->
  (padded_type (fh_type h) /\ (e = EUnexpectedEOF \/ e = EConn ErrCodeProtocol \/ e = EStream (fh_sid h) ErrCodeProtocol)) \/
  (fh_type h = FrameWindowUpdate /\ (e = EConn ErrCodeProtocol \/ e = EStream (fh_sid h) ErrCodeProtocol)) \/
  (fh_type h = FrameSettings /\ e = EConn ErrCodeFlowControl).
Proof. exact h2_wellshaped_errors. Qed.
Print Assumptions C05_h2_wellshaped_errors.

(* merged header lists (readMetaFrame over the decoded block, any fragmentation, any limit): what is
   delivered - truncated or not - has only valid values, lower-case token names for regular fields,
   known / unrepeated / unmixed pseudo-header fields, and fits MaxHeaderListSize *)
Theorem C05_h2_meta_delivered_sound : forall mx sid frags fields trunc,
  h2_meta mx sid frags = MOk fields trunc ->
  Forall hfield_ok fields /\ check_pseudos fields = true /\ list_size fields <= mx.
Proof. exact h2_meta_delivered_sound. Qed.
Print Assumptions C05_h2_meta_delivered_sound.

(* a refused header block is a connection PROTOCOL_ERROR or a stream PROTOCOL_ERROR on its own stream *)
Theorem C05_h2_meta_error_classes : forall mx sid frags e, h2_meta mx sid frags = MErr e ->
  e = EConn ErrCodeProtocol \/ e = EStream sid ErrCodeProtocol.
Proof. exact h2_meta_error_classes. Qed.
Print Assumptions C05_h2_meta_error_classes.

(* and the other direction of delivery: valid fields, pseudo-header fields first and consistent, list
   size within MaxHeaderListSize (< 2^31), every fragment within the size guard => delivered complete
   and untruncated, however the block is cut into HEADERS + CONTINUATION frames *)
Theorem C05_h2_meta_wellformed_delivered : forall mx sid frags,
  let fields := all_fields frags in
  Forall hfield_ok fields -> pseudo_first_from false fields -> check_pseudos fields = true ->
  list_size fields <= mx -> mx < 2 ^ 31 -> frag_lens_ok mx frags ->
  h2_meta mx sid frags = MOk fields false.
Proof. exact h2_meta_wellformed_delivered. Qed.
Print Assumptions C05_h2_meta_wellformed_delivered.

(* several header blocks on ONE connection: the Framer's hpack decoder carries a flag (emitting or
   not) from block to block; readMetaFrame re-enables it first, so what a block yields does not depend
   on what the previous one left behind ... *)
Theorem C05_h2_meta_block_independent : forall e1 e2 mx sid frags,
  fst (h2_meta_from e1 mx sid frags) = fst (h2_meta_from e2 mx sid frags) /\
  fst (h2_meta_from e1 mx sid frags) = h2_meta mx sid frags.
Proof. exact h2_meta_block_independent. Qed.
Print Assumptions C05_h2_meta_block_independent.

(* ... and every sequence of blocks read through one Framer is, block by block, what each block
   alone gives, up to the first connection error - whatever was rejected or truncated before *)
Theorem C05_h2_meta_seq_independent : forall mx blocks e,
  h2_meta_seq e mx blocks = until_conn_err (map (fun b => h2_meta mx (fst b) (snd b)) blocks).
Proof. intros mx blocks e. apply h2_meta_seq_independent. Qed.
Print Assumptions C05_h2_meta_seq_independent.

(* without the re-enabling line a rejected block poisons the connection (the next, valid, response is
   delivered with an empty field list) *)
Theorem C05_h2_meta_noreset_refuted :
  let bad := (1, [(10, [(bs ":status", bs "200"); (bs "X-Upper", bs "v")])]) in
  let good := (3, [(10, [(bs ":status", bs "200"); (bs "server", bs "x")])]) in
  h2_meta_seq true 65536 [bad; good] =
    [MErr (EStream 1 ErrCodeProtocol); MOk [(bs ":status", bs "200"); (bs "server", bs "x")] false] /\
  h2_meta_seq_with h2_meta_from_noreset true 65536 [bad; good] =
    [MErr (EStream 1 ErrCodeProtocol); MOk [] false].
Proof. exact h2_meta_noreset_refuted. Qed.
Print Assumptions C05_h2_meta_noreset_refuted.

(* the rest of what the hpack decoder carries from block to block: its position.  readMetaFrame
   calls hdec.Close() before it looks at the malformed-field verdict, so whenever the connection
   lives on the decoder is between two blocks ... *)
Theorem C05_h2_meta_decoder_always_closed : forall dec mx sid su torn frags r e o,
  h2_meta_run2 true dec mx sid su torn frags = (r, Some (e, o)) -> o = false.
Proof. exact h2_meta_decoder_always_closed. Qed.
Print Assumptions C05_h2_meta_decoder_always_closed.

(* ... and every sequence of blocks - with blocks that open with a dynamic table size update, blocks
   that end inside a field representation (connection COMPRESSION_ERROR), malformed and truncated ones
   anywhere - is block by block what each block alone gives, up to the first connection error *)
Theorem C05_h2_meta_seq2_independent : forall mx blocks e,
  h2_meta_seq2 true (e, false) mx blocks = until_conn_err (map (h2_meta_block mx) blocks).
Proof. intros mx blocks e. apply h2_meta_seq2_independent. Qed.
Print Assumptions C05_h2_meta_seq2_independent.

(* returning the malformed-field stream error before hdec.Close(): the valid block that follows and
   opens with a size update kills the connection *)
Theorem C05_h2_meta_close_after_invalid_refuted :
  let bad := (1, (false, false), [(10, [(bs ":status", bs "200"); (bs "X-Upper", bs "v")])]) in
  let good := (3, (true, false), [(10, [(bs ":status", bs "200"); (bs "server", bs "x")])]) in
  h2_meta_seq2 true (true, false) 65536 [bad; good] =
    [MErr (EStream 1 ErrCodeProtocol); MOk [(bs ":status", bs "200"); (bs "server", bs "x")] false] /\
  h2_meta_seq2 false (true, false) 65536 [bad; good] =
    [MErr (EStream 1 ErrCodeProtocol); MErr (EConn ErrCodeCompression)].
Proof. exact h2_meta_close_after_invalid_refuted. Qed.
Print Assumptions C05_h2_meta_close_after_invalid_refuted.

(* Framer.ErrorDetail over a sequence of ReadFrame calls (header blocks, and frames the frame parser
   refuses before checkFrameOrder): ReadFrame clears the carried detail first, so what ErrorDetail()
   says after a call does not depend on what an earlier call left behind ... *)
Theorem C05_h2_error_detail_per_frame : forall mx evs dec d1 d2,
  read_events true dec d1 mx evs = read_events true dec d2 mx evs.
Proof. exact h2_error_detail_per_frame. Qed.
Print Assumptions C05_h2_error_detail_per_frame.

(* ... it is non-nil exactly after a header block that ends in a stream error (malformed field,
   pseudo-header misuse), never after a frame the parser refused *)
Theorem C05_h2_error_detail_spec : forall dec d mx ev o st, read_event true dec d mx ev = (o, st) ->
  snd o = match ev, fst o with
          | EvRejected _, _ => false
          | EvBlock _ _ _ _, MErr (EStream _ _) => true
          | EvBlock _ _ _ _, _ => false
          end.
Proof. exact h2_error_detail_spec. Qed.
Print Assumptions C05_h2_error_detail_spec.

(* with the reset moved into checkFrameOrder the refused frame inherits the malformed block's detail *)
Theorem C05_h2_error_detail_reset_late_refuted :
  let bad := EvBlock 1 false false [(10, [(bs ":status", bs "200"); (bs "X-Upper", bs "v")])] in
  read_events true (true, false) false 65536 [bad; EvRejected 3] =
    [(MErr (EStream 1 ErrCodeProtocol), true); (MErr (EStream 3 ErrCodeProtocol), false)] /\
  read_events false (true, false) false 65536 [bad; EvRejected 3] =
    [(MErr (EStream 1 ErrCodeProtocol), true); (MErr (EStream 3 ErrCodeProtocol), true)].
Proof. exact h2_error_detail_reset_late_refuted. Qed.
Print Assumptions C05_h2_error_detail_reset_late_refuted.

(* ---------- one connection's request header encoder over a sequence of exchanges ---------- *)

(* ClientConn.encodeHeaders / encodeTrailers refuse a list larger than the peer's
   SETTINGS_MAX_HEADER_LIST_SIZE in a first pass, before the connection's HPACK encoder is touched.
   For ANY encoder / peer decoder pair that is in step and stays in step over a sent block (the one
   hypothesis about the unforked hpack library), over EVERY sequence of exchanges: the peer decodes
   every block that was sent to exactly the fields of its exchange - refused exchanges, wherever they
   stand in the sequence, leave no trace *)
Theorem C05_h2_conn_refusals_leave_no_trace :
  forall (S D B : Type) (enc : S -> list hfield -> B * S) (dec : D -> B -> option (list hfield * D))
         (insync : S -> D -> Prop),
  (forall s d fs b s', insync s d -> enc s fs = (b, s') -> exists d', dec d b = Some (fs, d') /\ insync s' d') ->
  forall limit xs s d, insync s d ->
  conn_run S D B enc dec true limit s d xs = expected limit xs.
Proof. exact conn_refusals_leave_no_trace. Qed.
Print Assumptions C05_h2_conn_refusals_leave_no_trace.

Theorem C05_h2_conn_refused_as_if_absent :
  forall (S D B : Type) (enc : S -> list hfield -> B * S) (dec : D -> B -> option (list hfield * D))
         (insync : S -> D -> Prop),
  (forall s d fs b s', insync s d -> enc s fs = (b, s') -> exists d', dec d b = Some (fs, d') /\ insync s' d') ->
  forall limit xs s d, insync s d ->
  filter (fun o => match o with None => false | Some _ => true end) (conn_run S D B enc dec true limit s d xs) =
  conn_run S D B enc dec true limit s d (filter (fun fs => negb (over_limit limit fs)) xs).
Proof. exact conn_refused_as_if_absent. Qed.
Print Assumptions C05_h2_conn_refused_as_if_absent.

(* the hypothesis is satisfiable (a small indexed-table HPACK), and with that instance the one-pass
   variant - encode while counting, drop the bytes on refusal - is refuted: after a refused trailer
   block the next request decodes at the peer to another field *)
Theorem C05_h2_conn_hypothesis_satisfiable : forall s d fs b s',
  s = d -> toy_enc_toks s fs = (b, s') -> exists d', toy_dec_toks d b = Some (fs, d') /\ s' = d'.
Proof. exact toy_hpack_in_step. Qed.
Print Assumptions C05_h2_conn_hypothesis_satisfiable.

Theorem C05_h2_conn_one_pass_refuted :
  let a := (bs "x-a", bs "1") in let big := (bs "x-trailer", bs "0123456789") in
  let xs := [[a]; [big; big]; [big]] in
  conn_run _ _ _ toy_enc_toks toy_dec_toks true 60 [] [] xs = [Some (Some [a]); None; Some (Some [big])] /\
  conn_run _ _ _ toy_enc_toks toy_dec_toks false 60 [] [] xs = [Some (Some [a]); None; Some (Some [a])].
Proof. exact conn_one_pass_refuted. Qed.
Print Assumptions C05_h2_conn_one_pass_refuted.

(* ---------- concurrent streams of one HTTP/2 connection writing header blocks ---------- *)

(* two streams that each write a header block (request HEADERS or request trailers) as
   Lock; Encode; Write; Unlock on the connection's one HPACK encoder, header buffer and write lock:
   under EVERY schedule, when both are through, the peer's one decoder - in step with the encoder at
   the start - has decoded exactly the two blocks' own fields, in the order the lock was won, and is
   in step again (hpack: the hypothesis of C05_h2_conn_refusals_leave_no_trace) *)
Theorem C05_h2_conn_blocks_in_encode_order :
  forall (S D B : Type) (enc : S -> list hfield -> B * S) (dec : D -> B -> option (list hfield * D))
         (fs : bool -> list hfield) (insync : S -> D -> Prop),
  (forall s d l b s', insync s d -> enc s l = (b, s') -> exists d', dec d b = Some (l, d') /\ insync s' d') ->
  forall s0 d0 sched, insync s0 d0 ->
  let st := crun S D B enc dec fs true s0 d0 sched in
  c_pa st = CDone -> c_pb st = CDone ->
  (c_outs st = [Some (fs true); Some (fs false)] \/ c_outs st = [Some (fs false); Some (fs true)]) /\
  insync (c_enc st) (c_peer st).
Proof. exact h2_conn_blocks_in_encode_order. Qed.
Print Assumptions C05_h2_conn_blocks_in_encode_order.

Theorem C05_h2_conn_peer_never_confused :
  forall (S D B : Type) (enc : S -> list hfield -> B * S) (dec : D -> B -> option (list hfield * D))
         (fs : bool -> list hfield) (insync : S -> D -> Prop),
  (forall s d l b s', insync s d -> enc s l = (b, s') -> exists d', dec d b = Some (l, d') /\ insync s' d') ->
  forall s0 d0 sched, insync s0 d0 ->
  Forall (fun o => o = Some (fs true) \/ o = Some (fs false)) (c_outs (crun S D B enc dec fs true s0 d0 sched)).
Proof. exact h2_conn_peer_never_confused. Qed.
Print Assumptions C05_h2_conn_peer_never_confused.

(* encoding the trailers before taking the write lock: another stream's HEADERS slip in between *)
Theorem C05_h2_conn_encode_outside_lock_refuted :
  let tr := (bs "x-trailer", bs "t") in let h := (bs "x-req", bs "b") in
  let fs := fun t : bool => if t then [tr] else [h; tr] in
  let st := crun _ _ _ toy_enc_toks toy_dec_toks fs false [tr] [tr] [true; false; false; false; false; true; true; true] in
  c_pa st = CDone /\ c_pb st = CDone /\ c_outs st = [Some [h; tr]; Some [h; h]].
Proof. exact h2_conn_encode_outside_lock_refuted. Qed.
Print Assumptions C05_h2_conn_encode_outside_lock_refuted.

(* ---------- HTTP/3 frames (RFC 9114 §7.1, §7.2.4; internal/http3/frames.go) ---------- *)

(* dataFrame.Append / headersFrame.Append are read back by ParseNext: same type and length, payload
   left in the reader *)
Theorem C05_h3_frame_header_roundtrip : forall body t l rest, l < 2 ^ 62 ->
  (t = h3FrameData \/ t = h3FrameHeaders) ->
  exists hb, h3_frame_header t l = Some hb /\
    h3_parse_next_b body (hb ++ rest) = (H3Ok (if t =? h3FrameData then H3Data l else H3Headers l), rest).
Proof. exact h3_frame_header_roundtrip. Qed.
Print Assumptions C05_h3_frame_header_roundtrip.

(* ... for every encoding of the two integers a peer may choose (minimal or not); reserved types
   (HTTP/2 leftovers 0x2, 0x6, 0x8, 0x9) are refused *)
Theorem C05_h3_frame_header_any_encoding : forall body et el t l rest, is_enc et t -> is_enc el l ->
  (t = h3FrameData -> h3_parse_next_b body (et ++ el ++ rest) = (H3Ok (H3Data l), rest)) /\
  (t = h3FrameHeaders -> h3_parse_next_b body (et ++ el ++ rest) = (H3Ok (H3Headers l), rest)) /\
  (In t h3ReservedTypes -> h3_parse_next_b body (et ++ el ++ rest) = (H3Err (H3Reserved t), rest)).
Proof. exact h3_frame_header_any_encoding. Qed.
Print Assumptions C05_h3_frame_header_any_encoding.

(* every other frame type (known-but-ignored, GREASE, extensions) is skipped with its payload *)
Theorem C05_h3_unknown_frame_skipped : forall body et el t p rest, is_enc et t -> is_enc el (lenN p) ->
  t <> h3FrameData -> t <> h3FrameHeaders -> t <> h3FrameSettings -> ~ In t h3ReservedTypes ->
  h3_parse_next_b body (et ++ el ++ p ++ rest) = h3_parse_next_b body rest.
Proof. exact h3_unknown_frame_skipped. Qed.
Print Assumptions C05_h3_unknown_frame_skipped.

Theorem C05_h3_unknown_frame_truncated : forall body et el t l rest, is_enc et t -> is_enc el l ->
  t <> h3FrameData -> t <> h3FrameHeaders -> t <> h3FrameSettings -> ~ In t h3ReservedTypes ->
  lenN rest < l -> h3_parse_next_b body (et ++ el ++ rest) = (H3Err (trunc_err body), []).
Proof. exact h3_unknown_frame_truncated. Qed.
Print Assumptions C05_h3_unknown_frame_truncated.

(* conversely, over ALL byte strings: whenever ParseNext returns a frame, the input was a run of
   complete skippable frames, then a type and a length in accepted encodings, then - for DATA / HEADERS -
   exactly the bytes left in the reader, or - for SETTINGS - a payload of the announced length within
   the cap that the settings loop accepts, followed by the bytes left *)
Theorem C05_h3_parse_next_ok_inv : forall body input f rest, h3_parse_next_b body input = (H3Ok f, rest) ->
  exists sk et el t l bd, skipped_frames sk /\ is_enc et t /\ is_enc el l /\ input = sk ++ et ++ el ++ bd /\
    ((t = h3FrameData /\ f = H3Data l /\ rest = bd) \/
     (t = h3FrameHeaders /\ f = H3Headers l /\ rest = bd) \/
     (t = h3FrameSettings /\ l <= h3SettingsMaxLen /\
      exists payload s, bd = payload ++ rest /\ lenN payload = l /\
                        h3_parse_settings_payload payload = H3Ok s /\ f = H3Settings s)).
Proof. exact h3_parse_next_ok_inv. Qed.
Print Assumptions C05_h3_parse_next_ok_inv.

(* where the stream ends.  (body = the bodyStream flag: false on control streams and for the first
   frame of a response, true while a message body is read.)  A stream that ends right behind complete
   skipped frames is a clean io.EOF in both modes ... *)
Theorem C05_h3_skipped_then_end : forall body input, skipped_frames input ->
  h3_parse_next_b body input = (H3Err H3EOF, []).
Proof. exact h3_skipped_then_end. Qed.
Print Assumptions C05_h3_skipped_then_end.

(* ... and on a body stream a clean io.EOF means exactly that: a stream cut inside a frame type, a
   frame length, a skipped payload or (since /repo 1ee29a3) a SETTINGS frame is never a clean end *)
Theorem C05_h3_body_eof_iff : forall input,
  (exists r, h3_parse_next_b true input = (H3Err H3EOF, r)) <-> skipped_frames input.
Proof. exact h3_body_eof_iff. Qed.
Print Assumptions C05_h3_body_eof_iff.

(* the flag changes nothing else: same frames and bytes left, same errors up to EOF / UnexpectedEOF
   (quic-go, which has no such flag, is the body = false column) *)
Theorem C05_h3_body_flag_only_renames_eof : forall input,
  same_up_to_eof (fst (h3_parse_next_b false input)) (fst (h3_parse_next_b true input)) /\
  (forall f, fst (h3_parse_next_b false input) = H3Ok f -> h3_parse_next_b false input = h3_parse_next_b true input).
Proof. exact h3_body_flag_only_renames_eof. Qed.
Print Assumptions C05_h3_body_flag_only_renames_eof.

(* SETTINGS payloads: a sequence of (id, value) pairs in any accepted encoding is accepted iff no
   identifier occurs twice and the two boolean settings (ENABLE_CONNECT_PROTOCOL, H3_DATAGRAM) are
   0 or 1; what is delivered then *)
Theorem C05_h3_settings_accept_iff : forall b ps, enc_pairs b ps ->
  ((exists s, h3_parse_settings_payload b = H3Ok s) <->
   (NoDup (map fst ps) /\ Forall settings_value_ok ps)) /\
  (forall s, h3_parse_settings_payload b = H3Ok s ->
     sf_other s = other_of ps /\
     sf_datagram s = (match assocN settingDatagram ps with Some v => v =? 1 | None => false end) /\
     sf_extconnect s = (match assocN settingExtendedConnect ps with Some v => v =? 1 | None => false end)).
Proof. exact h3_settings_accept_iff. Qed.
Print Assumptions C05_h3_settings_accept_iff.

(* settingsFrame.Append then ParseNext, for every duplicate-free map of unrecognised settings written
   in any iteration order, both flags, anything following: read back exactly, as long as the payload
   is within the parser's own 8 KiB cap (beyond it the fork refuses its own frame) *)
Theorem C05_h3_settings_roundtrip : forall body d e order rest,
  NoDup (map fst order) -> Forall other_pair_ok order ->
  exists l, h3_settings_len d e order = Some l /\
    (l < 2 ^ 62 -> exists b, h3_settings_append d e order = Some b /\
       (l <= h3SettingsMaxLen ->
          h3_parse_next_b body (b ++ rest) = (H3Ok (H3Settings (mk_settings d e order)), rest)) /\
       (h3SettingsMaxLen < l -> fst (h3_parse_next_b body (b ++ rest)) = H3Err (H3SettingsTooLarge l))).
Proof. exact h3_settings_roundtrip. Qed.
Print Assumptions C05_h3_settings_roundtrip.

Theorem C05_h3_settings_order_irrelevant : forall body d e o1 o2 rest,
  Permutation o1 o2 -> NoDup (map fst o1) -> Forall other_pair_ok o1 ->
  exists l b1 b2, h3_settings_len d e o1 = Some l /\ h3_settings_len d e o2 = Some l /\
    (l <= h3SettingsMaxLen ->
      h3_settings_append d e o1 = Some b1 /\ h3_settings_append d e o2 = Some b2 /\
      lenN b1 = lenN b2 /\
      h3_parse_next_b body (b1 ++ rest) = (H3Ok (H3Settings (mk_settings d e o1)), rest) /\
      h3_parse_next_b body (b2 ++ rest) = (H3Ok (H3Settings (mk_settings d e o2)), rest)).
Proof. exact h3_settings_order_irrelevant. Qed.
Print Assumptions C05_h3_settings_order_irrelevant.

(* Append panics (quicvarint) iff some identifier or value needs more than 62 bits *)
Theorem C05_h3_settings_append_panics_iff : forall ps, h3_pairs_len ps = None <-> ~ Forall pair_in_range ps.
Proof. exact pairs_len_none. Qed.
Print Assumptions C05_h3_settings_append_panics_iff.

(* ---------- two requests on one connection's request writer (request_writer.go) ---------- *)

(* one header buffer + one QPACK encoder per connection, one mutex held from before encoding until
   after the buffer reset: under EVERY schedule of two concurrent writeHeaders calls (enc = whatever
   field sections the two requests encode to) a finished call has handed its stream exactly its own
   HEADERS frame, and the buffer is empty and the mutex free when both are done *)
Theorem C05_h3_writer_frames_intact : forall enc sched,
  let st := wrun enc true sched in
  (t_pc (w_a st) = PDone -> t_out (w_a st) = wframe (enc true)) /\
  (t_pc (w_b st) = PDone -> t_out (w_b st) = wframe (enc false)) /\
  (t_pc (w_a st) = PDone -> t_pc (w_b st) = PDone -> w_buf st = [] /\ w_lock st = None).
Proof. exact writer_frames_intact. Qed.
Print Assumptions C05_h3_writer_frames_intact.

(* at no point of any schedule has a stream received anything but a prefix of its own frame *)
Theorem C05_h3_writer_no_foreign_bytes : forall enc sched,
  let st := wrun enc true sched in
  (exists r, wframe (enc true) = t_out (w_a st) ++ r) /\ (exists r, wframe (enc false) = t_out (w_b st) ++ r).
Proof. exact writer_no_foreign_bytes. Qed.
Print Assumptions C05_h3_writer_no_foreign_bytes.

(* with the lock narrowed to the encoding loop the schedule "B encodes while A is parked in its
   first Write" glues A's field section to B's on B's stream and leaves A's frame header bare *)
Theorem C05_h3_writer_narrow_lock_refuted :
  let enc := fun t : bool => if t then [x0a; x0b] else [x0c] in
  let st := wrun enc false (park_schedule 1) in
  t_pc (w_a st) = PDone /\ t_pc (w_b st) = PDone /\
  t_out (w_b st) = whdr 3 ++ [x0a; x0b; x0c] /\ t_out (w_a st) = whdr 2 /\
  t_out (w_b st) <> wframe (enc false).
Proof. exact writer_narrow_lock_refuted. Qed.
Print Assumptions C05_h3_writer_narrow_lock_refuted.

(* sequences of requests on one HTTP/3 request writer: the QPACK encoder is bound to the header buffer
   once; the buffer is reset, never replaced, so every request of every sequence is framed as its own
   field section whatever sizes came before *)
Theorem C05_h3_writer_seq_frames_own_section : forall sections,
  bw_run None bw_init sections = map wframe sections.
Proof. exact writer_seq_frames_own_section. Qed.
Print Assumptions C05_h3_writer_seq_frames_own_section.

Theorem C05_h3_writer_seq_fresh_buffer_refuted :
  let big := repeat x61 20 in
  bw_run (Some 16) bw_init [[x01]; big; [x02]; [x03]] = [wframe [x01]; wframe big; whdr 0; whdr 0].
Proof. exact writer_seq_fresh_buffer_refuted. Qed.
Print Assumptions C05_h3_writer_seq_fresh_buffer_refuted.

(* the response side of one HTTP/3 connection: ONE qpack decoder for the responses of all requests.
   A field section that cannot be decoded closes the connection (the decoder is left in mid-section),
   a malformed one resets only its stream.  For every sequence of responses: what is observed is
   exactly resp_expected - a well-formed response that is read at all is accepted, whatever was
   refused before it - and nothing is accepted on a connection that was closed *)
Theorem C05_h3_resp_good_always_accepted : forall cs,
  resp_seq true rinit cs = resp_expected cs /\
  Forall (fun o => snd o = true -> fst o = false) (resp_seq true rinit cs).
Proof. exact h3_resp_good_always_accepted. Qed.
Print Assumptions C05_h3_resp_good_always_accepted.

(* resetting only the stream on a QPACK failure: the well-formed response that follows is refused *)
Theorem C05_h3_resp_keep_connection_refuted :
  resp_seq false rinit [RGood; RUndecodable; RGood] = [(true, false); (false, false); (false, false)] /\
  resp_seq true rinit [RGood; RUndecodable; RGood] = [(true, false); (false, true)].
Proof. exact h3_resp_keep_connection_refuted. Qed.
Print Assumptions C05_h3_resp_keep_connection_refuted.

(* ---------- received field sections (RFC 9114 §4.2, §4.3; internal/http3/headers.go) ---------- *)

(* parseHeaders accepts a request / response header section iff the RFC transcription (Model/H3Spec.v:
   no upper-case or invalid characters in names, valid values, only the pseudo-header fields defined
   for the direction and all of them before the regular fields, no connection-specific fields, te only
   "trailers"; plus - outside §4.2-4.3 - agreeing content-length values that are empty or < 2^63) holds *)
Theorem C05_h3_headers_accept_iff_rfc9114 : forall is_request fs,
  (exists h, h3_parse_headers is_request fs = HOk h) <-> rfc9114_header_section_ok is_request fs.
Proof. exact h3_headers_accept_iff_rfc9114. Qed.
Print Assumptions C05_h3_headers_accept_iff_rfc9114.

(* parseTrailers (as repaired by 9f5b243) accepts exactly the well-formed trailer sections *)
Theorem C05_h3_trailers_accept_iff_rfc9114 : forall fs,
  (exists m, h3_parse_trailers fs = HOk m) <-> rfc9114_trailer_section_ok fs.
Proof. exact h3_trailers_accept_iff_rfc9114. Qed.
Print Assumptions C05_h3_trailers_accept_iff_rfc9114.

Theorem C05_h3_trailers_pinned_refuted :
  let fs := [(bs "X-Upper", bs "1")] in
  (exists m, h3_parse_trailers_pinned fs = HOk m) /\ ~ rfc9114_trailer_section_ok fs /\
  h3_parse_trailers fs = HErr HNotLower.
Proof. exact h3_trailers_pinned_refuted. Qed.
Print Assumptions C05_h3_trailers_pinned_refuted.

(* updateResponseFromHeaders accepts a response iff the section is well-formed (above) and the LAST
   :status field (§4.3.2: MUST be included; the code lets a repeated one override) has a non-empty
   value strconv.Atoi takes - which becomes StatusCode *)
Theorem C05_h3_response_accept_iff : forall fs,
  (exists r, h3_response fs = HOk r) <->
  (rfc9114_header_section_ok false fs /\ response_status fs <> [] /\ exists c, go_atoi (response_status fs) = Some c).
Proof. exact h3_response_accept_iff. Qed.
Print Assumptions C05_h3_response_accept_iff.

Theorem C05_h3_response_accept_sound : forall fs h code, h3_response fs = HOk (h, code) ->
  rfc9114_header_section_ok false fs /\ In (hd_status h) (status_values fs) /\
  hd_status h <> [] /\ go_atoi (hd_status h) = Some code.
Proof. exact h3_response_accept_sound. Qed.
Print Assumptions C05_h3_response_accept_sound.

Theorem C05_h3_response_without_status_refused : forall fs,
  status_values fs = [] -> forall r, h3_response fs <> HOk r.
Proof. exact h3_response_without_status_refused. Qed.
Print Assumptions C05_h3_response_without_status_refused.

(* non-vacuity *)
Example C05_nonvacuous :
  vi_append 16384 = Some (hx "80004000") /\ vi_parse (hx "80004000ff") = ViOk 16384 4 /\
  vi_append_with_len 37 8 = Some (hx "c000000000000025") /\ vi_lenok 8 /\
  vi_parse (hx "c000000000000025") = ViOk 37 8 /\ vi_parse (hx "c0000000000000") = ViUnexpectedEOF.
Proof. vm_compute. unfold vi_lenok. repeat split. tauto. Qed.

Example C05_h3_nonvacuous :
  h3_settings_append true false [(6, 4096); (1, 0)] = Some (hx "040733010650000100") /\
  h3_parse_next (hx "040733010650000100" ++ hx "0005") =
    (H3Ok (H3Settings (mk_settings true false [(6, 4096); (1, 0)])), hx "0005") /\
  fst (h3_parse_next (hx "040406000601")) = H3Err (H3DupSetting 6) /\
  h3_parse_next (hx "21020000" ++ hx "0103") = (H3Ok (H3Headers 3), []) /\
  (exists h, h3_parse_headers false [(bs ":status", bs "200"); (bs "content-length", bs "5"); (bs "x-a", bs "1")] = HOk h) /\
  h3_parse_headers false [(bs ":status", bs "200"); (bs "x-a", bs "1"); (bs ":status", bs "200")] = HErr HPseudoAfterRegular /\
  h3_parse_headers false [(bs ":status", bs "200"); (bs "X-a", bs "1")] = HErr HNotLower /\
  h3_parse_headers false [(bs ":status", bs "200"); (bs "connection", bs "close")] = HErr HBadName.
Proof. vm_compute. repeat split. eexists. reflexivity. Qed.
