(* Properties/C13.v - Dump is transparent and faithful.
   Only statements, `exact`, and Print Assumptions.
   Model: Model/Dump.v, Model/DumpReader.v, Model/DumpStack.v. *)
From ReqV Require Import Lib.Bytes Model.Dump Model.DumpReader Model.DumpStack Model.C13Run
                         Proofs.DumpProofs Proofs.DumpStackProofs Proofs.DumpMoreProofs Proofs.DumpOrderProofs
                         Model.DumpSync Gen.DumpTables Proofs.DumpSyncProofs.

(* ---- transparency: every hook is an observer, fst (tee f x) = f x, for ANY underlying
        writer / reader (partial writes, failures at any point) and ANY dumper list ---- *)
Theorem C13_tee_writer_observer : forall St ds pt mk (w : wfn St) s l p,
  let '(st', n, e) := wrap_writer ds pt mk (lift w) (s, l) p in (fst st', n, e) = w s p.
Proof. exact @wrap_writer_observer. Qed.
Print Assumptions C13_tee_writer_observer.

Theorem C13_tee_reader_observer : forall St ds (r : rfn St) s l k,
  let '(st', b, e) := wrap_reader ds (rlift r) (s, l) k in (fst st', b, e) = r s k.
Proof. exact @wrap_reader_observer. Qed.
Print Assumptions C13_tee_reader_observer.

(* HTTP/1.1 request: connection state (bytes sent), failure and the flush before waiting for
   100-continue are those of the code without any dump hook *)
Theorem C13_dump_transparent_h1_send : forall St ds (w : wfn St) s q,
  fst (h1_send ds w s q) = h1_send_plain w s q.
Proof. exact @h1_send_transparent. Qed.
Print Assumptions C13_dump_transparent_h1_send.

(* HTTP/1.1 response: header lines handed to the parser, how the block ended, the unread
   stream, the body reader's state and every Read result - for every stream, every buffer
   size, every body reader and every sequence of caller reads *)
(* WHEN the bytes leave: with the Flush of the connection's bufio.Writer made explicit (any flush,
   any writer, failures anywhere), the chunks of a streamed upload are flushed one by one exactly
   as without dump - a producer that waits for the peer to have seen the previous part cannot be
   stalled by turning the dump on *)
Theorem C13_dump_transparent_h1_send_flush : forall St (flush : flushfn St) ds (w : wfn St) s q,
  fst (h1_send_f flush ds w s q) = h1_send_plain_f flush w s q.
Proof. exact @h1_send_f_transparent. Qed.
Print Assumptions C13_dump_transparent_h1_send_flush.

Theorem C13_h1_streamed_upload_flushes_every_chunk : forall ds hw chunks,
  let sr := fst (h1_send_f count_flush ds count_w ([], 0) (mkH1Req hw (Some chunks) true false)) in
  sr_failed sr = false /\ snd (sr_state sr) = length (filter nonempty chunks).
Proof. exact h1_streamed_upload_flushes_every_chunk. Qed.
Print Assumptions C13_h1_streamed_upload_flushes_every_chunk.

Theorem C13_dump_transparent_h1_recv : forall St ds n stream (r : rfn St) b0 sizes,
  fst (h1_recv ds n stream r b0 sizes) = h1_recv_plain n stream r b0 sizes.
Proof. exact @h1_recv_transparent. Qed.
Print Assumptions C13_dump_transparent_h1_recv.

Theorem C13_dump_transparent_h2_send : forall St ds enc frame frame_fin endstream (w : wfn St) s q,
  fst (h2_send ds enc frame frame_fin endstream w s q) = h2_send_plain enc frame frame_fin endstream w s q.
Proof. exact @h2_send_transparent. Qed.
Print Assumptions C13_dump_transparent_h2_send.

Theorem C13_dump_transparent_h3_send : forall St ds enc (w : wfn St) s q,
  fst (h3_send ds enc w s q) = h3_send_plain enc w s q.
Proof. exact @h3_send_transparent. Qed.
Print Assumptions C13_dump_transparent_h3_send.

Theorem C13_dump_transparent_h23_recv : forall St ds fs (r : rfn St) b0 sizes,
  fst (h23_recv ds fs r b0 sizes) = read_all r b0 sizes.
Proof. exact @h23_recv_transparent. Qed.
Print Assumptions C13_dump_transparent_h23_recv.

(* the dumping readLine returns the same (line, isPrefix, err) and leaves the reader in the same
   state as bufio.Reader.ReadLine, for every buffer size and every input *)
Theorem C13_dump_reader_equiv : forall n s,
  rl_line (read_line_dump n s) = rl_line (read_line_plain n s) /\
  rl_prefix (read_line_dump n s) = rl_prefix (read_line_plain n s) /\
  rl_err (read_line_dump n s) = rl_err (read_line_plain n s) /\
  rl_rest (read_line_dump n s) = rl_rest (read_line_plain n s).
Proof. exact read_line_dump_equiv. Qed.
Print Assumptions C13_dump_reader_equiv.

(* ... and what it dumps is the header block as received: fragments dumped ++ unread = stream *)
Theorem C13_response_header_dump_is_stream : forall n stream,
  let '(_, _, rest, frags) := read_block read_line_dump n (S (length stream)) stream [] [] in
  concat frags ++ rest = stream.
Proof. exact h1_recv_header_faithful. Qed.
Print Assumptions C13_response_header_dump_is_stream.

(* ---- faithfulness over the hook sequence of ANY exchange ---- *)
(* bytes of part p go to resolve o p (the CRLF separators to Output) and nowhere else, each
   hook once, in program order; dumpers do not see each other *)
Theorem C13_routing_exact : forall i o w ds hs,
  NoDup (map fst ds) -> In (i, o) ds ->
  content i w (run_hooks ds hs) =
    flat_map (fun h => if enabled o (hook_part h) && N.eqb w (dest o h) then hook_data h else []) hs.
Proof. exact routing_exact. Qed.
Print Assumptions C13_routing_exact.

Theorem C13_nowhere_else : forall i o w ds hs,
  NoDup (map fst ds) -> In (i, o) ds ->
  (forall p, enabled o p = true -> resolve o p <> w) -> output o <> w ->
  content i w (run_hooks ds hs) = [].
Proof. exact nowhere_else. Qed.
Print Assumptions C13_nowhere_else.

Theorem C13_off_means_silent : forall i o w ds hs p,
  NoDup (map fst ds) -> In (i, o) ds -> enabled o p = false ->
  content i w (run_hooks ds hs) =
  content i w (run_hooks ds (filter (fun h => negb (part_eqb (hook_part h) p)) hs)).
Proof. exact off_means_silent. Qed.
Print Assumptions C13_off_means_silent.

Theorem C13_all_off_silent : forall i o w ds hs,
  NoDup (map fst ds) -> In (i, o) ds -> (forall p, enabled o p = false) ->
  content i w (run_hooks ds hs) = [].
Proof. exact all_off_silent. Qed.
Print Assumptions C13_all_off_silent.

(* a writer dedicated to one part receives exactly that part's payload, once, in order, with no
   separator (the separators - CRLF after an h1 request body, CRLF CRLF after an h2/h3 one, CRLF
   at response-body EOF - go to Output()) *)
Theorem C13_exactly_once : forall i o w ds hs p,
  NoDup (map fst ds) -> In (i, o) ds -> enabled o p = true -> resolve o p = w ->
  (forall p', p' <> p -> enabled o p' = true -> resolve o p' <> w) -> output o <> w ->
  content i w (run_hooks ds hs) = flat_map (hook_payload p) hs.
Proof. exact exactly_once. Qed.
Print Assumptions C13_exactly_once.

(* HTTP/1.1 with Content-Length over a healthy connection: the wire is header block ++ body and
   the hook sequence is: the header writes, the body writes, one CRLF separator *)
Theorem C13_h1_request_dump_is_wire : forall ds hw chunks ec,
  h1_send ds app_writer [] (mkH1Req hw (Some chunks) false ec) =
  (mkSend (concat hw ++ concat chunks) false ec,
   run_hooks ds (map HReqHeader hw ++ map HReqBody chunks ++ [HReqBodyEnd crlf])).
Proof. exact h1_send_identity_log. Qed.
Print Assumptions C13_h1_request_dump_is_wire.

(* h2/h3: the header dump is one "name: value CRLF" line per transmitted field + CRLF *)
Theorem C13_h23_request_header_lines : forall fs,
  flat_map (hook_payload PReqH) (field_hooks HReqHeader fs) = flat_map field_line fs ++ crlf.
Proof. exact field_hooks_payload_req. Qed.
Print Assumptions C13_h23_request_header_lines.

Theorem C13_h23_response_header_lines : forall fs,
  flat_map (hook_payload PRespH) (field_hooks HRespHeader fs) = flat_map field_line fs ++ crlf.
Proof. exact field_hooks_payload_resp. Qed.
Print Assumptions C13_h23_response_header_lines.

(* async = sync, per dumper (hence per writer), for every interleaving of DumpTo and the
   drainer *)
Theorem C13_async_preserves_order : forall prog sched, run_async [] prog sched = prog.
Proof. exact async_preserves_order. Qed.
Print Assumptions C13_async_preserves_order.

(* ... and for the repaired DumpTo with its `running` flag, every interleaving of DumpTo calls,
   drain steps, Start and the return of Start: written ++ still queued = the DumpTo calls in
   program order (nothing lost, duplicated or reordered) *)
Theorem C13_delivery_in_program_order : forall async ops,
  d_out (run_ops async ops) ++ d_queue (run_ops async ops) = dumped_tasks ops.
Proof. exact delivery_in_program_order. Qed.
Print Assumptions C13_delivery_in_program_order.

(* a dumper nobody starts (request level) writes everything at once whatever Async says; its
   queue stays empty, so no DumpTo can block *)
Theorem C13_never_started_is_synchronous : forall async ops,
  ~ In AStart ops ->
  d_queue (run_ops async ops) = [] /\ d_out (run_ops async ops) = dumped_tasks ops.
Proof. exact never_started_is_synchronous. Qed.
Print Assumptions C13_never_started_is_synchronous.

(* h2 / h3 over a healthy connection: every (dumper, writer) receives, in order, what the hook
   sequence  one line per field, CRLF, each DATA payload, CRLF CRLF  sends there, whether
   END_STREAM rides on the last DATA frame or on an empty one (h3: the log IS that sequence, the
   separator only if a byte was written) - the routing theorems above then say where those
   bytes go *)
Theorem C13_h2_request_dump_is_wire : forall i o w ds enc frame frame_fin endstream fs chunks fin_last,
  NoDup (map fst ds) -> In (i, o) ds ->
  let '(sr, lg) := h2_send ds enc frame frame_fin endstream app_writer [] (mkH23Req fs (Some chunks) fin_last false) in
  sr_failed sr = false /\
  content i w lg =
  content i w (run_hooks ds (field_hooks HReqHeader fs ++ map HReqBody (filter nonempty chunks)
                             ++ [HReqBodyEnd sep23])).
Proof. exact h2_send_identity_log. Qed.
Print Assumptions C13_h2_request_dump_is_wire.

(* "body bytes as sent": an HTTP/2 upload abandoned before END_STREAM (the peer answered or reset
   the stream while the client waited for flow-control window, the request was cancelled): the
   wire holds the header block and the DATA frames written, and every (dumper, writer) holds the
   header lines and exactly the payloads of those frames - bytes that were read from the body but
   never framed are not dumped, no separator follows *)
Theorem C13_h2_aborted_upload_dump_is_what_was_sent : forall i o w ds enc frame frame_fin endstream fs chunks,
  NoDup (map fst ds) -> In (i, o) ds ->
  let '(sr, lg) := h2_send ds enc frame frame_fin endstream app_writer [] (mkH23Req fs (Some chunks) false true) in
  sr_state sr = enc fs ++ concat (map frame (filter nonempty chunks)) /\
  content i w lg =
  content i w (run_hooks ds (field_hooks HReqHeader fs ++ map HReqBody (filter nonempty chunks))).
Proof. exact h2_send_aborted_log. Qed.
Print Assumptions C13_h2_aborted_upload_dump_is_what_was_sent.

Theorem C13_h3_request_dump_is_wire : forall ds enc fs chunks fl,
  h3_send ds enc app_writer [] (mkH23Req fs (Some chunks) fl false) =
  (mkSend (enc fs ++ concat chunks) false false,
   run_hooks ds (field_hooks HReqHeader fs ++ map HReqBody chunks
                 ++ (if Nat.eqb (total_len chunks) 0 then [] else [HReqBodyEnd sep23]))).
Proof. exact h3_send_identity_log. Qed.
Print Assumptions C13_h3_request_dump_is_wire.

(* response side, per (dumper, writer), any body reader and any schedule of caller reads: the
   header block as received (HTTP/1.1: the readLine fragments, which concatenate to the consumed
   stream - C13_response_header_dump_is_stream; h2/h3: one line per decoded field + CRLF) at the
   writer resolved for response headers, every delivered body slice once at the writer resolved
   for response bodies, CRLF at Output when the reader reports io.EOF - and nothing else *)
Theorem C13_h1_response_dump_content : forall St i o w ds n stream (r : rfn St) b0 sizes,
  NoDup (map fst ds) -> In (i, o) ds -> should_dump ds = true ->
  let '(lines, e, rest, frags) := read_block read_line_dump n (S (length stream)) stream [] [] in
  content i w (snd (h1_recv ds n stream r b0 sizes)) =
  (if enabled o PRespH && N.eqb w (resolve o PRespH) then concat frags else []) ++
  match e with
  | BBlank => flat_map (read_bytes_for o w) (snd (read_all r b0 sizes))
  | _ => []
  end.
Proof. exact @h1_recv_content. Qed.
Print Assumptions C13_h1_response_dump_content.

Theorem C13_h23_response_dump_content : forall St i o w ds fs (r : rfn St) b0 sizes,
  NoDup (map fst ds) -> In (i, o) ds ->
  content i w (snd (h23_recv ds fs r b0 sizes)) =
  flat_map (hook_bytes_for o w) (field_hooks HRespHeader fs) ++
  flat_map (read_bytes_for o w) (snd (read_all r b0 sizes)).
Proof. exact @h23_recv_content. Qed.
Print Assumptions C13_h23_response_dump_content.

(* several exchanges on one client / connection: a dumper that belongs to one of them (request
   level) receives exactly what that exchange alone gives it, nothing of the ones before or after;
   a dumper present in all of them receives the concatenation, in order *)
Theorem C13_exchange_isolation : forall i w (before : list (list dumper * list hook)) (ds : list dumper) hs
                                        (after : list (list dumper * list hook)),
  (forall x, In x before -> ~ In i (map fst (fst x))) ->
  (forall x, In x after -> ~ In i (map fst (fst x))) ->
  content i w (run_sequence (before ++ (ds, hs) :: after)) = content i w (run_hooks ds hs).
Proof. exact exchange_isolation. Qed.
Print Assumptions C13_exchange_isolation.

Theorem C13_sequence_concatenates : forall i w xs,
  content i w (run_sequence xs) = flat_map (fun x => content i w (run_hooks (fst x) (snd x))) xs.
Proof. exact sequence_concatenates. Qed.
Print Assumptions C13_sequence_concatenates.

(* ---- call order of the request-level setters (request.go) ---- *)
(* a request-level dumper exists iff some EnableDump* call was made, wherever in the sequence *)
Theorem C13_request_dumper_iff_enabled : forall buf ops,
  (exists o, run_rops buf ops = Some o) <-> existsb is_enable ops = true.
Proof. exact rops_dumper_iff_enabled. Qed.
Print Assumptions C13_request_dumper_iff_enabled.

(* SetDumpOptions made LAST - also after EnableDump / EnableDumpTo / EnableDumpWithoutXxx - gives the
   options the dumper works with (nothing of what was configured before survives) *)
Theorem C13_set_dump_options_last_wins : forall buf ops o,
  run_rops buf (ops ++ [RSet o]) =
  if existsb is_enable ops then Some (request_set_options buf o) else None.
Proof. exact rops_set_last_wins. Qed.
Print Assumptions C13_set_dump_options_last_wins.

(* ---- client-level configuration history (EnableDumpAll*, SetCommonDumpOptions, DisableDumpAll,
        Transport-level EnableDump) and Clone: a clone dumps with the options in force on the original,
        and a Transport-level EnableDump decides them whatever the setters left behind ---- *)
Theorem C13_clone_keeps_options_in_force : forall ops,
  in_force (cclone (run_cops ops)) = in_force (run_cops ops).
Proof. exact clone_keeps_options_in_force. Qed.
Print Assumptions C13_clone_keeps_options_in_force.

Theorem C13_transport_enable_is_in_force : forall ops o,
  in_force (run_cops (ops ++ [CTransportEnable o])) = Some (new_dumper o).
Proof. exact transport_enable_is_in_force. Qed.
Print Assumptions C13_transport_enable_is_in_force.

(* a setter called after the dump was enabled and after SetCommonDumpOptions reaches the running
   Dumper (SetCommonDumpOptions re-points it at the struct the later setters edit) *)
Theorem C13_setters_after_set_common_take_effect : forall ops o ps w,
  c_has (run_cops ops) = true ->
  in_force (run_cops (ops ++ [CSetCommon o; CWithout ps])) =
    Some (switch_off ps (client_set_options (c_opts (run_cops ops)) o)) /\
  in_force (run_cops (ops ++ [CSetCommon o; CEnableAllTo w])) =
    Some (set_out (client_set_options (c_opts (run_cops ops)) o) (Some w)).
Proof. exact setters_after_set_common_take_effect. Qed.
Print Assumptions C13_setters_after_set_common_take_effect.

(* ---- one drain goroutine per queue ---- *)
Theorem C13_one_drainer_in_order : forall d ops,
  (forall op, In op ops -> drainer_of op = None \/ drainer_of op = Some d) ->
  let st := run_qops ops in
  q_out st ++ map snd (q_held st) ++ q_queue st = qdumped ops.
Proof. exact one_drainer_in_order. Qed.
Print Assumptions C13_one_drainer_in_order.

(* ---- Stop while exchanges are still dumping (DisableDumpAll with a body still being read):
        every interleaving of DumpTo, drain steps, Start and Stop delivers in program order, and once
        the dumper is stopped or not draining nothing is left queued - no write is lost, none can
        block ---- *)
Theorem C13_stop_loses_nothing : forall async ops,
  let st := run_sops async ops in
  s_out st ++ tasks_of (s_q st) = sdumped ops /\
  ((s_running st = false \/ s_stopped st = true) -> s_out st = sdumped ops).
Proof. exact stop_loses_nothing. Qed.
Print Assumptions C13_stop_loses_nothing.

(* ---- Stop in two steps (mark the queue, then wait for the drain while keeping the lock DumpTo
        needs): for every interleaving the bytes written followed by those still queued are the
        executed DumpTo calls in the order they were made - across Stop the later bytes of an exchange
        in flight never overtake its earlier, still queued ones ---- *)
Theorem C13_stop_keeps_order : forall async ops,
  let '(st, ex) := run_tops true async ops in
  t_out st ++ tasks_of (t_q st) = ex.
Proof. exact stop_keeps_order. Qed.
Print Assumptions C13_stop_keeps_order.

(* ---- the request's own dump buffer across retries: after the reset that precedes the last
        attempt it holds exactly that attempt's dump, whatever the earlier attempts left ---- *)
Theorem C13_buffer_holds_last_attempt : forall before last,
  forallb is_write last = true ->
  run_bops (before ++ BReset :: last) =
  flat_map (fun op => match op with BWrite p => p | BReset => [] end) last.
Proof. exact buffer_holds_last_attempt. Qed.
Print Assumptions C13_buffer_holds_last_attempt.

(* ---- an HTTP/2 response header block that is never completed or is rejected: the lines of the
        fields that were decoded, at the response-header writer, no closing CRLF ---- *)
Theorem C13_h2_partial_block_content : forall i o w ds fs,
  NoDup (map fst ds) -> In (i, o) ds ->
  content i w (h2_partial_block_log ds fs) =
  if enabled o PRespH && N.eqb w (resolve o PRespH) then flat_map field_line fs else [].
Proof. exact h2_partial_block_content. Qed.
Print Assumptions C13_h2_partial_block_content.

Theorem C13_h2_partial_block_is_prefix : forall ds fs,
  h23_resp_header_log ds fs = h2_partial_block_log ds fs ++ hook_emit_all ds (HRespHeader crlf).
Proof. exact h2_partial_block_prefix. Qed.
Print Assumptions C13_h2_partial_block_is_prefix.

(* ---- tie to the source text (tables regenerated from the Go files by gosync on every run) ---- *)
(* the model's writer resolution is the fall-back chain written in dump.go, for every option
   record and every part *)
Theorem C13_resolve_matches_source : forall o p,
  eval_route 3 gen_routes o (part_method p) = Some (resolve o p).
Proof. exact resolve_matches_source. Qed.
Print Assumptions C13_resolve_matches_source.

(* the flag accessors, the Dumper method and argument (p[:n]) each wrapper in internal/dump calls,
   the separator literal at every DumpDefault call site and the two conditions of DumpTo are the
   ones the model is written for *)
Theorem C13_tables_match_source :
  gen_flags = expected_flags /\ gen_wrappers = expected_wrappers /\
  gen_separators = expected_separators /\ gen_dumpto = expected_dumpto /\
  gen_bufio_asserts = expected_bufio_asserts /\ gen_shared_state = expected_shared_state.
Proof. exact tables_match_source. Qed.
Print Assumptions C13_tables_match_source.

(* ---- seeded variants, refuted ---- *)
(* SetDumpOptions keeping the caller's pointer (c-m3): ignored after EnableDump, fine before *)
Theorem C13_keep_pointer_setter_refuted :
  let o := mkOpts (Some 21%N) None None None None None None true false true false false in
  run_rops_keep 2%N [REnable; RSet o] <> run_rops 2%N [REnable; RSet o] /\
  run_rops_keep 2%N [RSet o; REnable] = run_rops 2%N [RSet o; REnable].
Proof. exact rops_keep_refuted. Qed.
Print Assumptions C13_keep_pointer_setter_refuted.

(* Stop as it was before fix 417df38 (and with d-m3's sticky running flag): a write dumped between
   Stop and the drainer's exit is queued behind the mark and never written *)
Theorem C13_old_stop_loses_writes :
  let t := (7%N, bs "rest of the body") in
  let ops := [SStart; SStop; SDump t; SDrain; SDrain; SDrain] in
  s_out (run_sops_old true ops) = [] /\ s_running (run_sops_old true ops) = false /\
  sdumped ops = [t] /\ s_out (run_sops true ops) = [t].
Proof. exact old_stop_loses_writes. Qed.
Print Assumptions C13_old_stop_loses_writes.

(* Clone with the re-wiring guard reduced to a type check (e-m1) *)
Theorem C13_unguarded_clone_refuted :
  let o := mkOpts (Some 10%N) None None None None None None false false true false false in
  let ops := [CEnableAllTo 17%N; CDisableAll; CTransportEnable o] in
  in_force (cclone_unguarded (run_cops ops)) <> in_force (run_cops ops) /\
  in_force (cclone (run_cops ops)) = Some o.
Proof. exact unguarded_clone_uses_stale_options. Qed.
Print Assumptions C13_unguarded_clone_refuted.

(* SetCommonDumpOptions keeping a private copy while the running Dumper reads the caller's struct (g-m2) *)
Theorem C13_split_set_common_refuted :
  let o := mkOpts (Some 10%N) None None None None None None true true true true false in
  let ops := [CEnableAllTo 17%N; CSetCommon o; CWithout [PRespB]] in
  in_force (fold_left cstep_split ops c0) = Some o /\
  in_force (run_cops ops) = Some (switch_off [PRespB] o).
Proof. exact split_set_common_ignores_later_setters. Qed.
Print Assumptions C13_split_set_common_refuted.

(* a Stop that unlocks right after marking the queue (f-m3) *)
Theorem C13_unlocked_stop_reorders :
  let a := (7%N, bs "part-1 ") in let b := (7%N, bs "part-2 ") in let c := (7%N, bs "part-3") in
  let ops := [TStart; TDump a; TDump b; TMark; TDump c; TDrain; TDrain; TDrain] in
  t_out (fst (run_tops false true ops)) = [c; a; b] /\ snd (run_tops false true ops) = [a; b; c] /\
  t_out (fst (run_tops true true ops)) = [a; b] /\ snd (run_tops true true ops) = [a; b].
Proof. exact unlocked_stop_reorders. Qed.
Print Assumptions C13_unlocked_stop_reorders.

(* two drain goroutines on one queue (c-m1) reorder *)
Theorem C13_two_drainers_reorder :
  let a := (7%N, bs "GET / HTTP/1.1") in
  let b := (7%N, bs "Host: x") in
  let ops := [QDump a; QDump b; QTake 0; QTake 1; QWrite 1; QWrite 0] in
  q_out (run_qops ops) = [b; a] /\ qdumped ops = [a; b].
Proof. exact two_drainers_reorder. Qed.
Print Assumptions C13_two_drainers_reorder.

(* ---- the pinned code, refuted ---- *)
(* a writeBody that asserts *bufio.Writer on the body-dump-wrapped writer (seeded change b-m2) *)
Theorem C13_wrapped_chunk_flush_refuted :
  sr_state (fst (h1_send_f_wrapped count_flush [(0, opts_all 7%N)] count_w ([], 0) stream_req)) <>
  sr_state (h1_send_plain_f count_flush count_w ([], 0) stream_req).
Proof. exact chunk_flush_wrapped_not_transparent. Qed.
Print Assumptions C13_wrapped_chunk_flush_refuted.

Theorem C13_pinned_never_started_writes_nothing : forall ops,
  ~ In AStart ops -> d_out (run_ops_pinned true ops) = [].
Proof. exact pinned_never_started_writes_nothing. Qed.
Print Assumptions C13_pinned_never_started_writes_nothing.

Theorem C13_pinned_read_line_refuted :
  fst (read_block read_line_dump_pinned 16 10 pinned_witness [] []) <>
  fst (read_block read_line_plain 16 10 pinned_witness [] []).
Proof. exact read_block_pinned_differs. Qed.
Print Assumptions C13_pinned_read_line_refuted.

Theorem C13_pinned_flush_refuted :
  sr_flushed_before_wait (fst (h1_send_pinned [(0, opts_all 7%N)] app_writer [] expect_req)) <>
  sr_flushed_before_wait (h1_send_plain app_writer [] expect_req).
Proof. exact h1_send_pinned_not_transparent. Qed.
Print Assumptions C13_pinned_flush_refuted.

Theorem C13_pinned_h3_multiwriter_refuted :
  snd (h3_body_pinned app_writer failing_writer ([], tt) [bs "body"]) <>
  snd (write_all app_writer [] [bs "body"]).
Proof. exact h3_body_pinned_coupled. Qed.
Print Assumptions C13_pinned_h3_multiwriter_refuted.

Theorem C13_pinned_unstarted_async_blocks : forall prog,
  chan_capacity < length prog -> run_unstarted prog = BlockedForever.
Proof. exact unstarted_blocks. Qed.
Print Assumptions C13_pinned_unstarted_async_blocks.

(* non-vacuity: two dumpers, per-part writers, a request with body and a response *)
Example C13_nonvacuous :
  let o := mkOpts (Some 10%N) None (Some 11%N) (Some 12%N) None None None true true true false false in
  let ds := get_dumpers (Some o) (Some (opts_all 20%N)) in
  let hs := [HReqHeader (bs "GET / HTTP/1.1"); HReqBody (bs "abc"); HReqBodyEnd crlf;
             HRespHeader (bs "HTTP/1.1 200 OK"); HRespBody (bs "xyz"); HRespBodyEOF] in
  NoDup (map fst ds) /\ In (0, o) ds /\
  content 0 12%N (run_hooks ds hs) = bs "GET / HTTP/1.1" /\
  content 0 10%N (run_hooks ds hs) = bs "abc" ++ crlf /\
  content 0 11%N (run_hooks ds hs) = bs "HTTP/1.1 200 OK" /\
  content 1 20%N (run_hooks ds hs) =
    bs "GET / HTTP/1.1" ++ bs "abc" ++ crlf ++ bs "HTTP/1.1 200 OK" ++ bs "xyz" ++ crlf.
Proof.
  cbv zeta. repeat split; try (vm_compute; reflexivity).
  - vm_compute. repeat constructor; cbn; intuition discriminate.
  - vm_compute. now left.
Qed.
