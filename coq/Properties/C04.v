(* Properties/C04.v - HTTP/1.1 response parsing and framing agree with the reference parser.
   Only statements, `exact`, and Print Assumptions.  Model: Model/H1Resp.v (semantics of Go
   1.23.5 net/http.ReadResponse + textproto + chunked reader, = the fork's reader after the
   fix: commits; tied to both on every run by harness/c04), Model/H1Render.v (sender side,
   used to state the round-trip theorems). *)
From ReqV Require Import Lib.Bytes Model.H1Resp Model.H1Render Proofs.H1RespProofs.
From ReqV Require Gen.H1Tables.
From Coq Require Import Lia.

(* chunk sizes: accepted exactly when 1..16 hex digits, value = big-endian base 16 *)
Theorem C04_hex_uint_spec : forall v n,
  parse_hex_uint v = HexOk n <->
  v <> [] /\ length v <= 16 /\ forallb is_hex_digit v = true /\ n = hex_value v.
Proof. exact hex_uint_spec. Qed.
Print Assumptions C04_hex_uint_spec.

Theorem C04_hex_uint_fits_uint64 : forall v n, parse_hex_uint v = HexOk n -> (n < 2 ^ 64)%N.
Proof. exact hex_uint_fits_uint64. Qed.
Print Assumptions C04_hex_uint_fits_uint64.

Theorem C04_hex_uint_error_classes : forall v,
  match parse_hex_uint v with
  | HexOk _ => True
  | HexEmpty => v = []
  | HexInvalid => existsb (fun b => negb (is_hex_digit b)) (firstn 17 v) = true
  | HexTooLarge => 16 < length v /\ forallb is_hex_digit (firstn 17 v) = true
  end.
Proof. exact hex_uint_total_classes. Qed.
Print Assumptions C04_hex_uint_error_classes.

(* the pinned fork took the empty string for 0 (blank size line = end of body) *)
Theorem C04_hex_uint_pinned_refuted : parse_hex_uint_pinned [] = HexOk 0.
Proof. exact hex_uint_pinned_refuted. Qed.
Print Assumptions C04_hex_uint_pinned_refuted.

(* For EVERY partition of a body into non-empty chunks, however the size lines are spelled
   (leading zeros, hex case, extensions, trailing blanks) as long as they fit the reader's
   buffer and the overhead allowance: the chunked reader returns exactly the concatenation,
   stops right after the last-chunk line, and hands back the rest of the stream untouched -
   no byte after the message is attributed to it, none of it is left behind. *)
Theorem C04_chunked_round_trip : forall bufsize cs l0 rest,
  chunks_ok bufsize 0 cs -> size_line_ok bufsize l0 0 ->
  dechunk_all bufsize (render_chunks cs ++ l0 ++ CRLF ++ rest) = (concat (map snd cs), CEof rest).
Proof. exact chunked_round_trip. Qed.
Print Assumptions C04_chunked_round_trip.

(* ... in particular whenever each size line is at most 14 bytes longer than twice its data *)
Theorem C04_chunked_round_trip_plain : forall bufsize cs l0 rest,
  Forall (chunk_plain bufsize) cs -> size_line_ok bufsize l0 0 ->
  dechunk_all bufsize (render_chunks cs ++ l0 ++ CRLF ++ rest) = (concat (map snd cs), CEof rest).
Proof. exact chunked_round_trip_plain. Qed.
Print Assumptions C04_chunked_round_trip_plain.

(* Message boundaries.  If a stream parses into a response whose body is self-delimited (no
   body, Content-Length or chunked) and ends cleanly, then with ANY bytes appended the very
   same response, body and trailers are parsed and exactly the appended bytes are left over. *)
Theorem C04_parse_deterministic_prefix : forall meth bufsize s r b t,
  parse_response meth bufsize s = Accepted r b ->
  b_end b = BOk -> r_framing r <> FrUntilClose ->
  parse_response meth bufsize (s ++ t) = Accepted r (with_rest b (b_rest b ++ t)).
Proof. exact parse_deterministic_prefix. Qed.
Print Assumptions C04_parse_deterministic_prefix.

(* Pipelining: when [s1] is exactly one complete self-delimited response, the first message
   in [s1 ++ s2] ends exactly where [s2] begins, so the next parse sees s2 and only s2 - no
   byte of one response is attributed to the other (for every s2, methods, buffer size). *)
Theorem C04_pipelined_responses_separate : forall m1 m2 bufsize s1 s2 r1 b1,
  parse_response m1 bufsize s1 = Accepted r1 b1 ->
  b_end b1 = BOk -> r_framing r1 <> FrUntilClose -> b_rest b1 = [] ->
  exists b1',
    parse_response m1 bufsize (s1 ++ s2) = Accepted r1 b1' /\
    b_data b1' = b_data b1 /\ b_trailer b1' = b_trailer b1 /\ b_end b1' = BOk /\
    b_rest b1' = s2 /\
    parse_response m2 bufsize (b_rest b1') = parse_response m2 bufsize s2.
Proof. exact pipelined_responses_separate. Qed.
Print Assumptions C04_pipelined_responses_separate.

(* every stream yields a response or an error, for every method and buffer size *)
Theorem C04_parse_total : forall meth bufsize s,
  match parse_response meth bufsize s with
  | Rejected e => e <> HOutOfFuel
  | Accepted r b => b_end b <> BOutOfFuel
  end.
Proof. exact parse_response_total. Qed.
Print Assumptions C04_parse_total.

(* translator ties: the fork's token table and chunked-reader constants, regenerated from
   /repo's source on every run, are the ones the model uses *)
Theorem C04_token_table_agrees : forall b,
  is_tchar b = existsb (N.eqb (bN b)) Gen.H1Tables.fork_token_table.
Proof. exact token_table_agrees. Qed.
Print Assumptions C04_token_table_agrees.

Theorem C04_chunk_constants_agree :
  Gen.H1Tables.fork_max_line_length = Z.of_nat max_line_length /\
  Gen.H1Tables.fork_hex_max_digits = 16%Z /\
  Gen.H1Tables.fork_hex_rejects_empty = true /\
  Gen.H1Tables.fork_excess_limit = excess_limit /\
  Gen.H1Tables.fork_excess_per_chunk = 16%Z.
Proof. exact chunk_constants_agree. Qed.
Print Assumptions C04_chunk_constants_agree.

(* non-vacuity: concrete odd-looking but valid chunkings satisfy the hypotheses *)
Example C04_nonvacuous :
  chunks_ok 64 0 [(bs "5", bs "hello"); (bs "0006;ext=1 ", bs " world"); (bs "A", bs "0123456789")] /\
  size_line_ok 64 (bs "000;last") 0 /\
  dechunk_all 64 (render_chunks [(bs "5", bs "hello"); (bs "0006;ext=1 ", bs " world")]
                    ++ bs "0" ++ CRLF ++ bs "NEXT") = (bs "hello world", CEof (bs "NEXT")).
Proof. vm_compute. repeat split; try discriminate; auto; lia. Qed.

(* ... and a complete chunked response with folded header, trailer and odd chunk spelling
   meets the hypotheses of the boundary theorems *)
Example C04_boundary_nonvacuous :
  let s := bs "HTTP/1.1 200 OK" ++ CRLF ++ bs "transfer-encoding: Chunked" ++ CRLF ++
           bs "X-Fold: a" ++ CRLF ++ bs "  b" ++ CRLF ++ bs "Trailer: X-T" ++ CRLF ++ CRLF ++
           bs "005;x=y " ++ CRLF ++ bs "hello" ++ CRLF ++ bs "0" ++ CRLF ++
           bs "x-t: 1" ++ CRLF ++ CRLF in
  match parse_response (bs "GET") 64 s with
  | Accepted r b => b_end b = BOk /\ r_framing r = FrChunked /\ b_rest b = [] /\
                    b_data b = bs "hello" /\ b_trailer b = [(bs "X-T", [bs "1"])] /\
                    hget (bs "X-Fold") (r_header r) = Some [bs "a b"]
  | Rejected _ => False
  end.
Proof. vm_compute. repeat split. Qed.
