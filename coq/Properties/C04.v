(* Properties/C04.v - HTTP/1.1 response parsing and framing agree with the reference parser.
   Only statements, `exact`, and Print Assumptions.  Model: Model/H1Resp.v (semantics of Go
   1.23.5 net/http.ReadResponse + textproto + chunked reader, = the fork's reader after the
   fix: commits; tied to both on every run by harness/c04), Model/H1Render.v (sender side,
   used to state the round-trip theorems). *)
From ReqV Require Import Lib.Bytes Model.H1Resp Model.H1Render Model.H1RenderHead
  Proofs.H1RespProofs Proofs.H1HeadProofs Proofs.H1MimeProofs Proofs.H1TransferProofs
  Model.H1Conn Proofs.H1SyncProofs Proofs.H1ConnProofs Model.H1Bufio Proofs.H1BufioProofs Proofs.H1MessageProofs Proofs.H1ChunkConverse Model.C04Run Proofs.C04RunProofs.
From ReqV Require Gen.H1Tables.
From Coq Require Import Lia.

(* chunk sizes: accepted exactly when 1..16 hex digits, value = big-endian base 16 *)
Theorem C04_hex_uint_spec : forall v n,
  parse_hex_uint v = HexOk n <->
  v <> [] /\ length v <= 16 /\ forallb is_hex_digit v = true /\ n = hex_value v.
Proof. exact hex_uint_spec. Qed.
Print Assumptions C04_hex_uint_spec.

Theorem C04_hex_uint_fits_uint64 : forall v n, parse_hex_uint v = HexOk n -> (n < 2 ^ 64)%N.
Proof. exact hex_uint_fits_uint64. Qed.
Print Assumptions C04_hex_uint_fits_uint64.

Theorem C04_hex_uint_error_classes : forall v,
  match parse_hex_uint v with
  | HexOk _ => True
  | HexEmpty => v = []
  | HexInvalid => existsb (fun b => negb (is_hex_digit b)) (firstn 17 v) = true
  | HexTooLarge => 16 < length v /\ forallb is_hex_digit (firstn 17 v) = true
  end.
Proof. exact hex_uint_total_classes. Qed.
Print Assumptions C04_hex_uint_error_classes.

(* the pinned fork took the empty string for 0 (blank size line = end of body) *)
Theorem C04_hex_uint_pinned_refuted : parse_hex_uint_pinned [] = HexOk 0.
Proof. exact hex_uint_pinned_refuted. Qed.
Print Assumptions C04_hex_uint_pinned_refuted.

(* For EVERY partition of a body into non-empty chunks, however the size lines are spelled
   (leading zeros, hex case, extensions, trailing blanks) as long as they fit the reader's
   buffer and the overhead allowance: the chunked reader returns exactly the concatenation,
   stops right after the last-chunk line, and hands back the rest of the stream untouched -
   no byte after the message is attributed to it, none of it is left behind. *)
Theorem C04_chunked_round_trip : forall bufsize cs l0 rest,
  chunks_ok bufsize 0 cs -> size_line_ok bufsize l0 0 ->
  dechunk_all bufsize (render_chunks cs ++ l0 ++ CRLF ++ rest) = (concat (map snd cs), CEof rest).
Proof. exact chunked_round_trip. Qed.
Print Assumptions C04_chunked_round_trip.

(* The converse: whenever the chunked reader ends a body cleanly, what it consumed WAS a
   chunking of exactly the data it delivered (size lines ending in LF that announce the exact
   data lengths, each data block followed by CRLF, then a zero-size line).  Nothing else is
   ever accepted as a complete chunked body, for every buffer size and overhead state. *)
Theorem C04_dechunk_accepts_only_chunkings : forall fuel bufsize ex s d rest,
  dechunk fuel bufsize ex s = (d, CEof rest) ->
  exists cs last,
    s = flat_map seen_chunk cs ++ last ++ rest /\
    d = concat (map snd cs) /\
    Forall (fun c => snd c <> [] /\ announces (fst c) (N.of_nat (length (snd c)))) cs /\
    announces last 0.
Proof. exact dechunk_accepts_only_chunkings. Qed.
Print Assumptions C04_dechunk_accepts_only_chunkings.

(* ... in particular whenever each size line is at most 14 bytes longer than twice its data *)
Theorem C04_chunked_round_trip_plain : forall bufsize cs l0 rest,
  Forall (chunk_plain bufsize) cs -> size_line_ok bufsize l0 0 ->
  dechunk_all bufsize (render_chunks cs ++ l0 ++ CRLF ++ rest) = (concat (map snd cs), CEof rest).
Proof. exact chunked_round_trip_plain. Qed.
Print Assumptions C04_chunked_round_trip_plain.

(* Message boundaries.  If a stream parses into a response whose body is self-delimited (no
   body, Content-Length or chunked) and ends cleanly, then with ANY bytes appended the very
   same response, body and trailers are parsed and exactly the appended bytes are left over. *)
Theorem C04_parse_deterministic_prefix : forall meth bufsize s r b t,
  parse_response meth bufsize s = Accepted r b ->
  b_end b = BOk -> r_framing r <> FrUntilClose ->
  parse_response meth bufsize (s ++ t) = Accepted r (with_rest b (b_rest b ++ t)).
Proof. exact parse_deterministic_prefix. Qed.
Print Assumptions C04_parse_deterministic_prefix.

(* Pipelining: when [s1] is exactly one complete self-delimited response, the first message
   in [s1 ++ s2] ends exactly where [s2] begins, so the next parse sees s2 and only s2 - no
   byte of one response is attributed to the other (for every s2, methods, buffer size). *)
Theorem C04_pipelined_responses_separate : forall m1 m2 bufsize s1 s2 r1 b1,
  parse_response m1 bufsize s1 = Accepted r1 b1 ->
  b_end b1 = BOk -> r_framing r1 <> FrUntilClose -> b_rest b1 = [] ->
  exists b1',
    parse_response m1 bufsize (s1 ++ s2) = Accepted r1 b1' /\
    b_data b1' = b_data b1 /\ b_trailer b1' = b_trailer b1 /\ b_end b1' = BOk /\
    b_rest b1' = s2 /\
    parse_response m2 bufsize (b_rest b1') = parse_response m2 bufsize s2.
Proof. exact pipelined_responses_separate. Qed.
Print Assumptions C04_pipelined_responses_separate.

(* every stream yields a response or an error, for every method and buffer size *)
Theorem C04_parse_total : forall meth bufsize s,
  match parse_response meth bufsize s with
  | Rejected e => e <> HOutOfFuel
  | Accepted r b => b_end b <> BOutOfFuel
  end.
Proof. exact parse_response_total. Qed.
Print Assumptions C04_parse_total.

(* translator ties: the fork's token table and chunked-reader constants, regenerated from
   /repo's source on every run, are the ones the model uses *)
Theorem C04_token_table_agrees : forall b,
  is_tchar b = existsb (N.eqb (bN b)) Gen.H1Tables.fork_token_table.
Proof. exact token_table_agrees. Qed.
Print Assumptions C04_token_table_agrees.

Theorem C04_chunk_constants_agree :
  Gen.H1Tables.fork_max_line_length = Z.of_nat max_line_length /\
  Gen.H1Tables.fork_hex_max_digits = 16%Z /\
  Gen.H1Tables.fork_hex_rejects_empty = true /\
  Gen.H1Tables.fork_excess_limit = excess_limit /\
  Gen.H1Tables.fork_excess_per_chunk = 16%Z.
Proof. exact chunk_constants_agree. Qed.
Print Assumptions C04_chunk_constants_agree.

(* ... and so are validHeaderValueByte's bitmap (all 256 bytes), bodyAllowedForStatus (every
   integer status), fixLength's status tests, the literals "HEAD" / "chunked" / ParseUint(_,10,63),
   the forbidden trailer keys, the Connection tokens, max1xxResponses and errorLimit *)
Theorem C04_value_byte_table_agrees : forall b,
  valid_value_byte b = existsb (N.eqb (bN b)) Gen.H1Tables.fork_value_byte_table.
Proof. exact value_byte_table_agrees. Qed.
Print Assumptions C04_value_byte_table_agrees.

Theorem C04_bodiless_ranges_agree : forall code,
  body_allowed_for_status code = negb (in_ranges code Gen.H1Tables.fork_bodiless_ranges).
Proof. exact bodiless_ranges_agree. Qed.
Print Assumptions C04_bodiless_ranges_agree.

Theorem C04_transfer_literals_agree :
  (Gen.H1Tables.fork_fixlength_class = 1%Z /\ Gen.H1Tables.fork_fixlength_codes = [204; 304]%Z) /\
  Gen.H1Tables.fork_no_body_method = nbytes (bs "HEAD") /\
  Gen.H1Tables.fork_te_accepted = nbytes (bs "chunked") /\
  Gen.H1Tables.fork_cl_base = 10%Z /\ Gen.H1Tables.fork_cl_bits = 63%Z /\
  Gen.H1Tables.fork_bad_trailer_keys = map nbytes [K_TE; K_TRAILER; K_CL] /\
  Gen.H1Tables.fork_connection_tokens = map nbytes [bs "close"; bs "keep-alive"] /\
  Gen.H1Tables.fork_max_1xx = Z.of_nat max_1xx_responses /\
  Gen.H1Tables.fork_mime_error_limit = 80%Z.
Proof. exact (conj fixlength_codes_agree transfer_literals_agree). Qed.
Print Assumptions C04_transfer_literals_agree.

(* ---------------------------------------------------------------------- *)
(* status line                                                              *)
(* ---------------------------------------------------------------------- *)

(* complete classification, in ReadResponse's order of checks *)
Theorem C04_status_line_classes : forall line,
  match parse_status_line line with
  | inr sl => exists proto rest, cut_byte SP line = Some (proto, rest) /\
                sl_proto sl = proto /\ sl_status sl = status_text rest /\
                code_value (status_code_field rest) = Some (sl_code sl) /\
                parse_http_version proto = Some (sl_major sl, sl_minor sl)
  | inl HMalformedResponse => mem_byte SP line = false
  | inl HMalformedStatus => exists proto rest, cut_byte SP line = Some (proto, rest) /\
                code_value (status_code_field rest) = None
  | inl HMalformedVersion => exists proto rest n, cut_byte SP line = Some (proto, rest) /\
                code_value (status_code_field rest) = Some n /\ parse_http_version proto = None
  | inl _ => False
  end.
Proof. exact status_line_classes. Qed.
Print Assumptions C04_status_line_classes.

Theorem C04_http_version_spec : forall v x y,
  parse_http_version v = Some (x, y) <->
  exists a b, v = bs "HTTP/" ++ [a; "."%byte; b] /\
              is_digit a = true /\ is_digit b = true /\ x = dval a /\ y = dval b.
Proof. exact http_version_spec. Qed.
Print Assumptions C04_http_version_spec.

Theorem C04_status_line_ranges : forall line sl,
  parse_status_line line = inr sl ->
  (0 <= sl_code sl <= 999)%Z /\ (0 <= sl_major sl <= 9)%Z /\ (0 <= sl_minor sl <= 9)%Z.
Proof. exact status_line_ranges. Qed.
Print Assumptions C04_status_line_ranges.

Theorem C04_status_line_round_trip : forall a b d1 d2 d3 reason,
  is_digit a = true -> is_digit b = true ->
  is_digit d1 = true -> is_digit d2 = true -> is_digit d3 = true ->
  parse_status_line (bs "HTTP/" ++ [a; "."%byte; b] ++ SP :: [d1; d2; d3] ++ SP :: reason) =
    inr {| sl_proto := bs "HTTP/" ++ [a; "."%byte; b];
           sl_status := [d1; d2; d3] ++ SP :: reason;
           sl_code := (100 * dval d1 + 10 * dval d2 + dval d3)%Z;
           sl_major := dval a; sl_minor := dval b |}.
Proof. exact status_line_round_trip. Qed.
Print Assumptions C04_status_line_round_trip.

(* ---------------------------------------------------------------------- *)
(* header block                                                             *)
(* ---------------------------------------------------------------------- *)

Theorem C04_canonical_key_spec : forall k,
  match canonical_key k with
  | None => k = [] \/ forallb key_byte_ok k = false
  | Some k' => k <> [] /\ forallb key_byte_ok k = true /\
               k' = (if forallb is_tchar k then canon_go true k else k)
  end.
Proof. exact canonical_key_spec. Qed.
Print Assumptions C04_canonical_key_spec.

(* header names are case-insensitive; canonicalisation changes letter case only, yields the
   canonical shape, and is idempotent *)
Theorem C04_canon_case_insensitive : forall u k1 k2,
  to_lower k1 = to_lower k2 -> canon_go u k1 = canon_go u k2.
Proof. exact canon_case_insensitive. Qed.
Print Assumptions C04_canon_case_insensitive.

Theorem C04_canon_shape : forall k u,
  canonical_form u (canon_go u k) = true /\ to_lower (canon_go u k) = to_lower k /\
  canon_go u (canon_go u k) = canon_go u k.
Proof. intros k u. exact (conj (canon_is_canonical k u) (conj (canon_only_case k u) (canon_idempotent k u))). Qed.
Print Assumptions C04_canon_shape.

(* EVERY well-formed header block (token names in any case; values optionally folded over
   continuation lines introduced by any run of SP/HT) is read back as exactly what was sent,
   folded pieces joined by one SP, and the reader stops right after the blank line *)
Theorem C04_mime_header_round_trip : forall bufsize fs rest,
  Forall field_ok fs ->
  read_mime_header bufsize (render_fields fs ++ CRLF ++ rest) = inr (header_of_fields fs, rest).
Proof. exact mime_header_round_trip. Qed.
Print Assumptions C04_mime_header_round_trip.

(* rejections: a first header line starting with a blank is never accepted; a header line
   without a colon is rejected *)
Theorem C04_leading_blank_rejected : forall bufsize x s,
  is_sp_tab x = true ->
  read_mime_header bufsize (x :: s) = inl HMalformedHeader \/
  read_mime_header bufsize (x :: s) = inl HUnexpectedEOF.
Proof. exact leading_blank_rejected. Qed.
Print Assumptions C04_leading_blank_rejected.

Theorem C04_no_colon_rejected : forall bufsize fuel m s line r,
  read_line bufsize s = Some (line, r) -> line <> [] ->
  mem_byte COLON line = false -> mime_loop (S fuel) bufsize m s = inl HMalformedHeader.
Proof. exact mime_loop_step_rejects. Qed.
Print Assumptions C04_no_colon_rejected.

(* trailers: a non-empty well-formed trailer block (foldable fields) whose blank line lies
   within the read buffer is read back as sent, and the message ends right after it *)
Theorem C04_trailer_round_trip : forall bufsize ts rest,
  ts <> [] -> Forall field_ok ts ->
  length (render_fields ts ++ CRLF) <= bufsize ->
  read_trailer bufsize (render_fields ts ++ CRLF ++ rest) = inr (header_of_fields ts, rest).
Proof. exact trailer_round_trip. Qed.
Print Assumptions C04_trailer_round_trip.

(* an ACCEPTED header map: keys are fixed points of canonicalMIMEHeaderKey and unique, every
   value consists of field-value bytes only (no CTL but HT, no DEL) and has no leading blank *)
Theorem C04_mime_header_accepted_ok : forall bufsize s m r,
  read_mime_header bufsize s = inr (m, r) -> hmap_ok m.
Proof. exact mime_header_accepted_ok. Qed.
Print Assumptions C04_mime_header_accepted_ok.

(* ---------------------------------------------------------------------- *)
(* transfer decision tables                                                 *)
(* ---------------------------------------------------------------------- *)

Theorem C04_parse_uint63_spec : forall s n,
  parse_uint63 s = Some n <->
  s <> [] /\ forallb is_digit s = true /\ n = dec_value s /\ (n < 2 ^ 63)%Z.
Proof. exact parse_uint63_spec. Qed.
Print Assumptions C04_parse_uint63_spec.

(* Content-Length: (1) values that differ after trimming -> error, whatever else; (2) a value
   that is not a 63-bit decimal -> error, also for HEAD/1xx/204/304/chunked; (3) otherwise
   the table.  The three cases are exhaustive. *)
Theorem C04_fix_length_conflict : forall code meth h chunked,
  cls_agree (cl_values h) = false -> fix_length code meth h chunked = inl HBadContentLength.
Proof. exact fix_length_conflict. Qed.
Print Assumptions C04_fix_length_conflict.

Theorem C04_fix_length_invalid : forall code meth h chunked c0 rest,
  cl_values h = c0 :: rest -> parse_uint63 (trim_string c0) = None ->
  fix_length code meth h chunked = inl HBadContentLength.
Proof. exact fix_length_invalid. Qed.
Print Assumptions C04_fix_length_invalid.

Theorem C04_fix_length_table : forall code meth h chunked,
  cls_agree (cl_values h) = true ->
  forall v, match cl_values h with
            | c0 :: _ => parse_uint63 (trim_string c0) = Some v
            | [] => v = (-1)%Z
            end ->
  fix_length code meth h chunked =
    inr (if no_body_expected code meth then (0%Z, dedup_header h)
         else if chunked then ((-1)%Z, hdel K_CL (dedup_header h))
         else if is_nil (cl_values h) then ((-1)%Z, hdel K_CL (dedup_header h))
         else (v, dedup_header h)).
Proof. exact fix_length_table. Qed.
Print Assumptions C04_fix_length_table.

Theorem C04_transfer_encoding_table : forall ma mi h,
  parse_transfer_encoding ma mi h =
  match hget K_TE h with
  | None => inr (false, h)
  | Some raw =>
      if negb (proto_at_least_1_1 ma mi) then inr (false, hdel K_TE h)
      else match raw with
           | [v] => if bytes_eqb (to_lower v) (bs "chunked") then inr (true, hdel K_TE h)
                    else inl HBadTransferEncoding
           | _ => inl HBadTransferEncoding
           end
  end.
Proof. exact transfer_encoding_table. Qed.
Print Assumptions C04_transfer_encoding_table.

Theorem C04_transfer_encoding_removed : forall ma mi h ch h',
  parse_transfer_encoding ma mi h = inr (ch, h') ->
  hget K_TE h' = None /\ forall k, bytes_eqb k K_TE = false -> hget k h' = hget k h.
Proof. exact transfer_encoding_removed. Qed.
Print Assumptions C04_transfer_encoding_removed.

Theorem C04_should_close_table : forall ma mi h,
  should_close ma mi h =
  if (ma <? 1)%Z then (true, h)
  else if (ma =? 1)%Z && (mi =? 0)%Z then (has_close h || negb (has_keep_alive h), h)
  else if has_close h then (true, hdel K_CONNECTION h)
  else (false, h).
Proof. exact should_close_table. Qed.
Print Assumptions C04_should_close_table.

Theorem C04_fix_trailer_ok : forall h tr h',
  fix_trailer h true = inr (tr, h') ->
  match hget K_TRAILER h with
  | None => tr = [] /\ h' = h
  | Some vv => existsb bad_trailer_key (declared_keys vv) = false /\
               hget K_TRAILER h' = None /\
               (forall k vs, hget k tr = Some vs -> vs = [])
  end.
Proof. exact fix_trailer_ok. Qed.
Print Assumptions C04_fix_trailer_ok.

Theorem C04_bad_trailer_key_cases : forall k,
  bad_trailer_key (canonical_header_key k) = true <->
  to_lower k = bs "transfer-encoding" \/ to_lower k = bs "trailer" \/ to_lower k = bs "content-length".
Proof. exact bad_trailer_key_cases. Qed.
Print Assumptions C04_bad_trailer_key_cases.

(* ---------------------------------------------------------------------- *)
(* framing decision, keep-alive, request method                             *)
(* ---------------------------------------------------------------------- *)

Theorem C04_framing_table : forall meth sl h0 r,
  read_transfer meth sl h0 = inr r ->
  r_framing r =
    if no_body_expected (sl_code sl) meth then FrNone
    else if r_chunked r then FrChunked
    else if (r_content_length r =? 0)%Z then FrNone
    else if (r_content_length r >? 0)%Z then FrLength (r_content_length r)
    else FrUntilClose.
Proof. exact framing_table. Qed.
Print Assumptions C04_framing_table.

Theorem C04_head_no_body : forall meth sl h0 r,
  read_transfer meth sl h0 = inr r -> is_head meth = true -> r_framing r = FrNone.
Proof. exact head_no_body. Qed.
Print Assumptions C04_head_no_body.

Theorem C04_bodiless_status_no_body : forall meth sl h0 r,
  read_transfer meth sl h0 = inr r ->
  body_allowed_for_status (sl_code sl) = false -> r_framing r = FrNone.
Proof. exact bodiless_status_no_body. Qed.
Print Assumptions C04_bodiless_status_no_body.

Theorem C04_until_close_implies_close : forall meth sl h0 r,
  read_transfer meth sl h0 = inr r -> r_framing r = FrUntilClose -> r_close r = true.
Proof. exact until_close_implies_close. Qed.
Print Assumptions C04_until_close_implies_close.

Theorem C04_close_decision : forall meth sl h0 r,
  read_transfer meth sl h0 = inr r ->
  r_close r = (fst (should_close (sl_major sl) (sl_minor sl) h0) ||
               match r_framing r with FrUntilClose => true | _ => false end).
Proof. exact close_decision. Qed.
Print Assumptions C04_close_decision.

Theorem C04_chunked_overrides_length : forall meth sl h0 r,
  read_transfer meth sl h0 = inr r -> r_framing r = FrChunked ->
  r_chunked r = true /\ hget K_CL (r_header r) = None /\ r_content_length r = (-1)%Z.
Proof. exact chunked_overrides_length. Qed.
Print Assumptions C04_chunked_overrides_length.

(* the method matters only through "is it HEAD": CONNECT is read like GET *)
Theorem C04_method_only_head : forall m1 m2 bufsize s,
  is_head m1 = is_head m2 -> parse_response m1 bufsize s = parse_response m2 bufsize s.
Proof. exact method_only_head. Qed.
Print Assumptions C04_method_only_head.

(* keep-alive and boundary together: a response that may be kept alive and ended cleanly is
   read identically, and ends at the same byte, whatever the server sends next *)
Theorem C04_keep_alive_boundary : forall meth bufsize s r b t,
  parse_response meth bufsize s = Accepted r b ->
  r_close r = false -> b_end b = BOk ->
  parse_response meth bufsize (s ++ t) = Accepted r (with_rest b (b_rest b ++ t)).
Proof. exact keep_alive_boundary. Qed.
Print Assumptions C04_keep_alive_boundary.

(* The client (1xx skipping + idle-pool decision): if the connection goes back to the idle pool
   after [s], nothing of [s] was left unread, and had the server sent ANY further bytes [t], the
   caller would have seen the same response/body/trailers with exactly [t] left: the response
   to the next request starts at the first byte of [t]. *)
Theorem C04_reusable_exact_boundary : forall meth s cv t,
  client_read meth s = Some cv -> cv_reusable cv = true ->
  b_rest (cv_body cv) = [] /\ b_end (cv_body cv) = BOk /\ r_close (cv_resp cv) = false /\
  exists cv', client_read meth (s ++ t) = Some cv' /\
              cv_resp cv' = cv_resp cv /\ b_data (cv_body cv') = b_data (cv_body cv) /\
              b_trailer (cv_body cv') = b_trailer (cv_body cv) /\ b_end (cv_body cv') = BOk /\
              b_rest (cv_body cv') = t.
Proof. exact reusable_exact_boundary. Qed.
Print Assumptions C04_reusable_exact_boundary.

Theorem C04_read_final_is_final : forall fuel meth n s r rest,
  read_final fuel meth n s = FhOk r rest -> is_1xx_nonterminal (r_code r) = false.
Proof. exact read_final_is_final. Qed.
Print Assumptions C04_read_final_is_final.

(* End to end: a WHOLE well-formed length-delimited response - HTTP/1.1, any 3-digit status that
   allows a body, any reason phrase, any list of well-formed (foldable, any-case) header fields
   other than the framing fields, Content-Length = any decimal spelling of the body length -
   followed by ANY bytes, for every non-HEAD method and every buffer size: accepted; status
   line, header map, ContentLength, framing, keep-alive (Close = false), body bytes are exactly
   what was sent, no trailers, and the message ends exactly after its body. *)
Theorem C04_response_round_trip_length :
  forall meth bufsize d1 d2 d3 reason fs cl body rest,
  is_head meth = false ->
  is_digit d1 = true -> is_digit d2 = true -> is_digit d3 = true ->
  body_allowed_for_status (100 * dval d1 + 10 * dval d2 + dval d3)%Z = true ->
  mem_byte LF reason = false ->
  Forall field_ok fs -> Forall plain_field fs ->
  parse_uint63 cl = Some (Z.of_nat (length body)) ->
  parse_response meth bufsize
    (bs "HTTP/1.1" ++ SP :: ([d1; d2; d3] ++ SP :: reason) ++ CRLF ++
     render_fields (fs ++ [cl_field cl]) ++ CRLF ++ body ++ rest) =
    Accepted {| r_proto := bs "HTTP/1.1";
                r_code := (100 * dval d1 + 10 * dval d2 + dval d3)%Z;
                r_status := [d1; d2; d3] ++ SP :: reason;
                r_header := hadd K_CL cl (header_of_fields fs);
                r_content_length := Z.of_nat (length body);
                r_chunked := false; r_close := false;
                r_framing := (if (Z.of_nat (length body) =? 0)%Z then FrNone
                              else FrLength (Z.of_nat (length body)));
                r_trailer_declared := [] |}
             {| b_data := body; b_end := BOk; b_trailer := []; b_rest := rest |}.
Proof. exact response_round_trip_length. Qed.
Print Assumptions C04_response_round_trip_length.

(* ... and a WHOLE chunked response: Transfer-Encoding "chunked" in any letter case, any plain
   header fields, EVERY partition of the body into chunks with any admissible spelling of the
   size lines, no trailer, followed by ANY bytes: accepted; header map without the
   Transfer-Encoding field, ContentLength -1, chunked framing, Close = false, body = the
   concatenation of the chunk data, and the message ends exactly after the final CRLF. *)
Theorem C04_response_round_trip_chunked :
  forall meth bufsize d1 d2 d3 reason fs te cs l0 rest,
  is_head meth = false ->
  is_digit d1 = true -> is_digit d2 = true -> is_digit d3 = true ->
  body_allowed_for_status (100 * dval d1 + 10 * dval d2 + dval d3)%Z = true ->
  mem_byte LF reason = false ->
  Forall field_ok fs -> Forall plain_field fs ->
  to_lower te = bs "chunked" -> piece_ok te ->
  chunks_ok bufsize 0 cs -> size_line_ok bufsize l0 0 ->
  parse_response meth bufsize
    (bs "HTTP/1.1" ++ SP :: ([d1; d2; d3] ++ SP :: reason) ++ CRLF ++
     render_fields (fs ++ [te_field te]) ++ CRLF ++
     render_chunks cs ++ l0 ++ CRLF ++ CRLF ++ rest) =
    Accepted {| r_proto := bs "HTTP/1.1";
                r_code := (100 * dval d1 + 10 * dval d2 + dval d3)%Z;
                r_status := [d1; d2; d3] ++ SP :: reason;
                r_header := header_of_fields fs; r_content_length := (-1)%Z;
                r_chunked := true; r_close := false; r_framing := FrChunked;
                r_trailer_declared := [] |}
             {| b_data := concat (map snd cs); b_end := BOk; b_trailer := []; b_rest := rest |}.
Proof. exact response_round_trip_chunked. Qed.
Print Assumptions C04_response_round_trip_chunked.

(* the model's one-step line reader IS textproto's readLineSlice over bufio.ReadLine's
   buffer-sized fragments (ReadSlice finds LF iff within the buffer; ErrBufferFull => isPrefix,
   a trailing CR put back; a final fragment without LF; io.EOF drops what was read), for every
   stream and every buffer size >= 2 (bufio's minimum is 16) *)
Theorem C04_read_line_refines_bufio : forall n, 2 <= n -> forall s,
  read_line_slice (S (length s)) n [] s = Some (read_line n s).
Proof. exact read_line_refines_bufio. Qed.
Print Assumptions C04_read_line_refines_bufio.

(* Several exchanges on ONE connection (Model/H1Conn.v conn_exchanges; the carried state is the
   connection's read buffer).  With readLoop's decision the buffer is empty whenever the
   connection goes back to the idle pool, so every request served by the connection is answered
   exactly as a fresh connection would answer it from ITS OWN segment: nothing the server sent
   in or behind the answer to one request is ever attributed to another request. *)
Theorem C04_conn_exchanges_independent : forall reqs,
  conn_exchanges reuse_real [] reqs = serve_independently reqs.
Proof. exact conn_exchanges_independent. Qed.
Print Assumptions C04_conn_exchanges_independent.

Theorem C04_answer_depends_on_own_segment_only : forall reqs i a m seg,
  nth_error (conn_exchanges reuse_real [] reqs) i = Some a ->
  nth_error reqs i = Some (m, seg) ->
  a = exchange m [] seg.
Proof. exact answer_depends_on_own_segment_only. Qed.
Print Assumptions C04_answer_depends_on_own_segment_only.

(* a connection serves a further request only after a FINAL response (status > 199: never after a
   101 that is not a protocol switch, never after a 0xx), no close, clean end, empty buffer *)
Theorem C04_reuse_real_spec : forall r b,
  reuse_real r b = true <->
  r_close r = false /\ (no_reuse_status_bound < r_code r)%Z /\ b_end b = BOk /\ b_rest b = [].
Proof. exact reuse_real_spec. Qed.
Print Assumptions C04_reuse_real_spec.

Theorem C04_conn_continues_only_after_final : forall reqs i r b,
  nth_error (conn_exchanges reuse_real [] reqs) i = Some (Some (r, b)) ->
  S i < length (conn_exchanges reuse_real [] reqs) ->
  r_close r = false /\ (199 < r_code r)%Z /\ b_end b = BOk /\ b_rest b = [].
Proof. exact conn_continues_only_after_final. Qed.
Print Assumptions C04_conn_continues_only_after_final.

(* readLoop's status bound and both buffer guards, regenerated from transport.go *)
Theorem C04_readloop_decision_agrees :
  Gen.H1Tables.fork_no_reuse_status_bound = no_reuse_status_bound /\
  Gen.H1Tables.fork_buffer_guards = 2%Z.
Proof. exact readloop_decision_agrees. Qed.
Print Assumptions C04_readloop_decision_agrees.

(* ... whereas without the buffer test (pinned fork; seeded change c-m1 for bodiless responses)
   the bytes behind a 204 are handed to the next request *)
Theorem C04_reuse_without_buffer_check_refuted :
  map (option_map (fun rb => b_data (snd rb))) (conn_exchanges reuse_without_buffer_check [] splice_demo)
    = [Some []; Some (bs "STOLEN")] /\
  map (option_map (fun rb => b_data (snd rb))) (conn_exchanges reuse_real [] splice_demo)
    = [Some []] /\
  option_map (fun rb => b_data (snd rb)) (exchange (bs "GET") [] (snd (nth 1 splice_demo ([], []))))
    = Some (bs "fresh").
Proof. exact reuse_without_buffer_check_refuted. Qed.
Print Assumptions C04_reuse_without_buffer_check_refuted.

(* Expect: 100-continue (persistConn.readResponse's continueCh, Model/H1Conn.v
   read_final_expect; carried state = "is the channel to the body writer still armed"):
   what the client makes of the server's bytes does not depend on whether the request expected
   a 100; the capacity-one channel is signalled at most once per exchange however many 100
   heads arrive (so the read loop never blocks on it), never when the request did not expect a
   100; without the disarming `continueCh = nil` (seeded e-m2) two 100 heads and a final 200
   give three sends - the read loop blocks and a complete response is never delivered. *)
Theorem C04_expect_does_not_change_the_response : forall fuel meth n armed s,
  fst (read_final_expect true fuel meth n armed s) = read_final fuel meth n s.
Proof. exact expect_does_not_change_the_response. Qed.
Print Assumptions C04_expect_does_not_change_the_response.

Theorem C04_continue_signalled_at_most_once : forall fuel meth n armed s,
  length (snd (read_final_expect true fuel meth n armed s)) <= (if armed then 1 else 0).
Proof. exact continue_signalled_at_most_once. Qed.
Print Assumptions C04_continue_signalled_at_most_once.

Theorem C04_expect_without_disarm_refuted :
  snd (read_final_expect false 7 (bs "POST") 0 true expect_demo) = [SigSendBody; SigSendBody; SigSendBody] /\
  snd (read_final_expect true 7 (bs "POST") 0 true expect_demo) = [SigSendBody].
Proof. exact expect_without_disarm_refuted. Qed.
Print Assumptions C04_expect_without_disarm_refuted.

(* Bytes arriving on an IDLE connection (Model/H1Conn.v client_run; carried state = the
   client's connection: none, or idle with a read buffer): whatever the server sends on a
   connection while it is idle, and whenever, no request is ever answered with it - every
   request of any sequence of requests and idle-time bytes gets exactly the answer a fresh
   connection would give it from its own segment.  Without the idle guard (seeded f-m1) the
   bytes sent on the idle connection answer the next request. *)
Theorem C04_idle_bytes_never_answer_a_request : forall evs,
  client_run true None evs = answers_alone evs.
Proof. exact idle_bytes_never_answer_a_request. Qed.
Print Assumptions C04_idle_bytes_never_answer_a_request.

Theorem C04_idle_guard_off_refuted :
  map (option_map (fun rb => b_data (snd rb))) (client_run false None idle_demo) = [Some []; Some (bs "STOLEN")] /\
  map (option_map (fun rb => b_data (snd rb))) (client_run true None idle_demo) = [Some []; Some (bs "fresh")].
Proof. exact idle_guard_off_refuted. Qed.
Print Assumptions C04_idle_guard_off_refuted.

(* Reading on after the end of a body: the client's body reports its first terminal result on
   every later Read; without the sticky layer (seeded f-m3) a length-delimited body cut short
   reports the truncation once and a clean end afterwards (every other framing repeats itself) *)
Theorem C04_client_reads_sticky : forall fr first k,
  client_reads_again true fr first k = repeat first k.
Proof. exact client_reads_sticky. Qed.
Print Assumptions C04_client_reads_sticky.

Theorem C04_reads_without_sticky_refuted :
  client_reads_again false (FrLength 5) BUnexpectedEOF 2 = [BOk; BOk] /\
  forall fr e k, (forall n, fr <> FrLength n) -> client_reads_again false fr e k = repeat e k.
Proof. exact reads_without_sticky_refuted. Qed.
Print Assumptions C04_reads_without_sticky_refuted.

(* EOF from the connection, and interim heads over several exchanges: a connection that has
   reported EOF - with or without data in the same Read - is never offered for reuse; every
   exchange counts its interim heads from zero (one loop step costs one count below the bound);
   a count carried on the connection (seeded g-m2) refuses a response with two hints that a
   fresh count accepts. *)
Theorem C04_eof_never_reused : forall cv,
  conn_reusable true cv = false /\ conn_reusable false cv = cv_reusable cv.
Proof. exact eof_never_reused. Qed.
Print Assumptions C04_eof_never_reused.

Theorem C04_read_final_skip_step : forall f meth n s r rest,
  read_response_head meth conn_bufsize s = inr (r, rest) ->
  is_1xx_nonterminal (r_code r) = true -> n < max_1xx_responses ->
  read_final (S f) meth n s = read_final f meth (S n) rest.
Proof. exact read_final_skip_step. Qed.
Print Assumptions C04_read_final_skip_step.

Theorem C04_carried_interim_count_refuted :
  (forall m seg, exchange m [] seg = exchange_from 0 m seg) /\
  exchange_from 4 (bs "GET") hints2_demo = None /\
  option_map (fun rb => b_data (snd rb)) (exchange_from 0 (bs "GET") hints2_demo) = Some (bs "hi").
Proof. exact (conj exchange_counts_from_zero carried_interim_count_refuted). Qed.
Print Assumptions C04_carried_interim_count_refuted.

(* x read buffer sizes: an accepted status line + header block + transfer decision does not
   depend on the read-buffer size *)
Theorem C04_accepted_head_bufsize_independent : forall meth b1 b2 s r rest,
  read_response_head meth b1 s = inr (r, rest) -> read_response_head meth b2 s = inr (r, rest).
Proof. exact accepted_head_bufsize_independent. Qed.
Print Assumptions C04_accepted_head_bufsize_independent.

(* The correspondence checker compares header maps exactly: hmap_eqb on maps with unique keys
   is equality as multimaps, and every accepted response's header map has unique keys (the Go
   side is a map). *)
Theorem C04_hmap_eqb_sound : forall a b,
  NoDup (map fst a) -> NoDup (map fst b) -> hmap_eqb a b = true -> forall k, hget k a = hget k b.
Proof. exact hmap_eqb_sound. Qed.
Print Assumptions C04_hmap_eqb_sound.

Theorem C04_accepted_header_unique : forall meth bufsize s r rest,
  read_response_head meth bufsize s = inr (r, rest) -> NoDup (map fst (r_header r)).
Proof. exact accepted_header_unique. Qed.
Print Assumptions C04_accepted_header_unique.

(* non-vacuity: concrete odd-looking but valid chunkings satisfy the hypotheses *)
Example C04_nonvacuous :
  chunks_ok 64 0 [(bs "5", bs "hello"); (bs "0006;ext=1 ", bs " world"); (bs "A", bs "0123456789")] /\
  size_line_ok 64 (bs "000;last") 0 /\
  dechunk_all 64 (render_chunks [(bs "5", bs "hello"); (bs "0006;ext=1 ", bs " world")]
                    ++ bs "0" ++ CRLF ++ bs "NEXT") = (bs "hello world", CEof (bs "NEXT")).
Proof. vm_compute. repeat split; try discriminate; auto; lia. Qed.

(* ... and a complete chunked response with folded header, trailer and odd chunk spelling
   meets the hypotheses of the boundary theorems *)
Example C04_boundary_nonvacuous :
  let s := bs "HTTP/1.1 200 OK" ++ CRLF ++ bs "transfer-encoding: Chunked" ++ CRLF ++
           bs "X-Fold: a" ++ CRLF ++ bs "  b" ++ CRLF ++ bs "Trailer: X-T" ++ CRLF ++ CRLF ++
           bs "005;x=y " ++ CRLF ++ bs "hello" ++ CRLF ++ bs "0" ++ CRLF ++
           bs "x-t: 1" ++ CRLF ++ CRLF in
  match parse_response (bs "GET") 64 s with
  | Accepted r b => b_end b = BOk /\ r_framing r = FrChunked /\ b_rest b = [] /\
                    b_data b = bs "hello" /\ b_trailer b = [(bs "X-T", [bs "1"])] /\
                    hget (bs "X-Fold") (r_header r) = Some [bs "a b"]
  | Rejected _ => False
  end.
Proof. vm_compute. repeat split. Qed.

(* ... a folded, oddly-cased header block meets the hypotheses of the header round trip, and
   the decision-table hypotheses are satisfiable (duplicate identical Content-Length) *)
Example C04_header_nonvacuous :
  let fs := [ {| hf_name := bs "x-fOLD"; hf_first := bs "a"; hf_conts := [(bs " 	 ", bs "b c"); (bs "	", bs "d")] |};
              {| hf_name := bs "content-length"; hf_first := bs "5"; hf_conts := [] |};
              {| hf_name := bs "X-Fold"; hf_first := bs "e"; hf_conts := [] |} ] in
  Forall field_ok fs /\
  header_of_fields fs = [(bs "X-Fold", [bs "a b c d"; bs "e"]); (bs "Content-Length", [bs "5"])] /\
  cls_agree [bs "5"; bs " 5 "] = true /\ cls_agree [bs "5"; bs "6"] = false /\
  fix_length 200 (bs "GET") [(K_CL, [bs "5"; bs " 5 "])] false = inr (5%Z, [(K_CL, [bs "5"])]).
Proof.
  cbn zeta. split; [|vm_compute; repeat split].
  repeat constructor; cbn; try discriminate; try reflexivity.
Qed.

(* ... and a stream with two informational responses in front of a chunked response with a
   trailer is reusable (hypotheses of the client-level boundary theorem are satisfiable) *)
Example C04_client_nonvacuous :
  let s := bs "HTTP/1.1 100 Continue" ++ CRLF ++ CRLF ++ bs "HTTP/1.1 103 Early Hints" ++ CRLF ++
           bs "Link: </a>" ++ CRLF ++ CRLF ++ bs "HTTP/1.1 200 OK" ++ CRLF ++
           bs "Transfer-Encoding: chunked" ++ CRLF ++ bs "Trailer: X-T" ++ CRLF ++ CRLF ++
           bs "2" ++ CRLF ++ bs "hi" ++ CRLF ++ bs "0" ++ CRLF ++ bs "X-T: 1" ++ CRLF ++ CRLF in
  match client_read (bs "GET") s with
  | Some cv => cv_reusable cv = true /\ b_data (cv_body cv) = bs "hi" /\ r_code (cv_resp cv) = 200%Z
  | None => False
  end.
Proof. vm_compute. repeat split. Qed.

(* ... and the end-to-end theorem's hypotheses are satisfiable by a message with a folded
   header, an oddly spelled Content-Length and pipelined bytes behind it *)
Example C04_message_nonvacuous :
  let fs := [ {| hf_name := bs "x-fold"; hf_first := bs "a"; hf_conts := [(bs "  ", bs "b")] |};
              {| hf_name := bs "ETAG"; hf_first := bs "W/""x"""; hf_conts := [] |} ] in
  Forall field_ok fs /\ Forall plain_field fs /\
  parse_uint63 (bs "0005") = Some (Z.of_nat (length (bs "hello"))) /\
  body_allowed_for_status (100 * dval "4" + 10 * dval "0" + dval "4")%Z = true.
Proof.
  cbn zeta. split; [|split; [|split]]; try (vm_compute; reflexivity).
  - repeat constructor; cbn; try discriminate; try reflexivity.
  - repeat constructor.
Qed.
