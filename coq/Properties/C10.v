(* Properties/C10.v - Retry: bounded, condition-driven, every attempt sends the same request.
   Only statements, `exact`, and Print Assumptions.  Model: Model/Retry.v (Request.Do, the
   Request.do loop, the request middlewares re-run per attempt, the retry-option setters,
   backoffInterval); auxiliary definitions used in the statements (continues, retry_wanted,
   final_view, hooks_keep_attempt, silent, wf_body, added_conds ...) are in Proofs/Retry*Proofs.v.
   [ins] is ANY list of per-attempt inputs (transport outcome: error / cancelled / any status,
   plus what each request-level after-response middleware returns); [detect] is ANY function
   (http.DetectContentType); [c], [s] are ANY client configuration / request state. *)
From ReqV Require Import Lib.Bytes Model.Retry Model.RetryUpload
  Proofs.RetryProofs Proofs.RetryLoopProofs Proofs.RetryRunProofs Proofs.RetryOptProofs
  Proofs.RetryUploadProofs Model.RetrySlices Gen.RetryClone Proofs.RetrySlicesProofs Proofs.RetryCloneTie Model.RetryJar Proofs.RetryJarProofs.

(* ---------- bounded ---------- *)

(* with a retry count N >= 0 at most N+1 attempts, whatever the outcomes *)
Theorem C10_attempts_bounded : forall detect c o s ins,
  hooks_keep_attempt (ro_hooks o) -> r_attempt s = 0%Z -> (0 <= ro_max o)%Z ->
  (Z.of_nat (length (res_wires (do_loop detect c (Some o) 0 s ins))) <= ro_max o + 1)%Z.
Proof. exact attempts_bounded. Qed.
Print Assumptions C10_attempts_bounded.

(* no retry option at all: one attempt *)
Theorem C10_attempts_no_option : forall detect c s ins,
  (length (res_wires (do_loop detect c None 0 s ins)) <= 1)%nat.
Proof. exact attempts_no_option. Qed.
Print Assumptions C10_attempts_no_option.

(* without bound only if N is negative: n failing outcomes give n attempts, for every n *)
Theorem C10_attempts_unbounded_when_negative : forall detect c o s n,
  hooks_keep_attempt (ro_hooks o) -> r_attempt s = 0%Z -> (ro_max o < 0)%Z -> ro_conds o = [] ->
  length (res_wires (do_loop detect c (Some o) 0 s (repeat (mkAin (OErr 1 false) [] false) n))) = n.
Proof. exact attempts_unbounded_when_negative. Qed.
Print Assumptions C10_attempts_unbounded_when_negative.

(* ---------- condition-driven, exactly ---------- *)

(* given that attempt j was made (and the script goes on), attempt j+1 is made iff attempt j
   "continues" ... *)
Theorem C10_attempts_exact : forall detect c o s ins j a,
  hooks_keep_attempt (ro_hooks o) -> r_attempt s = 0%Z ->
  nth_error ins j = Some a -> (S j < length ins)%nat ->
  let n := length (res_wires (do_loop detect c (Some o) 0 s ins)) in
  (j < n)%nat -> ((S j < n)%nat <-> continues o (Z.of_nat j) a = true).
Proof. exact attempts_exact. Qed.
Print Assumptions C10_attempts_exact.

(* ... which means: no after-response middleware failed, the context is not cancelled, the
   count is not exhausted, and the conditions - or, if none were set, the default rule that
   an error occurred - ask for it *)
Theorem C10_continues_iff : forall o k a,
  continues o k a = true <->
  first_some (a_after a) = None /\ is_cancelled (a_out a) = false /\
  (ro_max o < 0 \/ k < ro_max o)%Z /\ retry_wanted (ro_conds o) (view_of (a_out a)) /\
  a_wait_cancel a = false.
Proof. exact continues_iff. Qed.
Print Assumptions C10_continues_iff.

Theorem C10_need_retry_iff : forall cs v,
  fst (need_retry cs v) = true <->
  match cs with
  | [] => v_err v <> None
  | _ => exists cd, In cd cs /\ cd_fn cd v = true
  end.
Proof. exact need_retry_iff. Qed.
Print Assumptions C10_need_retry_iff.

(* conditions are consulted from the last registered to the first, stopping at the first that
   asks for a retry *)
Theorem C10_conditions_last_to_first : forall cs v,
  snd (need_retry cs v) = map cd_id (upto_first (fun cd => cd_fn cd v) (rev cs)).
Proof. exact need_retry_calls. Qed.
Print Assumptions C10_conditions_last_to_first.

(* the context ends while the retry is being prepared (hooks, interval function, the wait - a
   zero-length one too, /repo f83e984): no further attempt; the call reports the last attempt's
   response with the context's error; that retry's hooks and interval function have run *)
Theorem C10_wait_cancel_ends_the_retries : forall detect c o k s a rest,
  a_wait_cancel a = true ->
  length (res_wires (do_loop detect c (Some o) k s (a :: rest))) = 1%nat /\
  (first_some (a_after a) = None -> hard_stop o (r_attempt (after_send (prepare detect c s))) a = false ->
   fst (need_retry (ro_conds o) (view_of (a_out a))) = true ->
   res_final (do_loop detect c (Some o) k s (a :: rest)) = mkView (v_status (view_of (a_out a))) (Some 3%Z) /\
   res_end (do_loop detect c (Some o) k s (a :: rest)) = EndNormal /\
   length (res_hooks (do_loop detect c (Some o) k s (a :: rest))) = length (ro_hooks o) /\
   length (res_intervals (do_loop detect c (Some o) k s (a :: rest))) = 1%nat).
Proof. exact wait_cancel_ends_the_retries. Qed.
Print Assumptions C10_wait_cancel_ends_the_retries.

(* ---------- hooks and interval function: once per retry, with the attempt number ---------- *)

Theorem C10_hooks_once_per_retry : forall detect c o s ins,
  hooks_keep_attempt (ro_hooks o) -> r_attempt s = 0%Z ->
  Forall (fun a => a_wait_cancel a = false) ins ->
  let r := do_loop detect c (Some o) 0 s ins in
  res_end r = EndNormal ->
  res_hooks r =
    flat_map (fun j => map (fun h => mkCall (hk_id h) (Z.of_nat (S j)) (view_of (a_out (nth j ins dflt_ain))))
                           (rev (ro_hooks o)))
             (seq 0 (pred (length (res_wires r)))).
Proof. exact hooks_once_per_retry. Qed.
Print Assumptions C10_hooks_once_per_retry.

Theorem C10_interval_once_per_retry : forall detect c o s ins,
  hooks_keep_attempt (ro_hooks o) -> r_attempt s = 0%Z ->
  Forall (fun a => a_wait_cancel a = false) ins ->
  let r := do_loop detect c (Some o) 0 s ins in
  res_end r = EndNormal ->
  res_intervals r =
    map (fun j => mkCall (ro_interval o) (Z.of_nat (S j)) (view_of (a_out (nth j ins dflt_ain))))
        (seq 0 (pred (length (res_wires r)))).
Proof. exact interval_once_per_retry. Qed.
Print Assumptions C10_interval_once_per_retry.

(* ---------- built-in backoff ---------- *)

Theorem C10_backoff_le_max : forall mn mx a u, (backoff mn mx a u <= mx)%Z.
Proof. exact backoff_le_max. Qed.
Print Assumptions C10_backoff_le_max.

Theorem C10_backoff_bounds : forall mn mx a u,
  (0 <= mn)%Z -> (0 <= mx)%Z -> (0 <= a)%Z ->
  let t := Z.min mx (mn * 2 ^ a) in
  (t / 2 <= backoff mn mx a u <= t)%Z /\ (0 <= backoff mn mx a u <= mx)%Z.
Proof. exact backoff_bounds. Qed.
Print Assumptions C10_backoff_bounds.

Theorem C10_backoff_capped : forall mn mx a u,
  (0 <= mn)%Z -> (0 <= mx)%Z -> (0 <= a)%Z -> (mx <= mn * 2 ^ a)%Z ->
  (mx / 2 <= backoff mn mx a u <= mx)%Z.
Proof. exact backoff_capped. Qed.
Print Assumptions C10_backoff_capped.

(* the function as pinned (no guard) is the rand.Int63n(0) panic for min = 0 and for max < 2ns;
   where it returns, the repaired function returns the same value *)
Theorem C10_backoff_pinned_refuted :
  (forall mx a u, (0 <= a)%Z -> backoff_pinned 0 mx a u = None) /\
  (forall mn mx a u, (mx < 2)%Z -> backoff_pinned mn mx a u = None).
Proof. exact backoff_pinned_refuted. Qed.
Print Assumptions C10_backoff_pinned_refuted.

Theorem C10_backoff_agrees_with_pinned : forall mn mx a u d,
  backoff_pinned mn mx a u = Some d -> backoff mn mx a u = d.
Proof. exact backoff_agrees_with_pinned. Qed.
Print Assumptions C10_backoff_agrees_with_pinned.

(* ---------- every attempt sends the same request ---------- *)

(* for every number of attempts (induction over the script): absent hook mutation, every
   request put on the wire is the one the first pass of the middlewares built - same method,
   query, cookies, complete body, same header map *)
Theorem C10_attempts_identical : forall detect c ro s ins,
  (0 <= r_attempt s)%Z -> wf_body s -> silent ro ->
  forall w, In w (res_wires (run detect c ro s ins)) -> wire_same w (wire_of c (prepare detect c s)).
Proof. exact attempts_identical. Qed.
Print Assumptions C10_attempts_identical.

Theorem C10_attempts_pairwise_identical : forall detect c ro s ins,
  (0 <= r_attempt s)%Z -> wf_body s -> silent ro ->
  forall w1 w2, In w1 (res_wires (run detect c ro s ins)) -> In w2 (res_wires (run detect c ro s ins)) ->
  wire_same w1 w2.
Proof. exact attempts_pairwise_identical. Qed.
Print Assumptions C10_attempts_pairwise_identical.

(* ... and that request is the caller's: method, query, request cookies then client cookies
   (once), the complete body *)
Theorem C10_first_wire_method_path_query : forall detect c s,
  w_method (wire_of c (prepare detect c s)) = r_method s /\
  w_path (wire_of c (prepare detect c s)) = wire_path c s /\
  w_query (wire_of c (prepare detect c s)) = wire_query c s.
Proof. exact first_wire_method_query. Qed.
Print Assumptions C10_first_wire_method_path_query.

(* "Connection: close" exactly when the caller asked for it, on every attempt *)
Theorem C10_first_wire_close : forall detect c s,
  w_close (wire_of c (prepare detect c s)) = r_close s.
Proof. exact first_wire_close. Qed.
Print Assumptions C10_first_wire_close.

Theorem C10_first_wire_cookies : forall detect c s,
  (r_attempt s <= 0)%Z ->
  w_cookies (wire_of c (prepare detect c s)) = r_cookies s ++ c_cookies c.
Proof. exact first_wire_cookies. Qed.
Print Assumptions C10_first_wire_cookies.

Theorem C10_first_wire_body : forall detect c s,
  payload_forbid c (r_method s) = false -> c_form c = [] -> r_form s = [] -> r_ordered s = [] ->
  r_marshal s = None ->
  w_body (wire_of c (prepare detect c s)) = body_now s.
Proof. exact first_wire_body. Qed.
Print Assumptions C10_first_wire_body.

(* a marshal body (SetBody with a struct / map): the XML rendering when the request's - else the
   client's - content type says xml, the JSON rendering otherwise; re-marshalled identically on
   every attempt (C10_attempts_identical) *)
Theorem C10_first_wire_marshal_body : forall detect c s m,
  payload_forbid c (r_method s) = false -> c_form c = [] -> r_form s = [] -> r_ordered s = [] ->
  r_marshal s = Some m ->
  w_body (wire_of c (prepare detect c s)) =
    Some (if is_xml_type (marshal_ct c (prep_header c s)) then snd m else fst m).
Proof. exact first_wire_marshal_body. Qed.
Print Assumptions C10_first_wire_marshal_body.

(* ordered form data: the pairs in the caller's order, then the plain form data (client values
   merged once) *)
Theorem C10_first_wire_ordered_body : forall detect c s,
  payload_forbid c (r_method s) = false -> r_ordered s <> [] -> (r_attempt s <= 0)%Z ->
  w_body (wire_of c (prepare detect c s)) =
    Some (ordered_encode (r_ordered s) (if nonempty (c_form c) then add_values (c_form c) (r_form s) else r_form s)).
Proof. exact first_wire_ordered_body. Qed.
Print Assumptions C10_first_wire_ordered_body.

Theorem C10_first_wire_no_payload : forall detect c s,
  payload_forbid c (r_method s) = true -> w_body (wire_of c (prepare detect c s)) = None.
Proof. exact first_wire_no_payload. Qed.
Print Assumptions C10_first_wire_no_payload.

(* "unless a hook deliberately changed it": a header set by a retry hook is on the wire of the
   next attempt *)
Theorem C10_hook_header_is_sent : forall detect c s k v,
  bytes_eqb k content_type = false ->
  hget k (w_headers (wire_of c (prepare detect c (set_headers s (hset k [v] (r_headers s)))))) = [v].
Proof. exact hook_header_is_sent. Qed.
Print Assumptions C10_hook_header_is_sent.

(* multipart bodies (Model/RetryUpload.v), buffered and forced-chunked encoding.  Whatever the
   kinds of file source (everything but a caller-supplied GetFileContent sharing one plain
   reader): a body that was written to its end carries every field and every file completely -
   a multipart upload is never retried partially; in the buffered variant every body that is
   sent was written to its end *)
Theorem C10_upload_never_partial : forall detect form chunked n att fs,
  Forall managed fs -> (0 <= att)%Z -> Forall unused fs \/ (1 <= att)%Z ->
  Forall (fun a => snd a = true -> fst a = full_parts detect form fs)
         (fst (mp_attempts file_read detect chunked n att form fs)).
Proof. exact upload_never_partial. Qed.
Print Assumptions C10_upload_never_partial.

Theorem C10_upload_buffered_complete : forall detect form n att fs,
  Forall (fun a => snd a = true) (fst (mp_attempts file_read detect false n att form fs)).
Proof. exact upload_buffered_complete. Qed.
Print Assumptions C10_upload_buffered_complete.

(* the first attempt carries every file completely, whatever the kind of source ... *)
Theorem C10_upload_first_complete : forall detect att form fs,
  Forall unused fs ->
  fst (mp_pass file_read detect att form fs) = (full_parts detect form fs, true).
Proof. exact upload_first_complete. Qed.
Print Assumptions C10_upload_first_complete.

(* ... and with replayable sources (SetFileBytes, SetFile by path, SetFileReader with a reader
   that can be rewound, a caller-supplied GetFileContent sharing one io.ReadSeeker) every attempt
   is sent and carries the same parts - in both encodings, for every number of attempts *)
Theorem C10_upload_attempts_identical : forall detect form chunked fs n,
  Forall replayable fs -> Forall unused fs ->
  mp_attempts file_read detect chunked n 0 form fs = (repeat (full_parts detect form fs, true) n, false).
Proof. exact upload_attempts_identical. Qed.
Print Assumptions C10_upload_attempts_identical.

(* an upload that can be sent only once (SetFileReader with a reader that is not an io.Seeker,
   or with an os.File) makes a retryable call fail up front; without retries it is sent once,
   completely *)
Theorem C10_upload_once_only_refused_up_front : forall detect chunked n form fs,
  existsb upload_once_only fs = true ->
  mp_run file_read detect true chunked n form fs = ([], false, true).
Proof. exact upload_once_only_refused_up_front. Qed.
Print Assumptions C10_upload_once_only_refused_up_front.

Theorem C10_upload_once_only_single_attempt : forall detect chunked form fs,
  Forall unused fs ->
  mp_run file_read detect false chunked 1 form fs = ([(full_parts detect form fs, true)], false, false).
Proof. exact upload_once_only_single_attempt. Qed.
Print Assumptions C10_upload_once_only_single_attempt.

(* the code as it is for a caller-supplied GetFileContent that returns the same plain reader on
   every call (the caller's contract, see design.d/C10.md): the retry carries a zero-length file *)
Theorem C10_upload_custom_plain_partial : forall detect chunked param name content,
  mp_attempts file_read detect chunked 2 0 ([], []) [mkFile param name FCustomPlain content false] =
  ([([PFile param name (detect (pad512 content)) content], true);
    ([PFile param name (detect (pad512 [])) []], true)], false).
Proof. exact upload_custom_plain_partial. Qed.
Print Assumptions C10_upload_custom_plain_partial.

(* SetFileReader as pinned (before 6b60c65): the drained reader is uploaded again as a
   zero-length file *)
Theorem C10_upload_reader_pinned_refuted : forall detect param name kind content,
  kind = FSeekReader \/ kind = FPlainReader ->
  mp_attempts file_read_pinned detect false 2 0 ([], []) [mkFile param name kind content false] =
  ([([PFile param name (detect (pad512 content)) content], true);
    ([PFile param name (detect (pad512 [])) []], true)], false).
Proof. exact upload_reader_pinned_refuted. Qed.
Print Assumptions C10_upload_reader_pinned_refuted.

(* SetFileReader with a reader handed over at a position past 0 (the caller has read a header
   first): every attempt uploads what was left at hand-over, whether or not the content given
   to the multipart writer shows Seek; this is what file_read gives for such a file *)
Theorem C10_upload_reader_position_respected : forall seek_visible s att,
  reader_pass true seek_visible s att = rs_content s.
Proof. exact reader_position_respected. Qed.
Print Assumptions C10_upload_reader_position_respected.

Theorem C10_upload_reader_position_is_file_read : forall seek_visible param name k s used att,
  k = FSeekReader \/ k = FSeekNoClose ->
  file_read att (mfile_at param name k s used) = Some (reader_pass true seek_visible s att).
Proof. exact reader_position_is_file_read. Qed.
Print Assumptions C10_upload_reader_position_is_file_read.

(* before 9ce4104 the multipart writer sought such a reader to offset 0 on a retry *)
Theorem C10_upload_reader_seek_zero_refuted :
  reader_pass false true (mkSrc (bs "HDR:payload") 4) 0 = bs "payload" /\
  reader_pass false true (mkSrc (bs "HDR:payload") 4) 1 = bs "HDR:payload".
Proof. exact reader_seek_zero_refuted. Qed.
Print Assumptions C10_upload_reader_seek_zero_refuted.

(* the pinned middlewares (client cookies appended on every pass) do not have the property:
   two-attempt witness *)
Theorem C10_attempts_identical_pinned_refuted :
  exists w1 w2,
    res_wires (run_gen (fun _ => []) ex_client true (Some ex_ropt) ex_state ex_script) = [w1; w2] /\
    w_cookies w1 = [(bs "a", bs "1")] /\ w_cookies w2 = [(bs "a", bs "1"); (bs "a", bs "1")].
Proof. exact attempts_identical_pinned_refuted. Qed.
Print Assumptions C10_attempts_identical_pinned_refuted.

(* the pinned loop (after-response middleware returning nil clears err): default rule dead *)
Theorem C10_default_rule_pinned_refuted :
  length (res_wires (run_gen (fun _ => []) ex_client true (Some ex_ropt) ex_state ex_script_after)) = 1%nat /\
  length (res_wires (run (fun _ => []) ex_client (Some ex_ropt) ex_state ex_script_after)) = 2%nat.
Proof. exact default_rule_pinned_refuted. Qed.
Print Assumptions C10_default_rule_pinned_refuted.

(* ---------- unreplayable bodies ---------- *)

Theorem C10_unreplayable_fails_up_front : forall detect c o s ins,
  ro_max o <> 0%Z -> r_unreplayable s = true ->
  run detect c (Some o) s ins =
    mkResult [] [] [] [] (mkView None (Some (-1)%Z)) (r_attempt s) EndUpFront.
Proof. exact unreplayable_fails_up_front. Qed.
Print Assumptions C10_unreplayable_fails_up_front.

Theorem C10_unreplayable_never_partial : forall detect c ro s ins,
  r_unreplayable s = true -> (0 <= r_attempt s)%Z ->
  (length (res_wires (run detect c ro s ins)) <= 1)%nat.
Proof. exact unreplayable_never_partial. Qed.
Print Assumptions C10_unreplayable_never_partial.

(* ---------- the final response and error are those of the last attempt ---------- *)

Theorem C10_final_is_last_attempt : forall detect c o s ins,
  hooks_keep_attempt (ro_hooks o) -> r_attempt s = 0%Z ->
  Forall (fun a => a_wait_cancel a = false) ins ->
  let r := do_loop detect c (Some o) 0 s ins in
  res_end r = EndNormal ->
  exists a, nth_error ins (pred (length (res_wires r))) = Some a /\
            res_final r = final_view a /\
            res_attempt r = Z.of_nat (pred (length (res_wires r))).
Proof. exact final_is_last_attempt. Qed.
Print Assumptions C10_final_is_last_attempt.

(* ---------- Set vs Add, client level vs request level ---------- *)

Theorem C10_effective_none_iff : forall cops rops,
  effective_ropt cops rops = None <-> cops = [] /\ rops = [].
Proof. exact effective_none_iff. Qed.
Print Assumptions C10_effective_none_iff.

Theorem C10_set_condition_replaces : forall cops pre cd post,
  existsb is_setcond post = false ->
  exists o, effective_ropt cops (pre ++ SetCond cd :: post) = Some o /\ ro_conds o = cd :: added_conds post.
Proof. exact set_condition_replaces. Qed.
Print Assumptions C10_set_condition_replaces.

Theorem C10_set_hook_replaces : forall cops pre h post,
  existsb is_sethook post = false ->
  exists o, effective_ropt cops (pre ++ SetHook h :: post) = Some o /\ ro_hooks o = h :: added_hooks post.
Proof. exact set_hook_replaces. Qed.
Print Assumptions C10_set_hook_replaces.

Theorem C10_add_condition_appends : forall cops rops, cops ++ rops <> [] ->
  existsb is_setcond rops = false ->
  exists o, effective_ropt cops rops = Some o /\
            ro_conds o = fold_left conds_step cops [] ++ added_conds rops.
Proof. exact add_condition_appends. Qed.
Print Assumptions C10_add_condition_appends.

Theorem C10_add_hook_appends : forall cops rops, cops ++ rops <> [] ->
  existsb is_sethook rops = false ->
  exists o, effective_ropt cops rops = Some o /\
            ro_hooks o = fold_left hooks_step cops [] ++ added_hooks rops.
Proof. exact add_hook_appends. Qed.
Print Assumptions C10_add_hook_appends.

Theorem C10_last_count_wins : forall cops pre n post,
  existsb is_setcount post = false ->
  exists o, effective_ropt cops (pre ++ SetCount n :: post) = Some o /\ ro_max o = n.
Proof. exact last_count_wins. Qed.
Print Assumptions C10_last_count_wins.

Theorem C10_last_interval_wins : forall cops pre i post,
  existsb is_setinterval post = false ->
  exists o, effective_ropt cops (pre ++ SetInterval i :: post) = Some o /\ ro_interval o = i.
Proof. exact last_interval_wins. Qed.
Print Assumptions C10_last_interval_wins.

Theorem C10_client_count_inherited : forall cops rops n post,
  existsb is_setcount post = false -> existsb is_setcount rops = false ->
  exists o, effective_ropt (cops ++ SetCount n :: post) rops = Some o /\ ro_max o = n.
Proof. exact client_count_inherited. Qed.
Print Assumptions C10_client_count_inherited.

(* ---------- the same Request object executed again; round-trip wrappers ---------- *)

(* Request.do restarts the attempt counter itself (gosync: do() begins with
   unmergeClientSettings, which sets RetryAttempt = 0 unconditionally), so every execution -
   through Send-based verbs or through Do - is bounded, condition-driven and numbers its retries
   from 1, whatever counter the previous execution left *)
Theorem C10_do_resets_attempt : do_resets_attempt = true.
Proof. exact do_resets. Qed.
Print Assumptions C10_do_resets_attempt.

Theorem C10_reexecution_bounded : forall detect c o s ins,
  hooks_keep_attempt (ro_hooks o) -> (0 <= ro_max o)%Z ->
  (Z.of_nat (length (res_wires (run_exec detect c true (Some o) s ins))) <= ro_max o + 1)%Z.
Proof. exact reexecution_bounded. Qed.
Print Assumptions C10_reexecution_bounded.

Theorem C10_reexecution_exact : forall detect c o s ins j a,
  hooks_keep_attempt (ro_hooks o) -> refused (Some o) (set_attempt s 0) = false ->
  nth_error ins j = Some a -> (S j < length ins)%nat ->
  let n := length (res_wires (run_exec detect c true (Some o) s ins)) in
  (j < n)%nat -> ((S j < n)%nat <-> continues o (Z.of_nat j) a = true).
Proof. exact reexecution_exact. Qed.
Print Assumptions C10_reexecution_exact.

Theorem C10_reexecution_hooks_from_one : forall detect c o s ins,
  hooks_keep_attempt (ro_hooks o) -> refused (Some o) (set_attempt s 0) = false ->
  Forall (fun a => a_wait_cancel a = false) ins ->
  let r := run_exec detect c true (Some o) s ins in
  res_end r = EndNormal ->
  res_hooks r =
    flat_map (fun j => map (fun h => mkCall (hk_id h) (Z.of_nat (S j)) (view_of (a_out (nth j ins dflt_ain))))
                           (rev (ro_hooks o)))
             (seq 0 (pred (length (res_wires r)))).
Proof. exact reexecution_hooks_from_one. Qed.
Print Assumptions C10_reexecution_hooks_from_one.

Theorem C10_stale_counter_refuted :
  length (res_wires (run_exec (fun _ => []) ex_client false (Some ex_ropt2) ex_stale ex_script3)) = 1%nat /\
  length (res_wires (run_exec (fun _ => []) ex_client true (Some ex_ropt2) ex_stale ex_script3)) = 3%nat.
Proof. exact stale_counter_refuted. Qed.
Print Assumptions C10_stale_counter_refuted.

(* a round-trip wrapper that hands back the response and an error the response does not record:
   the error is the attempt's error (retried by the default rule, returned when last).  A wrapper
   answering (nil, err) is a plain failed attempt (OErr): do() makes a fresh placeholder response
   for THAT attempt, so the result is never an earlier attempt's response *)
Theorem C10_wrapper_error_is_the_attempts_error : forall s e,
  fst (need_retry [] (view_of (OStatusErr s e))) = true /\
  final_view (mkAin (OStatusErr s e) [] false) = mkView (Some s) (Some e).
Proof. exact wrapper_error_is_the_attempts_error. Qed.
Print Assumptions C10_wrapper_error_is_the_attempts_error.

(* the source is as the model takes it: Request.do asks r.Context() afresh for the stop decision
   and the wait of every attempt (the [cancelled] flag of an outcome is about the request's
   CURRENT context, also one installed by a middleware or a hook after Do started), and
   SetBodyBytes' GetBody hands every attempt a reader of its own ([GBStatic]: a body upload still
   running when the next attempt starts cannot disturb it) - both read off the source by gosync *)
Theorem C10_context_and_body_as_modelled : ctx_read_per_attempt = true /\ getbody_fresh_reader = true.
Proof. exact context_and_body_as_modelled. Qed.
Print Assumptions C10_context_and_body_as_modelled.

(* per-attempt code must not write request state that the next attempt is built from: the only
   Request fields Client.roundTrip assigns are bookkeeping (read off the source by gosync); the
   model's per-attempt step [after_send] accordingly touches nothing but the one-shot reader *)
Theorem C10_roundtrip_writes_only_bookkeeping :
  roundtrip_assigns = [bs "RawRequest"; bs "StartTime"; bs "trace"].
Proof. exact roundtrip_writes_only_bookkeeping. Qed.
Print Assumptions C10_roundtrip_writes_only_bookkeeping.

(* the caller's callbacks are invoked from the retry loop and nowhere else (one call site each in
   the sources: no second call from logging or tracing code, whatever the configuration), and the
   client's headers are merged into a request on the first attempt of an execution only (what
   another user of the client does to its headers between two attempts cannot reach the retry) *)
Theorem C10_callbacks_called_from_the_loop_only :
  callback_call_sites = [1; 1; 1]%nat /\ header_merge_once = true.
Proof. exact callbacks_called_from_the_loop_only. Qed.
Print Assumptions C10_callbacks_called_from_the_loop_only.

(* ---------- several requests of one client ---------- *)

(* the storage of conditions / hooks (Model/RetrySlices.v: backing arrays, len, cap; append in
   place when there is spare capacity; retryOption.Clone as gosync reads it off the source):
   for every sequence of Set/Add calls on the client and on any number of requests built from
   it, in any interleaving, and for every growth policy of append, every option holds exactly
   the list its own caller built - a request is retried by its own conditions and runs its
   own hooks, whatever other requests of the same client were given *)
Theorem C10_request_conditions_independent : forall grow ops,
  views (wrun grow clone_conditions ops world0) = prun ops [[]].
Proof. exact request_conditions_independent. Qed.
Print Assumptions C10_request_conditions_independent.

Theorem C10_request_hooks_independent : forall grow ops,
  views (wrun grow clone_hooks ops world0) = prun ops [[]].
Proof. exact request_hooks_independent. Qed.
Print Assumptions C10_request_hooks_independent.

(* in the caller's terms: a setter call on one slot leaves every other slot's list alone *)
Theorem C10_foreign_setter_is_invisible : forall p k j x,
  j <> k -> nth j (pstep p (SAdd k x)) [] = nth j p [] /\ nth j (pstep p (SSet k x)) [] = nth j p [].
Proof. exact foreign_setter_is_invisible. Qed.
Print Assumptions C10_foreign_setter_is_invisible.

(* the source is as modelled: deep Clone of both slices, R() clones, setters literal / append *)
Theorem C10_clone_is_deep :
  clone_conditions = CloneDeep /\ clone_hooks = CloneDeep /\ r_clones_option = true.
Proof. exact clone_is_deep. Qed.
Print Assumptions C10_clone_is_deep.

(* a shallow Clone (o := *ro) does not have the property: three client conditions (len 3,
   cap 4), two requests that each add one - the first request ends up with the second's *)
Theorem C10_shallow_clone_refuted :
  views (wrun go_grow CloneShallow shallow_witness world0) = [[1; 2; 3]; [1; 2; 3; 20]; [1; 2; 3; 20]]%Z /\
  prun shallow_witness [[]] = [[1; 2; 3]; [1; 2; 3; 10]; [1; 2; 3; 20]]%Z /\
  views (wrun go_grow CloneDeep shallow_witness world0) = [[1; 2; 3]; [1; 2; 3; 10]; [1; 2; 3; 20]]%Z.
Proof. exact shallow_clone_refuted. Qed.
Print Assumptions C10_shallow_clone_refuted.

(* ---------- the client's cookie jar: state carried from attempt to attempt ---------- *)

(* every attempt carries the caller's cookies first, unchanged, whatever the responses set ... *)
Theorem C10_caller_cookies_on_every_attempt : forall caller resps j cs,
  In cs (attempt_cookies caller j resps) -> firstn (length caller) cs = caller.
Proof. exact caller_cookies_on_every_attempt. Qed.
Print Assumptions C10_caller_cookies_on_every_attempt.

(* ... followed by exactly the jar as the responses of the earlier attempts left it *)
Theorem C10_attempt_cookies_nth : forall caller resps j k,
  k < length resps ->
  nth k (attempt_cookies caller j resps) [] = caller ++ jar_after j (firstn k resps).
Proof. exact attempt_cookies_nth. Qed.
Print Assumptions C10_attempt_cookies_nth.

Theorem C10_no_set_cookie_all_equal : forall caller resps j,
  Forall (fun r => r = []) resps ->
  attempt_cookies caller j resps = repeat (caller ++ j) (length resps).
Proof. exact no_set_cookie_all_equal. Qed.
Print Assumptions C10_no_set_cookie_all_equal.

(* a cookie is never held twice by the jar (so it cannot double from attempt to attempt) *)
Theorem C10_jar_names_stay_distinct : forall j c,
  NoDup (map fst j) -> NoDup (map fst (jar_set1 j c)).
Proof. exact jar_names_stay_distinct. Qed.
Print Assumptions C10_jar_names_stay_distinct.

(* ---------- non-vacuity ---------- *)

(* a client cookie, retry count 1, a failing first attempt: two attempts, both carrying the
   cookie exactly once (the hypotheses of C10_attempts_identical hold for this instance) *)
Example C10_attempts_identical_nonvacuous :
  exists w,
    res_wires (run (fun _ => []) ex_client (Some ex_ropt) ex_state ex_script) = [w; w] /\
    w_cookies w = [(bs "a", bs "1")].
Proof. exact attempts_identical_nonvacuous. Qed.
