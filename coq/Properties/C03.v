(* Properties/C03.v - A truncated, over-long or spliced body is never reported as success.
   Only statements, `exact`, and Print Assumptions.  Model: Model/BodyFraming.v. *)
From ReqV Require Import Lib.Bytes Model.BodyFraming Proofs.BodyFramingProofs.

(* HTTP/1.1, Content-Length and chunked framing (every body, every chunk partition with any
   extensions and size spellings the reader accepts, any trailer section): for EVERY cut
   offset k strictly inside the response, the call fails (cut inside the header block) or
   reading the body ends in an error - never a clean end - and what was delivered before
   the error is a prefix of the origin's body (nothing padded, nothing spliced). *)
Theorem C03_h1_truncation_detected : forall hdr fr W body tb k,
  framed fr W body tb -> k < length (hdr ++ W) ->
  match h1_read (N.of_nat (length hdr)) fr (firstn k (hdr ++ W)) with
  | CallError => k < length hdr
  | BodyRead r => length hdr <= k /\ truncation_err (rd_err r) /\
                  exists m, rd_data r = firstn m body
  end.
Proof. exact h1_truncation_detected_thm. Qed.
Print Assumptions C03_h1_truncation_detected.

(* over-long / spliced: whatever follows the declared message, the caller gets exactly the
   message body and trailer, the extra bytes stay unread, and a connection holding such
   bytes is never handed to the next request; with nothing behind the message the decision
   is the keep-alive conjunction (so it is not constantly false). *)
Theorem C03_h1_overlong_not_spliced : forall hdr fr W body tb extra cf,
  framed fr W body tb ->
  exists r, h1_read (N.of_nat (length hdr)) fr (hdr ++ W ++ extra) = BodyRead r /\
            rd_data r = body /\ rd_err r = Clean /\ rd_rest r = extra /\ rd_trailer r = tb /\
            (extra <> [] -> conn_serves_next cf r = false) /\
            (extra = [] -> conn_serves_next cf r =
               negb (cf_resp_close cf || cf_req_close cf || cf_status_1xx cf)
               && cf_wrote_request cf && cf_put_idle_ok cf).
Proof. exact h1_overlong_not_spliced_thm. Qed.
Print Assumptions C03_h1_overlong_not_spliced.

(* after any failure (error, connection end seen, bytes left over) the connection is not reused *)
Theorem C03_broken_conn_not_reused : forall cf r,
  rd_rest r <> [] \/ rd_saw_eof r = true \/ rd_err r <> Clean ->
  reuse_decision cf r = false.
Proof. exact dirty_conn_not_reused_thm. Qed.
Print Assumptions C03_broken_conn_not_reused.

(* the honest limit, stated so the exclusion is visible: a close-delimited body cut anywhere
   behind the header block IS a clean, shorter message at the HTTP layer *)
Theorem C03_close_delimited_is_prefix : forall hdr body k, length hdr <= k ->
  h1_read (N.of_nat (length hdr)) FrClose (firstn k (hdr ++ body)) =
  BodyRead (mkRd (firstn (k - length hdr) body) Clean [] true []).
Proof. exact close_delimited_is_prefix_thm. Qed.
Print Assumptions C03_close_delimited_is_prefix.

(* ... unless a content-coding with an end marker sits on top: for any decoder that rejects
   the proper non-empty prefixes of the coded stream, every cut that leaves at least one
   coded byte is an error even under close-delimited framing *)
Theorem C03_gzip_truncation_detected : forall (gunzip : bytes -> option bytes) hdr fr z plain k,
  gunzip z = Some plain ->
  (forall m, 0 < m < length z -> gunzip (firstn m z) = None) ->
  (fr = FrClose \/ fr = FrCL (N.of_nat (length z))) ->
  length hdr < k < length (hdr ++ z) ->
  exists r, h1_read (N.of_nat (length hdr)) fr (firstn k (hdr ++ z)) = BodyRead r /\
            gz_result gunzip r = None.
Proof. exact gzip_truncation_detected_thm. Qed.
Print Assumptions C03_gzip_truncation_detected.

(* non-vacuity: a concrete chunked message with extensions, an odd size spelling and a
   trailer meets the well-formedness premises; it reads back exactly, leaving a spliced
   response untouched; a cut inside it is an error *)
Example C03_nonvacuous :
  let cs := [mkChunk (bs "5") (bs ";a=b") (bs "hello"); mkChunk (bs "00B") [] (bs " wide world")] in
  let tb := bs "X-T: v" ++ crlf in
  let W := render_chunked cs (bs "0") (bs ";last") tb in
  wf_chunked cs (bs "0") (bs ";last") tb /\
  read_chunked (W ++ bs "HTTP/1.1 200 OK") = mkRd (bs "hello wide world") Clean (bs "HTTP/1.1 200 OK") false tb /\
  rd_err (read_chunked (firstn 20 W)) = UnexpectedEOF /\
  rd_err (read_chunked (firstn (length W - 1) W)) = TrailerTooLong.
Proof.
  cbv zeta. split; [|vm_compute; repeat split].
  split.
  - repeat constructor; try (vm_compute; reflexivity); discriminate.
  - repeat split; vm_compute; reflexivity.
  - right. repeat split; try (vm_compute; reflexivity); vm_compute; repeat constructor.
Qed.
