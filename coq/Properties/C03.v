(* Properties/C03.v - A truncated, over-long or spliced body is never reported as success.
   Only statements, `exact`, and Print Assumptions.  Models: Model/BodyFraming.v (HTTP/1.1),
   Model/StreamBody.v (HTTP/2, HTTP/3 frame events), Model/StreamWire.v (HTTP/3 stream bytes). *)
From ReqV Require Import Lib.Bytes Lib.BigEndian Model.BodyFraming Model.StreamBody Model.StreamWire
  Proofs.BodyFramingProofs Proofs.QuicVarintProofs Proofs.StreamBodyProofs Proofs.StreamWireProofs.
From ReqV Require Model.H2Frame Proofs.StreamWireH2Proofs.
From ReqV Require Import Model.Interim Proofs.InterimProofs.
From ReqV Require Import Proofs.StreamWireTrailerProofs.
From ReqV Require Import Model.TlsConn Proofs.TlsConnProofs.
From ReqV Require Import Model.RespRead Model.DupLength Proofs.RespReadProofs.
From ReqV Require Import Model.Download Proofs.DownloadProofs.
From ReqV Require Import Proofs.ChunkFooterProofs.
Local Open Scope nat_scope.

(* HTTP/1.1, Content-Length and chunked framing (every body, every chunk partition with any
   extensions and size spellings the reader accepts, any trailer section): for EVERY cut
   offset k strictly inside the response, the call fails (cut inside the header block) or
   reading the body ends in an error - never a clean end - and what was delivered before
   the error is a prefix of the origin's body (nothing padded, nothing spliced). *)
Theorem C03_h1_truncation_detected : forall hdr fr W body tb k,
  framed fr W body tb -> k < length (hdr ++ W) ->
  match h1_read (N.of_nat (length hdr)) fr (firstn k (hdr ++ W)) with
  | CallError => k < length hdr
  | BodyRead r => length hdr <= k /\ truncation_err (rd_err r) /\
                  exists m, rd_data r = firstn m body
  end.
Proof. exact h1_truncation_detected_thm. Qed.
Print Assumptions C03_h1_truncation_detected.

(* over-long / spliced: whatever follows the declared message, the caller gets exactly the
   message body and trailer, the extra bytes stay unread, and a connection holding such
   bytes is never handed to the next request; with nothing behind the message the decision
   is the keep-alive conjunction (so it is not constantly false). *)
Theorem C03_h1_overlong_not_spliced : forall hdr fr W body tb extra cf,
  framed fr W body tb ->
  exists r, h1_read (N.of_nat (length hdr)) fr (hdr ++ W ++ extra) = BodyRead r /\
            rd_data r = body /\ rd_err r = Clean /\ rd_rest r = extra /\ rd_trailer r = tb /\
            (extra <> [] -> conn_serves_next cf r = false) /\
            (extra = [] -> conn_serves_next cf r =
               negb (cf_resp_close cf || cf_req_close cf || cf_status_1xx cf)
               && cf_wrote_request cf && cf_put_idle_ok cf).
Proof. exact h1_overlong_not_spliced_thm. Qed.
Print Assumptions C03_h1_overlong_not_spliced.

(* over-long / malformed chunk: any well-formed chunks, then a chunk whose declared data is
   followed by two bytes that are not CR LF (surplus bytes in front of its CRLF, or the CRLF
   replaced), then anything at all: the body ends in "malformed chunked encoding" after exactly
   the declared bytes; nothing behind them is delivered.  The reader is a function of the
   bytes received, so this holds for every segmentation of those bytes. *)
Theorem C03_overlong_chunk_rejected : forall cs c a b rest,
  Forall wf_chunk cs -> wf_chunk c -> (beqb a CR && beqb b LF) = false ->
  read_chunked (render_chunks cs ++ size_line (c_size c) (c_ext c) ++ c_data c ++ a :: b :: rest) =
  mkRd (chunks_data cs ++ c_data c) MalformedChunk rest false [].
Proof. exact overlong_chunk_rejected_thm. Qed.
Print Assumptions C03_overlong_chunk_rejected.

Theorem C03_overlong_chunk_never_clean : forall cs c a b rest,
  Forall wf_chunk cs -> wf_chunk c -> (beqb a CR && beqb b LF) = false ->
  let r := read_chunked (render_chunks cs ++ size_line (c_size c) (c_ext c) ++ c_data c ++ a :: b :: rest) in
  rd_err r = MalformedChunk /\ rd_data r = chunks_data cs ++ c_data c /\ is_clean (rd_err r) = false.
Proof. exact overlong_chunk_data_thm. Qed.
Print Assumptions C03_overlong_chunk_never_clean.

(* after any failure (error, connection end seen, bytes left over) the connection is not reused *)
Theorem C03_broken_conn_not_reused : forall cf r,
  rd_rest r <> [] \/ rd_saw_eof r = true \/ rd_err r <> Clean ->
  reuse_decision cf r = false.
Proof. exact dirty_conn_not_reused_thm. Qed.
Print Assumptions C03_broken_conn_not_reused.

(* the honest limit, stated so the exclusion is visible: a close-delimited body cut anywhere
   behind the header block IS a clean, shorter message at the HTTP layer *)
Theorem C03_close_delimited_is_prefix : forall hdr body k, length hdr <= k ->
  h1_read (N.of_nat (length hdr)) FrClose (firstn k (hdr ++ body)) =
  BodyRead (mkRd (firstn (k - length hdr) body) Clean [] true []).
Proof. exact close_delimited_is_prefix_thm. Qed.
Print Assumptions C03_close_delimited_is_prefix.

(* ... unless a content-coding with an end marker sits on top: for any decoder that rejects
   the proper non-empty prefixes of the coded stream, every cut that leaves at least one
   coded byte is an error even under close-delimited framing *)
Theorem C03_gzip_truncation_detected : forall (gunzip : bytes -> option bytes) hdr fr z plain k,
  gunzip z = Some plain ->
  (forall m, 0 < m < length z -> gunzip (firstn m z) = None) ->
  (fr = FrClose \/ fr = FrCL (N.of_nat (length z))) ->
  length hdr < k < length (hdr ++ z) ->
  exists r, h1_read (N.of_nat (length hdr)) fr (firstn k (hdr ++ z)) = BodyRead r /\
            gz_result gunzip r = None.
Proof. exact gzip_truncation_detected_thm. Qed.
Print Assumptions C03_gzip_truncation_detected.

(* ===================== downloads (the body saved to an output) =====================
   closer = None: a plain io.Writer; Some close_failed: an io.Closer (a file) and whether its
   Close fails.  A failed body copy fails the download whatever the output is and whatever
   its Close returns; every cut of a Content-Length / chunked response is a failed download. *)
Theorem C03_download_copy_error_stands : forall closer, download_failed true closer = true.
Proof. exact copy_error_stands_thm. Qed.
Print Assumptions C03_download_copy_error_stands.

Theorem C03_h1_download_cut_fails : forall hdr fr W body tb k closer,
  framed fr W body tb -> k < length (hdr ++ W) ->
  h1_download (N.of_nat (length hdr)) fr (firstn k (hdr ++ W)) closer = None.
Proof. exact h1_download_cut_fails_thm. Qed.
Print Assumptions C03_h1_download_cut_fails.

Example C03_download_overwritten_refuted :
  download_failed_overwritten true (Some false) = false /\ download_failed true (Some false) = true /\
  download_failed_overwritten true None = true.
Proof. exact overwritten_refuted. Qed.

(* ===================== reading the body through the Response more than once =====================
   State carried by the Response between calls (r.Err, r.body): any number of
   ToBytes/ToString calls on a fresh Response all report what the first one found - in
   particular a body read that failed is never, later, the fragment with a nil error. *)
Theorem C03_reads_sticky : forall under n,
  reads to_bytes under n rs_init = repeat (first_result under) n.
Proof. exact reads_sticky_thm. Qed.
Print Assumptions C03_reads_sticky.

Theorem C03_failed_read_stays_failed : forall d n r,
  In r (reads to_bytes (d, false) n rs_init) -> r = None.
Proof. exact failed_read_stays_failed_thm. Qed.
Print Assumptions C03_failed_read_stays_failed.

Example C03_cache_first_refuted :
  reads to_bytes_cache_first (bs "hello", false) 3 rs_init = [None; Some (bs "hello"); Some (bs "hello")] /\
  reads to_bytes (bs "hello", false) 3 rs_init = [None; None; None].
Proof. exact cache_first_refuted. Qed.

(* ===================== several Content-Length lines in one response head =====================
   A line whose value differs from the first one - anywhere, the last line included - makes
   the call fail; agreeing lines are the one Content-Length framing (so the theorems above
   apply to it). *)
Theorem C03_cl_lines_contradiction_refused : forall hlen v rest x wire,
  In x rest -> x <> v -> h1_read_cl_lines hlen (v :: rest) wire = CallError.
Proof. exact cl_lines_contradiction_refused_thm. Qed.
Print Assumptions C03_cl_lines_contradiction_refused.

Theorem C03_cl_lines_agreeing : forall hlen v rest wire,
  Forall (eq v) rest -> h1_read_cl_lines hlen (v :: rest) wire = h1_read hlen (FrCL v) wire.
Proof. exact cl_lines_agreeing_thm. Qed.
Print Assumptions C03_cl_lines_agreeing.

Example C03_skip_last_refuted :
  cl_lines_agree_skip_last [5%N; 11%N] = true /\ cl_lines_agree [5%N; 11%N] = false /\
  cl_lines_agree_skip_last [5%N; 11%N; 5%N] = false.
Proof. exact skip_last_refuted. Qed.

(* ===================== HTTP/1.1 over TLS: the TCP stream cut at a point of the record layer =====================
   recs: ANY way of cutting the response (header block + framed body) into TLS records;
   [whole] records arrived completely.  If the TCP stream ends INSIDE the next record
   (crypto/tls: io.ErrUnexpectedEOF) the exchange is an error under every framing - the
   close-delimited one included - after a prefix of the body. *)
Theorem C03_tls_midrecord_detected : forall hdr fr W body tb recs whole,
  (framed fr W body tb \/ (fr = FrClose /\ W = body)) ->
  concat recs = hdr ++ W -> whole < length recs -> nth whole recs [] <> [] ->
  match h1_read_tls (N.of_nat (length hdr)) fr recs whole true with
  | CallError => length (tls_arrived recs whole) < length hdr
  | BodyRead r => length hdr <= length (tls_arrived recs whole) /\
                  truncation_err (rd_err r) /\ exists m, rd_data r = firstn m body
  end.
Proof. exact tls_midrecord_detected_thm. Qed.
Print Assumptions C03_tls_midrecord_detected.

(* ending BETWEEN two records (io.EOF, no close_notify needed) it is exactly the plain-TCP cut
   at that plaintext offset: the theorems above apply, close-delimited framing keeps its limit *)
Theorem C03_tls_boundary_is_plain_cut : forall hlen fr recs whole,
  h1_read_tls hlen fr recs whole false =
  h1_read hlen fr (firstn (length (tls_arrived recs whole)) (concat recs)).
Proof. exact tls_boundary_is_plain_cut_thm. Qed.
Print Assumptions C03_tls_boundary_is_plain_cut.

(* refuted: io.ErrUnexpectedEOF of a TLS connection rewritten to io.EOF *)
Example C03_tls_rewritten_refuted :
  let hdr := bs "HTTP/1.1 200 OK" ++ crlfcrlf in
  let recs := [hdr; bs "hello "; bs "world"] in
  h1_read_tls_rewritten (N.of_nat (length hdr)) FrClose recs 2 true =
    BodyRead (mkRd (bs "hello ") Clean [] true []) /\
  h1_read_tls (N.of_nat (length hdr)) FrClose recs 2 true =
    BodyRead (mkRd (bs "hello ") UnexpectedEOF [] false []).
Proof. exact tls_rewritten_refuted. Qed.

(* ===================== HTTP/2 (transportResponseBody over the stream's frame events) =====================
   h2_sent = payload of the stream's DATA frames up to its terminal event (padding is no part of
   it); h2_ending = END_STREAM (on DATA or trailers) / RST_STREAM / GOAWAY+close / connection end /
   still open.  All statements are over ALL event lists. *)

(* success iff the stream ended with END_STREAM and the DATA total equals the declared length
   (if any) - and then the caller has exactly the DATA sent *)
Theorem C03_h2_clean_iff : forall cl evs d,
  h2_read cl false evs = (d, H2Clean) <->
  (h2_ending evs = E2EndStream /\ d = h2_sent evs /\ (cl = None \/ cl = Some (lenN (h2_sent evs)))).
Proof. exact h2_clean_iff_thm. Qed.
Print Assumptions C03_h2_clean_iff.

(* sum(DATA) > Content-Length: exactly the declared bytes, then an error - whatever follows *)
Theorem C03_h2_too_much_detected : forall n evs, (n < lenN (h2_sent evs))%N ->
  h2_read (Some n) false evs = (firstn (N.to_nat n) (h2_sent evs), H2TooMuch).
Proof. exact h2_too_much_thm. Qed.
Print Assumptions C03_h2_too_much_detected.

(* declared bytes still owed when the stream ends - END_STREAM, RST_STREAM, GOAWAY, connection
   end, nothing yet - is never a clean end; after END_STREAM it is io.ErrUnexpectedEOF *)
Theorem C03_h2_too_little_detected : forall n evs, (lenN (h2_sent evs) < n)%N ->
  exists e, h2_read (Some n) false evs = (h2_sent evs, e) /\ e <> H2Clean /\
    (h2_ending evs = E2EndStream -> e = H2UnexpectedEOF).
Proof. exact h2_too_little_thm. Qed.
Print Assumptions C03_h2_too_little_detected.

(* RST_STREAM / GOAWAY / connection end (at a frame boundary or inside a frame) before
   END_STREAM: an error, with or without a declared length *)
Theorem C03_h2_abnormal_end_is_error : forall cl evs,
  h2_ending evs = E2Rst \/ h2_ending evs = E2GoAway \/ h2_ending evs = E2ConnEnd ->
  snd (h2_read cl false evs) <> H2Clean /\ snd (h2_read cl false evs) <> H2Pending.
Proof. exact h2_abnormal_end_thm. Qed.
Print Assumptions C03_h2_abnormal_end_is_error.

(* nothing padded, nothing spliced, never more than declared *)
Theorem C03_h2_delivered_is_prefix : forall cl evs,
  exists m, fst (h2_read cl false evs) = firstn m (h2_sent evs) /\
            (forall n, cl = Some n -> (lenN (fst (h2_read cl false evs)) <= n)%N).
Proof. exact h2_delivered_prefix_thm. Qed.
Print Assumptions C03_h2_delivered_is_prefix.

(* END_STREAM already on HEADERS with a positive declared length *)
Theorem C03_h2_headers_end : forall cl evs,
  h2_read cl true evs =
  ([], match cl with Some n => if (0 <? n)%N then H2UnexpectedEOF else H2Clean | None => H2Clean end).
Proof. exact h2_headers_end_thm. Qed.
Print Assumptions C03_h2_headers_end.

(* the connection the peer ended is not the one the next request uses *)
Theorem C03_h2_dead_conn_not_reused : forall evs,
  (h2_ending evs = E2GoAway \/ h2_ending evs = E2ConnEnd -> h2_conn_usable evs = false) /\
  (h2_ending evs = E2EndStream -> h2_conn_usable evs = true).
Proof. exact h2_conn_usable_thm. Qed.
Print Assumptions C03_h2_dead_conn_not_reused.

(* ===================== HTTP/2, connection bytes (every cut offset) =====================
   fs ++ [last]: any sequence of DATA frames as the Framer writes them (any payloads, any
   padding; only the last one carries END_STREAM), W = their bytes on the connection, each frame
   within the reader's frame-size limit.  h2_wire_events parses whatever part of W arrived with
   Model/H2Frame.v read_frames (C05's model of Framer.ReadFrame) and keeps stream sid's events.
   For EVERY cut offset k < length W (frame boundary, inside a frame header, inside a payload or
   its padding): the stream ends in "connection ended", reading the body is an error for every
   declared length and for none, and what was delivered is a prefix of the body. *)
Theorem C03_h2_every_cut_detected : forall sid maxr fs last W k cl,
  (0 < sid < 2147483648)%N -> StreamWireH2Proofs.rendered sid maxr (fs ++ [last]) W ->
  Forall (fun f => StreamWireH2Proofs.d_es f = false) fs -> k < length W ->
  let evs := h2_wire_events sid maxr (firstn k W) in
  h2_ending evs = E2ConnEnd /\
  snd (h2_read cl false evs) <> H2Clean /\ snd (h2_read cl false evs) <> H2Pending /\
  exists m, fst (h2_read cl false evs) = firstn m (StreamWireH2Proofs.h2_body (fs ++ [last])).
Proof. exact StreamWireH2Proofs.h2_wire_truncation_detected_thm. Qed.
Print Assumptions C03_h2_every_cut_detected.

Theorem C03_h2_complete_exact : forall sid maxr fs last W cl,
  (0 < sid < 2147483648)%N -> StreamWireH2Proofs.rendered sid maxr (fs ++ [last]) W ->
  Forall (fun f => StreamWireH2Proofs.d_es f = false) fs -> StreamWireH2Proofs.d_es last = true ->
  cl = None \/ cl = Some (lenN (StreamWireH2Proofs.h2_body (fs ++ [last]))) ->
  h2_read cl false (h2_wire_events sid maxr W) = (StreamWireH2Proofs.h2_body (fs ++ [last]), H2Clean).
Proof. exact StreamWireH2Proofs.h2_wire_complete_thm. Qed.
Print Assumptions C03_h2_complete_exact.

(* non-vacuity: two concrete frames (the second padded, END_STREAM) satisfy `rendered`; the
   whole stream reads back, cuts inside the last frame's padding / at the frame boundary /
   inside the first frame header are errors *)
Definition wbytes (r : H2Frame.wres) : bytes := match r with H2Frame.WOk b => b | H2Frame.WErr _ => [] end.
Example C03_h2_wire_nonvacuous :
  let f1 := StreamWireH2Proofs.mkD false (bs "hel") None in
  let f2 := StreamWireH2Proofs.mkD true (bs "lo") (Some [x00; x00]) in
  let W := wbytes (H2Frame.run_wcall (StreamWireH2Proofs.d_call 1 f1)) ++
           wbytes (H2Frame.run_wcall (StreamWireH2Proofs.d_call 1 f2)) ++ [] in
  StreamWireH2Proofs.rendered 1 16384 [f1; f2] W /\ length W = 26 /\
  h2_read (Some 5%N) false (h2_wire_events 1 16384 W) = (bs "hello", H2Clean) /\
  h2_read (Some 5%N) false (h2_wire_events 1 16384 (firstn 25 W)) = (bs "hel", H2UnexpectedEOF) /\
  h2_read None false (h2_wire_events 1 16384 (firstn 12 W)) = (bs "hel", H2UnexpectedEOF) /\
  h2_read None false (h2_wire_events 1 16384 (firstn 5 W)) = ([], H2UnexpectedEOF).
Proof.
  cbv zeta. split; [|vm_compute; repeat split].
  apply StreamWireH2Proofs.R_cons; [vm_compute; reflexivity|vm_compute; discriminate|].
  apply StreamWireH2Proofs.R_cons; [vm_compute; reflexivity|vm_compute; discriminate|].
  apply StreamWireH2Proofs.R_nil.
Qed.

(* ===================== HTTP/3, frame events (body.Read over stream.Read) ===================== *)
(* success iff FIN, every DATA frame whole, DATA total = declared length (if any) *)
Theorem C03_h3_clean_iff : forall evs rem d, h3_wf evs ->
  h3_read true rem evs = (d, H3Clean) <->
  (h3_ending evs = E3Fin /\ h3_frames_whole evs = true /\ d = h3_sent evs /\
   (rem = None \/ rem = Some (lenN (h3_sent evs)))).
Proof. exact h3_clean_iff_thm. Qed.
Print Assumptions C03_h3_clean_iff.

(* too much data - inside a frame or in a frame of its own behind the declared length *)
Theorem C03_h3_surplus_detected : forall strict evs k, h3_wf evs -> h3_frames_whole evs = true ->
  (k < lenN (h3_sent evs))%N ->
  h3_read strict (Some k) evs = (firstn (N.to_nat k) (h3_sent evs), H3TooMuch).
Proof. exact h3_surplus_detected_thm. Qed.
Print Assumptions C03_h3_surplus_detected.

Theorem C03_h3_reset_or_close_is_error : forall evs rem, h3_wf evs ->
  h3_ending evs = E3Reset \/ h3_ending evs = E3ConnClose ->
  snd (h3_read true rem evs) <> H3Clean.
Proof. exact h3_abnormal_end_thm. Qed.
Print Assumptions C03_h3_reset_or_close_is_error.

Theorem C03_h3_delivered_is_prefix : forall strict evs rem, h3_wf evs ->
  exists m, fst (h3_read strict rem evs) = firstn m (h3_sent evs) /\
            (forall k, rem = Some k -> (lenN (fst (h3_read strict rem evs)) <= k)%N).
Proof. exact h3_delivered_prefix_thm. Qed.
Print Assumptions C03_h3_delivered_is_prefix.

(* the pinned code (strict = false) reported a FIN before the declared length as a clean end *)
Example C03_h3_pinned_refuted :
  h3_read false (Some 5%N) [H3Data 2 (bs "ab"); H3Fin] = (bs "ab", H3Clean) /\
  h3_read true (Some 5%N) [H3Data 2 (bs "ab"); H3Fin] = (bs "ab", H3UnexpectedEOF).
Proof. split; reflexivity. Qed.

(* ===================== HTTP/3, stream bytes (every cut offset) =====================
   fs: any sequence of DATA frames, each with any payload and any of the four varint widths for
   its type and length; h3_render fs = the bytes on the stream behind the response HEADERS.
   For EVERY cut offset k and every way the stream can end (FIN, RESET_STREAM,
   CONNECTION_CLOSE) and every declared length: the caller gets a prefix of the body, never
   more than declared, and the result is clean only if the stream ended by FIN exactly between
   two frames, the caller got exactly the payload of the frames before the cut, and that is
   all that was declared. *)
Theorem C03_h3_every_cut : forall fs cl k e, Forall df_wf fs -> k <= length (h3_render fs) ->
  exists d r, h3_wire_read true cl (firstn k (h3_render fs)) e = (d, r) /\
    (exists m, d = firstn m (h3_body fs)) /\
    (forall n, cl = Some n -> (lenN d <= n)%N) /\
    (r = W3 H3Clean -> e = EndFin /\ h3_boundary fs k d /\ (cl = None \/ cl = Some (lenN d))).
Proof. exact h3_wire_cut_thm. Qed.
Print Assumptions C03_h3_every_cut.

(* with the length declared: every cut strictly inside the message, and every ending other
   than FIN, is an error after a prefix of the body *)
Theorem C03_h3_truncation_detected : forall fs k e, Forall df_wf fs ->
  (forall f, In f fs -> df_p f <> []) ->
  k <= length (h3_render fs) ->
  (k < length (h3_render fs) \/ e <> EndFin) ->
  exists d r, h3_wire_read true (Some (lenN (h3_body fs))) (firstn k (h3_render fs)) e = (d, r) /\
    r <> W3 H3Clean /\ exists m, d = firstn m (h3_body fs).
Proof. exact h3_wire_truncation_detected_thm. Qed.
Print Assumptions C03_h3_truncation_detected.

(* the complete message reads back exactly (the statements above are not vacuous) *)
Theorem C03_h3_complete_exact : forall fs cl, Forall df_wf fs ->
  cl = None \/ cl = Some (lenN (h3_body fs)) ->
  h3_wire_read true cl (h3_render fs) EndFin = (h3_body fs, W3 H3Clean).
Proof. exact h3_wire_complete_thm. Qed.
Print Assumptions C03_h3_complete_exact.

(* DATA frames followed by the trailer section (a HEADERS frame, any varint widths, non-empty
   field section): the stream ending ANYWHERE inside that frame - inside its type, inside its
   length, right behind its header before the first byte of the field section, inside the
   field section - delivers the whole body and then an error, however the stream ends and
   whether or not the length was declared *)
Theorem C03_h3_trailer_cut_detected : forall fs lt ll tp cl j e, Forall df_wf fs -> tr_wf lt ll tp ->
  cl = None \/ cl = Some (lenN (h3_body fs)) ->
  0 < j < length (tr_render lt ll tp) ->
  h3_wire_read true cl (h3_render fs ++ firstn j (tr_render lt ll tp)) e =
    (h3_body fs, W3 (h3_end_inside true e)) /\
  h3_end_inside true e <> H3Clean.
Proof. exact h3_trailer_cut_thm. Qed.
Print Assumptions C03_h3_trailer_cut_detected.

Theorem C03_h3_trailer_complete : forall fs lt ll tp cl, Forall df_wf fs -> tr_wf lt ll tp ->
  cl = None \/ cl = Some (lenN (h3_body fs)) ->
  h3_wire_read true cl (h3_render fs ++ tr_render lt ll tp) EndFin = (h3_body fs, W3 H3Clean).
Proof. exact h3_trailer_complete_thm. Qed.
Print Assumptions C03_h3_trailer_complete.

(* on whole frames the byte-level reader is the event-level reader *)
Theorem C03_h3_wire_refines_events : forall fs strict cl e, Forall df_wf fs ->
  h3_wire_read strict cl (h3_render fs) e =
  (fst (h3_read strict cl (h3_events fs ++ [h3_term e])),
   W3 (snd (h3_read strict cl (h3_events fs ++ [h3_term e])))).
Proof. exact h3_wire_refines_events_thm. Qed.
Print Assumptions C03_h3_wire_refines_events.

(* ===================== interim (1xx) header blocks in front of the final one =====================
   An exchange is the list of header blocks the peer sent - (status, declared Content-Length)
   each - and then the body.  Up to five non-terminal 1xx blocks, declaring whatever length
   they like, are invisible: the body's length accounting is the final block's (state of an
   earlier header block is not carried into the body). *)
Theorem C03_h3_interims_invisible : forall ints fin wire e,
  Forall (fun b => is_interim b = true) ints -> is_interim fin = false -> length ints <= max_1xx ->
  h3_exchange (ints ++ [fin]) wire e = Some (h3_wire_read true (accounting_cl fin) wire e).
Proof. exact h3_interims_invisible_thm. Qed.
Print Assumptions C03_h3_interims_invisible.

Theorem C03_h2_interims_invisible : forall ints fin hdr_end evs,
  Forall (fun b => is_interim b = true) ints -> is_interim fin = false -> length ints <= max_1xx ->
  h2_exchange (ints ++ [fin]) hdr_end evs = Some (h2_read (accounting_cl fin) hdr_end evs).
Proof. exact h2_interims_invisible_thm. Qed.
Print Assumptions C03_h2_interims_invisible.

(* the stream ending behind the interim blocks, or a sixth interim block: the call fails *)
Theorem C03_no_final_block_fails : forall ints rest wire e hdr_end evs,
  Forall (fun b => is_interim b = true) ints ->
  (length ints <= max_1xx -> h3_exchange ints wire e = None /\ h2_exchange ints hdr_end evs = None) /\
  (max_1xx < length ints -> h3_exchange (ints ++ rest) wire e = None /\
                            h2_exchange (ints ++ rest) hdr_end evs = None).
Proof. exact no_final_block_fails_thm. Qed.
Print Assumptions C03_no_final_block_fails.

(* the every-cut theorem with interim blocks in front *)
Theorem C03_h3_every_cut_with_interims : forall ints cl fs k e,
  Forall (fun b => is_interim b = true) ints -> length ints <= max_1xx ->
  Forall df_wf fs -> k <= length (h3_render fs) ->
  exists d r, h3_exchange (ints ++ [mkHb 200 cl]) (firstn k (h3_render fs)) e = Some (d, r) /\
    (exists m, d = firstn m (h3_body fs)) /\
    (forall n, cl = Some n -> (lenN d <= n)%N) /\
    (r = W3 H3Clean -> e = EndFin /\ h3_boundary fs k d /\ (cl = None \/ cl = Some (lenN d))).
Proof. exact h3_every_cut_with_interims_thm. Qed.
Print Assumptions C03_h3_every_cut_with_interims.

(* refuted: the accounting carried over from the first header block (103 without a length,
   final block declaring 5, 2 bytes then FIN: clean there, io.ErrUnexpectedEOF in the model
   of the code) *)
Example C03_carried_accounting_refuted :
  let blocks := [mkHb 103 None; mkHb 200 (Some 5%N)] in
  let wire := [x00; x02; "a"%byte; "b"%byte] in
  h3_exchange_carried blocks wire EndFin = Some (bs "ab", W3 H3Clean) /\
  h3_exchange blocks wire EndFin = Some (bs "ab", W3 H3UnexpectedEOF).
Proof. exact carried_accounting_refuted. Qed.

(* ===================== a content-coding on top of the framing =====================
   For EVERY decoder [dec]: the decoded body is a success only if the framing below ended
   cleanly and the decoder accepted everything the framing delivered - the decoder's own end
   marker is not the end of the message. *)
Theorem C03_coded_success_needs_clean : forall (dec : bytes -> option bytes) (E : Type)
  (clean : E -> bool) (r : bytes * E) p,
  coded_read dec clean r = Some p -> clean (snd r) = true /\ dec (fst r) = Some p.
Proof. exact coded_success_needs_clean_thm. Qed.
Print Assumptions C03_coded_success_needs_clean.

Theorem C03_h2_coded_success : forall dec cl evs p,
  coded_read dec h2_clean (h2_read cl false evs) = Some p ->
  h2_ending evs = E2EndStream /\ (cl = None \/ cl = Some (lenN (h2_sent evs))) /\
  dec (h2_sent evs) = Some p.
Proof. exact h2_coded_success_thm. Qed.
Print Assumptions C03_h2_coded_success.

Theorem C03_h3_coded_success : forall dec fs cl k e p, Forall df_wf fs -> k <= length (h3_render fs) ->
  coded_read dec h3w_clean (h3_wire_read true cl (firstn k (h3_render fs)) e) = Some p ->
  e = EndFin /\ exists d, h3_boundary fs k d /\ dec d = Some p /\ (cl = None \/ cl = Some (lenN d)).
Proof. exact h3_coded_success_thm. Qed.
Print Assumptions C03_h3_coded_success.

Theorem C03_h1_coded_success : forall dec fr s p,
  coded_read dec is_clean (rd_data (read_body fr s), rd_err (read_body fr s)) = Some p ->
  rd_err (read_body fr s) = Clean /\ dec (rd_data (read_body fr s)) = Some p.
Proof. exact h1_coded_success_thm. Qed.
Print Assumptions C03_h1_coded_success.

(* non-vacuity for HTTP/2 and HTTP/3: concrete streams *)
Example C03_streams_nonvacuous :
  h2_read (Some 5%N) false [H2Data (bs "hel") false; H2Data (bs "lo") true] = (bs "hello", H2Clean) /\
  h2_read (Some 5%N) false [H2Data (bs "hel") false; H2Rst 0] = (bs "hel", H2StreamErr) /\
  h2_read None false [H2Data (bs "hel") false; H2Rst 0] = (bs "hel", H2StreamErr) /\
  h2_read (Some 2%N) false [H2Data (bs "hel") false; H2Data (bs "lo") true] = (bs "he", H2TooMuch) /\
  (let fs := [mkDF 1 1 (bs "hel"); mkDF 2 4 (bs "lo")] in
   Forall df_wf fs /\ length (h3_render fs) = 13 /\
   h3_wire_read true (Some 5%N) (h3_render fs) EndFin = (bs "hello", W3 H3Clean) /\
   h3_wire_read true (Some 5%N) (firstn 5 (h3_render fs)) EndFin = (bs "hel", W3 H3UnexpectedEOF) /\
   h3_wire_read true (Some 5%N) (firstn 6 (h3_render fs)) EndFin = (bs "hel", W3 H3UnexpectedEOF) /\
   h3_wire_read true None (firstn 5 (h3_render fs)) EndFin = (bs "hel", W3 H3Clean) /\
   h3_wire_read true (Some 4%N) (h3_render fs) EndFin = (bs "hell", W3 H3TooMuch) /\
   h3_wire_read true (Some 3%N) (h3_render fs) EndFin = (bs "hel", W3 H3TooMuch)).
Proof.
  repeat split; try reflexivity.
  repeat (apply Forall_cons || apply Forall_nil); unfold df_wf, vi_lenok; cbn;
    repeat split; try reflexivity; auto 10.
Qed.

(* non-vacuity: a concrete chunked message with extensions, an odd size spelling and a
   trailer meets the well-formedness premises; it reads back exactly, leaving a spliced
   response untouched; a cut inside it is an error *)
Example C03_nonvacuous :
  let cs := [mkChunk (bs "5") (bs ";a=b") (bs "hello"); mkChunk (bs "00B") [] (bs " wide world")] in
  let tb := bs "X-T: v" ++ crlf in
  let W := render_chunked cs (bs "0") (bs ";last") tb in
  wf_chunked cs (bs "0") (bs ";last") tb /\
  read_chunked (W ++ bs "HTTP/1.1 200 OK") = mkRd (bs "hello wide world") Clean (bs "HTTP/1.1 200 OK") false tb /\
  rd_err (read_chunked (firstn 20 W)) = UnexpectedEOF /\
  rd_err (read_chunked (firstn (length W - 1) W)) = TrailerTooLong.
Proof.
  cbv zeta. split; [|vm_compute; repeat split].
  split.
  - repeat constructor; try (vm_compute; reflexivity); discriminate.
  - repeat split; vm_compute; reflexivity.
  - right. repeat split; try (vm_compute; reflexivity); vm_compute; repeat constructor.
Qed.
